#!/usr/bin/env python3
"""tools/harmless.py [--lanes N]: applies every property-preserving rewrite kept under seeded/harmless/ to a scratch worktree
and runs the quick checks of the properties it is near; any VIOLATION is a false alarm.  Prints one line per (rewrite, check)."""
import json, os, subprocess, sys, time, queue
from concurrent.futures import ThreadPoolExecutor
ROOT = os.path.dirname(os.path.dirname(os.path.abspath(__file__)))
NEAR = {"A": ["C01", "C02", "C03", "C04", "C05", "C14", "C15", "C16", "C17", "C18"], "B": ["C06", "C07", "C08", "C09", "C10", "C05"], "C": ["C11", "C12", "C06", "C07", "C13"],
        "D": ["C14", "C15", "C16", "C01", "C03"], "E": ["C10", "C13", "C08", "C09"]}
lanes = 4
args = sys.argv[1:]
if args and args[0] == "--lanes":
    lanes = int(args[1]); args = args[2:]
free = queue.Queue()
head = subprocess.check_output(["git", "-C", "/repo", "rev-parse", "HEAD"], text=True).strip()
BASE = int(os.environ.get("LANE_BASE", "0"))
for i in range(BASE, BASE + lanes):
    wt = f"/root/lane{i}"
    if not os.path.exists(wt):
        subprocess.check_call(["git", "-C", "/repo", "worktree", "add", "--detach", wt, "HEAD"], stdout=subprocess.DEVNULL, stderr=subprocess.DEVNULL)
    subprocess.call(["git", "-C", wt, "checkout", "-q", "--detach", head])
    subprocess.call(["git", "-C", wt, "checkout", "--", "."])
    subprocess.call(["git", "-C", wt, "clean", "-fdq"])
    free.put(i)
patches = sorted(f for f in os.listdir(os.path.join(ROOT, "seeded", "harmless")) if f.endswith(".diff") and (not args or f[:-5] in args))


def one(f):
    lane = free.get()
    wt = f"/root/lane{lane}"
    out = []
    try:
        r = subprocess.run(["git", "-C", wt, "apply", "--3way", os.path.join(ROOT, "seeded", "harmless", f)], stdout=subprocess.PIPE, stderr=subprocess.STDOUT, text=True)
        if r.returncode != 0 or subprocess.run(["git", "-C", wt, "diff", "--name-only", "--diff-filter=U"], stdout=subprocess.PIPE, text=True).stdout.strip():
            return [(f, "-", "does not apply to the current HEAD")]
        env = dict(os.environ, VERIF_REPO=wt, VERIF_LANE=str(lane))
        for q in NEAR[f[0]]:
            p = subprocess.run([os.path.join(ROOT, "vcheck"), q, "--tier", "quick"], env=env, cwd=ROOT, stdout=subprocess.PIPE, stderr=subprocess.STDOUT, text=True, timeout=3600)
            lines = [l for l in p.stdout.split("\n") if l.startswith(("VIOLATION", "OK ", "ERROR"))]
            what = ""
            for l in lines:
                if l.startswith("VIOLATION") and "replay=" in l:
                    try:
                        what = str(json.load(open(l.split("replay=")[1].split()[0])).get("what"))[:200]
                    except Exception:
                        pass
            out.append((f, q, "quiet" if p.returncode == 0 else f"exit={p.returncode} {what or (lines[-1] if lines else p.stdout[-200:])[:200]}"))
        return out
    finally:
        subprocess.call(["git", "-C", wt, "reset", "-q", "--hard", head])
        subprocess.call(["git", "-C", wt, "clean", "-fdq"])
        free.put(lane)


with ThreadPoolExecutor(max_workers=lanes) as ex:
    for res in ex.map(one, patches):
        for (f, q, r) in res:
            print(f, q, r, flush=True)
