#!/usr/bin/env python3
"""tools/matrix.py [--lanes N] [ids...]: runs, for every kept seeded change (seeded/<id>/patch.diff), the quick check of the
property it breaks against a scratch worktree of /repo carrying that change (never /repo itself: VERIF_REPO), N at a time,
and rewrites the `detected_by` / `detection` fields of seeded/<id>/meta.json.  Prints one line per change."""
import json, os, subprocess, sys, time
from concurrent.futures import ThreadPoolExecutor
ROOT = os.path.dirname(os.path.dirname(os.path.abspath(__file__)))
args = sys.argv[1:]
lanes = 4
if args and args[0] == "--lanes":
    lanes = int(args[1]); args = args[2:]
ids = args or sorted(d for d in os.listdir(os.path.join(ROOT, "seeded")) if os.path.exists(os.path.join(ROOT, "seeded", d, "patch.diff")))
import queue
free = queue.Queue()
BASE = int(os.environ.get("LANE_BASE", "0"))      # LANE_BASE=6: lanes /root/lane6 ... (while another tool uses lanes 0 ...)
for i in range(BASE, BASE + lanes):
    wt = f"/root/lane{i}"
    if not os.path.exists(wt):
        subprocess.check_call(["git", "-C", "/repo", "worktree", "add", "--detach", wt, "HEAD"], stdout=subprocess.DEVNULL, stderr=subprocess.DEVNULL)
    subprocess.call(["git", "-C", wt, "checkout", "-q", "--detach", subprocess.check_output(["git", "-C", "/repo", "rev-parse", "HEAD"], text=True).strip()])
    subprocess.call(["git", "-C", wt, "checkout", "--", "."])
    free.put(i)


def one(mid):
    lane = free.get()
    wt = f"/root/lane{lane}"
    try:
        meta_p = os.path.join(ROOT, "seeded", mid, "meta.json")
        meta = json.load(open(meta_p))
        pid = meta["property"]
        patch = os.path.join(ROOT, "seeded", mid, "patch.diff")
        r = subprocess.run(["git", "-C", wt, "apply", patch], stdout=subprocess.PIPE, stderr=subprocess.STDOUT, text=True)
        if r.returncode != 0:
            return mid, dict(error="patch does not apply: " + r.stdout[-200:])
        env = dict(os.environ, VERIF_REPO=wt, VERIF_LANE=str(lane))
        detected, runs = [], []
        # the check of the property the change was written against, then (only if that one stays quiet) the checks of
        # neighbouring properties named in meta["also"] - a change to shared code may break a neighbour's property instead
        for q in [pid] + [x for x in meta.get("also", []) if x != pid]:
            t0 = time.time()
            p = subprocess.run([os.path.join(ROOT, "vcheck"), q, "--tier", meta.get("tier", "quick")], env=env, cwd=ROOT, stdout=subprocess.PIPE, stderr=subprocess.STDOUT, text=True, timeout=3600)
            lines = [l for l in p.stdout.split("\n") if l.startswith(("VIOLATION", "OK ", "ERROR", "KNOWN"))]
            what = ""
            for l in lines:
                if l.startswith("VIOLATION") and "replay=" in l:
                    try:
                        what = str(json.load(open(l.split("replay=")[1].split()[0])).get("what"))[:300]
                    except Exception:
                        pass
            runs.append(dict(check=q, exit=p.returncode, line=(lines[-1] if lines else p.stdout[-200:])[:200], what=what, secs=round(time.time() - t0)))
            if p.returncode == 1:
                detected.append(q)
                break
        res = runs[-1]
        meta["detected_by"] = detected
        meta["detection"] = runs
        json.dump(meta, open(meta_p, "w"), indent=1)
        return mid, res
    finally:
        subprocess.call(["git", "-C", wt, "checkout", "--", "."])
        subprocess.call(["git", "-C", wt, "clean", "-fdq"])
        free.put(lane)


with ThreadPoolExecutor(max_workers=lanes) as ex:
    for mid, res in ex.map(one, ids):
        print(mid, json.dumps(res)[:400], flush=True)
