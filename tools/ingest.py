#!/usr/bin/env python3
"""tools/ingest.py <worktree> <pid> <first-number>: confirms each out/k of a sub-agent's scratch worktree (demo passes on the
clean tree, patch applies, the repository's own tests pass with it, demo fails with it) and copies the confirmed ones to
seeded/<pid>-<n>/ with meta.json.  Prints one line per change."""
import json, os, shutil, subprocess, sys
ROOT = os.path.dirname(os.path.dirname(os.path.abspath(__file__)))
ENV = dict(os.environ, CARGO_NET_OFFLINE="true")


def sh(cmd, cwd, timeout=2400):
    # every command runs in its own network namespace (loopback only): the crate's transport test binds the fixed
    # port 3868, so several ingestions can run side by side
    if not cmd.startswith("git "):
        cmd = "unshare -n sh -c " + repr("ip link set lo up && " + cmd)
    p = subprocess.run(cmd, cwd=cwd, shell=True, env=ENV, stdout=subprocess.PIPE, stderr=subprocess.STDOUT, text=True, timeout=timeout)
    return p.returncode, p.stdout


wt, pid, n = sys.argv[1], sys.argv[2], int(sys.argv[3])
only = sys.argv[4] if len(sys.argv) > 4 else None
for k in sorted(os.listdir(os.path.join(wt, "out"))):
    src = os.path.join(wt, "out", k)
    if not os.path.exists(os.path.join(src, "patch.diff")) or not os.path.exists(os.path.join(src, "run.sh")) or (only and k != only):
        continue
    sh("git checkout -- . && git clean -fdq -e out -e TASK.md -e target", wt)
    r = {}
    r["demo_clean"], _ = sh(f"bash out/{k}/run.sh", wt)
    r["apply"], _ = sh(f"git apply out/{k}/patch.diff", wt)
    rc, out = sh("cargo test --offline 2>&1 | grep -E 'test result|FAILED|^error' ", wt)
    tests = out.strip().split("\n")
    r["tests_ok"] = any("34 passed" in l for l in tests) and not any("FAILED" in l or l.startswith("error") for l in tests)
    r["demo_patched"], _ = sh(f"bash out/{k}/run.sh", wt)
    sh("git checkout -- . && git clean -fdq -e out -e TASK.md -e target", wt)
    ok = r["demo_clean"] == 0 and r["apply"] == 0 and r["tests_ok"] and r["demo_patched"] != 0
    mid = f"{pid}-{n}"
    if ok:
        dst = os.path.join(ROOT, "seeded", mid)
        os.makedirs(dst, exist_ok=True)
        for f in os.listdir(src):
            p = os.path.join(src, f)
            if os.path.isdir(p):
                if f == "pki":
                    shutil.copytree(p, os.path.join(dst, f), dirs_exist_ok=True)
                continue
            if f.endswith(".log") or os.path.getsize(p) > 300000:
                continue
            shutil.copy(p, os.path.join(dst, f))
        needs = open(os.path.join(src, "needs.txt")).read().strip()[:400] if os.path.exists(os.path.join(src, "needs.txt")) else "see README.md"
        json.dump(dict(id=mid, property=pid, needs=needs, detected_by=[],
                       confirmed="demo exit 0 on clean HEAD, patch applies, `cargo test --offline` 34+1 pass with the patch, demo exits non-zero with the patch (tools/ingest.py, run in the sub-agent's scratch worktree)",
                       ran=f"tools/ingest.py {wt} {pid} ...; tools/matrix.py"), open(os.path.join(dst, "meta.json"), "w"), indent=1)
        n += 1
    print(mid if ok else f"{pid}-out{k}", "confirmed" if ok else "NOT CONFIRMED", json.dumps(r), flush=True)
