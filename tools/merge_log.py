#!/usr/bin/env python3
"""tools/merge_log.py <matrix log>...: the matrix is usually run from a snapshot of /verif (so that /verif can be edited
meanwhile); this copies the detection results of such a run (one line `<id> <json>` per change) into seeded/<id>/meta.json."""
import json, os, sys
ROOT = os.path.dirname(os.path.dirname(os.path.abspath(__file__)))
for log in sys.argv[1:]:
    for l in open(log):
        mid, _, js = l.strip().partition(" ")
        p = os.path.join(ROOT, "seeded", mid, "meta.json")
        if not js.startswith("{") or not os.path.exists(p):
            continue
        try:
            res = json.loads(js)
        except Exception:
            # the log line is cut at 400 characters: recover the fields that matter
            import re
            res = dict(check=(re.search(r'"check": "(C\d+)"', js) or [None, "?"])[1], exit=int((re.search(r'"exit": (\d+)', js) or [None, "0"])[1]),
                       line=(re.search(r'"line": "([^"]*)"', js) or [None, ""])[1], what=(re.search(r'"what": "([^"]*)', js) or [None, ""])[1])
        if "error" in res:
            print(mid, "skipped:", res["error"][:80]); continue
        m = json.load(open(p))
        m["detected_by"] = [res["check"]] if res.get("exit") == 1 else []
        m["detection"] = [res]
        json.dump(m, open(p, "w"), indent=1)
        print(mid, m["detected_by"])
