#!/usr/bin/env python3
"""Confirming and scoring seeded changes.
  mutant.py verify <worktree> <k>          in the sub-agent's scratch worktree: demo passes on clean HEAD, the patch applies,
                                           the repository's own tests pass with it, the demo fails with it
  mutant.py detect <patch.diff> <pid>...   apply to /repo, run ./vcheck <pid> --tier quick for each, undo straight afterwards
  mutant.py keep <worktree> <k> <id> <pid> copy into /verif/seeded/<id>/ with meta.json"""
import json, os, subprocess, sys, shutil, time

ENV = dict(os.environ, CARGO_NET_OFFLINE="true")


def sh(cmd, cwd=None, timeout=1800):
    p = subprocess.run(cmd, cwd=cwd, shell=True, env=ENV, stdout=subprocess.PIPE, stderr=subprocess.STDOUT, text=True, timeout=timeout)
    return p.returncode, p.stdout


def verify(wt, k):
    d = os.path.join(wt, "out", str(k))
    res = {}
    sh("git checkout -- . ", cwd=wt)
    rc, out = sh(f"bash out/{k}/run.sh", cwd=wt)
    res["demo_clean_exit"] = rc
    rc, out = sh(f"git apply out/{k}/patch.diff", cwd=wt)
    res["apply"] = rc
    rc, out = sh("cargo test --offline 2>&1 | grep -E 'test result|FAILED|error' ", cwd=wt)
    res["tests"] = out.strip().split("\n")
    rc, out = sh(f"bash out/{k}/run.sh", cwd=wt)
    res["demo_patched_exit"] = rc
    sh("git checkout -- . && git clean -fdq -e out -e TASK.md -e target", cwd=wt)
    res["confirmed"] = (res["demo_clean_exit"] == 0 and res["apply"] == 0 and res["demo_patched_exit"] != 0
                        and all("FAILED" not in l and "error" not in l for l in res["tests"]) and any("34 passed" in l for l in res["tests"]))
    print(json.dumps(res, indent=1))
    return res


def detect(patch, pids):
    rc, out = sh(f"git -C /repo apply {patch}")
    if rc != 0:
        print("APPLY FAILED", out)
        return {}
    res = {}
    try:
        for pid in pids:
            t0 = time.time()
            rc, out = sh(f"./vcheck {pid} --tier quick", cwd=os.path.dirname(os.path.dirname(os.path.abspath(__file__))), timeout=3000)
            lines = [l for l in out.split("\n") if l.startswith(("VIOLATION", "OK ", "ERROR", "KNOWN"))]
            res[pid] = dict(exit=rc, lines=[l[:300] for l in lines], secs=round(time.time() - t0))
            if rc == 1:
                for l in lines:
                    if l.startswith("VIOLATION") and "replay=" in l:
                        rp = l.split("replay=")[1].split()[0]
                        try:
                            r = json.load(open(rp))
                            res[pid]["what"] = str(r.get("what"))[:300]
                            res[pid]["case"] = str(r.get("case"))[:200]
                        except Exception:
                            pass
    finally:
        sh("git -C /repo checkout -- . && git -C /repo clean -fdq")
    print(json.dumps(res, indent=1))
    return res


def keep(wt, k, mid, pid, needs, detected_by):
    src = os.path.join(wt, "out", str(k))
    dst = os.path.join("/verif/seeded", mid)
    os.makedirs(dst, exist_ok=True)
    for f in os.listdir(src):
        if f.endswith(".log"):
            continue
        shutil.copy(os.path.join(src, f), os.path.join(dst, f))
    meta = dict(id=mid, property=pid, needs=needs, detected_by=detected_by,
                confirmed="demo exit 0 on clean HEAD, patch applies, `cargo test --offline` 34+1 pass with the patch, demo exits non-zero with the patch (tools/mutant.py verify)",
                ran=f"tools/mutant.py verify {wt} {k}; tools/mutant.py detect {dst}/patch.diff ...")
    json.dump(meta, open(os.path.join(dst, "meta.json"), "w"), indent=1)


if __name__ == "__main__":
    a = sys.argv[1:]
    if a[0] == "verify":
        verify(a[1], a[2])
    elif a[0] == "detect":
        detect(a[1], a[2:])
    elif a[0] == "all":
        # mutant.py all <worktree> <pid> [extra pids...]: verify + detect each of out/1..3, print one summary line each
        wt, pid = a[1], a[2]
        summary = {}
        for k in sorted(os.listdir(os.path.join(wt, "out"))):
            if not os.path.exists(os.path.join(wt, "out", k, "patch.diff")):
                continue
            v = verify(wt, k)
            d = detect(os.path.join(wt, "out", k, "patch.diff"), a[2:]) if v["confirmed"] else {}
            summary[k] = dict(confirmed=v["confirmed"], detect={q: (r["exit"], r.get("what", "")[:160]) for q, r in d.items()})
        print("SUMMARY", json.dumps(summary, indent=1))
    elif a[0] == "refactors":
        # mutant.py refactors <worktree> <pid>...: harmless rewrites out/k/patch.diff; every check must stay quiet
        wt = a[1]
        summary = {}
        for k in sorted(os.listdir(os.path.join(wt, "out"))):
            pf = os.path.join(wt, "out", k, "patch.diff")
            if not os.path.exists(pf):
                continue
            d = detect(pf, a[2:])
            summary[k] = {q: (r["exit"], r.get("what", "")[:200], r["lines"][-1:] ) for q, r in d.items()}
        print("SUMMARY", json.dumps(summary, indent=1))
    elif a[0] == "keep":
        keep(a[1], a[2], a[3], a[4], a[5], a[6].split(","))
