"""tools/mk_tasks.py <ids>: creates a scratch worktree /tmp/mut13_<id> of /repo per property with a TASK.md for a fresh sub-agent
(the property text and the list of ideas already used; nothing from /verif)."""
import json, os, subprocess, sys, glob
props = {json.loads(l)['id']: json.loads(l) for l in open('/verif/properties.jsonl')}
ids = sys.argv[1:]
for pid in ids:
    wt = f"/tmp/mut13_{pid}"
    if not os.path.exists(wt):
        subprocess.check_call(["git", "-C", "/repo", "worktree", "add", "--detach", wt, "HEAD"], stdout=subprocess.DEVNULL)
    p = props[pid]
    avoid = []
    for m in sorted(glob.glob(f"/verif/seeded/{pid}-*/meta.json")):
        avoid.append("- " + json.load(open(m))["needs"])
    task = f"""# Task: seed realistic property-breaking changes into this copy of lwlee2608/diameter-rs

You are working in `{wt}`, a scratch git worktree of the Rust crate `diameter` (RFC 6733 Diameter codec,
XML dictionary, tokio TCP/TLS client and server). Work ONLY inside this directory. The sandbox has no
network: always use `cargo ... --offline` (CARGO_NET_OFFLINE=true); all dependencies are already cached.
Do not look at or use anything under /verif or /repo; do not commit anything.

## The property (id {pid}): {p['title']}

Statement: {p['statement']}

Quantifier: {p['quantifier']['text']}

Why the existing tests cannot settle it: {p['why_tests_cant']}

Anchors in the code: {json.dumps(p['anchors'], indent=1)}

## What to produce

Three DIFFERENT changes to the library source (under `src/`, or `dict/`, `Cargo.toml` if really needed), each of which
  1. BREAKS the property above (for some input / schedule / fault point / history),
  2. still compiles, and still passes the crate's existing test suite: `cargo test --offline` must report
     the same 34 unit tests (+1 doc test) passing, unedited,
  3. is REALISTIC: something a maintainer could plausibly write in a refactor, optimisation, feature addition or
     "clean-up" and that would survive a casual code review - not sabotage such as `if x == 12345 {{ corrupt }}`,
  4. breaks the property on inputs / configurations / histories that the UNCHANGED library already accepts and handles
     correctly - not merely on a newly added option, parameter syntax or feature that did not exist before,
  5. needs something SPECIFIC to manifest - a particular interleaving, a crash or fault at a particular point,
     a multi-step sequence of operations, an unusual input, or two cooperating sites that each look fine alone -
     NOT something ordinary use would expose at once.

Earlier rounds already produced changes built on the following ideas. Do NOT repeat them or close variants;
find DIFFERENT mechanisms, code sites and triggers (think about: other functions on the same path, other data
types, boundary values, state carried between calls, interactions between two features, error paths, resource
reuse, ordering of side effects, arithmetic at the edges of the integer types, behaviour only in release or only
in debug builds, laziness/caching, concurrency primitives, cancellation):
{chr(10).join(avoid) if avoid else '- (none)'}

For each change k in 1,2,3 create the directory `out/k/` containing
  * `patch.diff`  - `git diff` of the change against the clean worktree (must apply with `git apply` from the worktree root);
  * a demonstration: a Rust integration test or small program (e.g. `demo.rs`) that FAILS (non-zero exit) with the
    change applied and PASSES (exit 0) without it. It may use the crate's public API and the cargo feature
    `verif-hooks` that the crate already offers (`DiameterServer::verif_serve_stream`, `verif_local_addr`,
    `DiameterClient::verif_attach_stream`, `DiameterClient::verif_tls_domain`) and any dependency already in
    Cargo.lock (tokio with test-util is NOT necessarily enabled: check Cargo.toml). If TLS material is needed create
    it offline with the `openssl` CLI inside `out/k/`;
  * `run.sh` - run from anywhere; it must `cd` to the worktree root itself, copy the demo into place (e.g. into
    `tests/`), run it, remove what it copied, and exit 0 iff the property held (demo passed). It must work both with
    and without the patch applied, and must not leave files behind in `src/` or `tests/`;
  * `README.md` - what the change is, why it is plausible, exactly what is needed for it to manifest,
    what you ran and what you saw with / without the change;
  * `needs.txt` - ONE line (<= 200 characters) saying what the change needs in order to manifest.

Procedure per change: start from a clean tree (`git checkout -- . `), run `out/k/run.sh` -> must exit 0; apply the
patch; `cargo test --offline` -> 34 passed (+ doc test); `out/k/run.sh` -> must exit non-zero; then
`git checkout -- .` again so that the tree is clean before the next change. Leave the worktree CLEAN (no applied
patch, nothing in `tests/`, no new untracked source files) when you finish; only `out/`, `target/`, `TASK.md` may remain.

IMPORTANT: the crate's transport test binds the fixed port 3868, so a `cargo test` failure mentioning an address in use is not caused by your change (another copy is running elsewhere on the machine) - run it as `unshare -n sh -c 'ip link set lo up; cargo test --offline'` to get a private network namespace, and do the same in run.sh if your demo opens sockets.

Keep the demonstrations deterministic (no flaky timing: if timing is needed use generous margins, paused tokio
time if available, or explicit synchronisation). Finish by printing a 10-line summary of the three changes.
"""
    open(os.path.join(wt, "TASK.md"), "w").write(task)
    print(wt)
