#!/usr/bin/env python3
"""Diagnostic (not a check): which lines of /repo/src do the correspondence runs exercise?
  tools/coverage.py [quick|thorough] [Cxx ...]
Builds the harness with `cargo +nightly -C instrument-coverage` into .cache/target-cov, runs the
named checks (default: all) with that binary, merges the profiles and prints, per source file of
/repo/src, the executable lines never reached (test modules excluded)."""
import glob, json, os, re, subprocess, sys, shutil
ROOT = os.path.dirname(os.path.dirname(os.path.abspath(__file__)))
BIN = glob.glob(os.path.expanduser("~/.rustup/toolchains/nightly-x86_64-*/lib/rustlib/*/bin"))[0]
prof = os.path.join(ROOT, ".cache", "prof")
shutil.rmtree(prof, ignore_errors=True)
os.makedirs(prof)
tier = "quick"
args = sys.argv[1:]
if args and args[0] in ("quick", "thorough"):
    tier = args.pop(0)
pids = args or [f"C{i:02d}" for i in range(1, 19)]
env = dict(os.environ, VERIF_COVERAGE="1", LLVM_PROFILE_FILE=os.path.join(prof, "p-%p-%8m.profraw"))
for pid in pids:
    r = subprocess.run([os.path.join(ROOT, "vcheck"), pid, "--tier", tier], env=env, stdout=subprocess.PIPE, stderr=subprocess.DEVNULL, text=True)
    print(pid, r.returncode, r.stdout.strip().split("\n")[-1][:150], flush=True)
raws = glob.glob(os.path.join(prof, "*.profraw"))
lst = os.path.join(prof, "list.txt")
open(lst, "w").write("\n".join(raws))
merged = os.path.join(prof, "all.profdata")
subprocess.check_call([os.path.join(BIN, "llvm-profdata"), "merge", "-sparse", "-f", lst, "-o", merged])
exe = os.path.join(ROOT, ".cache", "target-cov", "debug", "dverif")
out = subprocess.run([os.path.join(BIN, "llvm-cov"), "export", "-format=lcov", "-instr-profile", merged, exe,
                      "--ignore-filename-regex", r"(\.cargo|rustc|harness)"], stdout=subprocess.PIPE, text=True).stdout
cur = None
unc = {}
tot = {}
for line in out.split("\n"):
    if line.startswith("SF:"):
        cur = line[3:]
    elif line.startswith("DA:") and cur and cur.startswith("/repo/src"):
        ln, cnt = line[3:].split(",")[:2]
        tot.setdefault(cur, set()).add(int(ln))
        if int(cnt) == 0:
            unc.setdefault(cur, set()).add(int(ln))
report = {}
for f in sorted(tot):
    src = open(f).read().split("\n")
    # exclude #[cfg(test)] modules (from the marker to end of file)
    cut = next((i + 1 for i, l in enumerate(src) if l.strip() == "#[cfg(test)]"), len(src) + 1)
    t = {l for l in tot[f] if l < cut}
    u = sorted(l for l in unc.get(f, ()) if l < cut)
    report[f] = dict(executable=len(t), uncovered=len(u), lines=u)
    print(f"{f}: {len(t) - len(u)}/{len(t)} lines reached; not reached: {u}")
json.dump(report, open(os.path.join(ROOT, ".cache", "coverage.json"), "w"), indent=1)
