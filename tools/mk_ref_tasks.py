"""tools/mk_ref_tasks.py: scratch worktrees /tmp/ref3_<cluster> with a TASK.md asking a fresh sub-agent for property-PRESERVING rewrites
(used to look for false alarms; nothing from /verif is given to the sub-agent)."""
import json, os, subprocess, sys
props = {json.loads(l)['id']: json.loads(l) for l in open('/verif/properties.jsonl')}
clusters = {"A": ["C01","C02","C03","C04","C05","C17","C18"], "B": ["C06","C07","C08","C09"], "C": ["C11","C12","C13"], "D": ["C14","C15","C16"], "E": ["C10","C13","C08"]}
for name, ids in clusters.items():
    wt = f"/tmp/ref3_{name}"
    if not os.path.exists(wt):
        subprocess.check_call(["git", "-C", "/repo", "worktree", "add", "--detach", wt, "HEAD"], stdout=subprocess.DEVNULL)
    ptxt = "\n\n".join(f"### {i}: {props[i]['title']}\nStatement: {props[i]['statement']}\nQuantifier: {props[i]['quantifier']['text']}\nAnchors: {json.dumps(props[i]['anchors'])}" for i in ids)
    task = f"""# Task: property-PRESERVING rewrites of this copy of lwlee2608/diameter-rs

You are working in `{wt}`, a scratch git worktree of the Rust crate `diameter` (RFC 6733 Diameter codec,
XML dictionary, tokio TCP/TLS client and server). Work ONLY inside this directory. No network: always use
`cargo ... --offline`. Do not look at or use anything under /verif or /repo; do not commit anything.

Somebody maintains an external verification harness that checks the semantic properties below against this
crate through its PUBLIC API (and the three `verif-hooks` feature functions `DiameterServer::verif_serve_stream`,
`DiameterServer::verif_local_addr`, `DiameterClient::verif_attach_stream`, `DiameterClient::verif_tls_domain`). We want to know whether that harness
raises FALSE alarms on harmless changes. Your job is to write harmless changes.

## The properties

{ptxt}

## What to produce

Five DIFFERENT changes to the library source under `src/`, each of which
  1. keeps ALL of the properties above true (and keeps every public item, signature and the verif-hooks functions
     source-compatible: an external crate using the public API must still compile unchanged),
  2. compiles and passes `cargo test --offline` (34 unit tests + 1 doc test, unedited),
  3. is a REAL rewrite a maintainer might do, touching the code the properties are anchored in - not a comment or
     whitespace edit. The harness is known to observe, besides results: after which step of a scripted schedule each response future completes; whether encoding the same message twice, through `encode_to` into different writers (a Vec, a writer taking one octet per call) and through `Codec::encode`, gives the same octets; messages obtained through `Codec::decode`, from readers that start at a non-zero offset, deliver one octet per read, or hold several frames back to back; lookups and getters (`length()`, `avps()`, `get_avp`) interleaved with construction steps; thread-local state carried from one decode to the next; dictionaries dropped, re-created, cloned, extended after they were used; the process-wide `DEFAULT_DICT` being modified by the program; several connections of one client object, `connect()` failing; bursts of sends racing the reader's shutdown; hundreds or thousands of outstanding requests; several answers arriving in one TCP segment; handlers that take seconds or an hour of (virtual, paused-clock) time; frames up to 16 MiB handed to `decode_from` directly (the 1 MiB limit belongs to the stream reader); groups with 10^5 members; octets read from a scripted stream are counted at `Codec::decode`; a trust store file that changes between two `connect()` calls. Aim for variety and for things that could plausibly confuse a checker that is too tightly
     coupled to the present implementation, for example: restructuring loops / recursion into iterators or helper
     functions; changing internal data structures (Vec vs VecDeque/SmallVec-like, BTreeMap vs HashMap + sort, enum
     layout); reading or writing through an intermediate buffer, or in different chunk sizes (fewer/more `write_all`
     calls, one `read_exact` vs. several, BufReader only where it cannot over-read past a frame); changing error
     MESSAGES or which error VARIANT is returned for a rejected input (still an error); raising an internal limit in
     a direction the properties allow (e.g. nesting limit 32 -> 64, still >= 16 and still safe on a 2 MiB stack);
     reordering independent checks; changing log output; changing `Display`/`Debug` text; adding new public helper
     functions; making accepted-but-unspecified behaviour different ONLY where the properties explicitly leave it
     open (say which sentence leaves it open).
  Do NOT make a change whose harmlessness you are unsure of: for each, argue in the README why every property above
  still holds.

For each change k in 1..5 create `out/k/patch.diff` (`git diff` against the clean worktree, must apply with
`git apply` from the worktree root) and `out/k/README.md` (what changed, why it is harmless for each property it is
near, what you ran). Procedure per change: clean tree (`git checkout -- .`), edit, `cargo test --offline` must show
34 passed (+1 doc test; the crate's transport test binds the fixed port 3868 - run it as `unshare -n sh -c 'ip link set lo up; cargo test --offline'` so that parallel runs elsewhere on the machine do not collide), `cargo build --offline --features verif-hooks` must succeed, save the diff, `git checkout -- .`.
Leave the worktree clean at the end (only `out/`, `target/`, `TASK.md` may remain). Finish with a short summary
(one line per change).
"""
    open(os.path.join(wt, "TASK.md"), "w").write(task)
    print(wt)
