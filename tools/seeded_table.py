#!/usr/bin/env python3
"""prints the markdown table of DESIGN.md section 14 from seeded/*/meta.json"""
import json, os, glob
ROOT = os.path.dirname(os.path.dirname(os.path.abspath(__file__)))
rows = []
for p in sorted(glob.glob(os.path.join(ROOT, "seeded", "C*-*", "meta.json"))):
    m = json.load(open(p))
    det = m.get("detected_by") or []
    det = ", ".join(det) if det else ("**not reported** (see the text below the batch tables)" if m.get("not_detectable") else "**not detected**")
    if m.get("tier") == "thorough" and det and "thorough" not in det:
        det += " (thorough tier)"
    needs = m.get("needs", "").replace("|", "/").replace("\n", " ")
    rows.append(f"| {m['id']} | {needs[:230]} | {det} |")
print("| change | what it needs in order to manifest | reported by |")
print("|---|---|---|")
print("\n".join(rows))
