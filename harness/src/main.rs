//! dverif: runs lwlee2608/diameter-rs (path dependency on /repo's working tree, feature
//! verif-hooks) on cases read from stdin, one observation line per case line.
//! Usage: dverif <engine>   with engine in { codec, ... }

mod codec;
mod client;
mod net;
mod proto;
mod stream;

use std::io::{BufRead, Write};

/// A logger that is enabled at every level and formats every record (into nothing): code paths of the library that only
/// run when logging is on - and the formatting of their arguments - are exercised like everything else.
struct Sink;
impl log::Log for Sink {
    fn enabled(&self, _: &log::Metadata) -> bool {
        true
    }
    fn log(&self, r: &log::Record) {
        use std::fmt::Write as _;
        let mut s = String::new();
        let _ = write!(s, "{}", r.args());
        std::hint::black_box(s);
    }
    fn flush(&self) {}
}
static SINK: Sink = Sink;

fn main() {
    let _ = log::set_logger(&SINK);
    log::set_max_level(log::LevelFilter::Trace);
    // keep panic messages off stderr noise: one short line each
    std::panic::set_hook(Box::new(|_| {}));
    let args: Vec<String> = std::env::args().collect();
    let engine = args.get(1).map(|s| s.as_str()).unwrap_or("codec");
    match engine {
        "codec" => {
            let mut st = codec::State {
                dicts: std::collections::HashMap::new(),
            };
            // watchdog: a case that runs longer than VERIF_CASE_TIMEOUT seconds (default 15; six times that for socket / script cases) is a hang; the
            // process exits with status 97 and the orchestrator attributes it to the case it died on
            let limit_ms: u64 = std::env::var("VERIF_CASE_TIMEOUT").ok().and_then(|s| s.parse::<u64>().ok()).unwrap_or(15) * 1000;
            let slow_case = std::sync::Arc::new(std::sync::atomic::AtomicBool::new(false));
            let started = std::sync::Arc::new(std::sync::atomic::AtomicU64::new(0));
            let t0 = std::time::Instant::now();
            {
                let started = std::sync::Arc::clone(&started);
                let slow_case = std::sync::Arc::clone(&slow_case);
                std::thread::spawn(move || loop {
                    std::thread::sleep(std::time::Duration::from_millis(250));
                    let s = started.load(std::sync::atomic::Ordering::SeqCst);
                    let lim = if slow_case.load(std::sync::atomic::Ordering::SeqCst) { limit_ms * 6 } else { limit_ms };
                    if s != 0 && (t0.elapsed().as_millis() as u64).saturating_sub(s) > lim {
                        std::process::exit(97);
                    }
                });
            }
            let stdin = std::io::stdin();
            let stdout = std::io::stdout();
            let mut out = std::io::BufWriter::new(stdout.lock());
            for line in stdin.lock().lines() {
                let line = match line {
                    Ok(l) => l,
                    Err(_) => break,
                };
                let r = if line.is_empty() || line.starts_with('#') {
                    String::new()
                } else {
                    // commands that talk to real sockets or play long scripts get six times the limit of pure codec cases
                    // (so do the commands that do a fixed, large amount of work on several threads - millions of names, thousands of decodes,
                    // hundreds of threads -: seconds on an idle machine, more on a busy one; a busy machine is not a hang)
                    let slow = line.starts_with("NET") || line.starts_with("TLS") || line.starts_with("RECONN") || line.starts_with("CLRST") || line.starts_with("CL ")
                        || line.starts_with("SV") || line.starts_with("SD") || line.starts_with("SE")
                        || line.starts_with("UNKNAMES") || line.starts_with("SWEEPMT") || line.starts_with("NESTMT") || line.starts_with("NAMERACE") || line.starts_with("THREADS")
                        || line.starts_with("GBIG") || line.starts_with("SMALL");
                    slow_case.store(slow, std::sync::atomic::Ordering::SeqCst);
                    // an exhaustive sweep of 2^26 values per line is long by design: not watched
                    let watched = !(line.starts_with("SWEEP32") || line.starts_with("SVBIG"));
                    started.store(if watched { t0.elapsed().as_millis() as u64 + 1 } else { 0 }, std::sync::atomic::Ordering::SeqCst);
                    let r = codec::handle(&mut st, &line);
                    started.store(0, std::sync::atomic::Ordering::SeqCst);
                    r
                };
                let _ = writeln!(out, "{}", r);
                let _ = out.flush();
            }
        }
        e => {
            eprintln!("unknown engine {}", e);
            std::process::exit(2);
        }
    }
}
