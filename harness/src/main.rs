//! dverif: runs lwlee2608/diameter-rs (path dependency on /repo's working tree, feature
//! verif-hooks) on cases read from stdin, one observation line per case line.
//! Usage: dverif <engine>   with engine in { codec, ... }

mod codec;
mod client;
mod net;
mod proto;
mod stream;

use std::io::{BufRead, Write};

fn main() {
    // keep panic messages off stderr noise: one short line each
    std::panic::set_hook(Box::new(|_| {}));
    let args: Vec<String> = std::env::args().collect();
    let engine = args.get(1).map(|s| s.as_str()).unwrap_or("codec");
    match engine {
        "codec" => {
            let mut st = codec::State {
                dicts: std::collections::HashMap::new(),
            };
            let stdin = std::io::stdin();
            let stdout = std::io::stdout();
            let mut out = std::io::BufWriter::new(stdout.lock());
            for line in stdin.lock().lines() {
                let line = match line {
                    Ok(l) => l,
                    Err(_) => break,
                };
                let r = if line.is_empty() || line.starts_with('#') {
                    String::new()
                } else {
                    codec::handle(&mut st, &line)
                };
                let _ = writeln!(out, "{}", r);
                let _ = out.flush();
            }
        }
        e => {
            eprintln!("unknown engine {}", e);
            std::process::exit(2);
        }
    }
}
