//! Engine `net`: the real listener (DiameterServer::listen) and the real client (connect) over
//! loopback TCP, plain and TLS (native-tls / OpenSSL), multi-threaded runtime, real time.
//!
//! TLS <client_tls> <verify> <plain|tls> <match|wrongname|untrusted> <host|ip> <marker>   (C13, one table cell)
//! NET <tls 0|1> <ngood> <nreq> <seed> <k> <fault>*                                        (C10, one scenario)
//! RECONN <overlap|failed>      (C11/C12: one client object, connect() called twice, over real TCP)

use crate::codec::State;
use crate::proto::*;
use diameter::avp::flags::M;
use diameter::avp::*;
use diameter::dictionary::Dictionary;
use diameter::transport::{DiameterClient, DiameterClientConfig, DiameterServer, DiameterServerConfig};
use diameter::{ApplicationId, CommandCode, DiameterMessage};
use std::fmt::Write as _;
use std::io::Cursor;
use std::sync::atomic::{AtomicUsize, Ordering};
use std::sync::{Arc, Mutex};
use std::time::Duration;
use tokio::io::{AsyncReadExt, AsyncWriteExt};
use tokio::net::{TcpListener, TcpStream};

fn tls_dir() -> String {
    std::env::var("VERIF_TLS_DIR").unwrap_or_else(|_| "/verif/tls".into())
}

fn identity(cert: &str) -> PResult<native_tls::Identity> {
    let c = std::fs::read(format!("{}/{}.crt", tls_dir(), cert)).map_err(|e| e.to_string())?;
    let k = std::fs::read(format!("{}/{}.key", tls_dir(), cert)).map_err(|e| e.to_string())?;
    native_tls::Identity::from_pkcs8(&c, &k).map_err(|e| e.to_string())
}

fn session_id(m: &DiameterMessage) -> String {
    m.get_avp(263).and_then(|a| a.get_utf8string()).map(|s| s.value().to_string()).unwrap_or_default()
}

/// the handler used by every scenario: answers with the request's ids, its Session-Id and Result-Code 2001;
/// a request whose Session-Id starts with "PANIC" makes it panic
async fn handler(req: DiameterMessage, dict: Arc<Dictionary>, seen: Arc<Mutex<Vec<String>>>) -> diameter::Result<DiameterMessage> {
    let sid = session_id(&req);
    seen.lock().unwrap().push(sid.clone());
    if sid.starts_with("PANICF") {
        // a panic whose payload is a formatted String (what unwrap(), expect(), assert_eq!, panic!("{}") produce), not a &'static str
        panic!("handler panic requested by the scenario for session {}", sid);
    }
    if sid.starts_with("PANICU") {
        let r: std::result::Result<u32, String> = Err(format!("no such thing: {}", sid));
        let _ = r.unwrap();
    }
    if sid.starts_with("PANIC") {
        panic!("handler panic requested by the scenario");
    }
    if sid.starts_with("VERYSLOW") {
        tokio::time::sleep(Duration::from_millis(5000)).await;
    }
    if sid.starts_with("SLOW") {
        // gives the scenario time to make the peer vanish before its answer is written
        tokio::time::sleep(Duration::from_millis(250)).await;
    }
    let mut res = DiameterMessage::new(req.get_command_code(), req.get_application_id(), 0, req.get_hop_by_hop_id(), req.get_end_to_end_id(), dict);
    res.add_avp(263, None, M, UTF8String::new(&sid).into());
    res.add_avp(268, None, M, Unsigned32::new(2001).into());
    if sid.starts_with("BIG") {
        // a large answer (512 KiB): more than a socket buffer holds
        res.add_avp(25, None, 0, OctetString::new(vec![0x42; 512 * 1024]).into());
    }
    Ok(res)
}

/// NETSLOW <tls>: a peer pipelines three requests whose answers are 512 KiB each, closes its sending direction right away, waits,
/// and only then reads: everything the handler answered must still arrive, complete, before the end of the stream.
pub fn slow_reader(st: &State, t: &mut Toks) -> PResult<String> {
    let dict = st.dicts.get("b").ok_or_else(|| "dict b missing".to_string())?.clone();
    let tls = t.boolean()?;
    let rt = rt();
    let out = rt.block_on(async move {
        let seen = Arc::new(Mutex::new(Vec::new()));
        let addr = start_server(if tls { Some("match") } else { None }, Arc::clone(&dict), Arc::clone(&seen)).await?;
        let mut want = 0usize;
        let mut reqs = Vec::new();
        for k in 0..3u32 {
            let sid = format!("BIG-{}", k);
            reqs.extend_from_slice(&request(&dict, &sid, 900 + k));
            let mut a = DiameterMessage::new(CommandCode::CreditControl, ApplicationId::CreditControl, 0, 900 + k, (900 + k) ^ 0x5555, Arc::clone(&dict));
            a.add_avp(263, None, M, UTF8String::new(&sid).into());
            a.add_avp(268, None, M, Unsigned32::new(2001).into());
            a.add_avp(25, None, 0, OctetString::new(vec![0x42; 512 * 1024]).into());
            want += a.get_length() as usize;
        }
        let mut got = 0usize;
        let end;
        let mut buf = vec![0u8; 65536];
        if tls {
            let c = native_tls::TlsConnector::builder().danger_accept_invalid_certs(true).build().map_err(|e| e.to_string())?;
            let c = tokio_native_tls::TlsConnector::from(c);
            let s = TcpStream::connect(addr).await.map_err(|e| e.to_string())?;
            let mut s = c.connect("localhost", s).await.map_err(|e| e.to_string())?;
            s.write_all(&reqs).await.map_err(|e| e.to_string())?;
            let _ = s.shutdown().await;
            tokio::time::sleep(Duration::from_millis(500)).await;
            end = loop {
                match tokio::time::timeout(Duration::from_secs(5), s.read(&mut buf)).await {
                    Ok(Ok(0)) => break "eof",
                    Ok(Ok(n)) => got += n,
                    Ok(Err(_)) => break "reset",
                    Err(_) => break "timeout",
                }
            };
        } else {
            let mut s = TcpStream::connect(addr).await.map_err(|e| e.to_string())?;
            s.write_all(&reqs).await.map_err(|e| e.to_string())?;
            let _ = s.shutdown().await;
            tokio::time::sleep(Duration::from_millis(500)).await;
            end = loop {
                match tokio::time::timeout(Duration::from_secs(5), s.read(&mut buf)).await {
                    Ok(Ok(0)) => break "eof",
                    Ok(Ok(n)) => got += n,
                    Ok(Err(_)) => break "reset",
                    Err(_) => break "timeout",
                }
            };
        }
        Ok::<String, String>(format!("NETSLOW got={} want={} end={} calls={}", got, want, end, seen.lock().unwrap().len()))
    });
    rt.shutdown_timeout(Duration::from_millis(200));
    out
}

fn request(dict: &Arc<Dictionary>, sid: &str, hop: u32) -> Vec<u8> {
    // every third request carries the T flag ("potentially re-transmitted"): to the library it is a request like any other
    let fl = if hop % 3 == 2 { 0x80 | 0x10 } else { 0x80 };
    let mut m = DiameterMessage::new(CommandCode::CreditControl, ApplicationId::CreditControl, fl, hop, hop ^ 0x5555, Arc::clone(dict));
    m.add_avp(263, None, M, UTF8String::new(sid).into());
    m.add_avp(264, None, M, Identity::new("client.example.com").into());
    // requests carry a Grouped AVP two levels deep, as real Credit-Control requests do (Multiple-Services-Credit-Control
    // { Requested-Service-Unit { CC-Total-Octets } })
    let mut rsu = Grouped::new(vec![], Arc::clone(dict));
    rsu.add_avp(421, None, M, Unsigned64::new(hop as u64).into());
    let mut mscc = Grouped::new(vec![], Arc::clone(dict));
    mscc.add_avp(437, None, M, rsu.into());
    mscc.add_avp(432, None, M, Unsigned32::new(hop).into());
    m.add_avp(456, None, M, mscc.into());
    let mut b = Vec::new();
    m.encode_to(&mut b).expect("encode request");
    b
}

fn expected_answer(dict: &Arc<Dictionary>, sid: &str, hop: u32) -> Vec<u8> {
    let mut res = DiameterMessage::new(CommandCode::CreditControl, ApplicationId::CreditControl, 0, hop, hop ^ 0x5555, Arc::clone(dict));
    res.add_avp(263, None, M, UTF8String::new(sid).into());
    res.add_avp(268, None, M, Unsigned32::new(2001).into());
    let mut b = Vec::new();
    res.encode_to(&mut b).expect("encode answer");
    b
}

async fn start_server(tls: Option<&str>, dict: Arc<Dictionary>, seen: Arc<Mutex<Vec<String>>>) -> PResult<std::net::SocketAddr> {
    start_server_opt(tls, dict, seen, false).await
}

/// `relisten`: listen() is entered, left again (its future is dropped) and entered a second time before any peer connects
async fn start_server_opt(tls: Option<&str>, dict: Arc<Dictionary>, seen: Arc<Mutex<Vec<String>>>, relisten: bool) -> PResult<std::net::SocketAddr> {
    let cfg = DiameterServerConfig { native_tls: match tls { Some(c) => Some(identity(c)?), None => None } };
    let mut server = DiameterServer::new("127.0.0.1:0", cfg).await.map_err(|e| e.to_string())?;
    let addr = server.verif_local_addr().map_err(|e| e.to_string())?;
    tokio::spawn(async move {
        if relisten {
            let d2 = Arc::clone(&dict);
            let s2 = Arc::clone(&seen);
            let _ = tokio::time::timeout(
                Duration::from_millis(40),
                server.listen(
                    move |req| {
                        if session_id(&req).starts_with("SYNCPANIC") {
                            panic!("handler panic (synchronous part) requested by the scenario");
                        }
                        let d = Arc::clone(&d2);
                        let s = Arc::clone(&s2);
                        handler(req, d, s)
                    },
                    Arc::clone(&dict),
                ),
            )
            .await;
        }
        let d2 = Arc::clone(&dict);
        let _ = server
            .listen(
                move |req| {
                    // a panic in the synchronous part of the handler (before its future exists), as opposed to one inside the future
                    if session_id(&req).starts_with("SYNCPANIC") {
                        panic!("handler panic (synchronous part) requested by the scenario");
                    }
                    let d = Arc::clone(&d2);
                    let s = Arc::clone(&seen);
                    handler(req, d, s)
                },
                dict,
            )
            .await;
    });
    Ok(addr)
}

/// a TCP relay that records what the client sends
async fn start_relay(target: std::net::SocketAddr, rec: Arc<Mutex<Vec<u8>>>) -> PResult<u16> {
    start_relay_opt(target, rec, false, 0).await
}

/// `dribble`: what the client sends first is forwarded one octet at a time, 30 ms apart, for its first three octets (TCP
/// promises no more: a segment may carry a single octet).  `port`: the relay listens there (0 = any free port).
async fn start_relay_opt(target: std::net::SocketAddr, rec: Arc<Mutex<Vec<u8>>>, dribble: bool, port: u16) -> PResult<u16> {
    start_relay_full(target, rec, dribble, port, false, 0).await
}

/// `cutfirst`: the first connection through the relay is torn down as soon as the client has sent something (a middlebox or a
/// restarting peer closing the connection after the ClientHello); later connections are relayed.  `hold_ms`: the first thing
/// the server sends on each connection reaches the client that much later (a slow path).
async fn start_relay_full(target: std::net::SocketAddr, rec: Arc<Mutex<Vec<u8>>>, dribble: bool, port: u16, cutfirst: bool, hold_ms: u64) -> PResult<u16> {
    let l = TcpListener::bind(("127.0.0.1", port)).await.map_err(|e| format!("bind {}: {}", port, e))?;
    let port = l.local_addr().map_err(|e| e.to_string())?.port();
    tokio::spawn(async move {
        let mut nconn = 0usize;
        loop {
            let (mut c, _) = match l.accept().await { Ok(x) => x, Err(_) => return };
            nconn += 1;
            let rec = Arc::clone(&rec);
            if cutfirst && nconn == 1 {
                tokio::spawn(async move {
                    let mut buf = [0u8; 4096];
                    if let Ok(n) = c.read(&mut buf).await {
                        rec.lock().unwrap().extend_from_slice(&buf[..n]);
                    }
                    drop(c);
                });
                continue;
            }
            tokio::spawn(async move {
                let s = match TcpStream::connect(target).await { Ok(s) => s, Err(_) => return };
                let (mut cr, mut cw) = c.into_split();
                let (mut sr, mut sw) = s.into_split();
                let up = tokio::spawn(async move {
                    let mut buf = [0u8; 4096];
                    let mut singles = if dribble { 3usize } else { 0 };
                    loop {
                        match cr.read(&mut buf).await {
                            Ok(0) | Err(_) => { let _ = sw.shutdown().await; return; }
                            Ok(n) => {
                                rec.lock().unwrap().extend_from_slice(&buf[..n]);
                                let mut off = 0;
                                while singles > 0 && off < n {
                                    if sw.write_all(&buf[off..off + 1]).await.is_err() { return; }
                                    let _ = sw.flush().await;
                                    tokio::time::sleep(Duration::from_millis(30)).await;
                                    off += 1;
                                    singles -= 1;
                                }
                                if off < n && sw.write_all(&buf[off..n]).await.is_err() { return; }
                            }
                        }
                    }
                });
                let down = tokio::spawn(async move {
                    let mut buf = [0u8; 4096];
                    let mut held = hold_ms == 0;
                    loop {
                        match sr.read(&mut buf).await {
                            Ok(0) | Err(_) => { let _ = cw.shutdown().await; return; }
                            Ok(n) => {
                                if !held {
                                    held = true;
                                    tokio::time::sleep(Duration::from_millis(hold_ms)).await;
                                }
                                if cw.write_all(&buf[..n]).await.is_err() { return; }
                            }
                        }
                    }
                });
                let _ = up.await;
                let _ = down.await;
            });
        }
    });
    Ok(port)
}

fn rt() -> tokio::runtime::Runtime {
    tokio::runtime::Builder::new_multi_thread().worker_threads(4).enable_all().build().expect("rt")
}

fn contains(h: &[u8], n: &[u8]) -> bool {
    !n.is_empty() && h.windows(n.len()).any(|w| w == n)
}

pub fn tls_cell(st: &State, t: &mut Toks) -> PResult<String> {
    let dict = st.dicts.get("b").ok_or_else(|| "dict b missing".to_string())?.clone();
    let client_tls = t.boolean()?;
    let verify = t.boolean()?;
    let server_tls = match t.next()? { "plain" => false, "tls" => true, s => return Err(format!("server {}", s)) };
    let cert = t.next()?.to_string();
    let host = match t.next()? { "host" => "localhost", "ip" => "127.0.0.1", s => return Err(format!("addr {}", s)) };
    let marker = t.next()?.to_string();
    let mut relisten = false;
    let mut dribble = false;
    let mut relay_port: u16 = 0;
    let mut cutfirst = false;
    let mut rival = false;
    let mut hold_ms: u64 = 0;
    while let Ok(tok) = t.next() {
        match tok {
            "relisten" => relisten = true,
            "dribble" => dribble = true,
            "cutfirst" => cutfirst = true,
            "rival" => rival = true,
            p if p.starts_with("hold=") => hold_ms = p[5..].parse().map_err(|_| "hold".to_string())?,
            p if p.starts_with("port=") => relay_port = p[5..].parse().map_err(|_| "port".to_string())?,
            other => return Err(format!("tls cell option {}", other)),
        }
    }
    let rt = rt();
    let out = rt.block_on(async move {
        let seen = Arc::new(Mutex::new(Vec::new()));
        let addr = start_server_opt(if server_tls { Some(cert.as_str()) } else { None }, Arc::clone(&dict), Arc::clone(&seen), relisten).await?;
        if relisten {
            tokio::time::sleep(Duration::from_millis(120)).await;
        }
        let rec = Arc::new(Mutex::new(Vec::new()));
        let port = match start_relay_full(addr, Arc::clone(&rec), dribble, relay_port, cutfirst, hold_ms).await {
            Ok(p) => p,
            // the fixed port is taken by something else on this machine: the cell cannot be run (reported, not judged)
            Err(e) if relay_port != 0 => return Ok(format!("TLS skipped {}", e.replace(' ', "_"))),
            Err(e) => return Err(e),
        };
        if rival {
            // while the client's (slowed-down) connection setup is in flight, two other peers connect to the server and say nothing
            tokio::spawn(async move {
                let mut keep = Vec::new();
                for _ in 0..2 {
                    tokio::time::sleep(Duration::from_millis(25)).await;
                    if let Ok(s) = TcpStream::connect(addr).await { keep.push(s); }
                }
                tokio::time::sleep(Duration::from_secs(4)).await;
                drop(keep);
            });
        }
        let mut client = DiameterClient::new(&format!("{}:{}", host, port), DiameterClientConfig { use_tls: client_tls, verify_cert: verify });
        let mut out = String::from("TLS");
        let conn = tokio::time::timeout(Duration::from_millis(2500 + 2 * hold_ms), client.connect()).await;
        match conn {
            Ok(Ok(mut h)) => {
                out.push_str(" connect=ok");
                let d2 = Arc::clone(&dict);
                tokio::spawn(async move { DiameterClient::handle(&mut h, d2).await; });
                let mut req = DiameterMessage::new(CommandCode::CreditControl, ApplicationId::CreditControl, 0x80, 77, 78, Arc::clone(&dict));
                req.add_avp(263, None, M, UTF8String::new(&marker).into());
                match tokio::time::timeout(Duration::from_secs(3), client.send_message(req)).await {
                    Ok(Ok(fut)) => match tokio::time::timeout(Duration::from_millis(2500), fut).await {
                        Ok(Ok(ans)) => {
                            let good = session_id(&ans) == marker && ans.get_hop_by_hop_id() == 77;
                            out.push_str(if good { " request=answered" } else { " request=wronganswer" });
                        }
                        Ok(Err(_)) => out.push_str(" request=failed"),
                        Err(_) => out.push_str(" request=noanswer"),
                    },
                    Ok(Err(_)) => out.push_str(" request=sendfailed"),
                    Err(_) => out.push_str(" request=sendtimeout"),
                }
            }
            Ok(Err(_)) => out.push_str(" connect=refused request=none"),
            Err(_) => out.push_str(" connect=timeout request=none"),
        }
        tokio::time::sleep(Duration::from_millis(50)).await;
        let clear = contains(&rec.lock().unwrap(), marker.as_bytes());
        let processed = seen.lock().unwrap().iter().any(|s| s == &marker);
        let _ = write!(out, " cleartext={} processed={}", clear as u8, processed as u8);
        Ok::<String, String>(out)
    });
    rt.shutdown_timeout(Duration::from_millis(200));
    out
}

/// NETSLOWHS: a TLS listener; a peer connects and never speaks; seven seconds later a client connects, and starts its handshake
/// another five seconds later (a slow start, a client behind a proxy): it is served like any other
pub fn slow_handshake(st: &State, _t: &mut Toks) -> PResult<String> {
    let dict = st.dicts.get("b").ok_or_else(|| "dict b missing".to_string())?.clone();
    let rt = rt();
    let out = rt.block_on(async move {
        let seen = Arc::new(Mutex::new(Vec::new()));
        let addr = start_server(Some("match"), Arc::clone(&dict), Arc::clone(&seen)).await?;
        let silent = TcpStream::connect(addr).await.map_err(|e| e.to_string())?;
        tokio::time::sleep(Duration::from_millis(7000)).await;
        let s = TcpStream::connect(addr).await.map_err(|e| e.to_string())?;
        tokio::time::sleep(Duration::from_millis(5000)).await;
        let c = native_tls::TlsConnector::builder().danger_accept_invalid_certs(true).build().map_err(|e| e.to_string())?;
        let c = tokio_native_tls::TlsConnector::from(c);
        let r = match tokio::time::timeout(Duration::from_secs(4), c.connect("localhost", s)).await {
            Ok(Ok(ts)) => {
                let mut conn = Conn::Tls(ts);
                let _ = conn.write_all(&request(&dict, "slowhs", 5)).await;
                let want = expected_answer(&dict, "slowhs", 5);
                let mut got = vec![0u8; want.len()];
                match tokio::time::timeout(Duration::from_secs(3), conn.read_exact(&mut got)).await {
                    Ok(Ok(_)) if got == want => "ok",
                    Ok(Ok(_)) => "wronganswer",
                    Ok(Err(_)) => "closed",
                    Err(_) => "noanswer",
                }
            }
            Ok(Err(_)) => "handshake-failed",
            Err(_) => "handshake-timeout",
        };
        drop(silent);
        Ok::<String, String>(format!("NETSLOWHS {}", r))
    });
    rt.shutdown_timeout(Duration::from_millis(200));
    out
}

/// TLSTWO <verify>: two TLS clients in one process: the first connects to a peer that accepts the TCP connection and never answers its
/// ClientHello; the second, meanwhile, connects to a trusted, matching server - and gets its session
pub fn tls_two(st: &State, t: &mut Toks) -> PResult<String> {
    let dict = st.dicts.get("b").ok_or_else(|| "dict b missing".to_string())?.clone();
    let verify = t.boolean()?;
    let rt = rt();
    let out = rt.block_on(async move {
        let seen = Arc::new(Mutex::new(Vec::new()));
        let addr = start_server(Some("match"), Arc::clone(&dict), Arc::clone(&seen)).await?;
        let mute = TcpListener::bind(("127.0.0.1", 0)).await.map_err(|e| e.to_string())?;
        let mport = mute.local_addr().map_err(|e| e.to_string())?.port();
        tokio::spawn(async move {
            let mut keep = Vec::new();
            while let Ok((s, _)) = mute.accept().await { keep.push(s); }
        });
        let mut stuck = DiameterClient::new(&format!("localhost:{}", mport), DiameterClientConfig { use_tls: true, verify_cert: verify });
        let stuck_task = tokio::spawn(async move { let _ = tokio::time::timeout(Duration::from_secs(8), stuck.connect()).await; });
        tokio::time::sleep(Duration::from_millis(300)).await;
        let mut client = DiameterClient::new(&format!("localhost:{}", addr.port()), DiameterClientConfig { use_tls: true, verify_cert: verify });
        let r = match tokio::time::timeout(Duration::from_millis(3000), client.connect()).await {
            Ok(Ok(_h)) => "ok",
            Ok(Err(_)) => "refused",
            Err(_) => "timeout",
        };
        stuck_task.abort();
        Ok::<String, String>(format!("TLSTWO connect={}", r))
    });
    rt.shutdown_timeout(Duration::from_millis(200));
    out
}

/// TLSSNI <verify>: a TLS endpoint that picks its certificate by the name the client asks for (SNI) - `openssl s_server` with a
/// default certificate for another name and the trusted, matching one for "localhost" - as name-based virtual hosts and load
/// balancers do.  A client told to connect to "localhost" gets the session its settings allow.  Observed: the result of connect().
pub fn tls_sni(_st: &State, t: &mut Toks) -> PResult<String> {
    let verify = t.boolean()?;
    // optional mode: `tls13` = the endpoint speaks TLS 1.3 only; `alpn` = it has ALPN configured (h2, http/1.1: a shared-port front end)
    let mode = t.next().unwrap_or("sni").to_string();
    let dir = tls_dir();
    let port = {
        let l = std::net::TcpListener::bind("127.0.0.1:0").map_err(|e| e.to_string())?;
        l.local_addr().map_err(|e| e.to_string())?.port()
    };
    let mut args: Vec<String> = vec!["s_server".into(), "-accept".into(), format!("127.0.0.1:{}", port), "-quiet".into()];
    if mode == "sni" {
        args.extend(["-cert".into(), format!("{}/wrongname.crt", dir), "-key".into(), format!("{}/wrongname.key", dir),
                     "-servername".into(), "localhost".into(), "-cert2".into(), format!("{}/match.crt", dir), "-key2".into(), format!("{}/match.key", dir)]);
    } else {
        args.extend(["-cert".into(), format!("{}/match.crt", dir), "-key".into(), format!("{}/match.key", dir)]);
        if mode == "tls13" { args.push("-tls1_3".into()); } else { args.extend(["-alpn".into(), "h2,http/1.1".into()]); }
    }
    let child = std::process::Command::new("openssl")
        .args(&args)
        .stdin(std::process::Stdio::piped()).stdout(std::process::Stdio::null()).stderr(std::process::Stdio::null())
        .spawn();
    let mut child = match child { Ok(c) => c, Err(e) => return Ok(format!("TLSSNI skipped {}", e.to_string().replace(' ', "_"))) };
    let mut up = false;
    for _ in 0..100 {
        if std::net::TcpStream::connect(("127.0.0.1", port)).is_ok() { up = true; break; }
        std::thread::sleep(Duration::from_millis(30));
    }
    if !up {
        let _ = child.kill();
        let _ = child.wait();
        return Ok("TLSSNI skipped endpoint_did_not_come_up".into());
    }
    let rt = rt();
    let out = rt.block_on(async move {
        let mut client = DiameterClient::new(&format!("localhost:{}", port), DiameterClientConfig { use_tls: true, verify_cert: verify });
        match tokio::time::timeout(Duration::from_millis(3000), client.connect()).await {
            Ok(Ok(_h)) => "TLSSNI connect=ok".to_string(),
            Ok(Err(_)) => "TLSSNI connect=refused".to_string(),
            Err(_) => "TLSSNI connect=timeout".to_string(),
        }
    });
    rt.shutdown_timeout(Duration::from_millis(200));
    let _ = child.kill();
    let _ = child.wait();
    Ok(out)
}

/// TLSPLAIN <cert> <frame>: a server configured with a TLS identity; a peer that speaks plain text sends this frame as the
/// first thing on a fresh TCP connection.  Observed: was any request handed to the handler, and what came back.
pub fn tls_plain(st: &State, t: &mut Toks) -> PResult<String> {
    let dict = st.dicts.get("b").ok_or_else(|| "dict b missing".to_string())?.clone();
    let cert = t.next()?.to_string();
    let frame = t.bytes()?;
    let rt = rt();
    let out = rt.block_on(async move {
        let seen = Arc::new(Mutex::new(Vec::new()));
        let addr = start_server(Some(cert.as_str()), Arc::clone(&dict), Arc::clone(&seen)).await?;
        let mut s = TcpStream::connect(addr).await.map_err(|e| e.to_string())?;
        let _ = s.write_all(&frame).await;
        let mut got = Vec::new();
        let mut buf = [0u8; 4096];
        let deadline = tokio::time::Instant::now() + Duration::from_millis(1200);
        loop {
            match tokio::time::timeout_at(deadline, s.read(&mut buf)).await {
                Ok(Ok(0)) | Ok(Err(_)) | Err(_) => break,
                Ok(Ok(n)) => got.extend_from_slice(&buf[..n]),
            }
        }
        // does what came back read as a Diameter message (version 1, a length that fits, decodable)?
        let diameter_reply = got.len() >= 20 && got[0] == 1 && {
            let l = ((got[1] as usize) << 16) | ((got[2] as usize) << 8) | got[3] as usize;
            l >= 20 && l <= got.len() && DiameterMessage::decode_from(&mut Cursor::new(got[..l].to_vec()), Arc::clone(&dict)).is_ok()
        };
        let calls = seen.lock().unwrap().len();
        let mut o = format!("TLSPLAIN calls={} diameter_reply={} reply_octets={} first=", calls, diameter_reply as u8, got.len());
        hex(&mut o, &got[..got.len().min(8)]);
        Ok::<String, String>(o)
    });
    rt.shutdown_timeout(Duration::from_millis(200));
    out
}

/// TLSHIST <idle ms>: one TLS server.  It sits idle for a while; then four peers fail at connection setup one after the other (plain
/// text where a ClientHello is due, from the same source address); then a verifying client with a trusted, matching server is
/// served: what the server does with a connection is decided by its configuration, not by how long it sat or by what other
/// peers did before.
pub fn tls_history(st: &State, t: &mut Toks) -> PResult<String> {
    let dict = st.dicts.get("b").ok_or_else(|| "dict b missing".to_string())?.clone();
    let idle = t.u64()?;
    let rt = rt();
    let out = rt.block_on(async move {
        let seen = Arc::new(Mutex::new(Vec::new()));
        let addr = start_server(Some("match"), Arc::clone(&dict), Arc::clone(&seen)).await?;
        tokio::time::sleep(Duration::from_millis(idle)).await;
        let mut o = String::from("TLSHIST");
        let mut rounds = Vec::new();
        let mut late = "not-run";
        for round in 0..2 {
            if round == 1 {
                for _ in 0..4 {
                    if let Ok(mut s) = TcpStream::connect(addr).await {
                        let _ = s.write_all(&request(&dict, "plain-text-peer", 5)).await;
                        let mut b = [0u8; 64];
                        let _ = tokio::time::timeout(Duration::from_millis(300), s.read(&mut b)).await;
                    }
                }
            }
            let mut client = DiameterClient::new(&format!("localhost:{}", addr.port()), DiameterClientConfig { use_tls: true, verify_cert: true });
            let r = match tokio::time::timeout(Duration::from_millis(2500), client.connect()).await {
                Ok(Ok(mut h)) => {
                    let d2 = Arc::clone(&dict);
                    tokio::spawn(async move { DiameterClient::handle(&mut h, d2).await; });
                    let mut req = DiameterMessage::new(CommandCode::CreditControl, ApplicationId::CreditControl, 0x80, 60 + round, 1, Arc::clone(&dict));
                    req.add_avp(263, None, M, UTF8String::new(&format!("hist-{}", round)).into());
                    match tokio::time::timeout(Duration::from_secs(3), client.send_message(req)).await {
                        Ok(Ok(fut)) => match tokio::time::timeout(Duration::from_millis(2500), fut).await {
                            Ok(Ok(_)) => "ok",
                            _ => "ok-noanswer",
                        },
                        _ => "ok-sendfailed",
                    }
                }
                Ok(Err(_)) => "refused",
                Err(_) => "timeout",
            };
            rounds.push(r);
            if round == 1 && idle > 0 {
                // the same connection, used again after it has been open for longer than any handshake deadline
                tokio::time::sleep(Duration::from_millis(idle + 4500)).await;
                let mut req = DiameterMessage::new(CommandCode::CreditControl, ApplicationId::CreditControl, 0x80, 99, 1, Arc::clone(&dict));
                req.add_avp(263, None, M, UTF8String::new("hist-late").into());
                late = match tokio::time::timeout(Duration::from_secs(3), client.send_message(req)).await {
                    Ok(Ok(fut)) => match tokio::time::timeout(Duration::from_millis(2500), fut).await {
                        Ok(Ok(_)) => "ok",
                        _ => "noanswer",
                    },
                    _ => "sendfailed",
                };
            }
        }
        let _ = write!(o, " first={} after_bad_peers={} same_connection_later={}", rounds[0], rounds[1], late);
        Ok::<String, String>(o)
    });
    rt.shutdown_timeout(Duration::from_millis(200));
    out
}

/// TLSROT: ONE verifying client object over three connect() calls while the trust file it is pointed at changes: the CA that
/// issued the server's certificate is in it, then is not, then is again.  Each connect() is judged by the trust store as it is
/// at that moment.
pub fn tls_rotate(st: &State, _t: &mut Toks) -> PResult<String> {
    let dict = st.dicts.get("b").ok_or_else(|| "dict b missing".to_string())?.clone();
    let dir = tls_dir();
    let tmp = std::env::temp_dir().join(format!("dverif-trust-{}.pem", std::process::id()));
    let with_ca = std::fs::read(format!("{}/bundle.crt", dir)).map_err(|e| e.to_string())?;
    let without_ca = std::fs::read(format!("{}/decoy.crt", dir)).map_err(|e| e.to_string())?;
    let before = std::env::var_os("SSL_CERT_FILE");
    std::fs::write(&tmp, &with_ca).map_err(|e| e.to_string())?;
    std::env::set_var("SSL_CERT_FILE", &tmp);
    // (this scenario runs on a CURRENT-THREAD runtime, client and server alike - the flavour `#[tokio::main(flavor = "current_thread")]`
    // and `#[tokio::test]` give; the other real-socket scenarios use the multi-thread one)
    let rt = tokio::runtime::Builder::new_current_thread().enable_all().build().map_err(|e| e.to_string())?;
    let tmp2 = tmp.clone();
    let out = rt.block_on(async move {
        let seen = Arc::new(Mutex::new(Vec::new()));
        // (the server's certificate names DNS:localhost and nothing else: the client must verify against the name it was given,
        // on every connect())
        let addr = start_server(Some("dnsonly"), Arc::clone(&dict), Arc::clone(&seen)).await?;
        let mut client = DiameterClient::new(&format!("localhost:{}", addr.port()), DiameterClientConfig { use_tls: true, verify_cert: true });
        let mut o = String::from("TLSROT");
        for (i, trust) in [&with_ca, &without_ca, &with_ca].iter().enumerate() {
            std::fs::write(&tmp2, trust).map_err(|e| e.to_string())?;
            let r = match tokio::time::timeout(Duration::from_millis(2500), client.connect()).await {
                Ok(Ok(mut h)) => {
                    let d2 = Arc::clone(&dict);
                    tokio::spawn(async move { DiameterClient::handle(&mut h, d2).await; });
                    let mut req = DiameterMessage::new(CommandCode::CreditControl, ApplicationId::CreditControl, 0x80, 70 + i as u32, 1, Arc::clone(&dict));
                    req.add_avp(263, None, M, UTF8String::new(&format!("rot-{}", i)).into());
                    match tokio::time::timeout(Duration::from_secs(3), client.send_message(req)).await {
                        Ok(Ok(fut)) => match tokio::time::timeout(Duration::from_millis(2500), fut).await {
                            Ok(Ok(_)) => "ok",
                            _ => "ok-noanswer",
                        },
                        _ => "ok-sendfailed",
                    }
                }
                Ok(Err(_)) => "refused",
                Err(_) => "timeout",
            };
            let _ = write!(o, " c{}={}", i + 1, r);
        }
        Ok::<String, String>(o)
    });
    rt.shutdown_timeout(Duration::from_millis(200));
    match before {
        Some(v) => std::env::set_var("SSL_CERT_FILE", v),
        None => std::env::remove_var("SSL_CERT_FILE"),
    }
    let _ = std::fs::remove_file(&tmp);
    out
}

/// TLSSWAP <verify>: ONE client object told "localhost:<port>"; behind that port (a relay) the server is replaced between its
/// connect() calls: certificate `match` (RSA), then `ecmatch` (another trusted, matching certificate - a rotation), then
/// `wrongname`, then `match` again.  Every connect() is judged by the settings and the certificate presented THEN.
pub fn tls_swap(st: &State, t: &mut Toks) -> PResult<String> {
    let dict = st.dicts.get("b").ok_or_else(|| "dict b missing".to_string())?.clone();
    let verify = t.boolean()?;
    // optional prologue on the same client object: `dropfirst` = a connect() against a peer that never answers the ClientHello, given up
    // by the caller after 400 ms (its future is dropped); `fails33` = 33 connect() calls in a row refused for the certificate's name;
    // `busy` = (another connection's handler is busy for five seconds while the sequence runs)
    let prologue = t.next().unwrap_or("none").to_string();
    let rt = rt();
    let out = rt.block_on(async move {
        let seen = Arc::new(Mutex::new(Vec::new()));
        let mut addrs = Vec::new();
        for cert in ["match", "ecmatch", "wrongname"] {
            addrs.push(start_server(Some(cert), Arc::clone(&dict), Arc::clone(&seen)).await?);
        }
        let target = Arc::new(Mutex::new(addrs[0]));
        let l = TcpListener::bind(("127.0.0.1", 0)).await.map_err(|e| e.to_string())?;
        let port = l.local_addr().map_err(|e| e.to_string())?.port();
        let tg = Arc::clone(&target);
        tokio::spawn(async move {
            loop {
                let (mut c, _) = match l.accept().await { Ok(x) => x, Err(_) => return };
                let to = *tg.lock().unwrap();
                tokio::spawn(async move {
                    if let Ok(mut s) = TcpStream::connect(to).await {
                        let _ = tokio::io::copy_bidirectional(&mut c, &mut s).await;
                    }
                });
            }
        });
        let mut client = DiameterClient::new(&format!("localhost:{}", port), DiameterClientConfig { use_tls: true, verify_cert: verify });
        let mut o = String::from("TLSSWAP");
        if prologue == "dropfirst" {
            let mute = TcpListener::bind(("127.0.0.1", 0)).await.map_err(|e| e.to_string())?;
            *target.lock().unwrap() = mute.local_addr().map_err(|e| e.to_string())?;
            tokio::spawn(async move {
                let mut keep = Vec::new();
                while let Ok((s, _)) = mute.accept().await { keep.push(s); }
            });
            let _ = tokio::time::timeout(Duration::from_millis(400), client.connect()).await;
        } else if prologue == "fails33" {
            *target.lock().unwrap() = addrs[2];
            for _ in 0..33 {
                let _ = tokio::time::timeout(Duration::from_millis(3000), client.connect()).await;
            }
        } else if prologue == "busy" {
            let a0 = addrs[0];
            let d3 = Arc::clone(&dict);
            tokio::spawn(async move {
                if let Ok(mut c) = Conn::open(a0, true).await {
                    let _ = c.write_all(&request(&d3, "VERYSLOW-busy", 3)).await;
                    tokio::time::sleep(Duration::from_secs(8)).await;
                }
            });
            tokio::time::sleep(Duration::from_millis(400)).await;
        }
        for (i, which) in [0usize, 1, 2, 0].iter().enumerate() {
            *target.lock().unwrap() = addrs[*which];
            let r = match tokio::time::timeout(Duration::from_millis(3000), client.connect()).await {
                Ok(Ok(mut h)) => {
                    let d2 = Arc::clone(&dict);
                    tokio::spawn(async move { DiameterClient::handle(&mut h, d2).await; });
                    let mut req = DiameterMessage::new(CommandCode::CreditControl, ApplicationId::CreditControl, 0x80, 90 + i as u32, 1, Arc::clone(&dict));
                    req.add_avp(263, None, M, UTF8String::new(&format!("swap-{}", i)).into());
                    match tokio::time::timeout(Duration::from_secs(3), client.send_message(req)).await {
                        Ok(Ok(fut)) => match tokio::time::timeout(Duration::from_millis(3000), fut).await {
                            Ok(Ok(_)) => "ok",
                            _ => "ok-noanswer",
                        },
                        _ => "ok-sendfailed",
                    }
                }
                Ok(Err(_)) => "refused",
                Err(_) => "timeout",
            };
            let _ = write!(o, " c{}={}", i + 1, r);
        }
        Ok::<String, String>(o)
    });
    rt.shutdown_timeout(Duration::from_millis(200));
    out
}

// ------------------------------------------------------------------ C10
enum Conn {
    Plain(TcpStream),
    Tls(tokio_native_tls::TlsStream<TcpStream>),
}

impl Conn {
    async fn open(addr: std::net::SocketAddr, tls: bool) -> std::result::Result<Conn, String> {
        let s = TcpStream::connect(addr).await.map_err(|e| e.to_string())?;
        if tls {
            let c = native_tls::TlsConnector::builder().danger_accept_invalid_certs(true).build().map_err(|e| e.to_string())?;
            let c = tokio_native_tls::TlsConnector::from(c);
            Ok(Conn::Tls(c.connect("localhost", s).await.map_err(|e| e.to_string())?))
        } else {
            Ok(Conn::Plain(s))
        }
    }
    async fn write_all(&mut self, b: &[u8]) -> std::io::Result<()> {
        match self { Conn::Plain(s) => s.write_all(b).await, Conn::Tls(s) => s.write_all(b).await }
    }
    async fn read_exact(&mut self, b: &mut [u8]) -> std::io::Result<usize> {
        match self { Conn::Plain(s) => s.read_exact(b).await, Conn::Tls(s) => s.read_exact(b).await }
    }
}

/// a well-behaved raw client: nreq requests (pipelined in pairs), every answer must be exactly the handler's answer to its own request
async fn good_client(addr: std::net::SocketAddr, tls: bool, dict: Arc<Dictionary>, id: usize, nreq: usize, seed: u64) -> String {
    let mut c = match tokio::time::timeout(Duration::from_secs(3), Conn::open(addr, tls)).await {
        Ok(Ok(c)) => c,
        Ok(Err(e)) => return format!("connectfailed:{}", e.replace(' ', "_")),
        Err(_) => return "connecttimeout".into(),
    };
    let mut j = 0;
    let mut x = seed.wrapping_mul(6364136223846793005).wrapping_add(id as u64);
    while j < nreq {
        x = x.wrapping_mul(6364136223846793005).wrapping_add(1442695040888963407);
        let burst = (1 + (x >> 60) % 3) as usize;
        let burst = burst.min(nreq - j);
        let mut out = Vec::new();
        for k in 0..burst {
            out.extend_from_slice(&request(&dict, &format!("c{}-r{}", id, j + k), (id * 1000 + j + k) as u32));
        }
        if id % 2 == 1 && out.len() > 30 {
            // every other well-behaved client sends its requests in three TCP segments, a few milliseconds apart (a slow path, a
            // peer that writes header and body separately): a request is a request however it is cut
            let (a, b) = (out.len() / 3, 2 * out.len() / 3);
            for part in [&out[..a], &out[a..b], &out[b..]] {
                if c.write_all(part).await.is_err() {
                    return format!("writefailed@{}", j);
                }
                if let Conn::Plain(s) = &c { let _ = s.set_nodelay(true); }
                tokio::time::sleep(Duration::from_millis(6)).await;
            }
        } else if c.write_all(&out).await.is_err() {
            return format!("writefailed@{}", j);
        }
        for k in 0..burst {
            let want = expected_answer(&dict, &format!("c{}-r{}", id, j + k), (id * 1000 + j + k) as u32);
            let mut got = vec![0u8; want.len()];
            match tokio::time::timeout(Duration::from_secs(3), c.read_exact(&mut got)).await {
                Ok(Ok(_)) => {
                    if got != want {
                        let mut cur = Cursor::new(got.clone());
                        let what = match DiameterMessage::decode_from(&mut cur, Arc::clone(&dict)) {
                            Ok(m) => format!("sid={},hop={}", session_id(&m), m.get_hop_by_hop_id()),
                            Err(_) => "undecodable".into(),
                        };
                        return format!("wronganswer@{}:{}", j + k, what);
                    }
                }
                Ok(Err(_)) => return format!("closed@{}", j + k),
                Err(_) => return format!("noanswer@{}", j + k),
            }
        }
        j += burst;
        tokio::time::sleep(Duration::from_millis((x >> 50) % 8)).await;
    }
    "ok".into()
}

async fn faulty_peer(addr: std::net::SocketAddr, tls: bool, dict: Arc<Dictionary>, kind: String, hold: Duration) {
    let raw = || async { TcpStream::connect(addr).await };
    match kind.as_str() {
        // connects and never says anything (with TLS: never starts the handshake)
        "stall-setup" => { if let Ok(s) = raw().await { tokio::time::sleep(hold).await; drop(s); } }
        // speaks something that is not the expected protocol at connection setup
        "garbage-setup" => { if let Ok(mut s) = raw().await { let _ = s.write_all(b"GET / HTTP/1.0\r\n\r\n").await; tokio::time::sleep(hold).await; } }
        // resets its connection while its request is still with the (slow) handler and is back at once FROM THE SAME ADDRESS AND
        // PORT (a restarted peer with a fixed source port, as Diameter peers often have): a new connection like any other
        "reset-same-port" => {
            let mk = |port: u16| -> std::io::Result<tokio::net::TcpSocket> {
                let s = tokio::net::TcpSocket::new_v4()?;
                s.set_reuseaddr(true)?;
                s.bind(std::net::SocketAddr::from(([127, 0, 0, 1], port)))?;
                Ok(s)
            };
            let first = match mk(0) { Ok(s) => s, Err(_) => return };
            let port = match first.local_addr() { Ok(a) => a.port(), Err(_) => return };
            if let Ok(mut c) = first.connect(addr).await {
                if !tls {
                    let _ = c.write_all(&request(&dict, "SLOW-sameport", 5)).await;
                }
                tokio::time::sleep(Duration::from_millis(60)).await;
                let _ = c.set_linger(Some(Duration::from_secs(0)));
                drop(c);
            }
            for _ in 0..3 {
                if let Ok(s) = mk(port) {
                    if let Ok(mut c) = s.connect(addr).await {
                        if !tls {
                            let _ = c.write_all(&request(&dict, "sameport-again", 6)).await;
                        }
                        tokio::time::sleep(hold).await;
                        return;
                    }
                }
                tokio::time::sleep(Duration::from_millis(5)).await;
            }
        }
        // a peer with a tiny receive buffer that pipelines three requests (each answered with 3 KiB: more than its window takes, less than a send buffer holds), reads nothing, and then sends a
        // complete malformed frame: when the server gives the connection up, answers are still queued towards a peer that is not reading
        "unread-then-malformed" => {
            let sock = match tokio::net::TcpSocket::new_v4() { Ok(s) => s, Err(_) => return };
            let _ = sock.set_recv_buffer_size(1024);
            if let Ok(mut c) = sock.connect(addr).await {
                if !tls {
                    let _ = c.set_nodelay(true);
                    let long = "u".repeat(3000);
                    for i in 0..3u32 {
                        let _ = c.write_all(&request(&dict, &format!("{}{}", long, i), 700 + i)).await;
                    }
                    tokio::time::sleep(Duration::from_millis(300)).await;
                    let _ = c.write_all(&[1, 0, 0, 28, 0x80, 0, 1, 16, 0, 0, 0, 4, 0, 0, 0, 1, 0, 0, 0, 1, 0, 0, 1, 7, 0x40, 0, 0, 4]).await;
                }
                tokio::time::sleep(hold).await;
            }
        }
        // one peer that connects and resets 66 000 times in a row (a monitoring probe gone wild, a client in a crash loop)
        "reset-storm" => {
            for _ in 0..66_000u32 {
                if let Ok(s) = raw().await { let _ = s.set_linger(Some(Duration::from_secs(0))); drop(s); }
            }
        }
        // the first octets of a TLS ClientHello record, then the peer hangs up (a port scanner, a client that crashed): the stream ends
        // inside the handshake
        "partial-hello" => { if let Ok(mut s) = raw().await { let _ = s.write_all(&[0x16, 0x03, 0x01, 0x02, 0x00]).await; tokio::time::sleep(Duration::from_millis(40)).await; drop(s); } }
        // pipelines four megabytes of requests and never reads an answer: sooner or later the server's write to this peer blocks
        "flood-no-read" => {
            if let Ok(mut c) = Conn::open(addr, tls).await {
                let one = request(&dict, "flood", 9);
                let mut block = Vec::new();
                for _ in 0..500 { block.extend_from_slice(&one); }
                // (until a write of ours does not get through for a second: the server has stopped reading because its own write to us
                // is stuck - or 64 MB, whichever comes first)
                for _ in 0..(64_000_000 / block.len() + 1) {
                    if tokio::time::timeout(Duration::from_secs(1), c.write_all(&block)).await.is_err() { break; }
                }
                tokio::time::sleep(hold).await;
            }
        }
        // abrupt reset right after connecting
        "reset" => { if let Ok(s) = raw().await { let _ = s.set_linger(Some(Duration::from_secs(0))); drop(s); } }
        k => {
            let mut c = match tokio::time::timeout(Duration::from_secs(3), Conn::open(addr, tls)).await { Ok(Ok(c)) => c, _ => return };
            match k {
                "malformed" => { let _ = c.write_all(&[1, 0, 0, 24, 0xff, 0xff, 0xff, 0xff, 0, 0, 0, 0, 0, 0, 0, 0, 0, 0, 0, 0, 9, 9, 9, 9]).await; }
                "oversized" => { let _ = c.write_all(&[1, 0xff, 0xff, 0xff, 0x80, 0, 1, 16]).await; }
                "zero-length" => { let _ = c.write_all(&[1, 0, 0, 0]).await; }
                // a frame whose only AVP says its own length is 0
                "avp-length-zero" => { let _ = c.write_all(&[1, 0, 0, 28, 0x80, 0, 1, 16, 0, 0, 0, 4, 0, 0, 0, 1, 0, 0, 0, 1, 0, 0, 1, 7, 0x40, 0, 0, 0]).await; }
                "stall-midframe" => { let r = request(&dict, "stall", 1); let _ = c.write_all(&r[..r.len() / 2]).await; }
                "deep-nesting" => {
                    // one legal-size frame (just under 1 MiB) of Grouped AVPs nested as deep as it can hold (about 131 000 levels)
                    let levels = 131_000usize;
                    let mut f = Vec::with_capacity(20 + 8 * levels);
                    let total = 20 + 8 * levels;
                    f.extend_from_slice(&[1, (total >> 16) as u8, (total >> 8) as u8, total as u8, 0x80, 0, 1, 16, 0, 0, 0, 4, 0, 0, 0, 1, 0, 0, 0, 2]);
                    for k in 0..levels {
                        let l = 8 * (levels - k);
                        f.extend_from_slice(&[0, 0, 1, 200, 0x40, (l >> 16) as u8, (l >> 8) as u8, l as u8]);   // 456 Multiple-Services-Credit-Control (Grouped)
                    }
                    let _ = c.write_all(&f).await;
                }
                "announce-stall" => {
                    // announces the largest legal frame (1 MiB), sends half of it and stays connected, silent
                    let mut f = vec![1u8, 0x10, 0, 0, 0x80, 0, 1, 16, 0, 0, 0, 4, 0, 0, 0, 1, 0, 0, 0, 2];
                    f.extend_from_slice(&[0, 0, 0, 25, 0, 0x0f, 0xff, 0xec]);
                    f.resize(512 * 1024, 0x11);
                    let _ = c.write_all(&f).await;
                    tokio::time::sleep(hold).await;
                }
                "exact-1mib" => {
                    // one well-formed request of exactly 1 MiB (the largest the server accepts), answered or not, then silence
                    let mut m = DiameterMessage::new(CommandCode::CreditControl, ApplicationId::CreditControl, 0x80, 9, 9 ^ 0x5555, Arc::clone(&dict));
                    m.add_avp(263, None, M, UTF8String::new("big-peer").into());
                    let used = m.get_length() as usize;
                    m.add_avp(25, None, 0, OctetString::new(vec![0x22; 1024 * 1024 - used - 8]).into());
                    let mut b = Vec::new();
                    let _ = m.encode_to(&mut b);
                    let _ = c.write_all(&b).await;
                    tokio::time::sleep(hold).await;
                }
                "vendor-zero" => {
                    // a request in which a base AVP (Origin-Host, 264) carries the V flag and Vendor-Id 0: not what the dictionary
                    // defines (refused) - and no reason to refuse Origin-Host WITHOUT a vendor id from anybody afterwards
                    let mut f = vec![1u8, 0, 0, 0, 0x80, 0, 1, 16, 0, 0, 0, 4, 0, 0, 0, 7, 0, 0, 0, 8];
                    f.extend_from_slice(&[0, 0, 1, 8, 0xc0, 0, 0, 16, 0, 0, 0, 0, b'h', b'.', b'e', b'x']);
                    let n = f.len();
                    f[1] = (n >> 16) as u8; f[2] = (n >> 8) as u8; f[3] = n as u8;
                    let _ = c.write_all(&f).await;
                }
                "nest-30" => {
                    // eight pipelined small frames, each a chain of 30 nested Grouped AVPs (legal: the limit is 32)
                    let levels = 30usize;
                    let mut one = Vec::new();
                    let total = 20 + 8 * levels + 12;
                    one.extend_from_slice(&[1, 0, (total >> 8) as u8, total as u8, 0x80, 0, 1, 16, 0, 0, 0, 4, 0, 0, 0, 1, 0, 0, 0, 2]);
                    for k in 0..levels {
                        let l = 8 * (levels - k) + 12;
                        one.extend_from_slice(&[0, 0, 1, 200, 0x40, 0, (l >> 8) as u8, l as u8]);
                    }
                    one.extend_from_slice(&[0, 0, 1, 176, 0x40, 0, 0, 12, 0, 0, 0, 9]);      // 432 Rating-Group, Unsigned32
                    let mut all = Vec::new();
                    for _ in 0..8 { all.extend_from_slice(&one); }
                    let _ = c.write_all(&all).await;
                    tokio::time::sleep(hold).await;
                }
                "handler-panic" => { let _ = c.write_all(&request(&dict, "PANIC-now", 2)).await; }
                "handler-panic-fmt" => { let _ = c.write_all(&request(&dict, "PANICF-now", 2)).await; }
                "handler-panic-unwrap" => { let _ = c.write_all(&request(&dict, "PANICU-now", 2)).await; }
                "handler-panic-sync" => { let _ = c.write_all(&request(&dict, "SYNCPANIC-now", 2)).await; }
                "announce-leave" => {
                    // announces the largest legal frame (1 MiB), sends a few octets of it and goes away
                    let _ = c.write_all(&[1, 0x10, 0, 0, 0x80, 0, 1, 16, 0, 0, 0, 4, 0, 0, 0, 1]).await;
                    tokio::time::sleep(Duration::from_millis(20)).await;
                    return;
                }
                "vanish-before-answer" => {
                    // a complete request whose answer the (slow) handler is still preparing when the peer resets the connection:
                    // the server's write of that answer fails
                    let _ = c.write_all(&request(&dict, "SLOW-vanish", 4)).await;
                    tokio::time::sleep(Duration::from_millis(80)).await;
                    match &c {
                        Conn::Plain(s) => { let _ = s.set_linger(Some(Duration::from_secs(0))); }
                        Conn::Tls(s) => { let _ = s.get_ref().get_ref().get_ref().set_linger(Some(Duration::from_secs(0))); }
                    }
                    return;
                }
                "reset-midframe" => {
                    let r = request(&dict, "rst", 3);
                    let _ = c.write_all(&r[..10]).await;
                    if let Conn::Plain(s) = &c { let _ = s.set_linger(Some(Duration::from_secs(0))); }
                    return;
                }
                _ => {}
            }
            tokio::time::sleep(hold).await;
        }
    }
}

pub fn scenario(st: &State, t: &mut Toks) -> PResult<String> {
    let dict = st.dicts.get("b").ok_or_else(|| "dict b missing".to_string())?.clone();
    let tls = t.boolean()?;
    let ngood = t.usize_dec()?;
    let nreq = t.usize_dec()?;
    let seed = t.u64()?;
    let k = t.usize_dec()?;
    let mut faults = Vec::new();
    for _ in 0..k {
        faults.push(t.next()?.to_string());
    }
    let rt = rt();
    let out = rt.block_on(async move {
        let seen = Arc::new(Mutex::new(Vec::new()));
        let addr = start_server(if tls { Some("match") } else { None }, Arc::clone(&dict), Arc::clone(&seen)).await?;
        let done = Arc::new(AtomicUsize::new(0));
        // half of the well-behaved clients are already open and talking when the faults are injected, half open afterwards
        let early = (ngood + 1) / 2;
        let mut handles = Vec::new();
        for i in 0..early {
            handles.push(tokio::spawn(good_client(addr, tls, Arc::clone(&dict), i, nreq, seed)));
        }
        tokio::time::sleep(Duration::from_millis(seed % 20)).await;
        let hold = Duration::from_secs(30);
        let mut fh = Vec::new();
        let flood = faults.iter().any(|f| f == "flood-no-read");
        let slow_fault = faults.iter().any(|f| f == "vanish-before-answer" || f == "announce-leave" || f == "reset-same-port" || f == "unread-then-malformed" || f == "flood-no-read");
        let mut self_ending = Vec::new();
        for f in faults {
            let ends = matches!(f.as_str(), "reset" | "announce-leave" | "partial-hello" | "reset-storm" | "vanish-before-answer" | "reset-midframe");
            let h = tokio::spawn(faulty_peer(addr, tls, Arc::clone(&dict), f, hold));
            if ends { self_ending.push(h); } else { fh.push(h); }
            tokio::time::sleep(Duration::from_millis((seed >> 8) % 10)).await;
        }
        // the peers that come, misbehave and go have all gone before the second half of the well-behaved clients opens (however busy
        // the machine is): "opened afterwards" means afterwards
        let any_self_ending = !self_ending.is_empty();
        for h in self_ending {
            let _ = tokio::time::timeout(Duration::from_secs(60), h).await;
        }
        if any_self_ending {
            // (... and the server has had time to notice that they are gone)
            tokio::time::sleep(Duration::from_millis(400)).await;
        }
        tokio::time::sleep(Duration::from_millis(30 + (seed >> 16) % 30)).await;
        if slow_fault {
            // the clients opened afterwards must still be talking when the failed write has happened
            tokio::time::sleep(Duration::from_millis(450)).await;
        }
        if flood {
            // ... and must open only once the flooding peer has brought the server's write to it to a halt
            tokio::time::sleep(Duration::from_millis(6000)).await;
        }
        for i in early..ngood {
            handles.push(tokio::spawn(good_client(addr, tls, Arc::clone(&dict), i, nreq, seed)));
        }
        let mut out = String::from("NET");
        for h in handles {
            let r = h.await.unwrap_or_else(|_| "clientpanicked".into());
            done.fetch_add(1, Ordering::SeqCst);
            out.push(' ');
            out.push_str(&r);
        }
        for h in fh { h.abort(); }
        Ok::<String, String>(out)
    });
    rt.shutdown_timeout(Duration::from_millis(200));
    out
}

/// NETAGED <tls>: a server that has been up for a while (5.3 s) with three connections that are open and idle (each has had one
/// request answered); then a peer stalls in the middle of a frame, then a new client connects and is served; then the three idle
/// connections send their next request.  Every one of them is answered: being idle is not a fault, however old the server is.
pub fn aged(st: &State, t: &mut Toks) -> PResult<String> {
    let dict = st.dicts.get("b").ok_or_else(|| "dict b missing".to_string())?.clone();
    let tls = t.boolean()?;
    let rt = rt();
    let out = rt.block_on(async move {
        let seen = Arc::new(Mutex::new(Vec::new()));
        let addr = start_server(if tls { Some("match") } else { None }, Arc::clone(&dict), Arc::clone(&seen)).await?;
        async fn ask(c: &mut Conn, dict: &Arc<Dictionary>, sid: &str, hop: u32) -> &'static str {
            if c.write_all(&request(dict, sid, hop)).await.is_err() {
                return "writefailed";
            }
            let want = expected_answer(dict, sid, hop);
            let mut got = vec![0u8; want.len()];
            match tokio::time::timeout(Duration::from_secs(3), c.read_exact(&mut got)).await {
                Ok(Ok(_)) => if got == want { "ok" } else { "wronganswer" },
                Ok(Err(_)) => "closed",
                Err(_) => "noanswer",
            }
        }
        let mut idle = Vec::new();
        let mut o = String::from("NETAGED");
        for i in 0..3u32 {
            let mut c = Conn::open(addr, tls).await?;
            let r = ask(&mut c, &dict, &format!("aged{}-first", i), 100 + i).await;
            let _ = write!(o, " first{}={}", i, r);
            idle.push(c);
        }
        tokio::time::sleep(Duration::from_millis(5300)).await;
        let d2 = Arc::clone(&dict);
        let stalled = tokio::spawn(faulty_peer(addr, tls, d2, "stall-midframe".into(), Duration::from_secs(30)));
        // ... and a peer that connects and says nothing (with TLS: never starts its handshake) stays for the rest of the scenario, while
        // the idle connections grow older than ten seconds
        let d4 = Arc::clone(&dict);
        let silent = tokio::spawn(faulty_peer(addr, tls, d4, "stall-setup".into(), Duration::from_secs(30)));
        tokio::time::sleep(Duration::from_millis(5400)).await;
        let mut fresh = Conn::open(addr, tls).await?;
        let r = ask(&mut fresh, &dict, "aged-new", 200).await;
        let _ = write!(o, " new={}", r);
        tokio::time::sleep(Duration::from_millis(100)).await;
        for (i, c) in idle.iter_mut().enumerate() {
            let r = ask(c, &dict, &format!("aged{}-second", i), 300 + i as u32).await;
            let _ = write!(o, " second{}={}", i, r);
        }
        stalled.abort();
        silent.abort();
        Ok::<String, String>(o)
    });
    rt.shutdown_timeout(Duration::from_millis(200));
    out
}

// ------------------------------------------------------------------ C11 / C12: connect() called again on one client object
async fn read_frame(s: &mut TcpStream) -> bool {
    let mut h = [0u8; 4];
    if s.read_exact(&mut h).await.is_err() {
        return false;
    }
    let n = u32::from_be_bytes([0, h[1], h[2], h[3]]) as usize;
    let mut b = vec![0u8; n.saturating_sub(4)];
    s.read_exact(&mut b).await.is_ok()
}

fn plain_request(dict: &Arc<Dictionary>, hop: u32) -> DiameterMessage {
    let mut m = DiameterMessage::new(CommandCode::CreditControl, ApplicationId::CreditControl, 0x80, hop, hop, Arc::clone(dict));
    m.add_avp(264, None, M, Identity::new("client.example.com").into());
    m
}

fn plain_answer(dict: &Arc<Dictionary>, hop: u32) -> Vec<u8> {
    let mut m = DiameterMessage::new(CommandCode::CreditControl, ApplicationId::CreditControl, 0, hop, hop, Arc::clone(dict));
    m.add_avp(268, None, M, Unsigned32::new(2001).into());
    let mut b = Vec::new();
    m.encode_to(&mut b).expect("encode answer");
    b
}

async fn outcome(fut: diameter::transport::client::ResponseFuture, want_hop: u32) -> &'static str {
    match tokio::time::timeout(Duration::from_secs(3), fut).await {
        Ok(Ok(m)) => if m.get_hop_by_hop_id() == want_hop { "got" } else { "wrong" },
        Ok(Err(_)) => "err",
        Err(_) => "pending",
    }
}

/// overlap: request 1 in flight on connection A, connect() again (B), request 2 on B, A's peer closes, B's peer answers 2.
/// failed:  request 1 answered on A, connect() again to a port nobody listens on any more (fails), A's peer closes, then one more send.
/// tlsfail: a TLS client with a live connection calls connect() again; the TCP connect succeeds but the TLS handshake
/// fails (the peer answers the ClientHello with garbage and hangs up).  The client stays on its first connection; when
/// that one is lost as well, a further send must fail or hand out a future that fails.
fn reconn_tls(dict: Arc<Dictionary>) -> PResult<String> {
    let rt = rt();
    let out = rt.block_on(async move {
        let l = TcpListener::bind("127.0.0.1:0").await.map_err(|e| e.to_string())?;
        let addr = l.local_addr().map_err(|e| e.to_string())?;
        let acceptor = tokio_native_tls::TlsAcceptor::from(native_tls::TlsAcceptor::new(identity("match")?).map_err(|e| e.to_string())?);
        let mut client = DiameterClient::new(&format!("localhost:{}", addr.port()), DiameterClientConfig { use_tls: true, verify_cert: false });
        // first connection: a proper TLS session
        let srv = tokio::spawn(async move {
            let (s, _) = l.accept().await.map_err(|e| e.to_string())?;
            let tls = acceptor.accept(s).await.map_err(|e| e.to_string())?;
            Ok::<_, String>((tls, l))
        });
        let mut h1 = tokio::time::timeout(Duration::from_secs(5), client.connect()).await.map_err(|_| "first connect timed out".to_string())?.map_err(|e| format!("first connect failed: {:?}", e))?;
        let (mut sa, l) = srv.await.map_err(|e| e.to_string())??;
        let d1 = Arc::clone(&dict);
        tokio::spawn(async move { DiameterClient::handle(&mut h1, d1).await; });
        let fut1 = client.send_message(plain_request(&dict, 1)).await.map_err(|e| format!("send 1 failed: {:?}", e))?;
        let mut hdr = [0u8; 4];
        sa.read_exact(&mut hdr).await.map_err(|e| e.to_string())?;
        let n = u32::from_be_bytes([0, hdr[1], hdr[2], hdr[3]]) as usize;
        let mut body = vec![0u8; n - 4];
        sa.read_exact(&mut body).await.map_err(|e| e.to_string())?;
        sa.write_all(&plain_answer(&dict, 1)).await.map_err(|e| e.to_string())?;
        let o1 = outcome(fut1, 1).await;
        // second connect(): TCP is accepted, the handshake is answered with garbage
        let bad = tokio::spawn(async move {
            if let Ok((mut s, _)) = l.accept().await {
                let mut b = [0u8; 64];
                let _ = s.read(&mut b).await;
                let _ = s.write_all(b"HTTP/1.0 400 Bad Request\r\n\r\n").await;
            }
        });
        let rc = match tokio::time::timeout(Duration::from_secs(5), client.connect()).await {
            Ok(Ok(_)) => "ok",
            Ok(Err(_)) => "failed",
            Err(_) => "timeout",
        };
        let _ = bad.await;
        // the client is still on its first connection: a request on it is answered
        let o2 = match tokio::time::timeout(Duration::from_secs(3), client.send_message(plain_request(&dict, 2))).await {
            Ok(Ok(fut)) => {
                let mut hdr = [0u8; 4];
                let got = tokio::time::timeout(Duration::from_secs(3), sa.read_exact(&mut hdr)).await;
                if matches!(got, Ok(Ok(_))) {
                    let n = u32::from_be_bytes([0, hdr[1], hdr[2], hdr[3]]) as usize;
                    let mut body = vec![0u8; n.saturating_sub(4)];
                    let _ = sa.read_exact(&mut body).await;
                    let _ = sa.write_all(&plain_answer(&dict, 2)).await;
                }
                outcome(fut, 2).await
            }
            Ok(Err(_)) => "senderr",
            Err(_) => "sendpending",
        };
        drop(sa); // now the live connection is lost: its reader stops
        tokio::time::sleep(Duration::from_millis(250)).await;
        let o3 = match tokio::time::timeout(Duration::from_secs(3), client.send_message(plain_request(&dict, 3))).await {
            Ok(Ok(fut)) => match outcome(fut, 3).await { "err" => "futerr", x => x },
            Ok(Err(_)) => "senderr",
            Err(_) => "sendpending",
        };
        Ok::<String, String>(format!("RECONN reconnect={} f1={} f2={} f3={}", rc, o1, o2, o3))
    });
    rt.shutdown_timeout(Duration::from_millis(200));
    out
}

/// CLRST <tls> <how>: a client with two requests outstanding on a real connection (plain TCP or TLS) whose peer goes away without
/// answering - `reset` (RST: SO_LINGER 0), `close` (FIN) or `half` (the peer shuts down its sending direction only).  Both futures
/// complete with an error, and a send afterwards fails or yields a future that fails.
pub fn client_reset(st: &State, t: &mut Toks) -> PResult<String> {
    let dict = st.dicts.get("b").ok_or_else(|| "dict b missing".to_string())?.clone();
    let tls = t.boolean()?;
    let how = t.next()?.to_string();
    let rt = rt();
    let out = rt.block_on(async move {
        let l = TcpListener::bind("127.0.0.1:0").await.map_err(|e| e.to_string())?;
        let addr = l.local_addr().map_err(|e| e.to_string())?;
        let acceptor = tokio_native_tls::TlsAcceptor::from(native_tls::TlsAcceptor::new(identity("match")?).map_err(|e| e.to_string())?);
        let mut client = DiameterClient::new(&format!("localhost:{}", addr.port()), DiameterClientConfig { use_tls: tls, verify_cert: false });
        let how2 = how.clone();
        let peer = tokio::spawn(async move {
            let (s, _) = l.accept().await.map_err(|e| e.to_string())?;
            let mut buf = vec![0u8; 4096];
            if tls {
                let mut ts = acceptor.accept(s).await.map_err(|e| e.to_string())?;
                // both requests (two frames of the same size) have arrived: now go away
                let mut got = 0usize;
                while got < 2 * 48 {
                    match tokio::time::timeout(Duration::from_secs(3), ts.read(&mut buf)).await {
                        Ok(Ok(n)) if n > 0 => got += n,
                        _ => break,
                    }
                }
                match how2.as_str() {
                    "reset" => { let _ = ts.get_ref().get_ref().get_ref().set_linger(Some(Duration::from_secs(0))); drop(ts); }
                    "half" => { let _ = ts.shutdown().await; tokio::time::sleep(Duration::from_secs(4)).await; }
                    _ => drop(ts),
                }
            } else {
                let mut s = s;
                let mut got = 0usize;
                while got < 2 * 48 {
                    match tokio::time::timeout(Duration::from_secs(3), s.read(&mut buf)).await {
                        Ok(Ok(n)) if n > 0 => got += n,
                        _ => break,
                    }
                }
                match how2.as_str() {
                    "reset" => { let _ = s.set_linger(Some(Duration::from_secs(0))); drop(s); }
                    "half" => { let _ = s.shutdown().await; tokio::time::sleep(Duration::from_secs(4)).await; }
                    _ => drop(s),
                }
            }
            Ok::<(), String>(())
        });
        let mut h = tokio::time::timeout(Duration::from_secs(5), client.connect()).await.map_err(|_| "connect timed out".to_string())?.map_err(|e| format!("connect failed: {:?}", e))?;
        let d1 = Arc::clone(&dict);
        tokio::spawn(async move { DiameterClient::handle(&mut h, d1).await; });
        let f1 = client.send_message(plain_request(&dict, 1)).await.map_err(|e| format!("send 1 failed: {:?}", e))?;
        let f2 = client.send_message(plain_request(&dict, 2)).await.map_err(|e| format!("send 2 failed: {:?}", e))?;
        let o1 = outcome(f1, 1).await;
        let o2 = outcome(f2, 2).await;
        let o3 = match tokio::time::timeout(Duration::from_secs(3), client.send_message(plain_request(&dict, 3))).await {
            Ok(Ok(fut)) => match outcome(fut, 3).await { "err" => "futerr", x => x },
            Ok(Err(_)) => "senderr",
            Err(_) => "sendpending",
        };
        let _ = peer.await;
        Ok::<String, String>(format!("CLRST f1={} f2={} f3={}", o1, o2, o3))
    });
    rt.shutdown_timeout(Duration::from_millis(200));
    out
}

pub fn reconn(st: &State, t: &mut Toks) -> PResult<String> {
    let dict = st.dicts.get("b").ok_or_else(|| "dict b missing".to_string())?.clone();
    let variant = t.next()?.to_string();
    if variant == "tlsfail" {
        return reconn_tls(dict);
    }
    let rt = rt();
    let out = rt.block_on(async move {
        let l = TcpListener::bind("127.0.0.1:0").await.map_err(|e| e.to_string())?;
        let addr = l.local_addr().map_err(|e| e.to_string())?;
        let mut client = DiameterClient::new(&addr.to_string(), DiameterClientConfig { use_tls: false, verify_cert: false });
        let mut h1 = client.connect().await.map_err(|e| format!("first connect failed: {:?}", e))?;
        let (mut sa, _) = l.accept().await.map_err(|e| e.to_string())?;
        let d1 = Arc::clone(&dict);
        tokio::spawn(async move { DiameterClient::handle(&mut h1, d1).await; });
        let fut1 = client.send_message(plain_request(&dict, 1)).await.map_err(|e| format!("send 1 failed: {:?}", e))?;
        if !read_frame(&mut sa).await {
            return Err("peer A did not receive request 1".into());
        }
        let mut out = String::from("RECONN");
        if variant == "tlsfail" {
            // (handled by reconn_tls below)
            return Err("internal: tlsfail is dispatched separately".into());
        }
        if variant == "overlap" {
            let mut h2 = client.connect().await.map_err(|e| format!("second connect failed: {:?}", e))?;
            let (mut sb, _) = l.accept().await.map_err(|e| e.to_string())?;
            let d2 = Arc::clone(&dict);
            tokio::spawn(async move { DiameterClient::handle(&mut h2, d2).await; });
            let fut2 = client.send_message(plain_request(&dict, 2)).await.map_err(|e| format!("send 2 failed: {:?}", e))?;
            if !read_frame(&mut sb).await {
                return Err("peer B did not receive request 2".into());
            }
            drop(sa); // the peer of the OLD connection goes away
            tokio::time::sleep(Duration::from_millis(150)).await;
            let _ = sb.write_all(&plain_answer(&dict, 2)).await;
            let o2 = outcome(fut2, 2).await;
            let o1 = outcome(fut1, 1).await;
            let _ = write!(out, " reconnect=ok f1={} f2={}", o1, o2);
        } else {
            let _ = sa.write_all(&plain_answer(&dict, 1)).await;
            let o1 = outcome(fut1, 1).await;
            drop(l); // nobody listens any more: the next connect() is refused
            let rc = match tokio::time::timeout(Duration::from_secs(3), client.connect()).await {
                Ok(Ok(_)) => "ok",
                Ok(Err(_)) => "failed",
                Err(_) => "timeout",
            };
            drop(sa); // the peer of the only live connection goes away: its reader stops
            tokio::time::sleep(Duration::from_millis(200)).await;
            let o2 = match tokio::time::timeout(Duration::from_secs(3), client.send_message(plain_request(&dict, 2))).await {
                Ok(Ok(fut)) => match outcome(fut, 2).await { "err" => "futerr", "pending" => "pending", x => x },
                Ok(Err(_)) => "senderr",
                Err(_) => "sendpending",
            };
            let _ = write!(out, " reconnect={} f1={} f2={}", rc, o1, o2);
        }
        Ok::<String, String>(out)
    });
    rt.shutdown_timeout(Duration::from_millis(200));
    out
}
