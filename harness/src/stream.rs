//! Engines `stream` / `server`: Codec::decode / Codec::encode and the per-connection server
//! loop (hook verif_serve_stream) on scripted AsyncRead / AsyncWrite, single-threaded tokio
//! runtime with paused time (a future still pending when the runtime is idle = hang).

use crate::codec::{build_history_pub, State};
use crate::proto::*;
use diameter::transport::{Codec, DiameterServer};
use diameter::DiameterMessage;
use std::collections::VecDeque;
use std::fmt::Write as _;
use std::panic::{catch_unwind, AssertUnwindSafe};
use std::future::Future;
use std::pin::Pin;
use std::sync::{Arc, Mutex};
use std::task::{Context, Poll};
use tokio::io::{AsyncRead, AsyncWrite, ReadBuf};

#[derive(Debug, Clone)]
pub enum REv {
    Chunk(Vec<u8>),
    Pending,
    /// not ready for that many milliseconds of (virtual) time
    Sleep(u64),
    Eof,
    Err,
    /// this read is interrupted (ErrorKind::Interrupted); the stream is intact and goes on with the next entry
    Intr,
    /// not ready until that many octets have been written to this stream's other direction (a peer that sends the rest only
    /// after it has seen the answer to what it sent before)
    WaitOut(usize),
    /// the peer never sends anything more and never closes
    Never,
    /// not ready for that many milliseconds of REAL (wall-clock) time - for code that measures with std::time::Instant
    RealSleep(u64),
}

#[derive(Debug, Clone)]
pub enum WEv {
    Accept(usize),
    /// accepts octets, in whatever portions they are offered, until this many have been taken in total; then the next entry applies
    Budget(usize),
    Pending,
    Sleep(u64),
    Err,
    /// this write is interrupted (ErrorKind::Interrupted) without taking anything
    Intr,
    /// marker at the head of a script (`v`): the writer reports `is_write_vectored()`
    Gather,
    /// the peer takes nothing more, ever, and does not go away
    Never,
}

#[derive(Default)]
pub struct Shared {
    pub consumed: usize,
    pub received: Vec<u8>,
    pub read_polls: usize,
    pub write_polls: usize,
    /// how many times the writer reported its failure (the first report IS the failure; a further one means that a write
    /// was attempted on a stream whose write side had already failed)
    pub write_failures: usize,
    /// the reader, parked until the writer has taken more
    pub read_waker: Option<std::task::Waker>,
}

/// A reader that keeps polling after end of stream / a writer polled over and over without progress is a
/// busy loop (the future never completes although it is never Pending): reported as a panic of the case.
pub const SPIN_LIMIT: usize = 20_000;

pub struct ScriptStream {
    pub eof_polls: usize,
    pub r: VecDeque<REv>,
    pub w: VecDeque<WEv>,
    pub sh: Arc<Mutex<Shared>>,
    pub rsleep: Option<Pin<Box<tokio::time::Sleep>>>,
    pub wsleep: Option<Pin<Box<tokio::time::Sleep>>>,
    /// a writer that says it gathers (`is_write_vectored`, as `TcpStream` does): a caller may hand it several slices at once
    pub gathers: bool,
}

impl ScriptStream {
    pub fn new(r: VecDeque<REv>, mut w: VecDeque<WEv>, sh: Arc<Mutex<Shared>>) -> ScriptStream {
        let gathers = matches!(w.front(), Some(WEv::Gather));
        w.retain(|e| !matches!(e, WEv::Gather));
        ScriptStream { eof_polls: 0, r, w, sh, rsleep: None, wsleep: None, gathers }
    }
}

impl AsyncRead for ScriptStream {
    fn poll_read(mut self: Pin<&mut Self>, cx: &mut Context<'_>, buf: &mut ReadBuf<'_>) -> Poll<std::io::Result<()>> {
        let me = &mut *self;
        me.sh.lock().unwrap().read_polls += 1;
        while let Some(REv::Sleep(ms)) = me.r.front() {
            let ms = *ms;
            let sl = me.rsleep.get_or_insert_with(|| Box::pin(tokio::time::sleep(std::time::Duration::from_millis(ms))));
            match sl.as_mut().poll(cx) {
                Poll::Ready(()) => {
                    me.rsleep = None;
                    me.r.pop_front();
                }
                Poll::Pending => return Poll::Pending,
            }
        }
        match me.r.front_mut() {
            None | Some(REv::Eof) => {
                me.eof_polls += 1;
                if me.eof_polls > SPIN_LIMIT {
                    panic!("busy loop: the stream was polled {} times after it had reported end of file", me.eof_polls);
                }
                Poll::Ready(Ok(()))
            }
            Some(REv::Err) => {
                me.eof_polls += 1;
                if me.eof_polls > SPIN_LIMIT {
                    panic!("busy loop: the stream was polled {} times after it had reported an i/o error", me.eof_polls);
                }
                Poll::Ready(Err(std::io::Error::new(std::io::ErrorKind::ConnectionReset, "reset")))
            }
            Some(REv::Pending) => {
                me.r.pop_front();
                cx.waker().wake_by_ref();
                Poll::Pending
            }
            Some(REv::Intr) => {
                me.r.pop_front();
                Poll::Ready(Err(std::io::Error::new(std::io::ErrorKind::Interrupted, "interrupted")))
            }
            Some(REv::Sleep(_)) => unreachable!(),
            Some(REv::Never) => Poll::Pending,
            Some(REv::RealSleep(ms)) => {
                std::thread::sleep(std::time::Duration::from_millis(*ms));
                me.r.pop_front();
                cx.waker().wake_by_ref();
                Poll::Pending
            }
            Some(REv::WaitOut(n)) => {
                let n = *n;
                let mut sh = me.sh.lock().unwrap();
                if sh.received.len() >= n {
                    drop(sh);
                    me.r.pop_front();
                    cx.waker().wake_by_ref();
                } else {
                    sh.read_waker = Some(cx.waker().clone());
                }
                Poll::Pending
            }
            Some(REv::Chunk(bs)) => {
                if bs.is_empty() {
                    me.r.pop_front();
                    return Poll::Ready(Ok(()));
                }
                let n = buf.remaining().min(bs.len());
                if me.sh.lock().unwrap().read_polls % 2 == 0 {
                    // the way TLS streams fill a ReadBuf (tokio-native-tls, tokio-rustls): initialise ALL of the unfilled part, hand it to
                    // a synchronous read as a plain slice, then advance by what was read - `initialized()` runs ahead of `filled()`
                    let unfilled = buf.initialize_unfilled();
                    unfilled[..n].copy_from_slice(&bs[..n]);
                    buf.advance(n);
                } else {
                    buf.put_slice(&bs[..n]);
                }
                bs.drain(..n);
                if bs.is_empty() {
                    me.r.pop_front();
                }
                me.sh.lock().unwrap().consumed += n;
                Poll::Ready(Ok(()))
            }
        }
    }
}

impl AsyncWrite for ScriptStream {
    fn poll_write(mut self: Pin<&mut Self>, cx: &mut Context<'_>, buf: &[u8]) -> Poll<std::io::Result<usize>> {
        let me = &mut *self;
        me.sh.lock().unwrap().write_polls += 1;
        while let Some(WEv::Sleep(ms)) = me.w.front() {
            let ms = *ms;
            let sl = me.wsleep.get_or_insert_with(|| Box::pin(tokio::time::sleep(std::time::Duration::from_millis(ms))));
            match sl.as_mut().poll(cx) {
                Poll::Ready(()) => {
                    me.wsleep = None;
                    me.w.pop_front();
                }
                Poll::Pending => return Poll::Pending,
            }
        }
        match me.w.front() {
            None => {
                let mut sh = me.sh.lock().unwrap();
                sh.received.extend_from_slice(buf);
                if let Some(w) = sh.read_waker.take() {
                    w.wake();
                }
                Poll::Ready(Ok(buf.len()))
            }
            Some(WEv::Err) => {
                me.sh.lock().unwrap().write_failures += 1;
                Poll::Ready(Err(std::io::Error::new(std::io::ErrorKind::BrokenPipe, "broken pipe")))
            }
            Some(WEv::Pending) => {
                me.w.pop_front();
                cx.waker().wake_by_ref();
                Poll::Pending
            }
            Some(WEv::Intr) => {
                me.w.pop_front();
                me.sh.lock().unwrap().write_failures += 1;
                Poll::Ready(Err(std::io::Error::new(std::io::ErrorKind::Interrupted, "interrupted")))
            }
            Some(WEv::Sleep(_)) | Some(WEv::Gather) => unreachable!(),
            Some(WEv::Never) => Poll::Pending,
            Some(WEv::Accept(k)) => {
                let n = (*k).min(buf.len());
                me.w.pop_front();
                let mut sh = me.sh.lock().unwrap();
                sh.received.extend_from_slice(&buf[..n]);
                if let Some(w) = sh.read_waker.take() {
                    w.wake();
                }
                Poll::Ready(Ok(n))
            }
            Some(WEv::Budget(_)) => {
                // how the caller chops its writes does not matter: exactly the budgeted number of octets gets through
                loop {
                    match me.w.front_mut() {
                        Some(WEv::Budget(rem)) if *rem == 0 => {
                            me.w.pop_front();
                        }
                        Some(WEv::Budget(rem)) => {
                            let n = (*rem).min(buf.len());
                            *rem -= n;
                            let mut sh = me.sh.lock().unwrap();
                            sh.received.extend_from_slice(&buf[..n]);
                            if let Some(w) = sh.read_waker.take() {
                                w.wake();
                            }
                            return Poll::Ready(Ok(n));
                        }
                        Some(WEv::Err) => {
                            me.sh.lock().unwrap().write_failures += 1;
                            return Poll::Ready(Err(std::io::Error::new(std::io::ErrorKind::BrokenPipe, "broken pipe")));
                        }
                        _ => {
                            cx.waker().wake_by_ref();
                            return Poll::Pending;
                        }
                    }
                }
            }
        }
    }
    fn poll_flush(self: Pin<&mut Self>, _cx: &mut Context<'_>) -> Poll<std::io::Result<()>> {
        Poll::Ready(Ok(()))
    }
    fn poll_shutdown(self: Pin<&mut Self>, _cx: &mut Context<'_>) -> Poll<std::io::Result<()>> {
        // the peer is gone by the time anybody could want to shut this direction down: ENOTCONN, as a socket says then
        Poll::Ready(Err(std::io::Error::new(std::io::ErrorKind::NotConnected, "not connected")))
    }
    fn is_write_vectored(&self) -> bool {
        self.gathers
    }
    fn poll_write_vectored(self: Pin<&mut Self>, cx: &mut Context<'_>, bufs: &[std::io::IoSlice<'_>]) -> Poll<std::io::Result<usize>> {
        if !self.gathers {
            // the default of the trait: the first non-empty slice
            let buf = bufs.iter().find(|b| !b.is_empty()).map_or(&[][..], |b| &**b);
            return self.poll_write(cx, buf);
        }
        let joined: Vec<u8> = bufs.iter().flat_map(|b| b.iter().copied()).collect();
        self.poll_write(cx, &joined)
    }
}

pub fn parse_rscript(t: &mut Toks) -> PResult<VecDeque<REv>> {
    let n = t.usize_dec()?;
    let mut v = VecDeque::new();
    for _ in 0..n {
        let s = t.next()?;
        v.push_back(match s {
            "p" => REv::Pending,
            "e" => REv::Eof,
            "x" => REv::Err,
            "i" => REv::Intr,
            "n" => REv::Never,
            _ => {
                if let Some(h) = s.strip_prefix("c:") {
                    REv::Chunk(unhex(&format!("x{}", h))?)
                } else if let Some(h) = s.strip_prefix("t:") {
                    REv::Sleep(u64::from_str_radix(h, 16).map_err(|e| e.to_string())?)
                } else if let Some(h) = s.strip_prefix("r:") {
                    REv::RealSleep(u64::from_str_radix(h, 16).map_err(|e| e.to_string())?)
                } else if let Some(h) = s.strip_prefix("w:") {
                    REv::WaitOut(usize::from_str_radix(h, 16).map_err(|e| e.to_string())?)
                } else {
                    return Err(format!("rev {}", s));
                }
            }
        });
    }
    Ok(v)
}

pub fn parse_wscript(t: &mut Toks) -> PResult<VecDeque<WEv>> {
    let n = t.usize_dec()?;
    let mut v = VecDeque::new();
    for _ in 0..n {
        let s = t.next()?;
        v.push_back(match s {
            "p" => WEv::Pending,
            "x" => WEv::Err,
            "i" => WEv::Intr,
            "v" => WEv::Gather,
            _ => {
                if let Some(h) = s.strip_prefix("a:") {
                    WEv::Accept(usize::from_str_radix(h, 16).map_err(|e| e.to_string())?)
                } else if let Some(h) = s.strip_prefix("b:") {
                    WEv::Budget(usize::from_str_radix(h, 16).map_err(|e| e.to_string())?)
                } else if let Some(h) = s.strip_prefix("t:") {
                    WEv::Sleep(u64::from_str_radix(h, 16).map_err(|e| e.to_string())?)
                } else {
                    return Err(format!("wev {}", s));
                }
            }
        });
    }
    Ok(v)
}

fn runtime() -> tokio::runtime::Runtime {
    tokio::runtime::Builder::new_current_thread()
        .enable_all()
        .start_paused(true)
        .build()
        .expect("runtime")
}

/// a current-thread runtime with the I/O driver only (no time driver): what `Builder::new_current_thread().enable_io()` gives
fn run_without_time<F: std::future::Future>(fut: F) -> std::result::Result<F::Output, String> {
    let r = catch_unwind(AssertUnwindSafe(|| {
        let rt = tokio::runtime::Builder::new_current_thread().enable_io().build().expect("runtime");
        rt.block_on(fut)
    }));
    r.map_err(|p| p.downcast_ref::<String>().cloned().or_else(|| p.downcast_ref::<&str>().map(|s| s.to_string())).unwrap_or_else(|| "panic".into()))
}

/// runs a future to completion under paused time; None = it never completed (hang)
fn run_to_end<F: std::future::Future>(fut: F) -> std::result::Result<Option<F::Output>, String> {
    let r = catch_unwind(AssertUnwindSafe(|| {
        let rt = runtime();
        rt.block_on(async move {
            match tokio::time::timeout(std::time::Duration::from_secs(86400 * 365), fut).await {
                Ok(v) => Some(v),
                Err(_) => None,
            }
        })
    }));
    r.map_err(|p| {
        if let Some(s) = p.downcast_ref::<String>() {
            s.clone()
        } else if let Some(s) = p.downcast_ref::<&str>() {
            s.to_string()
        } else {
            "panic".into()
        }
    })
}

/// as run_to_end, but the future runs as a SPAWNED task of the (current-thread, paused) runtime - the way connection code runs
/// in a program - and not as the root future of block_on, which tokio treats differently in places (block_in_place, budgets)
fn run_to_end_spawned<F>(fut: F) -> std::result::Result<Option<F::Output>, String>
where
    F: std::future::Future + Send + 'static,
    F::Output: Send + 'static,
{
    let rt = runtime();
    rt.block_on(async move {
        let jh = tokio::spawn(fut);
        match tokio::time::timeout(std::time::Duration::from_secs(86400 * 365), jh).await {
            Ok(Ok(v)) => Ok(Some(v)),
            Ok(Err(e)) => {
                if e.is_panic() {
                    let p = e.into_panic();
                    Err(p.downcast_ref::<String>().cloned().or_else(|| p.downcast_ref::<&str>().map(|s| s.to_string())).unwrap_or_else(|| "panic".into()))
                } else {
                    Err("task cancelled".into())
                }
            }
            Err(_) => Ok(None),
        }
    })
}

fn is_eof(e: &diameter::error::Error) -> bool {
    matches!(e, diameter::error::Error::IoError(io) if io.kind() == std::io::ErrorKind::UnexpectedEof)
}

/// SD <dict> <k> <rscript>: k successive Codec::decode calls on one scripted reader
pub fn decode_n(st: &State, t: &mut Toks) -> PResult<String> {
    decode_n_on(st, t, false)
}

/// SDN: as SD, on a runtime that has no time driver (scripts without timed pauses)
pub fn decode_n_notime(st: &State, t: &mut Toks) -> PResult<String> {
    decode_n_on(st, t, true)
}

/// SE2 <history A> <wscript A> <history B>: two messages written to two streams by two futures of one thread; stream A takes what its
/// script says (and may stall for a long time), stream B takes everything at once.  Output: both SE observations and the (virtual)
/// millisecond at which B's encode returned - a stalled stream is its own business.
pub fn encode_two(st: &State, t: &mut Toks) -> PResult<String> {
    let ma = match build_history_pub(st, t)? { Ok(m) => m, Err(l) => return Ok(format!("SE2 build-failed {}", l)) };
    let wa = parse_wscript(t)?;
    let mb = match build_history_pub(st, t)? { Ok(m) => m, Err(l) => return Ok(format!("SE2 build-failed {}", l)) };
    let sha = Arc::new(Mutex::new(Shared::default()));
    let shb = Arc::new(Mutex::new(Shared::default()));
    let mut a = ScriptStream::new(VecDeque::new(), wa, Arc::clone(&sha));
    let mut b = ScriptStream::new(VecDeque::new(), VecDeque::new(), Arc::clone(&shb));
    let res = run_to_end(async move {
        let t0 = tokio::time::Instant::now();
        let fa = async { Codec::encode(&mut a, &ma).await.is_ok() };
        let fb = async {
            tokio::task::yield_now().await;
            let ok = Codec::encode(&mut b, &mb).await.is_ok();
            (ok, t0.elapsed().as_millis())
        };
        tokio::join!(fa, fb)
    });
    let mut o = String::from("SE2 ");
    match res {
        Ok(Some((oka, (okb, at)))) => {
            let _ = write!(o, "A {} ", if oka { "ok" } else { "err" });
            hex(&mut o, &sha.lock().unwrap().received);
            let _ = write!(o, " B {} ", if okb { "ok" } else { "err" });
            hex(&mut o, &shb.lock().unwrap().received);
            let _ = write!(o, " B@{}", at);
        }
        Ok(None) => o.push_str("HANG"),
        Err(p) => { let _ = write!(o, "PANIC {}", p.replace('\n', " ")); }
    }
    Ok(o)
}

/// SD2 <dict> <k1> <rscript1> <k2> <rscript2>: two streams decoded side by side by two futures of ONE thread (`join!`): wherever
/// one of them is not ready, the other goes on.  Output: the two SD observations, separated by " || ".
pub fn decode_two(st: &State, t: &mut Toks) -> PResult<String> {
    let dict = st.dicts.get(t.next()?).ok_or_else(|| "unknown dict".to_string())?.clone();
    let mut parts = Vec::new();
    for _ in 0..2 {
        let k = t.usize_dec()?;
        let rs = parse_rscript(t)?;
        parts.push((k, rs));
    }
    let outs: Vec<Arc<Mutex<String>>> = (0..2).map(|_| Arc::new(Mutex::new(String::from("SD")))).collect();
    let shs: Vec<Arc<Mutex<Shared>>> = (0..2).map(|_| Arc::new(Mutex::new(Shared::default()))).collect();
    let mut futs = Vec::new();
    for (i, (k, rs)) in parts.into_iter().enumerate() {
        let dict = Arc::clone(&dict);
        let out = Arc::clone(&outs[i]);
        let sh = Arc::clone(&shs[i]);
        let mut stream = ScriptStream::new(rs, VecDeque::new(), Arc::clone(&sh));
        futs.push(async move {
            for _ in 0..k {
                let r = Codec::decode(&mut stream, Arc::clone(&dict)).await;
                let mut o = out.lock().unwrap();
                match r {
                    Ok(m) => {
                        o.push_str(" [OK ");
                        obs_msg(&mut o, &m);
                    }
                    Err(e) => {
                        o.push_str(if is_eof(&e) { " [EOF" } else { " [ERR" });
                    }
                }
                let _ = write!(o, " @{}]", sh.lock().unwrap().consumed);
            }
        });
    }
    let f2 = futs.pop().unwrap();
    let f1 = futs.pop().unwrap();
    let res = run_to_end(async move {
        tokio::join!(f1, f2);
    });
    let mut o = format!("{} || {}", outs[0].lock().unwrap(), outs[1].lock().unwrap());
    match res {
        Ok(Some(())) => {}
        Ok(None) => o.push_str(" HANG"),
        Err(p) => {
            let _ = write!(o, " [PANIC] {}", p.replace('\n', " "));
        }
    }
    Ok(o)
}

/// SDX <dict> <k> <rscript>: as SD, without any runtime: the future is polled by hand, every poll on a FRESH OS thread (a task of a
/// work-stealing runtime resumes on whichever worker picks it up).  Scripts with timed pauses are not run this way.
pub fn decode_n_hopping(st: &State, t: &mut Toks) -> PResult<String> {
    use std::task::{RawWaker, RawWakerVTable, Waker};
    let dict = st.dicts.get(t.next()?).ok_or_else(|| "unknown dict".to_string())?.clone();
    let k = t.usize_dec()?;
    let rs = parse_rscript(t)?;
    let sh = Arc::new(Mutex::new(Shared::default()));
    let mut stream = ScriptStream::new(rs, VecDeque::new(), Arc::clone(&sh));
    let sh2 = Arc::clone(&sh);
    let out = Arc::new(Mutex::new(String::from("SD")));
    let out2 = Arc::clone(&out);
    let mut fut: Pin<Box<dyn std::future::Future<Output = ()> + Send>> = Box::pin(async move {
        for _ in 0..k {
            let r = Codec::decode(&mut stream, Arc::clone(&dict)).await;
            let mut o = out2.lock().unwrap();
            match r {
                Ok(m) => {
                    o.push_str(" [OK ");
                    obs_msg(&mut o, &m);
                }
                Err(e) => {
                    o.push_str(if is_eof(&e) { " [EOF" } else { " [ERR" });
                }
            }
            let _ = write!(o, " @{}]", sh2.lock().unwrap().consumed);
        }
    });
    fn noop_raw() -> RawWaker {
        fn clone(_: *const ()) -> RawWaker { noop_raw() }
        fn noop(_: *const ()) {}
        static VT: RawWakerVTable = RawWakerVTable::new(clone, noop, noop, noop);
        RawWaker::new(std::ptr::null(), &VT)
    }
    let mut polls = 0usize;
    let res: std::result::Result<bool, String> = loop {
        polls += 1;
        if polls > SPIN_LIMIT {
            break Ok(false);
        }
        let h = std::thread::spawn(move || {
            let waker = unsafe { Waker::from_raw(noop_raw()) };
            let mut cx = Context::from_waker(&waker);
            let r = catch_unwind(AssertUnwindSafe(|| fut.as_mut().poll(&mut cx).is_ready()));
            (fut, r)
        });
        match h.join() {
            Ok((f, Ok(ready))) => {
                fut = f;
                if ready {
                    break Ok(true);
                }
            }
            Ok((_, Err(p))) => break Err(p.downcast_ref::<String>().cloned().or_else(|| p.downcast_ref::<&str>().map(|s| s.to_string())).unwrap_or_else(|| "panic".into())),
            Err(_) => break Err("poll thread died".into()),
        }
    };
    let mut o = out.lock().unwrap().clone();
    match res {
        Ok(true) => {}
        Ok(false) => o.push_str(" HANG"),
        Err(p) => {
            let _ = write!(o, " [PANIC @{}] {}", sh.lock().unwrap().consumed, p.replace('\n', " "));
        }
    }
    Ok(o)
}

/// SDP: as SD, while 40 other decodes of the same process (same runtime) are parked in the middle of a frame body: each has
/// read a legal prefix announcing 1000 octets and 30 octets of body, and its peer sends nothing more
pub fn decode_n_parked(st: &State, t: &mut Toks) -> PResult<String> {
    decode_n_full(st, t, false, 40)
}

fn decode_n_on(st: &State, t: &mut Toks, notime: bool) -> PResult<String> {
    decode_n_full(st, t, notime, 0)
}

fn decode_n_full(st: &State, t: &mut Toks, notime: bool, parked: usize) -> PResult<String> {
    let dict = st.dicts.get(t.next()?).ok_or_else(|| "unknown dict".to_string())?.clone();
    let k = t.usize_dec()?;
    let rs = parse_rscript(t)?;
    let sh = Arc::new(Mutex::new(Shared::default()));
    let mut stream = ScriptStream::new(rs, VecDeque::new(), Arc::clone(&sh));
    let sh2 = Arc::clone(&sh);
    let out = Arc::new(Mutex::new(String::from("SD")));
    let out2 = Arc::clone(&out);
    let spawned = (k + stream.r.len()) % 2 == 1;
    let no_time = notime && !stream.r.iter().any(|e| matches!(e, REv::Sleep(_)));
    let fut = async move {
        let mut others = Vec::new();
        for j in 0..parked {
            let d = Arc::clone(&dict);
            let mut first = vec![1u8, 0, 3, 0xe8];
            first.extend(std::iter::repeat(j as u8).take(30));
            let script: VecDeque<REv> = vec![REv::Chunk(first), REv::Never].into();
            let mut other = ScriptStream::new(script, VecDeque::new(), Arc::new(Mutex::new(Shared::default())));
            others.push(tokio::spawn(async move {
                let _ = Codec::decode(&mut other, d).await;
            }));
        }
        for _ in 0..4 * parked.min(1) {
            tokio::task::yield_now().await;
        }
        for _ in 0..k {
            let r = Codec::decode(&mut stream, Arc::clone(&dict)).await;
            let mut o = out2.lock().unwrap();
            match r {
                Ok(m) => {
                    o.push_str(" [OK ");
                    obs_msg(&mut o, &m);
                }
                Err(e) => {
                    o.push_str(if is_eof(&e) { " [EOF" } else { " [ERR" });
                }
            }
            let _ = write!(o, " @{}]", sh2.lock().unwrap().consumed);
        }
        for h in others {
            h.abort();
        }
    };
    let res = if no_time { run_without_time(fut).map(Some) } else if spawned { run_to_end_spawned(fut) } else { run_to_end(fut) };
    let mut o = out.lock().unwrap().clone();
    match res {
        Ok(Some(())) => {}
        Ok(None) => o.push_str(" HANG"),
        Err(p) => {
            let _ = write!(o, " [PANIC @{}] {}", sh.lock().unwrap().consumed, p.replace('\n', " "));
        }
    }
    Ok(o)
}

/// SE <dict> <history> <wscript>: Codec::encode into a scripted writer
pub fn encode_1(st: &State, t: &mut Toks) -> PResult<String> {
    let m = match build_history_pub(st, t)? {
        Err(line) => return Ok(line),
        Ok(m) => m,
    };
    let ws = parse_wscript(t)?;
    let sh = Arc::new(Mutex::new(Shared::default()));
    let mut stream = ScriptStream::new(VecDeque::new(), ws, Arc::clone(&sh));
    let spawned = (stream.w.len() + m.get_avps().len()) % 2 == 1;
    let fut = async move { Codec::encode(&mut stream, &m).await.is_ok() };
    let res = if spawned { run_to_end_spawned(fut) } else { run_to_end(fut) };
    let mut o = String::from("SE ");
    match res {
        Ok(Some(true)) => o.push_str("ok "),
        Ok(Some(false)) => o.push_str("err "),
        Ok(None) => o.push_str("HANG "),
        Err(p) => {
            let _ = write!(o, "PANIC {} ", p.replace('\n', " ").replace(' ', "_"));
        }
    }
    hex(&mut o, &sh.lock().unwrap().received);
    Ok(o)
}

pub enum Ans {
    Msg(DiameterMessage),
    Fail,
}

/// read side: the same request frame n times, generated on the fly; write side: counts what it is given
struct GenStream {
    frame: Vec<u8>,
    left: usize,
    off: usize,
    written: Arc<Mutex<(usize, usize)>>, // (octets, non-answer octets)
}
impl AsyncRead for GenStream {
    fn poll_read(mut self: Pin<&mut Self>, _cx: &mut Context<'_>, buf: &mut ReadBuf<'_>) -> Poll<std::io::Result<()>> {
        let me = &mut *self;
        if me.left == 0 {
            return Poll::Ready(Ok(()));
        }
        let n = buf.remaining().min(me.frame.len() - me.off);
        buf.put_slice(&me.frame[me.off..me.off + n]);
        me.off += n;
        if me.off == me.frame.len() {
            me.off = 0;
            me.left -= 1;
        }
        Poll::Ready(Ok(()))
    }
}
impl AsyncWrite for GenStream {
    fn poll_write(self: Pin<&mut Self>, _cx: &mut Context<'_>, buf: &[u8]) -> Poll<std::io::Result<usize>> {
        self.written.lock().unwrap().0 += buf.len();
        Poll::Ready(Ok(buf.len()))
    }
    fn poll_flush(self: Pin<&mut Self>, _cx: &mut Context<'_>) -> Poll<std::io::Result<()>> {
        Poll::Ready(Ok(()))
    }
    fn poll_shutdown(self: Pin<&mut Self>, _cx: &mut Context<'_>) -> Poll<std::io::Result<()>> {
        Poll::Ready(Ok(()))
    }
}

/// SVBIG <n> <size>: one served connection carrying n requests of `size` octets each (more than 4 GiB in all when asked):
/// every request is handled and answered, whatever the total
pub fn serve_big(st: &State, t: &mut Toks) -> PResult<String> {
    let dict = st.dicts.get("b").ok_or_else(|| "dict b missing".to_string())?.clone();
    let n = t.usize_dec()?;
    let size = t.u64()? as usize;
    let mut req = DiameterMessage::new(diameter::CommandCode::CreditControl, diameter::ApplicationId::CreditControl, 0x80, 1, 2, Arc::clone(&dict));
    req.add_avp(25, None, 0, diameter::avp::OctetString::new(vec![0x33; size.saturating_sub(28)]).into());
    let mut frame = Vec::new();
    req.encode_to(&mut frame).map_err(|e| format!("{:?}", e))?;
    let flen = frame.len();
    let written = Arc::new(Mutex::new((0usize, 0usize)));
    let stream = GenStream { frame, left: n, off: 0, written: Arc::clone(&written) };
    let calls = Arc::new(std::sync::atomic::AtomicUsize::new(0));
    let calls2 = Arc::clone(&calls);
    let d2 = Arc::clone(&dict);
    let handler = move |req: DiameterMessage| {
        let calls = Arc::clone(&calls2);
        let d = Arc::clone(&d2);
        async move {
            calls.fetch_add(1, std::sync::atomic::Ordering::SeqCst);
            let mut a = DiameterMessage::new(req.get_command_code(), req.get_application_id(), 0, req.get_hop_by_hop_id(), req.get_end_to_end_id(), d);
            a.add_avp(268, None, 0x40, diameter::avp::Unsigned32::new(2001).into());
            Ok(a)
        }
    };
    let dict2 = Arc::clone(&dict);
    let res = run_to_end_spawned(async move { DiameterServer::verif_serve_stream(stream, handler, dict).await.is_ok() });
    let r = match res {
        Ok(Some(true)) => "closed".to_string(),
        Ok(Some(false)) => "failed".to_string(),
        Ok(None) => "HANG".to_string(),
        Err(p) => format!("panicked:{}", p.replace('\n', " ").replace(' ', "_")),
    };
    // ... and afterwards, in the same process: frames with hostile announced lengths are still refused with an error (whatever
    // the process has counted while reading 4 GiB)
    let mut hostile = String::new();
    for pre in [[1u8, 0x10, 0, 4], [1, 0, 0, 3], [1, 0xff, 0xff, 0xff]] {
        let d = Arc::clone(&dict2);
        let mut data = pre.to_vec();
        data.extend_from_slice(&[0u8; 64]);
        let script: VecDeque<REv> = vec![REv::Chunk(data), REv::Eof].into();
        let mut stream = ScriptStream::new(script, VecDeque::new(), Arc::new(Mutex::new(Shared::default())));
        let res = run_to_end(async move { Codec::decode(&mut stream, d).await.is_ok() });
        hostile.push_str(match res {
            Ok(Some(false)) => "e",
            Ok(Some(true)) => "A",
            Ok(None) => "H",
            Err(_) => "P",
        });
    }
    Ok(format!("SVBIG {} calls={} written={} frame={} hostile={}", r, calls.load(std::sync::atomic::Ordering::SeqCst), written.lock().unwrap().0, flen, hostile))
}

/// SV <dict> <rscript> <wscript> <nanswers> (A <history> | F)*: the per-connection loop
pub fn serve(st: &State, t: &mut Toks) -> PResult<String> {
    serve_with(st, t, 0)
}

/// SVP: as SV, while 70 other connections of the process are stuck writing their answers to peers that have stopped reading
pub fn serve_parked(st: &State, t: &mut Toks) -> PResult<String> {
    serve_with(st, t, 70)
}

fn serve_with(st: &State, t: &mut Toks, parked: usize) -> PResult<String> {
    let dictname = t.next()?.to_string();
    let dict = st.dicts.get(&dictname).ok_or_else(|| "unknown dict".to_string())?.clone();
    let rs = parse_rscript(t)?;
    let ws = parse_wscript(t)?;
    let na = t.usize_dec()?;
    let mut answers = Vec::new();
    // Z <ms> in front of an answer: the handler is not ready at once - it yields to the scheduler three times (0) or
    // sleeps that many milliseconds of (virtual) time - before it returns that answer
    let mut delays: Vec<Option<u64>> = Vec::new();
    for _ in 0..na {
        let mut tok = t.next()?;
        let mut delay = None;
        if tok == "Z" {
            delay = Some(t.u64()?);
            tok = t.next()?;
        }
        delays.push(delay);
        match tok {
            "F" => answers.push(Ans::Fail),
            "A" => {
                // the history names its own dictionary
                match build_history_pub(st, t)? {
                    Ok(m) => answers.push(Ans::Msg(m)),
                    Err(l) => return Err(format!("answer history failed: {}", l)),
                }
            }
            s => return Err(format!("answer {}", s)),
        }
    }
    let sh = Arc::new(Mutex::new(Shared::default()));
    let stream = ScriptStream::new(rs, ws, Arc::clone(&sh));
    let calls: Arc<Mutex<Vec<String>>> = Arc::new(Mutex::new(Vec::new()));
    let answers = Arc::new(Mutex::new(answers.into_iter().map(Some).collect::<Vec<_>>()));
    let calls2 = Arc::clone(&calls);
    let delays = Arc::new(delays);
    let handler = move |req: DiameterMessage| {
        let calls = Arc::clone(&calls2);
        let answers = Arc::clone(&answers);
        let delays = Arc::clone(&delays);
        async move {
            let idx = {
                let mut c = calls.lock().unwrap();
                let mut s = String::new();
                obs_msg(&mut s, &req);
                c.push(s);
                c.len() - 1
            };
            let a = answers.lock().unwrap().get_mut(idx).and_then(|x| x.take());
            match delays.get(idx).copied().flatten() {
                Some(0) => {
                    for _ in 0..3 {
                        tokio::task::yield_now().await;
                    }
                }
                Some(ms) => tokio::time::sleep(std::time::Duration::from_millis(ms)).await,
                None => {}
            }
            match a {
                Some(Ans::Msg(m)) => Ok(m),
                _ => Err(diameter::error::Error::ServerError("handler failed".into())),
            }
        }
    };
    let res = run_to_end(async move {
        let mut others = Vec::new();
        for j in 0..parked {
            let d = Arc::clone(&dict);
            let d3 = Arc::clone(&dict);
            // a request of 20 octets (header only), and a peer that takes nothing of the answer, ever
            let first = vec![1u8, 0, 0, 20, 0x80, 0, 1, 16, 0, 0, 0, 4, 0, 0, 0, j as u8, 0, 0, 0, 2];
            let script: VecDeque<REv> = vec![REv::Chunk(first), REv::Never].into();
            let wscript: VecDeque<WEv> = vec![WEv::Never].into();
            let other = ScriptStream::new(script, wscript, Arc::new(Mutex::new(Shared::default())));
            others.push(tokio::spawn(async move {
                let h = move |req: DiameterMessage| {
                    let d = Arc::clone(&d3);
                    async move { Ok::<DiameterMessage, diameter::error::Error>(DiameterMessage::new(req.get_command_code(), req.get_application_id(), 0, req.get_hop_by_hop_id(), req.get_end_to_end_id(), d)) }
                };
                let _ = DiameterServer::verif_serve_stream(other, h, d).await;
            }));
        }
        for _ in 0..6 * parked.min(1) {
            tokio::task::yield_now().await;
        }
        let r = DiameterServer::verif_serve_stream(stream, handler, dict).await;
        for h in others {
            h.abort();
        }
        r
    });
    let mut o = String::from("SV ");
    match res {
        Ok(Some(Ok(()))) => o.push_str("closed"),
        Ok(Some(Err(_))) => o.push_str("failed"),
        Ok(None) => o.push_str("HANG"),
        Err(p) => {
            let _ = write!(o, "panicked:{}", p.replace('\n', " ").replace(' ', "_"));
        }
    }
    let c = calls.lock().unwrap();
    let _ = write!(o, " CALLS {}", c.len());
    for s in c.iter() {
        o.push_str(" [");
        o.push_str(s);
        o.push(']');
    }
    o.push_str(" WRITTEN ");
    let s = sh.lock().unwrap();
    hex(&mut o, &s.received);
    let _ = write!(o, " CONSUMED {}", s.consumed);
    if s.write_failures > 1 {
        let _ = write!(o, " WAFTER {}", s.write_failures - 1);
    }
    Ok(o)
}
