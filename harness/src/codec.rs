//! Engine `codec`: runs the library's pure codec, builder, accessors and dictionary on the
//! cases the orchestrator sends, one observation line per case line.

use crate::proto::*;
use diameter::avp::*;
use diameter::dictionary::Dictionary;
use diameter::{ApplicationId, CommandCode, DiameterMessage};
use std::collections::HashMap;
use std::fmt::Write as _;
use std::io::Cursor;
use std::panic::{catch_unwind, AssertUnwindSafe};

pub struct State {
    pub dicts: HashMap<String, Arc<Dictionary>>,
}

fn enc_obs(out: &mut String, m: &DiameterMessage) {
    let mut buf = Vec::new();
    let first = m.encode_to(&mut buf).is_ok();
    if first {
        out.push_str(" ENC ");
        hex(out, &buf);
    } else {
        out.push_str(" ENC ERR");
    }
    // encoding is a function of the message: asked again, the same object must give the same answer
    // (a value or message that caches its wire image, or scratch state kept between calls, would not)
    let mut buf2 = Vec::new();
    let second = m.encode_to(&mut buf2).is_ok();
    if second != first || (first && buf2 != buf) {
        out.push_str(" ENC2DIFF ");
        if second {
            hex(out, &buf2[..buf2.len().min(64)]);
        } else {
            out.push_str("ERR");
        }
        return;
    }
    // ... and whatever portions the writer takes them in: a sink that accepts one octet per write() call
    // (std::io::Write allows short writes; write_all exists to deal with them)
    let mut w = OneOctet(Vec::new());
    let third = m.encode_to(&mut w).is_ok();
    if third != first || (first && w.0 != buf) {
        let _ = write!(out, " ENC2DIFF one-octet-writer:{}:{}", third as u8, w.0.len());
        return;
    }
    // ... and through the transport's Codec::encode (what a connection puts on its stream for this message)
    let fourth = RT.with(|rt| {
        rt.block_on(async {
            let mut v: Vec<u8> = Vec::new();
            match diameter::transport::Codec::encode(&mut v, m).await {
                Ok(()) => Some(v),
                Err(_) => None,
            }
        })
    });
    match fourth {
        Some(v) if first && v == buf => {}
        None if !first => {}
        Some(v) => {
            let _ = write!(out, " ENC2DIFF codec-encode:1:{}", v.len());
        }
        None => out.push_str(" ENC2DIFF codec-encode:0:0"),
    }
}

thread_local! {
    static RT: tokio::runtime::Runtime = tokio::runtime::Builder::new_current_thread().enable_all().build().expect("runtime");
}

/// every chunk written goes out as <Unsigned32 length, encoded with this library> <chunk>
struct LengthPrefixed(Vec<u8>);
impl std::io::Write for LengthPrefixed {
    fn write(&mut self, b: &[u8]) -> std::io::Result<usize> {
        Unsigned32::new(b.len() as u32).encode_to(&mut self.0).map_err(|_| std::io::Error::new(std::io::ErrorKind::Other, "prefix"))?;
        self.0.extend_from_slice(b);
        Ok(b.len())
    }
    fn flush(&mut self) -> std::io::Result<()> {
        Ok(())
    }
}

struct OneOctet(Vec<u8>);
impl std::io::Write for OneOctet {
    fn write(&mut self, b: &[u8]) -> std::io::Result<usize> {
        if b.is_empty() {
            return Ok(0);
        }
        self.0.push(b[0]);
        Ok(1)
    }
    fn flush(&mut self) -> std::io::Result<()> {
        Ok(())
    }
}

type DecodeJob = (Vec<u8>, Arc<Dictionary>, u8, std::sync::mpsc::Sender<std::result::Result<diameter::Result<DiameterMessage>, String>>);

thread_local! {
    static DECODER: std::cell::RefCell<Option<std::sync::mpsc::Sender<DecodeJob>>> = std::cell::RefCell::new(None);
}

fn decoder_thread() -> std::result::Result<std::sync::mpsc::Sender<DecodeJob>, String> {
    let (tx, rx) = std::sync::mpsc::channel::<DecodeJob>();
    std::thread::Builder::new()
        .stack_size(2 * 1024 * 1024)
        .spawn(move || {
            let rt = tokio::runtime::Builder::new_current_thread().enable_all().build().expect("runtime");
            for (bytes, dict, via_codec, back) in rx {
                let r = catch_unwind(AssertUnwindSafe(|| {
                    if via_codec == 1 {
                        // the way a connection obtains a message: Codec::decode from an (in-memory) stream
                        let mut rd: &[u8] = &bytes;
                        rt.block_on(diameter::transport::Codec::decode(&mut rd, dict))
                    } else if via_codec == 2 {
                        // the frame does not start at position 0 of its reader (a capture file, a buffer with a prefix)
                        let mut buf = vec![0x5au8; 7];
                        buf.extend_from_slice(&bytes);
                        let mut cur = Cursor::new(buf);
                        cur.set_position(7);
                        DiameterMessage::decode_from(&mut cur, dict)
                    } else if via_codec == 3 {
                        // a buffered reader over a capture (a BufReader over a file) in which the frame does not start at a buffer boundary: its read() hands out
                        // what is left in its buffer - often less than asked for - and the frame straddles the buffer's end
                        let cap = [64usize, 8192][bytes.len() % 2];
                        let lead = (cap - (bytes.len() / 3) % cap.min(bytes.len().max(1))) % cap;
                        let mut buf = vec![0x5au8; lead];
                        buf.extend_from_slice(&bytes);
                        // (nothing behind the frame: what a decoder does with octets beyond the frame it was given is the XM family's
                        // business - and the known finding KF-1's)
                        let mut rd = std::io::BufReader::with_capacity(cap, Cursor::new(buf));
                        let mut skip = vec![0u8; lead];
                        let _ = std::io::Read::read_exact(&mut rd, &mut skip);
                        DiameterMessage::decode_from(&mut rd, dict)
                    } else {
                        let mut cur = Cursor::new(bytes);
                        DiameterMessage::decode_from(&mut cur, dict)
                    }
                }));
                let r = r.map_err(|e| {
                    if let Some(s) = e.downcast_ref::<String>() {
                        s.clone()
                    } else if let Some(s) = e.downcast_ref::<&str>() {
                        s.to_string()
                    } else {
                        "panic".to_string()
                    }
                });
                let _ = back.send(r);
            }
        })
        .map_err(|e| format!("spawn: {}", e))?;
    Ok(tx)
}

/// Decodes on a thread with an ordinary 2 MiB stack; a panic is reported as Err(text).  The thread is long-lived -
/// one worker decodes every frame of this process, like a connection task of a server does - so that whatever the
/// library keeps between calls on a thread (scratch buffers, counters, memo tables) is carried from case to case.
pub fn decode_isolated(
    bytes: Vec<u8>,
    dict: Arc<Dictionary>,
) -> std::result::Result<diameter::Result<DiameterMessage>, String> {
    decode_isolated_via(bytes, dict, 0)
}

pub fn decode_isolated_via(
    bytes: Vec<u8>,
    dict: Arc<Dictionary>,
    via_codec: u8,
) -> std::result::Result<diameter::Result<DiameterMessage>, String> {
    let tx = DECODER.with(|d| -> std::result::Result<_, String> {
        let mut d = d.borrow_mut();
        if d.is_none() {
            *d = Some(decoder_thread()?);
        }
        Ok(d.as_ref().unwrap().clone())
    })?;
    let (back, res) = std::sync::mpsc::channel();
    if tx.send((bytes, dict, via_codec, back)).is_err() {
        DECODER.with(|d| *d.borrow_mut() = None);
        return Err("decoder thread is gone".into());
    }
    match res.recv() {
        Ok(r) => r,
        Err(_) => {
            DECODER.with(|d| *d.borrow_mut() = None);
            Err("decoder thread died".into())
        }
    }
}

/// Runs one construction history; Ok(Err(line)) = the start failed (line is the observation).
fn build_history(st: &State, t: &mut Toks) -> PResult<std::result::Result<(DiameterMessage, String), String>> {
    let dict = st
        .dicts
        .get(t.next()?)
        .ok_or_else(|| "unknown dict".to_string())?
        .clone();
    let mut out = String::new();
    let mut m = match t.next()? {
        "NEW" => {
            let cmd = t.u32()?;
            let app = t.u32()?;
            let fl = t.u32()? as u8;
            let hbh = t.u32()?;
            let e2e = t.u32()?;
            // the variants by NAME (the library's own number -> variant conversion is part of what is being checked)
            let cmd = match cmd {
                0 => CommandCode::Error,
                257 => CommandCode::CapabilitiesExchange,
                280 => CommandCode::DeviceWatchdog,
                282 => CommandCode::DisconnectPeer,
                258 => CommandCode::ReAuth,
                275 => CommandCode::SessionTerminate,
                274 => CommandCode::AbortSession,
                272 => CommandCode::CreditControl,
                8388635 => CommandCode::SpendingLimit,
                8388636 => CommandCode::SpendingStatusNotification,
                271 => CommandCode::Accounting,
                265 => CommandCode::AA,
                _ => return Err("case: unknown command".to_string()),
            };
            let app = match app {
                0 => ApplicationId::Common,
                3 => ApplicationId::Accounting,
                4 => ApplicationId::CreditControl,
                16777238 => ApplicationId::Gx,
                16777236 => ApplicationId::Rx,
                16777302 => ApplicationId::Sy,
                _ => return Err("case: unknown application".to_string()),
            };
            DiameterMessage::new(cmd, app, fl, hbh, e2e, Arc::clone(&dict))
        }
        "DEC" => {
            let bytes = t.bytes()?;
            // a frame that is exactly as long as it announces (20 ..= 1 MiB) is a frame a connection would hand to
            // Codec::decode whole: every third such frame is decoded that way, every third from a reader in which it does
            // not start at position 0 (the message must be the same one)
            let announced = if bytes.len() >= 4 { ((bytes[1] as usize) << 16) | ((bytes[2] as usize) << 8) | bytes[3] as usize } else { 0 };
            let via_codec = if announced == bytes.len() && (20..=1024 * 1024).contains(&announced) { ((announced / 4) % 4) as u8 } else { 0 };
            match decode_isolated_via(bytes, Arc::clone(&dict), via_codec) {
                Ok(Ok(m)) => m,
                Ok(Err(_)) => return Ok(Err("R err".into())),
                Err(p) => return Ok(Err(format!("PANIC {}", p.replace('\n', " ")))),
            }
        }
        s => return Err(format!("hstart {}", s)),
    };
    let nops = t.usize_dec()?;
    let mut statuses = String::new();
    // Lookups are pure: the message is also looked into BETWEEN construction steps (results discarded), with the codes it
    // holds, a few it does not hold, and the codes the case will ask for at its end (the trailing "<k> c1..ck" of a G
    // line) - so that anything a lookup might remember is stale by the time the observed lookups run.
    let probes: Vec<u32> = {
        let mut v = vec![263u32, 264, 268, 999_999];
        for k in 1..=16usize {
            let n = t.toks_len();
            if n > k + 1 && t.tok_at(n - k - 1).and_then(|s| s.parse::<usize>().ok()) == Some(k) {
                for i in 0..k {
                    if let Some(c) = t.tok_at(n - k + i).and_then(|s| u32::from_str_radix(s, 16).ok()) {
                        v.push(c);
                    }
                }
                break;
            }
        }
        v
    };
    let look = |m: &DiameterMessage| {
        let codes: Vec<u32> = m.get_avps().iter().map(|a| a.get_code()).collect();
        for c in codes {
            let _ = m.get_avp(c);
        }
        for c in &probes {
            let _ = m.get_avp(*c);
        }
        let _ = m.get_length();
        // encoding is as pure as looking: the message is encoded (octets discarded) between construction steps
        if m.get_hop_by_hop_id() % 2 == 1 || m.get_avps().len() % 2 == 1 {
            let mut sink = Vec::new();
            let _ = m.encode_to(&mut sink);
        }
        // the last lookup before the next construction step is the one the case will ask first at its end
        if let Some(c) = probes.get(4) {
            let _ = m.get_avp(*c);
        }
    };
    look(&m);
    for _ in 0..nops {
        look(&m);
        let ok = match t.next()? {
            "ADD" => {
                let e = parse_aexp(t)?;
                match eval_a(&e, &dict)? {
                    Some(a) => {
                        m.add(a);
                        true
                    }
                    None => false,
                }
            }
            "ADDAVP" => {
                let c = t.u32()?;
                let vd = t.opt_u32()?;
                let fl = t.u32()? as u8;
                let v = parse_vexp(t)?;
                match eval_v(&v, &dict)? {
                    Some(v) => {
                        m.add_avp(c, vd, fl, v);
                        true
                    }
                    None => false,
                }
            }
            "ADDNAME" => {
                let n = t.bytes()?;
                let v = parse_vexp(t)?;
                let name = String::from_utf8(n).map_err(|_| "case: name not utf8".to_string())?;
                match eval_v(&v, &dict)? {
                    Some(v) => m.add_avp_by_name(&name, v).is_ok(),
                    None => false,
                }
            }
            "READD" => {
                let i = t.usize_dec()?;
                match m.get_avps().get(i).cloned() {
                    Some(a) => {
                        m.add(a);
                        true
                    }
                    None => false,
                }
            }
            "REWRAP" => {
                let i = t.usize_dec()?;
                let c = t.u32()?;
                let vd = t.opt_u32()?;
                let fl = t.u32()? as u8;
                let k = t.usize_dec()?;
                let mut extra = Vec::new();
                for _ in 0..k {
                    extra.push(parse_aexp(t)?);
                }
                let g = m.get_avps().get(i).and_then(|a| a.get_grouped()).cloned();
                match g {
                    Some(mut g) => {
                        let mut built = Vec::new();
                        let mut all = true;
                        for e in &extra {
                            match eval_a(e, &dict)? {
                                Some(a) => built.push(a),
                                None => {
                                    all = false;
                                    break;
                                }
                            }
                        }
                        if all {
                            let _ = g.length();
                            for a in built {
                                g.add(a);
                                let _ = g.length();
                            }
                            m.add_avp(c, vd, fl, g.into());
                            true
                        } else {
                            false
                        }
                    }
                    None => false,
                }
            }
            s => return Err(format!("hop {}", s)),
        };
        statuses.push(if ok { '1' } else { '0' });
    }
    if statuses.is_empty() {
        statuses.push('-');
    }
    let _ = &mut out;
    Ok(Ok((m, statuses)))
}

/// the message a history denotes (Err(line) = the start failed)
pub fn build_history_pub(st: &State, t: &mut Toks) -> PResult<std::result::Result<DiameterMessage, String>> {
    Ok(build_history(st, t)?.map(|(m, _)| m))
}

fn run_history(st: &State, t: &mut Toks) -> PResult<String> {
    match build_history(st, t)? {
        Err(line) => Ok(line),
        Ok((m, statuses)) => {
            let mut out = String::new();
            out.push_str("R ok ");
            out.push_str(&statuses);
            out.push(' ');
            obs_msg(&mut out, &m);
            enc_obs(&mut out, &m);
            Ok(out)
        }
    }
}

// ---------- accessors (C18) ----------
const GETTER_ORDER: [&str; 16] = [
    "addr", "ip4", "ip6", "id", "uri", "en", "f32", "f64", "grp", "i32", "i64", "oct", "time", "u32", "u64", "utf",
];

/// mask of the sixteen typed getters (which return Some) and the value rendered through the
/// getter that answered
fn obs_getters(out: &mut String, a: &Avp) {
    let present = [
        a.get_address().is_some(),
        a.get_address_ipv4().is_some(),
        a.get_address_ipv6().is_some(),
        a.get_identity().is_some(),
        a.get_diameter_uri().is_some(),
        a.get_enumerated().is_some(),
        a.get_float32().is_some(),
        a.get_float64().is_some(),
        a.get_grouped().is_some(),
        a.get_integer32().is_some(),
        a.get_integer64().is_some(),
        a.get_octetstring().is_some(),
        a.get_time().is_some(),
        a.get_unsigned32().is_some(),
        a.get_unsigned64().is_some(),
        a.get_utf8string().is_some(),
    ];
    let _ = GETTER_ORDER;
    out.push('[');
    for p in present.iter() {
        out.push(if *p { '1' } else { '0' });
    }
    out.push('|');
    let rendered_cell = std::cell::Cell::new(false);
    let put = |out: &mut String, v: AvpValue| {
        if !rendered_cell.get() {
            obs_value_flat(out, &v);
            rendered_cell.set(true);
        }
    };
    if let Some(x) = a.get_address() { put(out, x.clone().into()); }
    if let Some(x) = a.get_address_ipv4() { put(out, x.clone().into()); }
    if let Some(x) = a.get_address_ipv6() { put(out, x.clone().into()); }
    if let Some(x) = a.get_identity() { put(out, x.clone().into()); }
    if let Some(x) = a.get_diameter_uri() { put(out, x.clone().into()); }
    if let Some(x) = a.get_enumerated() { put(out, x.clone().into()); }
    if let Some(x) = a.get_float32() { put(out, Float32::new(x).into()); }
    if let Some(x) = a.get_float64() { put(out, Float64::new(x).into()); }
    if let Some(g) = a.get_grouped() {
        if !rendered_cell.get() {
            let _ = write!(out, "G,{}", g.avps().len());
            for m in g.avps() {
                out.push(',');
                obs_getters(out, m);
            }
            rendered_cell.set(true);
        }
    }
    if let Some(x) = a.get_integer32() { put(out, Integer32::new(x).into()); }
    if let Some(x) = a.get_integer64() { put(out, Integer64::new(x).into()); }
    if let Some(x) = a.get_octetstring() { put(out, x.clone().into()); }
    if let Some(x) = a.get_time() { put(out, x.clone().into()); }
    if let Some(x) = a.get_unsigned32() { put(out, Unsigned32::new(x).into()); }
    if let Some(x) = a.get_unsigned64() { put(out, Unsigned64::new(x).into()); }
    if let Some(x) = a.get_utf8string() { put(out, x.clone().into()); }
    if !rendered_cell.get() {
        out.push('?');
    }
    out.push(']');
}

fn obs_value_flat(out: &mut String, v: &AvpValue) {
    let mut s = String::new();
    obs_value(&mut s, v);
    out.push_str(&s.replace(' ', ","));
}

fn run_access(st: &State, t: &mut Toks) -> PResult<String> {
    match build_history(st, t)? {
        Err(line) => Ok(line),
        Ok((m, _)) => {
            let k = t.usize_dec()?;
            let mut out = String::new();
            let _ = write!(out, "G {}", m.get_avps().len());
            for a in m.get_avps() {
                out.push(' ');
                obs_getters(&mut out, a);
            }
            out.push_str(" Q");
            for _ in 0..k {
                let c = t.u32()?;
                match m.get_avp(c) {
                    Some(a) => {
                        let idx = m.get_avps().iter().position(|x| std::ptr::eq(x, a));
                        match idx {
                            Some(i) => {
                                let _ = write!(out, " {}", i);
                            }
                            None => out.push_str(" foreign"),
                        }
                    }
                    None => out.push_str(" none"),
                }
            }
            Ok(out)
        }
    }
}

// ---------- fault-injecting writer (C05) ----------
/// accepts `budget` octets in total and then fails; call i is capped / interrupted per `behav`
struct FaultWrite {
    /// when the budget is used up: fail with an error (false) or report "no room" the way a too-small `&mut [u8]` does, Ok(0) (true)
    zero_when_full: bool,
    budget: usize,
    behav: std::collections::VecDeque<Option<usize>>,
    accepted: Vec<u8>,
}

impl std::io::Write for FaultWrite {
    fn write(&mut self, buf: &[u8]) -> std::io::Result<usize> {
        if buf.is_empty() {
            return Ok(0);
        }
        match self.behav.pop_front() {
            Some(None) => Err(std::io::Error::new(std::io::ErrorKind::Interrupted, "interrupted")),
            // `e` / `t`: this one call fails with WouldBlock / TimedOut and takes nothing; the writer is fine afterwards
            Some(Some(c)) if c == usize::MAX - 7 => Err(std::io::Error::new(std::io::ErrorKind::WouldBlock, "would block")),
            Some(Some(c)) if c == usize::MAX - 8 => Err(std::io::Error::new(std::io::ErrorKind::TimedOut, "timed out")),
            b => {
                if self.budget == 0 {
                    if self.zero_when_full {
                        return Ok(0);
                    }
                    return Err(std::io::Error::new(std::io::ErrorKind::Other, "writer failed"));
                }
                let cap = match b {
                    Some(Some(c)) => c,
                    _ => usize::MAX,
                };
                let k = buf.len().min(cap).min(self.budget);
                self.accepted.extend_from_slice(&buf[..k]);
                self.budget -= k;
                Ok(k)
            }
        }
    }
    fn flush(&mut self) -> std::io::Result<()> {
        Ok(())
    }
}

/// WA <dict> <aexp> <budget>: Avp::encode_to of one AVP, on its own, into the fault-injecting writer
fn run_faultwrite_avp(st: &State, t: &mut Toks) -> PResult<String> {
    let dict = st.dicts.get(t.next()?).ok_or_else(|| "unknown dict".to_string())?.clone();
    let e = parse_aexp(t)?;
    let a = match eval_a(&e, &dict)? {
        Some(a) => a,
        None => return Ok("WA nobuild".into()),
    };
    let budget = t.u64()? as usize;
    let mut w = FaultWrite { zero_when_full: false, budget, behav: std::collections::VecDeque::new(), accepted: Vec::new() };
    let r = a.encode_to(&mut w);
    let mut out = String::from(if r.is_ok() { "WA ok " } else { "WA err " });
    let _ = write!(out, "{:x} ", w.accepted.len());
    hex(&mut out, &w.accepted[..w.accepted.len().min(16)]);
    let _ = write!(out, " LEN {:x} PAD {:x}", a.get_length(), a.get_padding());
    Ok(out)
}

fn run_faultwrite(st: &State, t: &mut Toks) -> PResult<String> {
    match build_history(st, t)? {
        Err(line) => Ok(line),
        Ok((m, _)) => {
            let budget = t.u64()? as usize;
            let n = t.usize_dec()?;
            let mut behav = std::collections::VecDeque::new();
            let mut zero_when_full = false;
            for _ in 0..n {
                let s = t.next()?;
                if s == "z" {
                    // not a per-call behaviour: once the budget is used up the writer says Ok(0) ("no room") instead of failing
                    zero_when_full = true;
                } else if s == "i" {
                    behav.push_back(None);
                } else if s == "e" {
                    behav.push_back(Some(usize::MAX - 7));
                } else if s == "t" {
                    behav.push_back(Some(usize::MAX - 8));
                } else {
                    behav.push_back(Some(usize::from_str_radix(s, 16).map_err(|e| e.to_string())?));
                }
            }
            // the same message encoded into memory twice before the run against the faulting writer ...
            let mut p1 = Vec::new();
            let q1 = m.encode_to(&mut p1).is_ok();
            let mut p2 = Vec::new();
            let q2 = m.encode_to(&mut p2).is_ok();
            let mut w = FaultWrite { zero_when_full, budget, behav, accepted: Vec::new() };
            let r = m.encode_to(&mut w);
            let mut out = String::from(if r.is_ok() { "W ok " } else { "W err " });
            let _ = write!(out, "{:x} ", w.accepted.len());
            // long outputs are summarised by length + hash-free prefix/suffix to keep lines small
            if w.accepted.len() <= 70000 {
                hex(&mut out, &w.accepted);
            } else {
                hex(&mut out, &w.accepted[..64]);
            }
            let _ = write!(out, " LEN {:x}", m.get_length());
            // after a faulted (or complete) run the same message, encoded into memory twice, must give one answer
            // ... and once more after it: one answer every time (nothing remembered from a failed or faulted attempt)
            let mut e1 = Vec::new();
            let r1 = m.encode_to(&mut e1).is_ok();
            if q1 != q2 || (q1 && p1 != p2) || r1 != q1 || (r1 && e1 != p1) || (r.is_ok() && (!q1 || p1 != w.accepted)) {
                out.push_str(" ENC2DIFF after-fault");
            }
            Ok(out)
        }
    }
}


/// a reader that hands out at most one octet per read() call (Read + Seek over an in-memory buffer)
/// hands out one octet per read() call, and before each of them reports ErrorKind::Interrupted once
struct Interrupting {
    inner: Cursor<Vec<u8>>,
    armed: bool,
}
impl std::io::Read for Interrupting {
    fn read(&mut self, b: &mut [u8]) -> std::io::Result<usize> {
        if self.armed {
            self.armed = false;
            return Err(std::io::Error::new(std::io::ErrorKind::Interrupted, "EINTR"));
        }
        self.armed = true;
        let n = b.len().min(1);
        std::io::Read::read(&mut self.inner, &mut b[..n])
    }
}
impl std::io::Seek for Interrupting {
    fn seek(&mut self, p: std::io::SeekFrom) -> std::io::Result<u64> {
        self.inner.seek(p)
    }
}

/// a reader / writer / seeker that panics after handing out (taking) that many octets of zeros
struct Panicking(usize);
impl std::io::Read for Panicking {
    fn read(&mut self, b: &mut [u8]) -> std::io::Result<usize> {
        if self.0 == 0 {
            panic!("the caller's reader panics");
        }
        let n = b.len().min(self.0).min(1);
        b[..n].iter_mut().for_each(|x| *x = 0);
        if n > 0 && self.0 == 24 {
            b[0] = 1;
        }
        self.0 -= n;
        Ok(n)
    }
}
impl std::io::Seek for Panicking {
    fn seek(&mut self, _p: std::io::SeekFrom) -> std::io::Result<u64> {
        Ok(0)
    }
}
impl std::io::Write for Panicking {
    fn write(&mut self, _b: &[u8]) -> std::io::Result<usize> {
        panic!("the caller's writer panics");
    }
    fn flush(&mut self) -> std::io::Result<()> {
        Ok(())
    }
}

struct Dribble(Cursor<Vec<u8>>);
impl std::io::Read for Dribble {
    fn read(&mut self, b: &mut [u8]) -> std::io::Result<usize> {
        let n = b.len().min(1);
        self.0.read(&mut b[..n])
    }
}
impl std::io::Seek for Dribble {
    fn seek(&mut self, p: std::io::SeekFrom) -> std::io::Result<u64> {
        self.0.seek(p)
    }
}

fn decoded_obs(r: std::result::Result<diameter::Result<DiameterMessage>, String>) -> String {
    match r {
        Ok(Ok(m)) => {
            let mut out = String::from("OK ");
            // a returned message must be displayable, inspectable and re-encodable
            let shown = catch_unwind(AssertUnwindSafe(|| format!("{}", m).len() + format!("{:?}", m.get_avps().len()).len()));
            if let Err(e) = shown {
                let s = e.downcast_ref::<String>().cloned().or_else(|| e.downcast_ref::<&str>().map(|s| s.to_string())).unwrap_or_else(|| "panic".into());
                return format!("PANIC while formatting the returned message for display: {}", s.replace('\n', " "));
            }
            obs_msg(&mut out, &m);
            enc_obs(&mut out, &m);
            out
        }
        Ok(Err(_)) => "ERR".into(),
        Err(p) => format!("PANIC {}", p.replace('\n', " ")),
    }
}

fn run_decode(st: &State, t: &mut Toks) -> PResult<String> {
    let dict = st
        .dicts
        .get(t.next()?)
        .ok_or_else(|| "unknown dict".to_string())?
        .clone();
    let bytes = t.bytes()?;
    // as for decoded starting points: a frame that is exactly as long as it announces goes, in turn, through decode_from at
    // position 0, through Codec::decode (what a connection does with it) and through decode_from at an offset
    let announced = if bytes.len() >= 4 { ((bytes[1] as usize) << 16) | ((bytes[2] as usize) << 8) | bytes[3] as usize } else { 0 };
    let via = if announced == bytes.len() && (20..=1024 * 1024).contains(&announced) { ((announced / 4 + bytes[bytes.len() - 1] as usize) % 4) as u8 } else { 0 };
    Ok(decoded_obs(decode_isolated_via(bytes, dict, via)))
}

/// XO <dict> <k> <frame>: the frame sits k octets into the reader (junk before it, position set to k);
/// XD <dict> <frame>: the reader hands out one octet per read() call.  Both must behave exactly like X.
fn run_decode_variant(st: &State, t: &mut Toks, dribble: bool) -> PResult<String> {
    let dict = st.dicts.get(t.next()?).ok_or_else(|| "unknown dict".to_string())?.clone();
    let k = if dribble { 0 } else { t.usize_dec()? };
    let bytes = t.bytes()?;
    let r = catch_unwind(AssertUnwindSafe(|| {
        let mut buf = vec![0xa5u8; k];
        buf.extend_from_slice(&bytes);
        let mut cur = Cursor::new(buf);
        cur.set_position(k as u64);
        if dribble {
            let mut d = Dribble(cur);
            DiameterMessage::decode_from(&mut d, dict)
        } else {
            DiameterMessage::decode_from(&mut cur, dict)
        }
    }));
    Ok(decoded_obs(r.map_err(|e| {
        e.downcast_ref::<String>().cloned().or_else(|| e.downcast_ref::<&str>().map(|s| s.to_string())).unwrap_or_else(|| "panic".into())
    })))
}

/// XM <dict> <n> <f1> .. <fn>: the frames sit back to back in ONE reader and are decoded one after the other, each from where
/// the previous decode left the reader (a tool reading a capture file, a test reading several messages from one buffer); the
/// observation is that of the LAST one.  Only used with frames that are consumed to their last octet when decoded alone.
fn run_decode_multi(st: &State, t: &mut Toks) -> PResult<String> {
    let dict = st.dicts.get(t.next()?).ok_or_else(|| "unknown dict".to_string())?.clone();
    let n = t.usize_dec()?;
    let mut buf = Vec::new();
    let mut ends = Vec::new();
    for _ in 0..n {
        buf.extend_from_slice(&t.bytes()?);
        ends.push(buf.len() as u64);
    }
    let r = catch_unwind(AssertUnwindSafe(|| {
        let mut cur = Cursor::new(buf);
        let mut last = None;
        for _ in ends.iter() {
            // each decode starts where the previous one left the reader
            let r = DiameterMessage::decode_from(&mut cur, Arc::clone(&dict));
            let failed = r.is_err();
            last = Some(r);
            if failed {
                break;
            }
        }
        last.unwrap()
    }));
    Ok(decoded_obs(r.map_err(|e| {
        e.downcast_ref::<String>().cloned().or_else(|| e.downcast_ref::<&str>().map(|s| s.to_string())).unwrap_or_else(|| "panic".into())
    })))
}

/// LEAFDEC decodes from a Cursor; LEAFDECD through a reader that hands out one octet per read() call
fn leaf_dec_interrupted(t: &mut Toks) -> PResult<String> {
    leaf_dec_from(t, |b| Interrupting { inner: Cursor::new(b), armed: true }, |d| d.inner.position() as usize)
}

fn leaf_dec(t: &mut Toks, dribble: bool) -> PResult<String> {
    if !dribble {
        return leaf_dec_from(t, |b| Cursor::new(b), |c| c.position() as usize);
    }
    leaf_dec_from(t, |b| Dribble(Cursor::new(b)), |d| d.0.position() as usize)
}

fn leaf_dec_from<R: std::io::Read + std::io::Seek>(t: &mut Toks, mk: impl Fn(Vec<u8>) -> R, pos: impl Fn(&R) -> usize) -> PResult<String> {
    let ty = t.next()?.to_string();
    let vl = t.u64()? as usize;
    let bytes = t.bytes()?;
    let total = bytes.len();
    let mut cur = mk(bytes);
    let r: diameter::Result<AvpValue> = match ty.as_str() {
        "addr" => Address::decode_from(&mut cur, vl).map(Into::into),
        "ip4" => IPv4::decode_from(&mut cur).map(Into::into),
        "ip6" => IPv6::decode_from(&mut cur).map(Into::into),
        "id" => Identity::decode_from(&mut cur, vl).map(Into::into),
        "uri" => DiameterURI::decode_from(&mut cur, vl).map(Into::into),
        "en" => Enumerated::decode_from(&mut cur).map(Into::into),
        "f32" => Float32::decode_from(&mut cur).map(Into::into),
        "f64" => Float64::decode_from(&mut cur).map(Into::into),
        "i32" => Integer32::decode_from(&mut cur).map(Into::into),
        "i64" => Integer64::decode_from(&mut cur).map(Into::into),
        "oct" => OctetString::decode_from(&mut cur, vl).map(Into::into),
        "time" => Time::decode_from(&mut cur).map(Into::into),
        "u32" => Unsigned32::decode_from(&mut cur).map(Into::into),
        "u64" => Unsigned64::decode_from(&mut cur).map(Into::into),
        "utf" => UTF8String::decode_from(&mut cur, vl).map(Into::into),
        s => return Err(format!("leafdec ty {}", s)),
    };
    match r {
        Ok(v) => {
            let mut out = String::from("OK ");
            obs_value(&mut out, &v);
            out.push(' ');
            let mut buf = Vec::new();
            match value_encode(&v, &mut buf) {
                Ok(()) => hex(&mut out, &buf),
                Err(_) => out.push_str("ENCERR"),
            }
            let _ = write!(out, " {}", total - pos(&cur).min(total));
            Ok(out)
        }
        Err(_) => Ok("ERR".into()),
    }
}

pub fn value_encode<W: std::io::Write>(v: &AvpValue, buf: &mut W) -> diameter::Result<()> {
    match v {
        AvpValue::Address(a) => a.encode_to(buf),
        AvpValue::AddressIPv4(a) => a.encode_to(buf),
        AvpValue::AddressIPv6(a) => a.encode_to(buf),
        AvpValue::Identity(a) => a.encode_to(buf),
        AvpValue::DiameterURI(a) => a.encode_to(buf),
        AvpValue::Enumerated(a) => a.encode_to(buf),
        AvpValue::Float32(a) => a.encode_to(buf),
        AvpValue::Float64(a) => a.encode_to(buf),
        AvpValue::Grouped(a) => a.encode_to(buf),
        AvpValue::Integer32(a) => a.encode_to(buf),
        AvpValue::Integer64(a) => a.encode_to(buf),
        AvpValue::OctetString(a) => a.encode_to(buf),
        AvpValue::Time(a) => a.encode_to(buf),
        AvpValue::Unsigned32(a) => a.encode_to(buf),
        AvpValue::Unsigned64(a) => a.encode_to(buf),
        AvpValue::UTF8String(a) => a.encode_to(buf),
    }
}

fn leaf_enc(t: &mut Toks) -> PResult<String> {
    let l = parse_leaf(t)?;
    let v = leaf_value(&l)?;
    let mut buf = Vec::new();
    match value_encode(&v, &mut buf) {
        Ok(()) => {
            let mut out = String::from("OK ");
            hex(&mut out, &buf);
            let _ = write!(out, " {:x}", v.length());
            // the same value through a writer that accepts one octet per write() call
            let mut w = OneOctet(Vec::new());
            let again = value_encode(&v, &mut w).is_ok();
            if !again || w.0 != buf {
                let _ = write!(out, " WRITERDIFF:{}:{}", again as u8, w.0.len());
            }
            // ... and through a framing writer that itself encodes a value of this library inside write() (each chunk it is given
            // goes out behind an Unsigned32 length): a caller's writer may use the library too
            let r = catch_unwind(AssertUnwindSafe(|| {
                let mut w = LengthPrefixed(Vec::new());
                let ok = value_encode(&v, &mut w).is_ok();
                (ok, w.0)
            }));
            match r {
                Ok((ok, framed)) => {
                    // strip the prefixes again
                    let mut plain = Vec::new();
                    let mut i = 0;
                    while i + 4 <= framed.len() {
                        let n = u32::from_be_bytes([framed[i], framed[i + 1], framed[i + 2], framed[i + 3]]) as usize;
                        if i + 4 + n > framed.len() {
                            break;
                        }
                        plain.extend_from_slice(&framed[i + 4..i + 4 + n]);
                        i += 4 + n;
                    }
                    if !ok || plain != buf {
                        let _ = write!(out, " WRITERDIFF:nested:{}:{}", ok as u8, plain.len());
                    }
                }
                Err(_) => out.push_str(" WRITERDIFF:nested:panic"),
            }
            Ok(out)
        }
        Err(_) => Ok("ERR".into()),
    }
}

fn query(st: &State, t: &mut Toks) -> PResult<String> {
    let dict = st
        .dicts
        .get(t.next()?)
        .ok_or_else(|| "unknown dict".to_string())?
        .clone();
    let k = t.usize_dec()?;
    let mut out = String::from("Q");
    for _ in 0..k {
        out.push(' ');
        match t.next()? {
            "AVP" => {
                let c = t.u32()?;
                let vd = t.opt_u32()?;
                let def = dict.get_avp(c, vd);
                let ty = dict.get_avp_type(c, vd);
                let nm = dict.get_avp_name(c, vd);
                match def {
                    Some(d) => {
                        obs_def(&mut out, d);
                        // the three keyed lookups must tell the same story
                        if ty != Some(&d.avp_type) || nm != Some(d.name.as_str()) {
                            out.push_str("!inconsistent");
                        }
                    }
                    None => {
                        out.push_str("none");
                        if ty.is_some() || nm.is_some() {
                            out.push_str("!inconsistent");
                        }
                    }
                }
            }
            "NAME" => {
                let n = String::from_utf8(t.bytes()?).map_err(|_| "case: name".to_string())?;
                match dict.get_avp_by_name(&n) {
                    Some(d) => obs_def(&mut out, d),
                    None => out.push_str("none"),
                }
            }
            "APP" => {
                let n = String::from_utf8(t.bytes()?).map_err(|_| "case: name".to_string())?;
                match dict.get_application_id_by_name(&n) {
                    Some(a) => {
                        let _ = write!(out, "{:x}", a as u32);
                    }
                    None => out.push_str("none"),
                }
            }
            "CMD" => {
                let n = String::from_utf8(t.bytes()?).map_err(|_| "case: name".to_string())?;
                match dict.get_command_code_by_name(&n) {
                    Some(a) => {
                        let _ = write!(out, "{:x}", a as u32);
                    }
                    None => out.push_str("none"),
                }
            }
            s => return Err(format!("query {}", s)),
        }
    }
    Ok(out)
}

pub fn handle(st: &mut State, line: &str) -> String {
    let mut t = Toks::new(line);
    let cmd = match t.next() {
        Ok(c) => c.to_string(),
        Err(_) => return String::new(),
    };
    let r = catch_unwind(AssertUnwindSafe(|| -> PResult<String> {
        match cmd.as_str() {
            "LIM" => Ok("OK".into()),
            // the text of the built-in dictionary document, as the library itself holds it
            "BUILTINXML" => {
                let mut o = String::from("XML ");
                hex(&mut o, diameter::dictionary::DEFAULT_DICT_XML.as_bytes());
                Ok(o)
            }
            "D" => {
                let id = t.next()?.to_string();
                let k = t.usize_dec()?;
                let mut ops = Vec::new();
                for _ in 0..k {
                    ops.push(parse_dop(&mut t)?);
                }
                st.dicts.insert(id, Arc::new(build_dict(ops)));
                Ok("OK".into())
            }
            // DSWAP <id> <k> <ops>: as D, but the new dictionary is fully built first, then the old one is dropped and the
            // new one moved behind its Arc at once - the allocator hands the block just freed (same size) straight back,
            // so the new dictionary lives at the address of the old one
            "DSWAP" => {
                let id = t.next()?.to_string();
                let k = t.usize_dec()?;
                let mut ops = Vec::new();
                for _ in 0..k {
                    ops.push(parse_dop(&mut t)?);
                }
                let d = build_dict(ops);
                let old = st.dicts.remove(&id);
                let before = old.as_ref().map(|a| Arc::as_ptr(a) as usize);
                // empty the allocator's free lists for blocks of the size of an Arc<Dictionary> allocation, so that the
                // block freed next is the one handed out next
                let layout = std::alloc::Layout::from_size_align(std::mem::size_of::<Dictionary>() + 2 * std::mem::size_of::<usize>(), 8).unwrap();
                let mut held = Vec::new();
                for _ in 0..256 {
                    let p = unsafe { std::alloc::alloc(layout) };
                    if !p.is_null() {
                        held.push(p);
                    }
                }
                drop(old);
                let fresh = Arc::new(d);
                for p in held {
                    unsafe { std::alloc::dealloc(p, layout) };
                }
                let same = before == Some(Arc::as_ptr(&fresh) as usize);
                st.dicts.insert(id, fresh);
                Ok(if same { "OK same-address".into() } else { "OK".into() })
            }
            // DADD <id> <op>: one more load / add applied to the EXISTING dictionary object (in place)
            // DGLOBALPOISON: a program loads a malformed document into the library's process-wide DEFAULT_DICT; the loader
            // panics while it holds the write lock (as it does on any malformed document), which poisons that lock
            "DGLOBALPOISON" => {
                let _ = std::thread::spawn(|| {
                    let _ = catch_unwind(AssertUnwindSafe(|| {
                        if let Ok(mut d) = diameter::dictionary::DEFAULT_DICT.write() {
                            d.load_xml("<diameter><application id=\"x\"");
                        }
                    }));
                })
                .join();
                Ok("OK".into())
            }
            "DADD" => {
                let id = t.next()?.to_string();
                let op = parse_dop(&mut t)?;
                let arc = st.dicts.get_mut(&id).ok_or_else(|| "unknown dict".to_string())?;
                let d = Arc::make_mut(arc);
                match op {
                    DOp::Load(x) => d.load_xml(&x),
                    DOp::Add(a) => d.add_avp(a),
                }
                Ok("OK".into())
            }
            // DFORK <src> <dst>: dst becomes a clone of src; both stay alive and are used independently afterwards
            "DFORK" => {
                let src = st.dicts.get(t.next()?).ok_or_else(|| "unknown dict".to_string())?.clone();
                let dst = t.next()?.to_string();
                st.dicts.insert(dst, Arc::new((*src).clone()));
                Ok("OK".into())
            }
            // forget a dictionary: its Arc is dropped here (the allocator will typically hand the same address to the next one)
            "DROP" => {
                st.dicts.remove(t.next()?);
                Ok("OK".into())
            }
            "H" => run_history(st, &mut t),
            "G" => run_access(st, &mut t),
            "W" => run_faultwrite(st, &mut t),
            "WA" => run_faultwrite_avp(st, &mut t),
            "SD" => crate::stream::decode_n(st, &mut t),
            "SE" => crate::stream::encode_1(st, &mut t),
            "SV" => crate::stream::serve(st, &mut t),
            "SVBIG" => crate::stream::serve_big(st, &mut t),
            "SVP" => crate::stream::serve_parked(st, &mut t),
            "SDN" => crate::stream::decode_n_notime(st, &mut t),
            "SDP" => crate::stream::decode_n_parked(st, &mut t),
            "SDX" => crate::stream::decode_n_hopping(st, &mut t),
            "SD2" => crate::stream::decode_two(st, &mut t),
            "SE2" => crate::stream::encode_two(st, &mut t),
            "CL" => crate::client::run(st, &mut t),
            "TLS" => crate::net::tls_cell(st, &mut t),
            "TLSPLAIN" => crate::net::tls_plain(st, &mut t),
            "TLSSNI" => crate::net::tls_sni(st, &mut t),
            "TLSSWAP" => crate::net::tls_swap(st, &mut t),
            "TLSTWO" => crate::net::tls_two(st, &mut t),
            "NETSLOWHS" => crate::net::slow_handshake(st, &mut t),
            "NETAGED" => crate::net::aged(st, &mut t),
            "TLSROT" => crate::net::tls_rotate(st, &mut t),
            "TLSHIST" => crate::net::tls_history(st, &mut t),
            "NET" => crate::net::scenario(st, &mut t),
            "NETSLOW" => crate::net::slow_reader(st, &mut t),
            "RECONN" => crate::net::reconn(st, &mut t),
            "CLRST" => crate::net::client_reset(st, &mut t),
            "TLSDOMAIN" => {
                // the name connect() would hand to the TLS library for this address (hook verif_tls_domain)
                let a = t.bytes()?;
                let a = String::from_utf8(a).map_err(|e| e.to_string())?;
                let mut o = String::from("DOMAIN ");
                hex(&mut o, diameter::transport::DiameterClient::verif_tls_domain(&a).as_bytes());
                Ok(o)
            }
            "X" => run_decode(st, &mut t),
            "XO" => run_decode_variant(st, &mut t, false),
            "XD" => run_decode_variant(st, &mut t, true),
            // GBIG <n> <size>: a message built from n OctetString AVPs (code 1011) of `size` zero octets each, then one
            // Unsigned32 AVP (code 1012) and a Result-Code: what the list and the lookups say afterwards (no values printed)
            "GBIG" => {
                let dict = st.dicts.get("g").ok_or_else(|| "dict g missing".to_string())?.clone();
                let n = t.usize_dec()?;
                let size = t.u64()? as usize;
                let mut m = DiameterMessage::new(CommandCode::CreditControl, ApplicationId::CreditControl, 0x80, 1, 2, Arc::clone(&dict));
                for _ in 0..n {
                    m.add_avp(1011, None, 0, OctetString::new(vec![0u8; size]).into());
                }
                m.add_avp(1012, None, 0x40, Unsigned32::new(7).into());
                m.add_avp(268, None, 0x40, Unsigned32::new(2001).into());
                let pos = |c: u32| match m.get_avp(c) {
                    Some(a) => m.get_avps().iter().position(|x| std::ptr::eq(x, a)).map(|i| i.to_string()).unwrap_or_else(|| "foreign".into()),
                    None => "none".into(),
                };
                let codes: Vec<String> = m.get_avps().iter().map(|a| format!("{:x}", a.get_code())).collect();
                let big = codes.iter().filter(|c| c.as_str() == "3f3").count();
                Ok(format!("GBIG count={} big={} tail={} first1011={} first1012={} first268={} length={}", m.get_avps().len(), big,
                           codes[codes.len().saturating_sub(2)..].join(","), pos(1011), pos(1012), pos(268), m.get_length()))
            }
            // TLDROP: a thread whose own thread-local object - created BEFORE the thread first used the library - decodes and
            // encodes values in its destructor, i.e. while the thread's locals are being torn down
            "TLDROP" => {
                static DROPS_OK: std::sync::atomic::AtomicUsize = std::sync::atomic::AtomicUsize::new(0);
                static DROPS_BAD: std::sync::atomic::AtomicUsize = std::sync::atomic::AtomicUsize::new(0);
                struct Session(bool);
                impl Drop for Session {
                    fn drop(&mut self) {
                        let r = catch_unwind(AssertUnwindSafe(|| {
                            let mut good = true;
                            let mut c = Cursor::new(vec![0x83u8, 0xaa, 0x7e, 0x80]);
                            good &= Time::decode_from(&mut c).is_ok();
                            let mut c = Cursor::new(vec![0u8, 0, 0, 9, 0, 0, 0, 1]);
                            good &= matches!(Unsigned64::decode_from(&mut c), Ok(v) if v.value() == 0x9_0000_0001);
                            let mut v = Vec::new();
                            good &= Unsigned32::new(7).encode_to(&mut v).is_ok();
                            good &= Integer64::new(-7).encode_to(&mut v).is_ok();
                            good &= Float32::new(1.5).encode_to(&mut v).is_ok();
                            good &= v == vec![0u8, 0, 0, 7, 0xff, 0xff, 0xff, 0xff, 0xff, 0xff, 0xff, 0xf9, 0x3f, 0xc0, 0, 0];
                            good
                        }));
                        if matches!(r, Ok(true)) {
                            DROPS_OK.fetch_add(1, std::sync::atomic::Ordering::SeqCst);
                        } else {
                            DROPS_BAD.fetch_add(1, std::sync::atomic::Ordering::SeqCst);
                        }
                    }
                }
                thread_local! { static SESSION: Session = Session(true); }
                let before = DROPS_OK.load(std::sync::atomic::Ordering::SeqCst);
                for first in [true, false] {
                    let h = std::thread::spawn(move || {
                        if first {
                            SESSION.with(|s| assert!(s.0));
                        }
                        let mut c = Cursor::new(vec![0u8, 0, 0, 5]);
                        let _ = Unsigned32::decode_from(&mut c);
                        let mut v = Vec::new();
                        let _ = Unsigned64::new(5).encode_to(&mut v);
                        if !first {
                            SESSION.with(|s| assert!(s.0));
                        }
                    });
                    if h.join().is_err() {
                        return Ok("TLDROP panicked".into());
                    }
                }
                let ok = DROPS_OK.load(std::sync::atomic::Ordering::SeqCst) - before;
                if DROPS_BAD.load(std::sync::atomic::Ordering::SeqCst) != 0 || ok != 2 {
                    return Ok(format!("TLDROP values-decoded-or-encoded-during-thread-exit-failed-or-panicked ok={}", ok));
                }
                Ok("OK".into())
            }
            // GBIGN <n> <size>: as GBIG, the big AVPs added BY NAME ("T-oct" of the generated dictionary): how many of the calls
            // succeeded, and what the message holds afterwards
            "GBIGN" => {
                let dict = st.dicts.get("g").ok_or_else(|| "dict g missing".to_string())?.clone();
                let n = t.usize_dec()?;
                let size = t.u64()? as usize;
                let mut m = DiameterMessage::new(CommandCode::CreditControl, ApplicationId::CreditControl, 0x80, 1, 2, Arc::clone(&dict));
                let mut ok = 0usize;
                for _ in 0..n {
                    if m.add_avp_by_name("T-oct", OctetString::new(vec![0u8; size]).into()).is_ok() {
                        ok += 1;
                    }
                }
                let unknown_failed = m.add_avp_by_name("No-Such-Name", Unsigned32::new(1).into()).is_err();
                Ok(format!("GBIGN ok={} unknown_failed={} count={} length={}", ok, unknown_failed as u8, m.get_avps().len(), m.get_length()))
            }
            // NAMERACE <rounds>: a fresh dictionary (built-in document plus one added definition) is shared by eight threads that all
            // build AVPs by declared names at the same moment - the very first lookups on that dictionary overlap; every one succeeds
            "NAMERACE" => {
                let rounds = t.usize_dec()?;
                let xml: &str = &diameter::dictionary::DEFAULT_DICT_XML;
                let mut failures = 0usize;
                let mut first = String::new();
                for r in 0..rounds {
                    let mut d = Dictionary::new(&[xml]);
                    if r % 2 == 1 {
                        d.add_avp(diameter::dictionary::AvpDefinition { code: 7100 + r as u32, vendor_id: None, name: format!("Race-{}", r), avp_type: AvpType::Unsigned32, m_flag: false });
                    }
                    let d = Arc::new(if r % 3 == 2 { d.clone() } else { d });
                    let barrier = Arc::new(std::sync::Barrier::new(8));
                    let mut hs = Vec::new();
                    for k in 0..8usize {
                        let d = Arc::clone(&d);
                        let b = Arc::clone(&barrier);
                        hs.push(std::thread::spawn(move || {
                            let names = ["Session-Id", "Origin-Host", "Result-Code", "Origin-Realm", "CC-Request-Number", "Auth-Application-Id", "Destination-Realm", "User-Name"];
                            let mut m = DiameterMessage::new(CommandCode::CreditControl, ApplicationId::CreditControl, 0x80, 1, 2, Arc::clone(&d));
                            b.wait();
                            let nm = names[k % names.len()];
                            let ok = match nm {
                                "Result-Code" | "CC-Request-Number" | "Auth-Application-Id" => m.add_avp_by_name(nm, Unsigned32::new(1).into()).is_ok(),
                                "Origin-Host" | "Origin-Realm" | "Destination-Realm" => m.add_avp_by_name(nm, Identity::new("h.example").into()).is_ok(),
                                _ => m.add_avp_by_name(nm, UTF8String::new("x").into()).is_ok(),
                            };
                            (nm, ok)
                        }));
                    }
                    for h in hs {
                        match h.join() {
                            Ok((_, true)) => {}
                            Ok((nm, false)) => { failures += 1; if first.is_empty() { first = format!("round{}:{}", r, nm); } }
                            Err(_) => { failures += 1; if first.is_empty() { first = format!("round{}:panic", r); } }
                        }
                    }
                }
                Ok(format!("NAMERACE rounds={} failures={} {}", rounds, failures, first))
            }
            // SMALLSTACK: the first values this process decodes and encodes are handled on a thread with a 160 KiB stack (a program
            // that runs its connection handling on small threads): a four- or eight-octet value needs next to no stack
            "SMALLSTACK" => {
                let h = std::thread::Builder::new().stack_size(160 * 1024).spawn(|| {
                    let mut good = true;
                    let mut c = Cursor::new(vec![0xe3u8, 0xd1, 0x2a, 0x80]);
                    good &= Time::decode_from(&mut c).is_ok();
                    let mut c = Cursor::new(vec![0u8, 0, 0, 9, 0, 0, 0, 1]);
                    good &= matches!(Unsigned64::decode_from(&mut c), Ok(v) if v.value() == 0x9_0000_0001);
                    let mut c = Cursor::new(vec![0xffu8, 0xff, 0xff, 0xfe]);
                    good &= matches!(Integer32::decode_from(&mut c), Ok(v) if v.value() == -2);
                    let mut c = Cursor::new(vec![10u8, 1, 2, 3]);
                    good &= IPv4::decode_from(&mut c).is_ok();
                    let mut v = Vec::new();
                    good &= Unsigned32::new(7).encode_to(&mut v).is_ok();
                    good &= Float64::new(1.5).encode_to(&mut v).is_ok();
                    good
                }).map_err(|e| e.to_string())?;
                Ok(match h.join() { Ok(true) => "OK".into(), Ok(false) => "SMALLSTACK wrong-value".into(), Err(_) => "SMALLSTACK panicked".into() })
            }
            // SMALLENC <KiB> <history>: the message is built here and encoded on a thread with a stack of that many KiB; the octets are
            // compared with the encoding made on this thread
            "SMALLENC" => {
                let kib = t.usize_dec()?;
                let m = match build_history_pub(st, &mut t)? { Ok(m) => m, Err(l) => return Ok(format!("SMALLENC build-failed {}", l)) };
                let mut here = Vec::new();
                let ok_here = m.encode_to(&mut here).is_ok();
                let h = std::thread::Builder::new().stack_size(kib * 1024).spawn(move || {
                    let mut v = Vec::new();
                    let ok = m.encode_to(&mut v).is_ok();
                    (ok, v)
                }).map_err(|e| e.to_string())?;
                Ok(match h.join() {
                    Ok((ok, v)) if ok == ok_here && v == here => "OK".into(),
                    Ok(_) => "SMALLENC differs".into(),
                    Err(_) => "SMALLENC panicked".into(),
                })
            }
            // UNKNAMES <dict> <millions>: that many million names no dictionary declares ("Vendor-Attribute-<n>", "Subscriber-Tag-<n>",
            // "Custom-AVP-<n>"), eight threads: how many of them `Avp::from_name` did NOT refuse
            "UNKNAMES" => {
                let dict = st.dicts.get(t.next()?).ok_or_else(|| "unknown dict".to_string())?.clone();
                let millions = t.usize_dec()?;
                let per = millions * 1_000_000 / 8;
                let mut hs = Vec::new();
                for k in 0..8usize {
                    let d = Arc::clone(&dict);
                    hs.push(std::thread::spawn(move || {
                        use std::fmt::Write as _;
                        let mut accepted = 0usize;
                        let mut first = String::new();
                        let mut name = String::with_capacity(40);
                        let v: AvpValue = Unsigned32::new(1).into();
                        for i in 0..per {
                            name.clear();
                            let n = k * per + i;
                            let _ = write!(name, "{}-{}", ["Vendor-Attribute", "Subscriber-Tag", "Custom-AVP"][n % 3], n);
                            if Avp::from_name(&name, v.clone(), Arc::clone(&d)).is_ok() {
                                accepted += 1;
                                if first.is_empty() { first = name.clone(); }
                            }
                        }
                        (accepted, first)
                    }));
                }
                let (mut acc, mut first) = (0usize, String::new());
                for h in hs {
                    let (a, f) = h.join().map_err(|_| "thread died".to_string())?;
                    acc += a;
                    if first.is_empty() { first = f; }
                }
                Ok(format!("UNKNAMES tried={} accepted={} {}", per * 8, acc, first))
            }
            // THREADS <n>: n short-lived threads, one after the other, each decoding and encoding a few fixed-size values
            "THREADS" => {
                let n = t.usize_dec()?;
                let mut bad = 0usize;
                let mut first = String::new();
                for i in 0..n {
                    let h = std::thread::spawn(move || {
                        let w = (0x8000_0000u32).wrapping_add(i as u32 * 977);
                        let mut c = Cursor::new(w.to_be_bytes().to_vec());
                        let mut good = matches!(Unsigned32::decode_from(&mut c), Ok(v) if v.value() == w);
                        let mut c = Cursor::new(w.to_be_bytes().to_vec());
                        good &= Time::decode_from(&mut c).is_ok();
                        let mut v = Vec::new();
                        good &= Integer32::new(-(i as i32)).encode_to(&mut v).is_ok() && v == (-(i as i32)).to_be_bytes();
                        good
                    });
                    match h.join() {
                        Ok(true) => {}
                        Ok(false) => { bad += 1; if first.is_empty() { first = format!("thread{}:wrong", i); } }
                        Err(_) => { bad += 1; if first.is_empty() { first = format!("thread{}:panic", i); } }
                    }
                }
                Ok(format!("THREADS n={} bad={} {}", n, bad, first))
            }
            // TIMEFRAC: Time AVPs built from instants with a sub-second part, at top level and inside a group: the accessor hands back
            // the instant that was put in (the wire carries whole seconds; a built message is not the wire)
            "TIMEFRAC" => {
                use chrono::TimeZone;
                let dict = st.dicts.get("b").ok_or_else(|| "dict b missing".to_string())?.clone();
                let mut bad = Vec::new();
                for (k, nanos) in [1u32, 500_000_000, 999_999_999, 123_456_789, 0].iter().enumerate() {
                    let ts = chrono::Utc.timestamp_opt(1_700_000_000 + k as i64, *nanos).single().ok_or("ts")?;
                    let mut m = DiameterMessage::new(CommandCode::CreditControl, ApplicationId::CreditControl, 0x80, 1, 2, Arc::clone(&dict));
                    m.add_avp(55, None, 0x40, Time::new(ts).into());
                    let mut g = Grouped::new(vec![], Arc::clone(&dict));
                    g.add_avp(55, None, 0x40, Time::new(ts).into());
                    m.add_avp(456, None, 0x40, g.into());
                    let top = m.get_avp(55).and_then(|a| a.get_time()).map(|t| *t.value());
                    let inner = m.get_avp(456).and_then(|a| a.get_grouped()).and_then(|g| g.avps().first().and_then(|a| a.get_time()).map(|t| *t.value()));
                    if top != Some(ts) { bad.push(format!("top:{}ns", nanos)); }
                    if inner != Some(ts) { bad.push(format!("member:{}ns", nanos)); }
                }
                Ok(if bad.is_empty() { "OK".into() } else { format!("TIMEFRAC {}", bad.join(",")) })
            }
            // NESTMT <dict> <threads> <iters> <frame>: that many threads decode the same (deeply nested, well-formed) frame over and over at
            // the same time: how deep ONE message nests is that message's business
            "NESTMT" => {
                let dict = st.dicts.get(t.next()?).ok_or_else(|| "unknown dict".to_string())?.clone();
                let threads = t.usize_dec()?;
                let iters = t.usize_dec()?;
                let frame = t.bytes()?;
                let mut hs = Vec::new();
                for _ in 0..threads {
                    let d = Arc::clone(&dict);
                    let f = frame.clone();
                    hs.push(std::thread::spawn(move || {
                        let mut refused = 0usize;
                        for _ in 0..iters {
                            let mut cur = Cursor::new(&f[..]);
                            if DiameterMessage::decode_from(&mut cur, Arc::clone(&d)).is_err() {
                                refused += 1;
                            }
                        }
                        refused
                    }));
                }
                let mut refused = 0usize;
                for h in hs {
                    refused += h.join().map_err(|_| "thread panicked".to_string())?;
                }
                Ok(format!("NESTMT decodes={} refused={}", threads * iters, refused))
            }
            "XM" => run_decode_multi(st, &mut t),
            // XP <dict> <k> <frame>: decode_from on a reader that already stands k octets PAST the end of what it holds
            "XP" => {
                let dict = st.dicts.get(t.next()?).ok_or_else(|| "unknown dict".to_string())?.clone();
                let k = t.usize_dec()?;
                let bytes = t.bytes()?;
                let r = catch_unwind(AssertUnwindSafe(|| {
                    let n = bytes.len();
                    let mut cur = Cursor::new(bytes);
                    cur.set_position((n + k) as u64);
                    DiameterMessage::decode_from(&mut cur, dict)
                }));
                Ok(decoded_obs(r.map_err(|e| {
                    e.downcast_ref::<String>().cloned().or_else(|| e.downcast_ref::<&str>().map(|s| s.to_string())).unwrap_or_else(|| "panic".into())
                })))
            }
            // XI <dict> <frame>: a reader whose read() is interrupted (ErrorKind::Interrupted, EINTR) before every octet it hands out
            "XI" => {
                let dict = st.dicts.get(t.next()?).ok_or_else(|| "unknown dict".to_string())?.clone();
                let bytes = t.bytes()?;
                let r = catch_unwind(AssertUnwindSafe(|| {
                    let mut rd = Interrupting { inner: Cursor::new(bytes), armed: true };
                    DiameterMessage::decode_from(&mut rd, dict)
                }));
                Ok(decoded_obs(r.map_err(|e| {
                    e.downcast_ref::<String>().cloned().or_else(|| e.downcast_ref::<&str>().map(|s| s.to_string())).unwrap_or_else(|| "panic".into())
                })))
            }
            // POISON: somebody else's decode and encode, on another thread, go through a reader / writer that PANICS inside
            // read() / write() (a bug in the caller's own I/O type).  Nothing of it may be felt by later decodes and encodes.
            "POISON" => {
                let dict = st.dicts.get("b").ok_or_else(|| "dict b missing".to_string())?.clone();
                let h = std::thread::spawn(move || {
                    let _ = catch_unwind(AssertUnwindSafe(|| {
                        let mut rd = Panicking(0);
                        let _ = DiameterMessage::decode_from(&mut rd, Arc::clone(&dict));
                    }));
                    let _ = catch_unwind(AssertUnwindSafe(|| {
                        let mut rd = Panicking(24);
                        let _ = DiameterMessage::decode_from(&mut rd, Arc::clone(&dict));
                    }));
                    let _ = catch_unwind(AssertUnwindSafe(|| {
                        let m = DiameterMessage::new(CommandCode::CreditControl, ApplicationId::CreditControl, 0x80, 1, 2, Arc::clone(&dict));
                        let mut w = Panicking(0);
                        let _ = m.encode_to(&mut w);
                    }));
                    for ty in ["u32", "u64", "i32", "i64", "f32", "f64", "en", "time", "ip4"] {
                        let _ = catch_unwind(AssertUnwindSafe(|| {
                            let mut rd = Panicking(0);
                            let _ = match ty {
                                "u32" => Unsigned32::decode_from(&mut rd).map(|_| ()),
                                "u64" => Unsigned64::decode_from(&mut rd).map(|_| ()),
                                "i32" => Integer32::decode_from(&mut rd).map(|_| ()),
                                "i64" => Integer64::decode_from(&mut rd).map(|_| ()),
                                "f32" => Float32::decode_from(&mut rd).map(|_| ()),
                                "f64" => Float64::decode_from(&mut rd).map(|_| ()),
                                "en" => Enumerated::decode_from(&mut rd).map(|_| ()),
                                "time" => Time::decode_from(&mut rd).map(|_| ()),
                                _ => IPv4::decode_from(&mut rd).map(|_| ()),
                            };
                        }));
                        let _ = catch_unwind(AssertUnwindSafe(|| {
                            let mut w = Panicking(0);
                            let _ = Unsigned32::new(7).encode_to(&mut w);
                            let _ = Unsigned64::new(7).encode_to(&mut w);
                        }));
                    }
                });
                let _ = h.join();
                Ok("OK".into())
            }
            // DGLOBAL <op>: one load / add applied to the library's process-wide DEFAULT_DICT (public, mutable)
            "DGLOBAL" => {
                let op = parse_dop(&mut t)?;
                let mut d = diameter::dictionary::DEFAULT_DICT.write().map_err(|_| "DEFAULT_DICT poisoned".to_string())?;
                match op {
                    DOp::Load(x) => d.load_xml(&x),
                    DOp::Add(a) => d.add_avp(a),
                }
                Ok("OK".into())
            }
            "LEAFDEC" => leaf_dec(&mut t, false),
            // LEAFAFTER <dict> <frame> <ty> <n> <octets>: a whole message is decoded on THIS thread first (result ignored), then the value
            "LEAFAFTER" => {
                let dict = st.dicts.get(t.next()?).ok_or_else(|| "unknown dict".to_string())?.clone();
                let frame = t.bytes()?;
                let _ = catch_unwind(AssertUnwindSafe(|| {
                    let mut cur = Cursor::new(frame);
                    let _ = DiameterMessage::decode_from(&mut cur, dict);
                }));
                leaf_dec(&mut t, false)
            }
            "LEAFDECD" => leaf_dec(&mut t, true),
            "LEAFDECI" => leaf_dec_interrupted(&mut t),
            "LEAFENC" => leaf_enc(&mut t),
            "SWEEP32" => sweep32(&mut t),
            "SWEEPMT" => sweep_mt(&mut t),
            "UTF8" => {
                let b = t.bytes()?;
                Ok(if String::from_utf8(b).is_ok() { "1".into() } else { "0".into() })
            }
            "Q" => query(st, &mut t),
            s => Err(format!("command {}", s)),
        }
    }));
    match r {
        Ok(Ok(s)) => s,
        Ok(Err(e)) => format!("BADCASE {}", e),
        Err(p) => {
            let s = if let Some(s) = p.downcast_ref::<String>() {
                s.clone()
            } else if let Some(s) = p.downcast_ref::<&str>() {
                s.to_string()
            } else {
                "panic".to_string()
            };
            format!("PANIC {}", s.replace('\n', " "))
        }
    }
}

/// SWEEP32 <ty> <lo> <hi>: every four-octet pattern in [lo, hi) through the library: decode, compare the value with the
/// closed form RFC 6733 assigns (a transcription of the model's dec4: unsigned big-endian / two's complement / IEEE-754
/// bit pattern / seconds since 1900-01-01 / dotted quad), re-encode, compare the octets.  Output: SWEPT <n> <failures> [first].
fn sweep32(t: &mut Toks) -> PResult<String> {
    let ty = t.next()?.to_string();
    let lo = t.u64()?;
    let hi = t.u64()?;
    sweep32_run(&ty, lo, hi, 1)
}

/// SWEEPMT <threads> <n>: `threads` threads at once, each taking every four-octet type through n patterns that lie a day and
/// a bit apart (86 477 s; n is above 2^16): what a value decodes to depends on its octets - not on what other threads decode
/// at the same moment, not on how many values this thread has decoded before.  Output: SWEPTMT <n> <failures> [first].
fn sweep_mt(t: &mut Toks) -> PResult<String> {
    let threads = t.usize_dec()?;
    let n = t.u64()?;
    let mut hs = Vec::new();
    for k in 0..threads {
        hs.push(std::thread::spawn(move || {
            let mut res = Vec::new();
            for ty in ["time", "u32", "i32", "en", "f32", "ip4"] {
                let lo = (k as u64).wrapping_mul(0x0101_3f27) & 0xffff_ffff;
                res.push(catch_unwind(AssertUnwindSafe(|| sweep32_run(ty, lo, lo + n, 86_477))).unwrap_or_else(|p| {
                    Ok(format!("SWEPT {} 1 panic:{}", n, p.downcast_ref::<String>().cloned().or_else(|| p.downcast_ref::<&str>().map(|s| s.to_string())).unwrap_or_default().replace(' ', "_")))
                }));
            }
            res
        }));
    }
    let (mut total, mut bad, mut first) = (0u64, 0u64, String::new());
    for h in hs {
        for r in h.join().map_err(|_| "sweep thread died".to_string())? {
            let line = r?;
            let f: Vec<&str> = line.split(' ').collect();
            total += f[1].parse::<u64>().unwrap_or(0);
            let b = f[2].parse::<u64>().unwrap_or(1);
            if b != 0 && bad == 0 {
                first = f.get(3).unwrap_or(&"").to_string();
            }
            bad += b;
        }
    }
    Ok(format!("SWEPTMT {} {} {}", total, bad, first))
}

fn sweep32_run(ty: &str, lo: u64, hi: u64, stride: u64) -> PResult<String> {
    use chrono::TimeZone;
    let mut bad: u64 = 0;
    let mut first = String::new();
    let mut quad = String::with_capacity(16);
    let mut shown = String::with_capacity(16);
    let mut fail = |p: u32, why: &str, bad: &mut u64| {
        if *bad == 0 {
            first = format!("{:08x}:{}", p, why);
        }
        *bad += 1;
    };
    for i in 0..(hi - lo) {
        let p = lo.wrapping_add(i.wrapping_mul(stride)) as u32;
        let b = p.to_be_bytes();
        let mut cur = Cursor::new(&b[..]);
        let mut out = Vec::with_capacity(4);
        let ok = match ty {
            "u32" => match Unsigned32::decode_from(&mut cur) {
                Ok(v) => v.value() == p && v.encode_to(&mut out).is_ok(),
                Err(_) => false,
            },
            "i32" => match Integer32::decode_from(&mut cur) {
                Ok(v) => (v.value() as i64) == (if p >= 0x8000_0000 { p as i64 - (1i64 << 32) } else { p as i64 }) && v.encode_to(&mut out).is_ok(),
                Err(_) => false,
            },
            "en" => match Enumerated::decode_from(&mut cur) {
                Ok(v) => (v.value() as i64) == (if p >= 0x8000_0000 { p as i64 - (1i64 << 32) } else { p as i64 }) && v.encode_to(&mut out).is_ok(),
                Err(_) => false,
            },
            "f32" => match Float32::decode_from(&mut cur) {
                Ok(v) => v.value().to_bits() == p && v.encode_to(&mut out).is_ok(),
                Err(_) => false,
            },
            "time" => match Time::decode_from(&mut cur) {
                Ok(v) => {
                    let want = chrono::Utc.timestamp_opt(p as i64 - 2_208_988_800, 0).single();
                    Some(*v.value()) == want && v.encode_to(&mut out).is_ok()
                }
                Err(_) => false,
            },
            "ip4" => match IPv4::decode_from(&mut cur) {
                Ok(v) => {
                    // no accessor: the dotted quad is read off the Display text, else off the Debug text
                    use std::fmt::Write as _;
                    quad.clear();
                    shown.clear();
                    let _ = write!(quad, "{}.{}.{}.{}", b[0], b[1], b[2], b[3]);
                    let _ = write!(shown, "{}", v);
                    (shown == quad || (shown.parse::<std::net::Ipv4Addr>().is_err() && format!("{:?}", v).contains(quad.as_str()))) && v.encode_to(&mut out).is_ok()
                }
                Err(_) => false,
            },
            s => return Err(format!("sweep ty {}", s)),
        };
        if !ok {
            fail(p, "decode", &mut bad);
        } else if out != b {
            fail(p, "reencode", &mut bad);
        }
    }
    Ok(format!("SWEPT {} {} {}", hi - lo, bad, first))
}
