//! Engine `codec`: runs the library's pure codec, builder, accessors and dictionary on the
//! cases the orchestrator sends, one observation line per case line.

use crate::proto::*;
use diameter::avp::*;
use diameter::dictionary::Dictionary;
use diameter::{ApplicationId, CommandCode, DiameterMessage};
use std::collections::HashMap;
use std::fmt::Write as _;
use std::io::Cursor;
use std::panic::{catch_unwind, AssertUnwindSafe};

pub struct State {
    pub dicts: HashMap<String, Arc<Dictionary>>,
}

fn enc_obs(out: &mut String, m: &DiameterMessage) {
    let mut buf = Vec::new();
    match m.encode_to(&mut buf) {
        Ok(()) => {
            out.push_str(" ENC ");
            hex(out, &buf);
        }
        Err(_) => out.push_str(" ENC ERR"),
    }
}

/// Decodes on a thread with an ordinary 2 MiB stack; a panic is reported as Err(text).
pub fn decode_isolated(
    bytes: Vec<u8>,
    dict: Arc<Dictionary>,
) -> std::result::Result<diameter::Result<DiameterMessage>, String> {
    let h = std::thread::Builder::new()
        .stack_size(2 * 1024 * 1024)
        .spawn(move || {
            let mut cur = Cursor::new(bytes);
            DiameterMessage::decode_from(&mut cur, dict)
        })
        .map_err(|e| format!("spawn: {}", e))?;
    h.join().map_err(|e| {
        if let Some(s) = e.downcast_ref::<String>() {
            s.clone()
        } else if let Some(s) = e.downcast_ref::<&str>() {
            s.to_string()
        } else {
            "panic".to_string()
        }
    })
}

fn run_history(st: &State, t: &mut Toks) -> PResult<String> {
    let dict = st
        .dicts
        .get(t.next()?)
        .ok_or_else(|| "unknown dict".to_string())?
        .clone();
    let mut out = String::new();
    let mut m = match t.next()? {
        "NEW" => {
            let cmd = t.u32()?;
            let app = t.u32()?;
            let fl = t.u32()? as u8;
            let hbh = t.u32()?;
            let e2e = t.u32()?;
            let cmd = CommandCode::from_u32(cmd).ok_or_else(|| "case: unknown command".to_string())?;
            let app = ApplicationId::from_u32(app).ok_or_else(|| "case: unknown application".to_string())?;
            DiameterMessage::new(cmd, app, fl, hbh, e2e, Arc::clone(&dict))
        }
        "DEC" => {
            let bytes = t.bytes()?;
            match decode_isolated(bytes, Arc::clone(&dict)) {
                Ok(Ok(m)) => m,
                Ok(Err(_)) => return Ok("R err".into()),
                Err(p) => return Ok(format!("PANIC {}", p.replace('\n', " "))),
            }
        }
        s => return Err(format!("hstart {}", s)),
    };
    let nops = t.usize_dec()?;
    let mut statuses = String::new();
    for _ in 0..nops {
        let ok = match t.next()? {
            "ADD" => {
                let e = parse_aexp(t)?;
                match eval_a(&e, &dict)? {
                    Some(a) => {
                        m.add(a);
                        true
                    }
                    None => false,
                }
            }
            "ADDAVP" => {
                let c = t.u32()?;
                let vd = t.opt_u32()?;
                let fl = t.u32()? as u8;
                let v = parse_vexp(t)?;
                match eval_v(&v, &dict)? {
                    Some(v) => {
                        m.add_avp(c, vd, fl, v);
                        true
                    }
                    None => false,
                }
            }
            "ADDNAME" => {
                let n = t.bytes()?;
                let v = parse_vexp(t)?;
                let name = String::from_utf8(n).map_err(|_| "case: name not utf8".to_string())?;
                match eval_v(&v, &dict)? {
                    Some(v) => m.add_avp_by_name(&name, v).is_ok(),
                    None => false,
                }
            }
            "READD" => {
                let i = t.usize_dec()?;
                match m.get_avps().get(i).cloned() {
                    Some(a) => {
                        m.add(a);
                        true
                    }
                    None => false,
                }
            }
            "REWRAP" => {
                let i = t.usize_dec()?;
                let c = t.u32()?;
                let vd = t.opt_u32()?;
                let fl = t.u32()? as u8;
                let k = t.usize_dec()?;
                let mut extra = Vec::new();
                for _ in 0..k {
                    extra.push(parse_aexp(t)?);
                }
                let g = m.get_avps().get(i).and_then(|a| a.get_grouped()).cloned();
                match g {
                    Some(mut g) => {
                        let mut built = Vec::new();
                        let mut all = true;
                        for e in &extra {
                            match eval_a(e, &dict)? {
                                Some(a) => built.push(a),
                                None => {
                                    all = false;
                                    break;
                                }
                            }
                        }
                        if all {
                            for a in built {
                                g.add(a);
                            }
                            m.add_avp(c, vd, fl, g.into());
                            true
                        } else {
                            false
                        }
                    }
                    None => false,
                }
            }
            s => return Err(format!("hop {}", s)),
        };
        statuses.push(if ok { '1' } else { '0' });
    }
    if statuses.is_empty() {
        statuses.push('-');
    }
    out.push_str("R ok ");
    out.push_str(&statuses);
    out.push(' ');
    obs_msg(&mut out, &m);
    enc_obs(&mut out, &m);
    Ok(out)
}

fn run_decode(st: &State, t: &mut Toks) -> PResult<String> {
    let dict = st
        .dicts
        .get(t.next()?)
        .ok_or_else(|| "unknown dict".to_string())?
        .clone();
    let bytes = t.bytes()?;
    match decode_isolated(bytes, dict) {
        Ok(Ok(m)) => {
            let mut out = String::from("OK ");
            // a returned message must be displayable, inspectable and re-encodable
            obs_msg(&mut out, &m);
            enc_obs(&mut out, &m);
            Ok(out)
        }
        Ok(Err(_)) => Ok("ERR".into()),
        Err(p) => Ok(format!("PANIC {}", p.replace('\n', " "))),
    }
}

fn leaf_dec(t: &mut Toks) -> PResult<String> {
    let ty = t.next()?.to_string();
    let vl = t.u64()? as usize;
    let bytes = t.bytes()?;
    let total = bytes.len();
    let mut cur = Cursor::new(bytes);
    let r: diameter::Result<AvpValue> = match ty.as_str() {
        "addr" => Address::decode_from(&mut cur, vl).map(Into::into),
        "ip4" => IPv4::decode_from(&mut cur).map(Into::into),
        "ip6" => IPv6::decode_from(&mut cur).map(Into::into),
        "id" => Identity::decode_from(&mut cur, vl).map(Into::into),
        "uri" => DiameterURI::decode_from(&mut cur, vl).map(Into::into),
        "en" => Enumerated::decode_from(&mut cur).map(Into::into),
        "f32" => Float32::decode_from(&mut cur).map(Into::into),
        "f64" => Float64::decode_from(&mut cur).map(Into::into),
        "i32" => Integer32::decode_from(&mut cur).map(Into::into),
        "i64" => Integer64::decode_from(&mut cur).map(Into::into),
        "oct" => OctetString::decode_from(&mut cur, vl).map(Into::into),
        "time" => Time::decode_from(&mut cur).map(Into::into),
        "u32" => Unsigned32::decode_from(&mut cur).map(Into::into),
        "u64" => Unsigned64::decode_from(&mut cur).map(Into::into),
        "utf" => UTF8String::decode_from(&mut cur, vl).map(Into::into),
        s => return Err(format!("leafdec ty {}", s)),
    };
    match r {
        Ok(v) => {
            let mut out = String::from("OK ");
            obs_value(&mut out, &v);
            out.push(' ');
            let mut buf = Vec::new();
            match value_encode(&v, &mut buf) {
                Ok(()) => hex(&mut out, &buf),
                Err(_) => out.push_str("ENCERR"),
            }
            let _ = write!(out, " {}", total - (cur.position() as usize).min(total));
            Ok(out)
        }
        Err(_) => Ok("ERR".into()),
    }
}

pub fn value_encode(v: &AvpValue, buf: &mut Vec<u8>) -> diameter::Result<()> {
    match v {
        AvpValue::Address(a) => a.encode_to(buf),
        AvpValue::AddressIPv4(a) => a.encode_to(buf),
        AvpValue::AddressIPv6(a) => a.encode_to(buf),
        AvpValue::Identity(a) => a.encode_to(buf),
        AvpValue::DiameterURI(a) => a.encode_to(buf),
        AvpValue::Enumerated(a) => a.encode_to(buf),
        AvpValue::Float32(a) => a.encode_to(buf),
        AvpValue::Float64(a) => a.encode_to(buf),
        AvpValue::Grouped(a) => a.encode_to(buf),
        AvpValue::Integer32(a) => a.encode_to(buf),
        AvpValue::Integer64(a) => a.encode_to(buf),
        AvpValue::OctetString(a) => a.encode_to(buf),
        AvpValue::Time(a) => a.encode_to(buf),
        AvpValue::Unsigned32(a) => a.encode_to(buf),
        AvpValue::Unsigned64(a) => a.encode_to(buf),
        AvpValue::UTF8String(a) => a.encode_to(buf),
    }
}

fn leaf_enc(t: &mut Toks) -> PResult<String> {
    let l = parse_leaf(t)?;
    let v = leaf_value(&l)?;
    let mut buf = Vec::new();
    match value_encode(&v, &mut buf) {
        Ok(()) => {
            let mut out = String::from("OK ");
            hex(&mut out, &buf);
            let _ = write!(out, " {:x}", v.length());
            Ok(out)
        }
        Err(_) => Ok("ERR".into()),
    }
}

fn query(st: &State, t: &mut Toks) -> PResult<String> {
    let dict = st
        .dicts
        .get(t.next()?)
        .ok_or_else(|| "unknown dict".to_string())?
        .clone();
    let k = t.usize_dec()?;
    let mut out = String::from("Q");
    for _ in 0..k {
        out.push(' ');
        match t.next()? {
            "AVP" => {
                let c = t.u32()?;
                let vd = t.opt_u32()?;
                let def = dict.get_avp(c, vd);
                let ty = dict.get_avp_type(c, vd);
                let nm = dict.get_avp_name(c, vd);
                match def {
                    Some(d) => {
                        obs_def(&mut out, d);
                        // the three keyed lookups must tell the same story
                        if ty != Some(&d.avp_type) || nm != Some(d.name.as_str()) {
                            out.push_str("!inconsistent");
                        }
                    }
                    None => {
                        out.push_str("none");
                        if ty.is_some() || nm.is_some() {
                            out.push_str("!inconsistent");
                        }
                    }
                }
            }
            "NAME" => {
                let n = String::from_utf8(t.bytes()?).map_err(|_| "case: name".to_string())?;
                match dict.get_avp_by_name(&n) {
                    Some(d) => obs_def(&mut out, d),
                    None => out.push_str("none"),
                }
            }
            "APP" => {
                let n = String::from_utf8(t.bytes()?).map_err(|_| "case: name".to_string())?;
                match dict.get_application_id_by_name(&n) {
                    Some(a) => {
                        let _ = write!(out, "{:x}", a as u32);
                    }
                    None => out.push_str("none"),
                }
            }
            "CMD" => {
                let n = String::from_utf8(t.bytes()?).map_err(|_| "case: name".to_string())?;
                match dict.get_command_code_by_name(&n) {
                    Some(a) => {
                        let _ = write!(out, "{:x}", a as u32);
                    }
                    None => out.push_str("none"),
                }
            }
            s => return Err(format!("query {}", s)),
        }
    }
    Ok(out)
}

pub fn handle(st: &mut State, line: &str) -> String {
    let mut t = Toks::new(line);
    let cmd = match t.next() {
        Ok(c) => c.to_string(),
        Err(_) => return String::new(),
    };
    let r = catch_unwind(AssertUnwindSafe(|| -> PResult<String> {
        match cmd.as_str() {
            "LIM" => Ok("OK".into()),
            "D" => {
                let id = t.next()?.to_string();
                let k = t.usize_dec()?;
                let mut ops = Vec::new();
                for _ in 0..k {
                    ops.push(parse_dop(&mut t)?);
                }
                st.dicts.insert(id, Arc::new(build_dict(ops)));
                Ok("OK".into())
            }
            "H" => run_history(st, &mut t),
            "X" => run_decode(st, &mut t),
            "LEAFDEC" => leaf_dec(&mut t),
            "LEAFENC" => leaf_enc(&mut t),
            "UTF8" => {
                let b = t.bytes()?;
                Ok(if String::from_utf8(b).is_ok() { "1".into() } else { "0".into() })
            }
            "Q" => query(st, &mut t),
            s => Err(format!("command {}", s)),
        }
    }));
    match r {
        Ok(Ok(s)) => s,
        Ok(Err(e)) => format!("BADCASE {}", e),
        Err(p) => {
            let s = if let Some(s) = p.downcast_ref::<String>() {
                s.clone()
            } else if let Some(s) = p.downcast_ref::<&str>() {
                s.to_string()
            } else {
                "panic".to_string()
            };
            format!("PANIC {}", s.replace('\n', " "))
        }
    }
}
