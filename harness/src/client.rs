//! Engine `client`: the real DiameterClient (hook verif_attach_stream) driven through an explicit
//! schedule over an in-memory duplex whose write side is gated, single-threaded tokio runtime
//! with paused time.  After every event the reader task is allowed to run to quiescence.
//!
//! CL <dict> <n> events:
//!   R <hop>      start send_message(request with that hop-by-hop id); it runs until it blocks in the write
//!   RX <hop>     send_message with a request that cannot be encoded (a Time after 2036): returns Err, nothing may reach the wire
//!   G <k>        let k more request octets through the write gate
//!   W            open the gate, let the pending send complete
//!   P <hop>      the peer emits a complete answer frame with that hop-by-hop id (end-to-end id = emission index)
//!   PS <hop> <cut>  the same, delivered in two pieces cut after <cut> octets (segmentation)
//!   PL <hop> <n>    a complete answer carrying n extra octets (answers of different lengths on one connection)
//!   PT <hop> <cut>  only the first <cut> octets of an answer (to be followed by B eof / B reset)
//!   PG <hop> <cut> <ms>  the same as PS with <ms> milliseconds of (virtual) time between the two pieces
//!   B <kind>     eof | reset | garbage | unknownavp : whatever makes the reader's Codec::decode fail
//!   WE           the write of the send that is blocked at the gate fails (send_message returns Err after registering)
//!   D <k>        the caller drops the ResponseFuture of send number k (if that send has returned one)
//!   T <ms>       <ms> milliseconds of (virtual) time pass with every task idle
//!   CA           the same client object gets a new connection (what connect() does on success; hook verif_attach_stream):
//!                a fresh in-memory stream becomes the client's writer, a new reader task is spawned for it; the older
//!                connections and their readers stay alive.  R/G/W/WE act on the newest connection
//!   CF           connect() is called and fails (the client's address is a closed loopback port): real TcpStream::connect
//!   BB <kind> <n> <hop> <burn>  (burn = operations spent beforehand, shifting where the runtime's cooperative budget runs out) the stream ends as with B <kind> and, WITHOUT letting any other task run in between, n requests
//!                (hop, hop+1, ...) are sent back to back from one task: the reader's shutdown races the sends at
//!                whatever points the runtime makes the sender yield
//!   SEL <c>      the peer events P/PS/PG/PT/B that follow act on connection number c (0 = the first; default: the newest)
//! Output: one token per send, in order: GOT:<hop>:<e2e> | ERR | PENDING | DROPPED, then " READER " alive|stopped

use crate::codec::State;
use crate::proto::*;
use diameter::avp::flags::M;
use diameter::avp::*;
use diameter::transport::{DiameterClient, DiameterClientConfig};
use diameter::{ApplicationId, CommandCode, DiameterMessage};
use std::collections::VecDeque;
use std::fmt::Write as _;
use std::panic::{catch_unwind, AssertUnwindSafe};
use std::pin::Pin;
use std::sync::atomic::{AtomicBool, Ordering};
use std::sync::{Arc, Mutex};
use std::task::{Context, Poll, Waker};
use tokio::io::{AsyncRead, AsyncWrite, ReadBuf};

#[derive(Default)]
struct DState {
    to_client: VecDeque<u8>,
    eof: bool,
    reset: bool,
    read_waker: Option<Waker>,
    gate: usize,
    gate_open: bool,
    from_client: Vec<u8>,
    write_waker: Option<Waker>,
    write_blocked: bool,
    write_err: bool,
    end_polls: usize,
}

#[derive(Clone)]
struct Duplex(Arc<Mutex<DState>>);

impl AsyncRead for Duplex {
    fn poll_read(self: Pin<&mut Self>, cx: &mut Context<'_>, buf: &mut ReadBuf<'_>) -> Poll<std::io::Result<()>> {
        let mut s = self.0.lock().unwrap();
        if !s.to_client.is_empty() {
            let n = buf.remaining().min(s.to_client.len());
            let v: Vec<u8> = s.to_client.drain(..n).collect();
            buf.put_slice(&v);
            return Poll::Ready(Ok(()));
        }
        if s.reset || s.eof {
            s.end_polls += 1;
            if s.end_polls > crate::stream::SPIN_LIMIT {
                panic!("busy loop: the stream was polled {} times after it had reported end of file / reset", s.end_polls);
            }
        }
        if s.reset {
            return Poll::Ready(Err(std::io::Error::new(std::io::ErrorKind::ConnectionReset, "reset")));
        }
        if s.eof {
            return Poll::Ready(Ok(()));
        }
        s.read_waker = Some(cx.waker().clone());
        Poll::Pending
    }
}

impl AsyncWrite for Duplex {
    fn poll_write(self: Pin<&mut Self>, cx: &mut Context<'_>, buf: &[u8]) -> Poll<std::io::Result<usize>> {
        let mut s = self.0.lock().unwrap();
        if s.write_err {
            s.write_err = false;
            s.write_blocked = false;
            return Poll::Ready(Err(std::io::Error::new(std::io::ErrorKind::BrokenPipe, "broken pipe")));
        }
        let n = if s.gate_open { buf.len() } else { s.gate.min(buf.len()) };
        if n == 0 {
            s.write_waker = Some(cx.waker().clone());
            s.write_blocked = true;
            return Poll::Pending;
        }
        if !s.gate_open {
            s.gate -= n;
        }
        s.from_client.extend_from_slice(&buf[..n]);
        Poll::Ready(Ok(n))
    }
    fn poll_flush(self: Pin<&mut Self>, _cx: &mut Context<'_>) -> Poll<std::io::Result<()>> {
        Poll::Ready(Ok(()))
    }
    fn poll_shutdown(self: Pin<&mut Self>, _cx: &mut Context<'_>) -> Poll<std::io::Result<()>> {
        Poll::Ready(Ok(()))
    }
}

impl Duplex {
    fn push(&self, data: &[u8]) {
        let mut s = self.0.lock().unwrap();
        s.to_client.extend(data.iter().copied());
        if let Some(w) = s.read_waker.take() {
            w.wake();
        }
    }
    fn end(&self, reset: bool) {
        let mut s = self.0.lock().unwrap();
        if reset {
            s.reset = true;
        } else {
            s.eof = true;
        }
        if let Some(w) = s.read_waker.take() {
            w.wake();
        }
    }
    fn allow(&self, k: Option<usize>) {
        let mut s = self.0.lock().unwrap();
        match k {
            Some(k) => s.gate += k,
            None => s.gate_open = true,
        }
        s.write_blocked = false;
        if let Some(w) = s.write_waker.take() {
            w.wake();
        }
    }
    /// fails the write that is blocked at the gate (no effect when nothing is blocked)
    fn fail_write(&self) {
        let mut s = self.0.lock().unwrap();
        if s.write_blocked {
            s.write_err = true;
            if let Some(w) = s.write_waker.take() {
                w.wake();
            }
        }
    }
    fn close_gate(&self) {
        let mut s = self.0.lock().unwrap();
        s.gate_open = false;
        s.gate = 0;
    }
}

async fn settle() {
    for _ in 0..64 {
        tokio::task::yield_now().await;
    }
}

enum Ev {
    /// the handle() future is dropped and handle() is called again (first connection)
    HR,
    /// the peer answers the request with that hop-by-hop id with a message of ANOTHER command code
    PC(u32),
    /// that many milliseconds of REAL time pass (for whatever measures with the system clock)
    TR(u64),
    R(u32),
    RX(u32),
    PL(u32, usize),
    G(usize),
    W,
    WE,
    D(usize),
    T(u64),
    CA,
    CF,
    Sel(usize),
    BB(String, usize, u32, usize),
    P(u32, Option<usize>, u64),
    PT(u32, usize),
    B(String),
    /// n requests hop, hop+1, ... sent one after the other, each completely written
    RN(usize, u32),
    /// `fut = client.send_message(again).await`: request `hop` is sent completely and future k is dropped by the assignment,
    /// without having been looked at in between
    RS(u32, usize),
    /// future k is handed to ANOTHER task, which awaits it from now on (the caller looked at it before, e.g. through a
    /// `timeout(&mut fut)` that elapsed, and then moved it)
    AW(usize),
    /// hold: what the peer emits from now on is kept back ...
    H,
    /// ... and delivered in one piece here
    U,
}

type SendResult = std::result::Result<diameter::transport::client::ResponseFuture, ()>;

/// polls every future that has been handed out and is not known to be complete, once, without waiting
/// requests and answers are not all Credit-Control: the command (and application) is picked by the hop-by-hop id, so that
/// every command the library knows - watchdogs, capabilities exchange, disconnect - goes through the client as a request
fn cmd_app_of(hop: u32) -> (CommandCode, ApplicationId) {
    match hop % 12 {
        0 | 1 | 2 => (CommandCode::CreditControl, ApplicationId::CreditControl),
        3 => (CommandCode::DeviceWatchdog, ApplicationId::Common),
        4 => (CommandCode::CapabilitiesExchange, ApplicationId::Common),
        5 => (CommandCode::DisconnectPeer, ApplicationId::Common),
        6 => (CommandCode::ReAuth, ApplicationId::Gx),
        7 => (CommandCode::SessionTerminate, ApplicationId::Rx),
        8 => (CommandCode::AbortSession, ApplicationId::Rx),
        9 => (CommandCode::SpendingLimit, ApplicationId::Sy),
        10 => (CommandCode::Accounting, ApplicationId::Accounting),
        _ => (CommandCode::AA, ApplicationId::Rx),
    }
}

fn observe(results: &mut Vec<Option<SendResult>>, resolved: &mut Vec<Option<String>>, at: usize) {
    use std::future::Future;
    resolved.resize(results.len(), None);
    let waker = Waker::noop();
    let mut cx = Context::from_waker(&waker);
    for k in 0..results.len() {
        if resolved[k].is_some() {
            continue;
        }
        let ready = match &mut results[k] {
            Some(Ok(fut)) => match Pin::new(fut).poll(&mut cx) {
                Poll::Ready(Ok(m)) => Some(format!("GOT:{:x}:{:x}@{}", m.get_hop_by_hop_id(), m.get_end_to_end_id(), at)),
                Poll::Ready(Err(_)) => Some(format!("ERR@{}", at)),
                Poll::Pending => None,
            },
            _ => None,
        };
        if let Some(tok) = ready {
            // the completed future object stays alive (as in a caller that polled it through `&mut fut`) until event D or the end
            resolved[k] = Some(tok);
        }
    }
}

pub fn run(st: &State, t: &mut Toks) -> PResult<String> {
    let dict = st.dicts.get(t.next()?).ok_or_else(|| "unknown dict".to_string())?.clone();
    let n = t.usize_dec()?;
    let mut evs = Vec::new();
    for _ in 0..n {
        evs.push(match t.next()? {
            "R" => Ev::R(t.u32()?),
            "RX" => Ev::RX(t.u32()?),
            "PC" => Ev::PC(t.u32()?),
            "TR" => Ev::TR(t.u64()?),
            "HR" => Ev::HR,
            "PL" => {
                let h = t.u32()?;
                Ev::PL(h, t.u64()? as usize)
            }
            "G" => Ev::G(t.u64()? as usize),
            "W" => Ev::W,
            "P" => Ev::P(t.u32()?, None, 0),
            "PS" => {
                let h = t.u32()?;
                Ev::P(h, Some(t.u64()? as usize), 0)
            }
            "PG" => {
                let h = t.u32()?;
                let c = t.u64()? as usize;
                Ev::P(h, Some(c), t.u64()?)
            }
            "WE" => Ev::WE,
            "D" => Ev::D(t.usize_dec()?),
            "T" => Ev::T(t.u64()?),
            "CA" => Ev::CA,
            "CF" => Ev::CF,
            "SEL" => Ev::Sel(t.usize_dec()?),
            "BB" => {
                let k = t.next()?.to_string();
                let n = t.usize_dec()?;
                let h = t.u32()?;
                Ev::BB(k, n, h, t.usize_dec()?)
            }
            "PT" => {
                let h = t.u32()?;
                Ev::PT(h, t.u64()? as usize)
            }
            "B" => Ev::B(t.next()?.to_string()),
            "RN" => {
                let n = t.usize_dec()?;
                Ev::RN(n, t.u32()?)
            }
            "RS" => {
                let h = t.u32()?;
                Ev::RS(h, t.usize_dec()?)
            }
            "AW" => Ev::AW(t.usize_dec()?),
            "H" => Ev::H,
            "U" => Ev::U,
            s => return Err(format!("client event {}", s)),
        });
    }
    let res = catch_unwind(AssertUnwindSafe(|| {
        let rt = tokio::runtime::Builder::new_current_thread().enable_all().start_paused(true).build().expect("rt");
        rt.block_on(async move {
            // the client's own address is a loopback port nobody listens on: connect() (event CF) fails for real
            let dead_port = {
                let l = std::net::TcpListener::bind("127.0.0.1:0").expect("bind");
                l.local_addr().expect("addr").port()
            };
            let mut client = DiameterClient::new(&format!("127.0.0.1:{}", dead_port), DiameterClientConfig { use_tls: false, verify_cert: false });
            let restart = Arc::new(tokio::sync::Notify::new());
            let mut conns: Vec<(Duplex, Arc<AtomicBool>)> = Vec::new();
            {
                let duplex = Duplex(Arc::new(Mutex::new(DState::default())));
                let mut handler = client.verif_attach_stream(duplex.clone());
                let reader_done = Arc::new(AtomicBool::new(false));
                let rd = Arc::clone(&reader_done);
                let dict_r = Arc::clone(&dict);
                let restart0 = Arc::clone(&restart);
                tokio::spawn(async move {
                    // `HR`: the caller drops the handle() future (a select! / timeout arm around it) while the connection is idle and
                    // calls handle() again on the same ClientHandler
                    loop {
                        tokio::select! {
                            biased;
                            _ = restart0.notified() => continue,
                            _ = DiameterClient::handle(&mut handler, Arc::clone(&dict_r)) => break,
                        }
                    }
                    rd.store(true, Ordering::SeqCst);
                    // the caller keeps its ClientHandler after handle() has returned (as one that drives handle() from its
                    // own task does): what handle() owes the waiters must not depend on the handler being dropped
                    std::future::pending::<()>().await;
                    drop(handler);
                });
                conns.push((duplex, reader_done));
            }
            let mut sel: usize = 0;
            let client = Arc::new(tokio::sync::Mutex::new(client));
            let mut results: Vec<Option<SendResult>> = Vec::new();
            let mut dropped: Vec<usize> = Vec::new();
            let mut unencodable: Vec<usize> = Vec::new();
            let mut write_faulted = false;
            let mut resolved: Vec<Option<String>> = Vec::new();
            let mut inflight: Option<(usize, tokio::task::JoinHandle<SendResult>)> = None;
            let mut held: Option<Vec<u8>> = None;
            let mut awaited: std::collections::HashMap<usize, tokio::task::JoinHandle<String>> = std::collections::HashMap::new();
            let mut held_end: Option<String> = None;      // a stream end announced while holding: delivered together with the held octets
            let mut emitted: Vec<u32> = vec![0];      // answers emitted so far, per connection (the end-to-end id of an answer)
            let nev = evs.len();
            for (ei, e) in evs.into_iter().enumerate() {
                match e {
                    Ev::R(h) => {
                        // a previous send still blocked: finish it first (the API is &mut self)
                        if let Some((idx, jh)) = inflight.take() {
                            conns[conns.len() - 1].0.allow(None);
                            results[idx] = Some(jh.await.unwrap_or(Err(())));
                        }
                        conns[conns.len() - 1].0.close_gate();
                        let mut req = DiameterMessage::new(cmd_app_of(h).0, cmd_app_of(h).1, 0x80, h, 7, Arc::clone(&dict));
                        req.add_avp(264, None, M, Identity::new("host.example.com").into());
                        let c = Arc::clone(&client);
                        let jh = tokio::spawn(async move {
                            let mut c = c.lock().await;
                            c.send_message(req).await.map_err(|_| ())
                        });
                        results.push(None);
                        inflight = Some((results.len() - 1, jh));
                    }
                    Ev::RX(h) => {
                        if let Some((idx, jh)) = inflight.take() {
                            conns[conns.len() - 1].0.allow(None);
                            results[idx] = Some(jh.await.unwrap_or(Err(())));
                        }
                        conns[conns.len() - 1].0.allow(None);
                        use chrono::TimeZone;
                        let mut req = DiameterMessage::new(cmd_app_of(h).0, cmd_app_of(h).1, 0x80, h, 7, Arc::clone(&dict));
                        req.add_avp(264, None, M, Identity::new("host.example.com").into());
                        req.add_avp(55, None, M, Time::new(chrono::Utc.timestamp_opt(2_208_988_800, 0).single().expect("time")).into());
                        let mut c = client.lock().await;
                        let r = c.send_message(req).await.map_err(|_| ());
                        drop(c);
                        results.push(Some(r));
                        unencodable.push(results.len() - 1);
                    }
                    Ev::PL(h, n) => {
                        let mut ans = DiameterMessage::new(cmd_app_of(h).0, cmd_app_of(h).1, 0, h, emitted[sel], Arc::clone(&dict));
                        ans.add_avp(268, None, M, Unsigned32::new(2001).into());
                        ans.add_avp(25, None, 0, OctetString::new(vec![0x5a; n]).into());
                        emitted[sel] += 1;
                        let mut b = Vec::new();
                        ans.encode_to(&mut b).expect("encode answer");
                        match &mut held {
                            Some(v) => v.extend_from_slice(&b),
                            None => conns[sel].0.push(&b),
                        }
                    }
                    Ev::H => held = Some(Vec::new()),
                    Ev::U => {
                        if let Some(v) = held.take() {
                            conns[sel].0.push(&v);
                        }
                        // ... and the end of the stream right behind them, in the same wake-up of the reader
                        match held_end.take().as_deref() {
                            Some("eof") => conns[sel].0.end(false),
                            Some("reset") => conns[sel].0.end(true),
                            Some("garbage") => conns[sel].0.push(&[1, 0, 0, 0, 9, 9, 9, 9]),
                            _ => {}
                        }
                    }
                    Ev::G(k) => conns[conns.len() - 1].0.allow(Some(k)),
                    Ev::W => {
                        if let Some((idx, jh)) = inflight.take() {
                            conns[conns.len() - 1].0.allow(None);
                            results[idx] = Some(jh.await.unwrap_or(Err(())));
                        }
                    }
                    Ev::WE => {
                        write_faulted = true;
                        conns[conns.len() - 1].0.fail_write();
                        settle().await;
                        if let Some((idx, jh)) = inflight.take() {
                            if jh.is_finished() {
                                results[idx] = Some(jh.await.unwrap_or(Err(())));
                            } else {
                                inflight = Some((idx, jh));
                            }
                        }
                    }
                    Ev::D(k) => {
                        // a send that has already returned (all its octets passed the gate) is collected first
                        if let Some((idx, jh)) = inflight.take() {
                            if jh.is_finished() {
                                results[idx] = Some(jh.await.unwrap_or(Err(())));
                            } else {
                                inflight = Some((idx, jh));
                            }
                        }
                        let still_sending = matches!(inflight, Some((idx, _)) if idx == k);
                        let has_future = matches!(results.get(k), Some(Some(Ok(_)))) || matches!(resolved.get(k), Some(Some(_)));
                        if !still_sending && has_future && !dropped.contains(&k) {
                            dropped.push(k);
                            results[k] = None; // drops the ResponseFuture (and with it the oneshot Receiver)
                        }
                    }
                    Ev::T(ms) => tokio::time::sleep(std::time::Duration::from_millis(ms)).await,
                    Ev::CA | Ev::CF => {
                        // the API is &mut self: a send still blocked in its write is finished first
                        if let Some((idx, jh)) = inflight.take() {
                            conns[conns.len() - 1].0.allow(None);
                            results[idx] = Some(jh.await.unwrap_or(Err(())));
                        }
                        let mut c = client.lock().await;
                        if matches!(e, Ev::CF) {
                            let _ = c.connect().await;
                        } else {
                            let duplex = Duplex(Arc::new(Mutex::new(DState::default())));
                            let mut handler = c.verif_attach_stream(duplex.clone());
                            let reader_done = Arc::new(AtomicBool::new(false));
                            let rd = Arc::clone(&reader_done);
                            let dict_r = Arc::clone(&dict);
                            tokio::spawn(async move {
                                DiameterClient::handle(&mut handler, dict_r).await;
                                rd.store(true, Ordering::SeqCst);
                                std::future::pending::<()>().await;
                                drop(handler);
                            });
                            conns.push((duplex, reader_done));
                            emitted.push(0);
                            sel = conns.len() - 1;
                        }
                    }
                    Ev::BB(kind, n, hop0, burn) => {
                        if let Some((idx, jh)) = inflight.take() {
                            conns[conns.len() - 1].0.allow(None);
                            results[idx] = Some(jh.await.unwrap_or(Err(())));
                        }
                        conns[conns.len() - 1].0.allow(None);
                        let mut c = client.lock().await;
                        match kind.as_str() {
                            "reset" => conns[sel].0.end(true),
                            "garbage" => conns[sel].0.push(&[1, 0, 0, 0, 9, 9, 9, 9]),
                            _ => conns[sel].0.end(false),
                        }
                        let scratch = tokio::sync::Mutex::new(());
                        for _ in 0..burn {
                            drop(scratch.lock().await);
                        }
                        for i in 0..n {
                            let mut req = DiameterMessage::new(cmd_app_of(hop0.wrapping_add(i as u32)).0, cmd_app_of(hop0.wrapping_add(i as u32)).1, 0x80, hop0.wrapping_add(i as u32), 7, Arc::clone(&dict));
                            req.add_avp(264, None, M, Identity::new("host.example.com").into());
                            let r = c.send_message(req).await.map_err(|_| ());
                            results.push(Some(r));
                        }
                    }
                    Ev::RN(n, hop0) => {
                        if let Some((idx, jh)) = inflight.take() {
                            conns[conns.len() - 1].0.allow(None);
                            results[idx] = Some(jh.await.unwrap_or(Err(())));
                        }
                        conns[conns.len() - 1].0.allow(None);
                        let mut c = client.lock().await;
                        for i in 0..n {
                            let mut req = DiameterMessage::new(cmd_app_of(hop0.wrapping_add(i as u32)).0, cmd_app_of(hop0.wrapping_add(i as u32)).1, 0x80, hop0.wrapping_add(i as u32), 7, Arc::clone(&dict));
                            req.add_avp(264, None, M, Identity::new("host.example.com").into());
                            let r = c.send_message(req).await.map_err(|_| ());
                            results.push(Some(r));
                        }
                    }
                    Ev::RS(h, k) => {
                        if let Some((idx, jh)) = inflight.take() {
                            conns[conns.len() - 1].0.allow(None);
                            results[idx] = Some(jh.await.unwrap_or(Err(())));
                        }
                        conns[conns.len() - 1].0.allow(None);
                        let mut req = DiameterMessage::new(cmd_app_of(h).0, cmd_app_of(h).1, 0x80 | 0x10, h, 7, Arc::clone(&dict));
                        req.add_avp(264, None, M, Identity::new("host.example.com").into());
                        let r = {
                            let mut c = client.lock().await;
                            c.send_message(req).await.map_err(|_| ())
                        };
                        // the assignment: the new future takes the place of the old one, which is dropped unseen
                        let has_future = matches!(results.get(k), Some(Some(Ok(_))));
                        if has_future && !dropped.contains(&k) {
                            dropped.push(k);
                            results[k] = None;
                        }
                        results.push(Some(r));
                    }
                    Ev::AW(k) => {
                        let unresolved = !matches!(resolved.get(k), Some(Some(_)));
                        if unresolved && !dropped.contains(&k) && !awaited.contains_key(&k) {
                            if let Some(Some(Ok(_))) = results.get(k) {
                                if let Some(Ok(fut)) = results[k].take() {
                                    awaited.insert(k, tokio::spawn(async move {
                                        match fut.await {
                                            Ok(m) => format!("GOT:{:x}:{:x}", m.get_hop_by_hop_id(), m.get_end_to_end_id()),
                                            Err(_) => "ERR".to_string(),
                                        }
                                    }));
                                }
                            }
                        }
                    }
                    Ev::HR => restart.notify_one(),
                    Ev::Sel(c) => {
                        if c < conns.len() {
                            sel = c;
                        }
                    }
                    Ev::P(h, cut, gap) => {
                        // answers of every kind a peer sends: plain, protocol errors ('E' flag, Result-Code 3xxx), proxiable, re-transmitted:
                        // to the client they are the answer to the request with that hop-by-hop id, whatever they say
                        let afl = [0u8, 0x20, 0x40, 0x60, 0x10, 0x30][(h % 6) as usize];
                        let mut ans = DiameterMessage::new(cmd_app_of(h).0, cmd_app_of(h).1, afl, h, emitted[sel], Arc::clone(&dict));
                        ans.add_avp(268, None, M, Unsigned32::new(if afl & 0x20 != 0 { 3002 } else { 2001 }).into());
                        emitted[sel] += 1;
                        let mut b = Vec::new();
                        ans.encode_to(&mut b).expect("encode answer");
                        match cut {
                            Some(c) if c < b.len() => {
                                conns[sel].0.push(&b[..c]);
                                settle().await;
                                if gap > 0 {
                                    tokio::time::sleep(std::time::Duration::from_millis(gap)).await;
                                    settle().await;
                                }
                                conns[sel].0.push(&b[c..]);
                            }
                            _ => match &mut held {
                                Some(v) => v.extend_from_slice(&b),
                                None => conns[sel].0.push(&b),
                            },
                        }
                    }
                    Ev::TR(ms) => std::thread::sleep(std::time::Duration::from_millis(ms)),
                    Ev::PC(h) => {
                        let (cmd, app) = cmd_app_of(h);
                        let other = if cmd == CommandCode::CreditControl { CommandCode::Accounting } else { CommandCode::CreditControl };
                        let mut ans = DiameterMessage::new(other, app, 0, h, emitted[sel], Arc::clone(&dict));
                        ans.add_avp(268, None, M, Unsigned32::new(2001).into());
                        emitted[sel] += 1;
                        let mut b = Vec::new();
                        ans.encode_to(&mut b).expect("encode answer");
                        match &mut held {
                            Some(v) => v.extend_from_slice(&b),
                            None => conns[sel].0.push(&b),
                        }
                    }
                    Ev::PT(h, cut) => {
                        // only the first `cut` octets of an answer (the stream is about to be cut)
                        let mut ans = DiameterMessage::new(cmd_app_of(h).0, cmd_app_of(h).1, 0, h, 0xffff, Arc::clone(&dict));
                        ans.add_avp(268, None, M, Unsigned32::new(2001).into());
                        let mut b = Vec::new();
                        ans.encode_to(&mut b).expect("encode answer");
                        let c = cut.min(b.len().saturating_sub(1));
                        conns[sel].0.push(&b[..c]);
                    }
                    Ev::B(kind) if held.is_some() && matches!(kind.as_str(), "eof" | "reset" | "garbage") => held_end = Some(kind),
                    Ev::B(kind) => match kind.as_str() {
                        "eof" => conns[sel].0.end(false),
                        "reset" => conns[sel].0.end(true),
                        "garbage" => conns[sel].0.push(&[1, 0, 0, 0, 9, 9, 9, 9]),
                        // a well-formed REQUEST from the peer (Disconnect-Peer, Device-Watchdog): nobody waits for it - to the reader it is an
                        // unmatched message like any other
                        "dpr" | "dwr" => {
                            let (cmd, app) = if kind == "dpr" { (CommandCode::DisconnectPeer, ApplicationId::Common) } else { (CommandCode::DeviceWatchdog, ApplicationId::Common) };
                            let mut m = DiameterMessage::new(cmd, app, 0x80, 0x00fe_dcba, 0x77, Arc::clone(&dict));
                            m.add_avp(264, None, M, Identity::new("peer.example.com").into());
                            m.add_avp(296, None, M, Identity::new("example.com").into());
                            let mut b = Vec::new();
                            m.encode_to(&mut b).expect("encode peer request");
                            conns[sel].0.push(&b);
                        }
                        // a frame announcing more than the reader accepts (16 MiB - 1), followed by what could pass for frames
                        "oversized" => {
                            let mut f = vec![1u8, 0xff, 0xff, 0xff];
                            for _ in 0..6 {
                                f.extend_from_slice(&[1, 0, 0, 20, 0, 0, 1, 16, 0, 0, 0, 4, 0, 0, 0, 9, 0, 0, 0, 9]);
                            }
                            conns[sel].0.push(&f);
                        }
                        // a frame announcing less than a header (19), followed by the same
                        "short" => {
                            let mut f = vec![1u8, 0, 0, 19];
                            for _ in 0..6 {
                                f.extend_from_slice(&[1, 0, 0, 20, 0, 0, 1, 16, 0, 0, 0, 4, 0, 0, 0, 9, 0, 0, 0, 9]);
                            }
                            conns[sel].0.push(&f);
                        }
                        _ => {
                            // a well-framed message carrying an AVP the dictionary does not know
                            let mut f = vec![1u8, 0, 0, 32, 0, 0, 1, 16, 0, 0, 0, 4, 0, 0, 0, 1, 0, 0, 0, 2];
                            f.extend_from_slice(&[0x00, 0xde, 0xad, 0x00, 0, 0, 0, 12, 0, 0, 0, 1]);
                            conns[sel].0.push(&f);
                        }
                    },
                }
                settle().await;
                // a send that has returned by now is collected, and every future handed out so far is polled once:
                // the index of the event after which a future was first seen completed is part of the observation
                if let Some((idx, jh)) = inflight.take() {
                    if jh.is_finished() {
                        results[idx] = Some(jh.await.unwrap_or(Err(())));
                    } else {
                        inflight = Some((idx, jh));
                    }
                }
                observe(&mut results, &mut resolved, ei);
            }
            if let Some((idx, jh)) = inflight.take() {
                conns[conns.len() - 1].0.allow(None);
                results[idx] = Some(jh.await.unwrap_or(Err(())));
            }
            settle().await;
            observe(&mut results, &mut resolved, nev);
            let mut out = String::from("CL");
            for (k, r) in results.into_iter().enumerate() {
                if dropped.contains(&k) {
                    out.push_str(" DROPPED");
                    continue;
                }
                if let Some(Some(tok)) = resolved.get(k) {
                    out.push(' ');
                    out.push_str(tok);
                    continue;
                }
                if let Some(jh) = awaited.remove(&k) {
                    // the task that awaits it: done by the time the runtime is idle, or never
                    match tokio::time::timeout(std::time::Duration::from_secs(3600), jh).await {
                        Ok(Ok(tok)) => {
                            out.push(' ');
                            out.push_str(&tok);
                        }
                        Ok(Err(_)) => out.push_str(" ERR"),
                        Err(_) => out.push_str(" PENDING"),
                    }
                    continue;
                }
                match r {
                    Some(Ok(fut)) => match tokio::time::timeout(std::time::Duration::from_secs(3600), fut).await {
                        Ok(Ok(m)) => {
                            let _ = write!(out, " GOT:{:x}:{:x}", m.get_hop_by_hop_id(), m.get_end_to_end_id());
                        }
                        Ok(Err(_)) => out.push_str(" ERR"),
                        Err(_) => out.push_str(" PENDING"),
                    },
                    Some(Err(())) => out.push_str(" ERR"),
                    None => out.push_str(" NOTSENT"),
                }
            }
            out.push_str(if conns[conns.len() - 1].1.load(Ordering::SeqCst) { " READER stopped" } else { " READER alive" });
            // what the peer(s) received must be whole requests only: one 44-octet frame per send that was not refused
            // (not checked when a write was made to fail half-way: a partial frame is then legitimately on the wire)
            if !write_faulted {
                let mut good = true;
                let mut frames = 0usize;
                for (d, _) in &conns {
                    let s = d.0.lock().unwrap();
                    let b = &s.from_client;
                    let mut off = 0usize;
                    while off < b.len() {
                        if off + 4 > b.len() {
                            good = false;
                            break;
                        }
                        let ln = u32::from_be_bytes([0, b[off + 1], b[off + 2], b[off + 3]]) as usize;
                        if b[off] != 1 || ln != 44 || off + ln > b.len() {
                            good = false;
                            break;
                        }
                        frames += 1;
                        off += ln;
                    }
                }
                let _ = unencodable.len();
                let _ = write!(out, " WIRE {}", if good { format!("ok:{}", frames) } else { "bad".to_string() });
            }
            if conns.len() > 1 {
                out.push_str(" ALL");
                for (_, rd) in &conns {
                    out.push_str(if rd.load(Ordering::SeqCst) { " stopped" } else { " alive" });
                }
            }
            out
        })
    }));
    match res {
        Ok(s) => Ok(s),
        Err(p) => {
            let s = if let Some(s) = p.downcast_ref::<String>() {
                s.clone()
            } else if let Some(s) = p.downcast_ref::<&str>() {
                s.to_string()
            } else {
                "panic".into()
            };
            Ok(format!("PANIC {}", s.replace('\n', " ")))
        }
    }
}
