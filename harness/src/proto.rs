//! Token-level protocol shared with the extracted model runner (see ocaml/driver.ml).
//! Numbers are hexadecimal (a leading '-' for negatives), octet strings are "x<hex>".

use diameter::avp::*;
use diameter::dictionary::{AvpDefinition, Dictionary};
use diameter::DiameterMessage;
use std::fmt::Write as _;
use std::net::{Ipv4Addr, Ipv6Addr};
use std::str::FromStr;

pub struct Toks<'a> {
    toks: Vec<&'a str>,
    pos: usize,
}

pub type PResult<T> = std::result::Result<T, String>;

impl<'a> Toks<'a> {
    pub fn new(line: &'a str) -> Toks<'a> {
        Toks {
            toks: line.split(' ').filter(|s| !s.is_empty()).collect(),
            pos: 0,
        }
    }
    pub fn toks_len(&self) -> usize {
        self.toks.len()
    }
    pub fn tok_at(&self, i: usize) -> Option<&'a str> {
        self.toks.get(i).copied()
    }
    pub fn next(&mut self) -> PResult<&'a str> {
        if self.pos >= self.toks.len() {
            return Err("eof".into());
        }
        let s = self.toks[self.pos];
        self.pos += 1;
        Ok(s)
    }
    pub fn u64(&mut self) -> PResult<u64> {
        let s = self.next()?;
        u64::from_str_radix(s, 16).map_err(|e| format!("u64 {}: {}", s, e))
    }
    pub fn u32(&mut self) -> PResult<u32> {
        let v = self.u64()?;
        u32::try_from(v).map_err(|e| format!("u32: {}", e))
    }
    pub fn i64(&mut self) -> PResult<i64> {
        let s = self.next()?;
        let v = if let Some(r) = s.strip_prefix('-') {
            -(i128::from_str_radix(r, 16).map_err(|e| format!("i64 {}: {}", s, e))?)
        } else {
            i128::from_str_radix(s, 16).map_err(|e| format!("i64 {}: {}", s, e))?
        };
        i64::try_from(v).map_err(|e| format!("i64: {}", e))
    }
    pub fn usize_dec(&mut self) -> PResult<usize> {
        let s = self.next()?;
        s.parse::<usize>().map_err(|e| format!("usize {}: {}", s, e))
    }
    pub fn opt_u32(&mut self) -> PResult<Option<u32>> {
        let s = self.next()?;
        if s == "-" {
            Ok(None)
        } else {
            let v = u64::from_str_radix(s, 16).map_err(|e| format!("optu32 {}: {}", s, e))?;
            Ok(Some(u32::try_from(v).map_err(|e| format!("u32: {}", e))?))
        }
    }
    pub fn bytes(&mut self) -> PResult<Vec<u8>> {
        let s = self.next()?;
        unhex(s)
    }
    pub fn boolean(&mut self) -> PResult<bool> {
        match self.next()? {
            "1" => Ok(true),
            "0" => Ok(false),
            s => Err(format!("bool {}", s)),
        }
    }
}

pub fn unhex(s: &str) -> PResult<Vec<u8>> {
    let s = s.strip_prefix('x').ok_or_else(|| format!("octets token {}", s))?;
    let b = s.as_bytes();
    if b.len() % 2 != 0 {
        return Err("odd hex".into());
    }
    let hv = |c: u8| -> PResult<u8> {
        match c {
            b'0'..=b'9' => Ok(c - b'0'),
            b'a'..=b'f' => Ok(c - b'a' + 10),
            b'A'..=b'F' => Ok(c - b'A' + 10),
            _ => Err("hex digit".into()),
        }
    };
    let mut out = Vec::with_capacity(b.len() / 2);
    for i in 0..b.len() / 2 {
        out.push(hv(b[2 * i])? * 16 + hv(b[2 * i + 1])?);
    }
    Ok(out)
}

pub fn hex(out: &mut String, b: &[u8]) {
    out.push('x');
    const D: &[u8; 16] = b"0123456789abcdef";
    for &v in b {
        out.push(D[(v >> 4) as usize] as char);
        out.push(D[(v & 15) as usize] as char);
    }
}

pub fn shex(v: i64) -> String {
    if v < 0 {
        format!("-{:x}", -(v as i128))
    } else {
        format!("{:x}", v)
    }
}

// ---------- expressions (values to construct) ----------

#[derive(Debug, Clone)]
pub enum LeafX {
    A4(Vec<u8>),
    A6(Vec<u8>),
    AE(Vec<u8>),
    Ip4(Vec<u8>),
    Ip6(Vec<u8>),
    Id(Vec<u8>),
    Uri(Vec<u8>),
    En(i64),
    F32(u64),
    F64(u64),
    I32(i64),
    I64(i64),
    Oct(Vec<u8>),
    Time(i64),
    U32(u64),
    U64(u64),
    Utf(Vec<u8>),
}

#[derive(Debug, Clone)]
pub enum VExp {
    Leaf(LeafX),
    GrpNew(Vec<AExp>),
    GrpAdd(Vec<AExp>),
}

#[derive(Debug, Clone)]
pub enum AExp {
    Avp(u32, Option<u32>, u8, VExp),
    Named(Vec<u8>, VExp),
}

pub fn parse_leaf(t: &mut Toks) -> PResult<LeafX> {
    Ok(match t.next()? {
        "a4" => LeafX::A4(t.bytes()?),
        "a6" => LeafX::A6(t.bytes()?),
        "ae" => LeafX::AE(t.bytes()?),
        "ip4" => LeafX::Ip4(t.bytes()?),
        "ip6" => LeafX::Ip6(t.bytes()?),
        "id" => LeafX::Id(t.bytes()?),
        "uri" => LeafX::Uri(t.bytes()?),
        "en" => LeafX::En(t.i64()?),
        "f32" => LeafX::F32(t.u64()?),
        "f64" => LeafX::F64(t.u64()?),
        "i32" => LeafX::I32(t.i64()?),
        "i64" => LeafX::I64(t.i64()?),
        "oct" => LeafX::Oct(t.bytes()?),
        "octz" => LeafX::Oct(vec![0u8; t.u64()? as usize]),
        // n octets of a fixed pattern (octet i = (i * 31 + 7 + i / 251) mod 256): long values whose parts cannot be confused
        "octp" => {
            let n = t.u64()? as usize;
            LeafX::Oct((0..n).map(|i| ((i * 31 + 7 + i / 251) % 256) as u8).collect())
        }
        "time" => LeafX::Time(t.i64()?),
        "u32" => LeafX::U32(t.u64()?),
        "u64" => LeafX::U64(t.u64()?),
        "utf" => LeafX::Utf(t.bytes()?),
        s => return Err(format!("leaf kind {}", s)),
    })
}

pub fn parse_aexp(t: &mut Toks) -> PResult<AExp> {
    match t.next()? {
        "E" => {
            let c = t.u32()?;
            let vd = t.opt_u32()?;
            let fl = t.u32()? as u8;
            let v = parse_vexp(t)?;
            Ok(AExp::Avp(c, vd, fl, v))
        }
        "N" => {
            let n = t.bytes()?;
            let v = parse_vexp(t)?;
            Ok(AExp::Named(n, v))
        }
        s => Err(format!("aexp {}", s)),
    }
}

pub fn parse_vexp(t: &mut Toks) -> PResult<VExp> {
    match t.next()? {
        "L" => Ok(VExp::Leaf(parse_leaf(t)?)),
        "GN" => {
            let k = t.usize_dec()?;
            let mut v = Vec::new();
            for _ in 0..k {
                v.push(parse_aexp(t)?);
            }
            Ok(VExp::GrpNew(v))
        }
        "GA" => {
            let k = t.usize_dec()?;
            let mut v = Vec::new();
            for _ in 0..k {
                v.push(parse_aexp(t)?);
            }
            Ok(VExp::GrpAdd(v))
        }
        s => Err(format!("vexp {}", s)),
    }
}

fn arr4(b: &[u8]) -> PResult<[u8; 4]> {
    <[u8; 4]>::try_from(b).map_err(|_| "need 4 octets".to_string())
}
fn arr16(b: &[u8]) -> PResult<[u8; 16]> {
    <[u8; 16]>::try_from(b).map_err(|_| "need 16 octets".to_string())
}
fn utf8(b: &[u8]) -> PResult<String> {
    String::from_utf8(b.to_vec()).map_err(|_| "case not representable: invalid utf8".to_string())
}

/// Builds the library value through its public constructors.
pub fn leaf_value(l: &LeafX) -> PResult<AvpValue> {
    use chrono::TimeZone;
    Ok(match l {
        LeafX::A4(b) => Address::from_ipv4(Ipv4Addr::from(arr4(b)?)).into(),
        LeafX::A6(b) => Address::from_ipv6(Ipv6Addr::from(arr16(b)?)).into(),
        LeafX::AE(b) => Address::from_e164(utf8(b)?).into(),
        LeafX::Ip4(b) => IPv4::new(Ipv4Addr::from(arr4(b)?)).into(),
        LeafX::Ip6(b) => IPv6::new(Ipv6Addr::from(arr16(b)?)).into(),
        LeafX::Id(b) => Identity::new(&utf8(b)?).into(),
        LeafX::Uri(b) => DiameterURI::new(b.clone()).into(),
        LeafX::En(z) => Enumerated::new(i32::try_from(*z).map_err(|e| e.to_string())?).into(),
        LeafX::F32(n) => Float32::new(f32::from_bits(u32::try_from(*n).map_err(|e| e.to_string())?)).into(),
        LeafX::F64(n) => Float64::new(f64::from_bits(*n)).into(),
        LeafX::I32(z) => Integer32::new(i32::try_from(*z).map_err(|e| e.to_string())?).into(),
        LeafX::I64(z) => Integer64::new(*z).into(),
        LeafX::Oct(b) => OctetString::new(b.clone()).into(),
        LeafX::Time(z) => Time::new(
            chrono::Utc
                // a sub-second part on three seconds out of four (1 ns, half a second, 999 999 999 ns): the wire carries "the first
                // four bytes of the NTP timestamp" (RFC 6733 4.3.1), i.e. the whole seconds of the instant - the floor, whatever
                // the fraction and on both sides of 1970; truncation toward zero or rounding to nearest give another second
                // ... and a leap second (23:59:60.2 is how chrono writes the instant: second :59 with nanosecond 1 200 000 000) where the
                // value is the last second of a minute: still that second on the wire
                .timestamp_opt(*z, if z.rem_euclid(60) == 59 && z.rem_euclid(7) == 3 { 1_200_000_000 } else { match z.rem_euclid(4) { 1 => 1, 2 => 500_000_000, 3 => 999_999_999, _ => 0 } })
                .single()
                .ok_or_else(|| "time not representable".to_string())?,
        )
        .into(),
        LeafX::U32(n) => Unsigned32::new(u32::try_from(*n).map_err(|e| e.to_string())?).into(),
        LeafX::U64(n) => Unsigned64::new(*n).into(),
        LeafX::Utf(b) => UTF8String::new(&utf8(b)?).into(),
    })
}

/// Outcome of evaluating an expression: Ok(Some) built, Ok(None) the library returned an
/// error (unknown name), Err = the case itself is malformed.
pub fn eval_a(e: &AExp, dict: &Arc<Dictionary>) -> PResult<Option<Avp>> {
    match e {
        AExp::Avp(c, vd, fl, v) => match eval_v(v, dict)? {
            Some(v) => Ok(Some(Avp::new(*c, *vd, *fl, v, Arc::clone(dict)))),
            None => Ok(None),
        },
        AExp::Named(n, v) => match eval_v(v, dict)? {
            Some(v) => {
                let name = utf8(n)?;
                match Avp::from_name(&name, v, Arc::clone(dict)) {
                    Ok(a) => Ok(Some(a)),
                    Err(_) => Ok(None),
                }
            }
            None => Ok(None),
        },
    }
}

pub fn eval_v(v: &VExp, dict: &Arc<Dictionary>) -> PResult<Option<AvpValue>> {
    match v {
        VExp::Leaf(l) => Ok(Some(leaf_value(l)?)),
        VExp::GrpNew(ms) => {
            let mut avps = Vec::new();
            for m in ms {
                match eval_a(m, dict)? {
                    Some(a) => avps.push(a),
                    None => return Ok(None),
                }
            }
            Ok(Some(Grouped::new(avps, Arc::clone(dict)).into()))
        }
        VExp::GrpAdd(ms) => {
            let mut g = Grouped::new(vec![], Arc::clone(dict));
            for m in ms {
                // the group's pure getters are asked between construction steps (results discarded): whatever they
                // might remember is stale by the time the group is wrapped
                let _ = g.length();
                let _ = g.avps().len();
                match m {
                    AExp::Avp(c, vd, fl, v) => match eval_v(v, dict)? {
                        Some(v) => g.add_avp(*c, *vd, *fl, v),
                        None => return Ok(None),
                    },
                    AExp::Named(..) => match eval_a(m, dict)? {
                        Some(a) => g.add(a),
                        None => return Ok(None),
                    },
                }
            }
            Ok(Some(g.into()))
        }
    }
}

// ---------- observations ----------

fn strip<'a>(s: &'a str, pre: &str, post: &str) -> Option<&'a str> {
    s.strip_prefix(pre)?.strip_suffix(post)
}

/// Last resort for the three value types without an accessor (IPv4, IPv6, Address) when their Debug / Display text is
/// not in the shape the derived implementations give: the octets the value encodes itself to.
fn obs_by_encoding(out: &mut String, v: &AvpValue) {
    let mut b = Vec::new();
    let r = match v {
        AvpValue::Address(a) => a.encode_to(&mut b),
        AvpValue::AddressIPv4(a) => a.encode_to(&mut b),
        AvpValue::AddressIPv6(a) => a.encode_to(&mut b),
        _ => return out.push_str("L ? ?"),
    };
    if r.is_err() {
        return out.push_str("L ? ?");
    }
    match v {
        AvpValue::AddressIPv4(_) if b.len() == 4 => {
            out.push_str("L ip4 ");
            hex(out, &b);
        }
        AvpValue::AddressIPv6(_) if b.len() == 16 => {
            out.push_str("L ip6 ");
            hex(out, &b);
        }
        AvpValue::Address(_) if b.len() >= 2 => {
            let kind = match (b[0], b[1], b.len()) {
                (0, 1, 6) => "a4",
                (0, 2, 18) => "a6",
                (0, 8, _) => "ae",
                _ => return out.push_str("L addr ?"),
            };
            let _ = write!(out, "L {} ", kind);
            hex(out, &b[2..]);
        }
        _ => out.push_str("L ? ?"),
    }
}

/// Renders a value through public accessors; where a type has none (IPv4, IPv6, Address)
/// through Debug (variant) and Display (payload).  Never through the encoder under test.
pub fn obs_value(out: &mut String, v: &AvpValue) {
    match v {
        AvpValue::Address(a) => {
            let dbg = format!("{:?}", a);
            let disp = format!("{}", a);
            if dbg.starts_with("Address(IPv4(") {
                match Ipv4Addr::from_str(&disp) {
                    Ok(ip) => {
                        out.push_str("L a4 ");
                        hex(out, &ip.octets());
                    }
                    Err(_) => obs_by_encoding(out, v),
                }
            } else if dbg.starts_with("Address(IPv6(") {
                match Ipv6Addr::from_str(&disp) {
                    Ok(ip) => {
                        out.push_str("L a6 ");
                        hex(out, &ip.octets());
                    }
                    Err(_) => obs_by_encoding(out, v),
                }
            } else if dbg.starts_with("Address(E164(") {
                out.push_str("L ae ");
                hex(out, disp.as_bytes());
            } else {
                obs_by_encoding(out, v);
            }
        }
        AvpValue::AddressIPv4(a) => {
            let dbg = format!("{:?}", a);
            match strip(&dbg, "IPv4(", ")").and_then(|s| Ipv4Addr::from_str(s).ok()) {
                Some(ip) => {
                    out.push_str("L ip4 ");
                    hex(out, &ip.octets());
                }
                None => obs_by_encoding(out, v),
            }
        }
        AvpValue::AddressIPv6(a) => {
            let dbg = format!("{:?}", a);
            match strip(&dbg, "IPv6(", ")").and_then(|s| Ipv6Addr::from_str(s).ok()) {
                Some(ip) => {
                    out.push_str("L ip6 ");
                    hex(out, &ip.octets());
                }
                None => obs_by_encoding(out, v),
            }
        }
        AvpValue::Identity(a) => {
            out.push_str("L id ");
            hex(out, a.value().as_bytes());
        }
        AvpValue::DiameterURI(a) => {
            out.push_str("L uri ");
            hex(out, a.value());
        }
        AvpValue::Enumerated(a) => {
            let _ = write!(out, "L en {}", shex(a.value() as i64));
        }
        AvpValue::Float32(a) => {
            let _ = write!(out, "L f32 {:x}", a.value().to_bits());
        }
        AvpValue::Float64(a) => {
            let _ = write!(out, "L f64 {:x}", a.value().to_bits());
        }
        AvpValue::Grouped(g) => {
            let _ = write!(out, "G {}", g.avps().len());
            for a in g.avps() {
                out.push(' ');
                obs_avp(out, a);
            }
        }
        AvpValue::Integer32(a) => {
            let _ = write!(out, "L i32 {}", shex(a.value() as i64));
        }
        AvpValue::Integer64(a) => {
            let _ = write!(out, "L i64 {}", shex(a.value()));
        }
        AvpValue::OctetString(a) => {
            out.push_str("L oct ");
            hex(out, a.value());
        }
        AvpValue::Time(a) => {
            let _ = write!(out, "L time {}", shex(a.value().timestamp()));
        }
        AvpValue::Unsigned32(a) => {
            let _ = write!(out, "L u32 {:x}", a.value());
        }
        AvpValue::Unsigned64(a) => {
            let _ = write!(out, "L u64 {:x}", a.value());
        }
        AvpValue::UTF8String(a) => {
            out.push_str("L utf ");
            hex(out, a.value().as_bytes());
        }
    }
}

pub fn obs_avp(out: &mut String, a: &Avp) {
    let _ = write!(out, "A {:x} ", a.get_code());
    match a.get_vendor_id() {
        Some(v) => {
            let _ = write!(out, "{:x}", v);
        }
        None => out.push('-'),
    }
    let fl = a.get_flags();
    // the V flag the library reports must agree with the presence of a vendor id;
    // a disagreement is rendered so that it can never compare equal to a model line
    if fl.vendor != a.get_vendor_id().is_some() {
        out.push_str("!V");
    }
    let _ = write!(
        out,
        " {} {} {:x} {:x} ",
        fl.mandatory as u8,
        fl.private as u8,
        a.get_length(),
        a.get_padding()
    );
    obs_value(out, a.get_value());
}

/// a writer that keeps the first octet handed to it and then refuses: the cheapest way to see octet 0 of an encoding
struct FirstOctet(Option<u8>);
impl std::io::Write for FirstOctet {
    fn write(&mut self, b: &[u8]) -> std::io::Result<usize> {
        if self.0.is_none() && !b.is_empty() {
            self.0 = Some(b[0]);
        }
        Err(std::io::Error::new(std::io::ErrorKind::Other, "first octet taken"))
    }
    fn flush(&mut self) -> std::io::Result<()> {
        Ok(())
    }
}

pub fn obs_msg(out: &mut String, m: &DiameterMessage) {
    // the version is not exposed by an accessor.  It is octet 0 of the message's encoding; if the encoder hands over
    // nothing, the first token of the Display rendering is tried; otherwise it is reported as unobservable ("?")
    // and not compared.  (Display / Debug text is not part of any property, so it is only a fallback.)
    let mut fo = FirstOctet(None);
    let _ = m.encode_to(&mut fo);
    let ver = match fo.0 {
        Some(b) => Some(b as u32),
        None => format!("{}", m).split(' ').next().and_then(|s| s.trim().parse::<u32>().ok()),
    };
    match ver {
        Some(v) => {
            let _ = write!(out, "M {:x}", v);
        }
        None => out.push_str("M ?"),
    }
    let _ = write!(
        out,
        " {:x} {:x} {:x} {:x} {:x} {:x} {}",
        m.get_length(),
        m.get_flags(),
        m.get_command_code() as u32,
        m.get_application_id() as u32,
        m.get_hop_by_hop_id(),
        m.get_end_to_end_id(),
        m.get_avps().len()
    );
    for a in m.get_avps() {
        out.push(' ');
        obs_avp(out, a);
    }
}

// ---------- dictionaries ----------

pub fn ty_of_tok(s: &str) -> PResult<AvpType> {
    Ok(match s {
        "unk" => AvpType::Unknown,
        "addr" => AvpType::Address,
        "ip4" => AvpType::AddressIPv4,
        "ip6" => AvpType::AddressIPv6,
        "id" => AvpType::Identity,
        "uri" => AvpType::DiameterURI,
        "en" => AvpType::Enumerated,
        "f32" => AvpType::Float32,
        "f64" => AvpType::Float64,
        "grp" => AvpType::Grouped,
        "i32" => AvpType::Integer32,
        "i64" => AvpType::Integer64,
        "oct" => AvpType::OctetString,
        "time" => AvpType::Time,
        "u32" => AvpType::Unsigned32,
        "u64" => AvpType::Unsigned64,
        "utf" => AvpType::UTF8String,
        _ => return Err(format!("ty {}", s)),
    })
}

pub fn tok_of_ty(t: &AvpType) -> &'static str {
    match t {
        AvpType::Unknown => "unk",
        AvpType::Address => "addr",
        AvpType::AddressIPv4 => "ip4",
        AvpType::AddressIPv6 => "ip6",
        AvpType::Identity => "id",
        AvpType::DiameterURI => "uri",
        AvpType::Enumerated => "en",
        AvpType::Float32 => "f32",
        AvpType::Float64 => "f64",
        AvpType::Grouped => "grp",
        AvpType::Integer32 => "i32",
        AvpType::Integer64 => "i64",
        AvpType::OctetString => "oct",
        AvpType::Time => "time",
        AvpType::Unsigned32 => "u32",
        AvpType::Unsigned64 => "u64",
        AvpType::UTF8String => "utf",
    }
}

pub enum DOp {
    Add(AvpDefinition),
    Load(String),
}

pub fn parse_dop(t: &mut Toks) -> PResult<DOp> {
    match t.next()? {
        "ADD" => {
            let code = t.u32()?;
            let vendor_id = t.opt_u32()?;
            let name = utf8(&t.bytes()?)?;
            let avp_type = ty_of_tok(t.next()?)?;
            let m_flag = t.boolean()?;
            Ok(DOp::Add(AvpDefinition {
                code,
                vendor_id,
                name,
                avp_type,
                m_flag,
            }))
        }
        "LOAD" => {
            let xml = utf8(&t.bytes()?)?;
            // the structured rendering that follows is for the model; skip it
            let napps = t.usize_dec()?;
            for _ in 0..napps {
                t.next()?; // name
                t.next()?; // id
                let nc = t.usize_dec()?;
                for _ in 0..nc {
                    t.next()?;
                    t.next()?;
                }
                let na = t.usize_dec()?;
                for _ in 0..na {
                    for _ in 0..5 {
                        t.next()?;
                    }
                }
            }
            Ok(DOp::Load(xml))
        }
        s => Err(format!("dop {}", s)),
    }
}

/// Leading LOADs go through `Dictionary::new(&[..])`, the rest through load_xml / add_avp.
pub fn build_dict(ops: Vec<DOp>) -> Dictionary {
    let mut lead: Vec<String> = Vec::new();
    let mut rest = Vec::new();
    let mut leading = true;
    for o in ops {
        match o {
            DOp::Load(x) if leading => lead.push(x),
            o => {
                leading = false;
                rest.push(o)
            }
        }
    }
    // a document whose text is the library's own built-in document is passed the way programs pass it: as the static
    // DEFAULT_DICT_XML itself, not as a copy of its text
    let builtin: &'static str = &diameter::dictionary::DEFAULT_DICT_XML;
    let refs: Vec<&str> = lead.iter().map(|s| if s.as_str() == builtin { builtin } else { s.as_str() }).collect();
    let mut d = Dictionary::new(&refs);
    for o in rest {
        match o {
            DOp::Load(x) => d.load_xml(if x.as_str() == builtin { builtin } else { &x }),
            DOp::Add(a) => d.add_avp(a),
        }
    }
    d
}

pub fn obs_def(out: &mut String, d: &AvpDefinition) {
    let _ = write!(out, "{:x},", d.code);
    match d.vendor_id {
        Some(v) => {
            let _ = write!(out, "{:x},", v);
        }
        None => out.push_str("-,"),
    }
    hex(out, d.name.as_bytes());
    let _ = write!(out, ",{},{}", tok_of_ty(&d.avp_type), d.m_flag as u8);
}
