"""Generators: values, trees, construction histories, dictionaries, frame mutations.
Everything derives from one Rng; generators affect coverage only, never a verdict."""
from proto import *

CMDS = [0, 257, 280, 282, 258, 275, 274, 272, 8388635, 8388636, 271, 265]
APPS = [0, 3, 4, 16777238, 16777236, 16777302]
LEAF_KINDS = ["a4", "a6", "ae", "ip4", "ip6", "id", "uri", "en", "f32", "f64", "i32", "i64", "oct", "time", "u32", "u64", "utf"]
TIME_LO, TIME_HI = -2208988800, 2085978495
LENS = [0, 1, 2, 3, 4, 5, 6, 7, 8, 9, 15, 16, 17, 31, 32, 33, 255, 256, 257]
BIG_LENS = [4095, 4096, 4097]
UTF_BOUNDARY = ["\u007f", "\u0080", "߿", "ࠀ", "￿", "\U00010000", "\U0010ffff", "퟿", "", "é", "€"]


def lanes(bits):
    out = [0, 1, (1 << bits) - 1, 1 << (bits - 1), (1 << (bits - 1)) - 1]
    for k in range(0, bits, 8):
        out += [0xff << k, 0x80 << k, 0x01 << k, 0x7f << k]
    return [x & ((1 << bits) - 1) for x in out]


def signed(v, bits):
    return v - (1 << bits) if v >> (bits - 1) else v


def gen_len(r, big=False):
    if big and r.chance(1, 12):
        return r.choice(BIG_LENS)
    if r.chance(1, 2):
        return r.choice(LENS)
    return r.below(40)


def gen_utf8(r, n):
    """a valid UTF-8 string of exactly n octets"""
    out = b""
    if n and r.chance(1, 8):
        # multi-octet characters only, shifted by 0..3 ASCII octets: a character straddles every boundary
        ch = r.choice(["é", "€", "\U00010000"]).encode()
        out = b"a" * min(n, r.below(4))
        while len(out) + len(ch) <= n:
            out += ch
        tail = n - len(out)
        out += (b"\0" if r.chance(1, 3) else b"z") * tail
        return out
    while len(out) < n:
        rem = n - len(out)
        if r.chance(1, 4):
            c = r.choice(UTF_BOUNDARY).encode("utf-8", "surrogatepass")
            try:
                c.decode("utf-8")
            except UnicodeDecodeError:
                c = b"?"
        else:
            c = bytes([r.range(0x20, 0x7e)])
        if len(c) <= rem:
            out += c
        else:
            out += b"a" * rem
    return out


def ipv6_special_forms():
    """unspecified, all ones, loopback, IPv4-mapped, IPv4-compatible, NAT64, 6to4, link-local, multicast, documentation"""
    return [b"\0" * 16, b"\xff" * 16, b"\0" * 15 + b"\1", b"\0" * 10 + b"\xff\xff" + bytes([192, 0, 2, 33]), b"\0" * 10 + b"\xff\xff" + b"\0\0\0\0",
            b"\0" * 10 + b"\xff\xff" + b"\xff\xff\xff\xff", b"\0" * 12 + bytes([10, 1, 2, 3]), bytes.fromhex("0064ff9b") + b"\0" * 8 + bytes([198, 51, 100, 7]),
            bytes.fromhex("2002c0000221") + b"\0" * 10, bytes.fromhex("fe80") + b"\0" * 13 + b"\7", bytes.fromhex("ff02") + b"\0" * 13 + b"\1",
            bytes.fromhex("20010db8") + b"\0" * 11 + b"\1"]


def text_special_forms():
    """texts a library might want to "canonicalise" (absolute FQDN, case, blanks, NULs, BOM, line ends, IDNA, literals):
    a value is the octets it was given / the wire carries, nothing else"""
    return [b"host.example.com.", b".", b"a.", b".a", b"A.B.Example", b" host", b"host ", b"host\0", b"\0", b"\0\0\0\0", b"h\0st", "\ufeffhost".encode(),
            b"host\n", b"host\r\n", b"\thost", b"xn--bcher-kva.example", b"*.example", b"host..example", b"-host", b"123", b"1.2.3.4", b"[::1]",
            "\u0130stanbul.example".encode(), "\u212aelvin.example".encode(), "STRA\u1e9eE.example".encode(), "\u00c9COLE.example".encode(), "\u01c5.example".encode(),
            b"aaa://host:3868;transport=tcp", b"AAA://HOST", b"aaas://h;protocol=diameter", b"a" * 63 + b".", b"%41", b"a/../b", b"host:3868", b"\"q\"",
            # the same name in several spellings, one after the other (a table of names seen so far must not hand back an earlier spelling)
            b"peer.Example.COM", b"PEER.EXAMPLE.COM", b"peer.example.com", b"Peer.Example.Com", b"peer.example.com"]


def uri_special_forms():
    """DiameterURI values a library might want to take apart (RFC 6733 4.3.1 grammar: scheme, FQDN, port, parameters): the type is
    an OctetString on the wire - every value is accepted and is the octets it was given, grammatical or not, text or not"""
    return [b"aaa://host.example.com:3868;transport=tcp;protocol=diameter", b"aaas://host.example.com:5658;transport=tcp", b"aaa://h;transport=tcp:3868",
            b"aaas://h;protocol=diameter:1", b"aaa://;:", b"aaa://", b"aaas://", b"aaa:", b"aaa", b"aaa://h:", b"aaa://h:x", b"aaa://h:99999", b"aaa://h:0",
            b"aaa://[::1]:3868", b"aaa://[::1", b"://", b";", b":", b";:", b":;", b"aaa://h;", b"aaa://h;transport", b"aaa://h;=;", b"aaa://h;;", b"aaa://:3868",
            b"http://h", b"AAA://h:3868", b"aaa://h:3868;transport=sctp;protocol=radius;x=y", "aaa://h\u00e9.example".encode(), b"aaa://h\xe9.example",
            b"aaa://\xff", b"\xff\xfe", b"\xe9", b"aaa://h\0:1", b"aaa://h:3868;transport=tcp\xc3"]


def gen_leaf(r, kind=None, big=False):
    k = kind or r.choice(LEAF_KINDS)
    if k in ("a4", "ip4"):
        return (k, r.bytes(4) if r.chance(3, 4) else r.choice([b"\0\0\0\0", b"\xff\xff\xff\xff", b"\x7f\0\0\1"]))
    if k in ("a6", "ip6"):
        # besides random ones: unspecified, all ones, loopback, IPv4-mapped (::ffff:a.b.c.d), IPv4-compatible (::a.b.c.d),
        # NAT64 (64:ff9b::/96), 6to4 (2002::/16), link-local, multicast - every form a library might want to "normalise"
        special = [b"\0" * 16, b"\xff" * 16, b"\0" * 15 + b"\1", b"\0" * 10 + b"\xff\xff" + bytes([192, 0, 2, 33]), b"\0" * 10 + b"\xff\xff" + b"\0\0\0\0",
                   b"\0" * 12 + bytes([10, 1, 2, 3]), bytes.fromhex("0064ff9b") + b"\0" * 8 + bytes([198, 51, 100, 7]), bytes.fromhex("2002c0000221") + b"\0" * 10,
                   bytes.fromhex("fe80") + b"\0" * 6 + r.bytes(8), bytes.fromhex("ff02") + b"\0" * 13 + b"\1"]
        return (k, r.bytes(16) if r.chance(1, 2) else r.choice(special))
    if k == "ae":
        n = r.choice([1, 2, 3, 12, 14, 15]) if r.chance(1, 2) else r.range(1, 15)
        digits = bytes(r.range(0x30, 0x39) for _ in range(n))
        c = r.below(8)
        if c == 0:
            return (k, (b"+" + digits)[:15])          # international notation
        if c == 1:
            return (k, r.choice([b"+", b"00", b"1-800", b" 12", b"12 ", b"+-", b"#31#", b"*"]))
        return (k, digits)
    if k in ("id", "utf"):
        return (k, gen_utf8(r, gen_len(r, big)))
    if k in ("uri", "oct"):
        return (k, r.bytes(gen_len(r, big)))
    if k in ("en", "i32"):
        v = r.choice(lanes(32)) if r.chance(1, 2) else r.below(1 << 32)
        return (k, signed(v, 32))
    if k == "i64":
        v = r.choice(lanes(64)) if r.chance(1, 2) else r.below(1 << 64)
        return (k, signed(v, 64))
    if k in ("u32", "f32"):
        return (k, r.choice(lanes(32) + [0x7f800000, 0xff800000, 0x7fc00000, 0x7f800001, 0x00000001, 0x80000000]) if r.chance(1, 2) else r.below(1 << 32))
    if k in ("u64", "f64"):
        return (k, r.choice(lanes(64) + [0x7ff0000000000000, 0xfff0000000000000, 0x7ff8000000000000, 0x7ff0000000000001]) if r.chance(1, 2) else r.below(1 << 64))
    if k == "time":
        # (1483228799 = 2016-12-31T23:59:59Z and 1341100799 = 2012-06-30T23:59:59Z are 59 mod 60 and 3 mod 7: the harness builds those
        # as LEAP seconds, 23:59:60.2; the other two :59 seconds are ordinary)
        return (k, r.choice([TIME_LO, TIME_LO + 1, -1, 0, 1, TIME_HI - 1, TIME_HI, 1700000000, 1483228799, 78796799, 536457599, 1341100799]) if r.chance(1, 2) else r.range(TIME_LO, TIME_HI))
    raise ValueError(k)


# ---------------- generated dictionaries
class GDict:
    """a dictionary as a list of definitions; knows how to render itself as ops"""

    def __init__(self, dictid):
        self.id = dictid
        self.defs = []      # dict(code, vendor, name, ty, m) in definition order
        self.ops = []       # token strings
        self.names = []

    def lookup(self, code, vendor):
        r = None
        for d in self.defs:
            if d["code"] == code and d["vendor"] == vendor:
                r = d
        return r

    def live(self):
        seen = {}
        for d in self.defs:
            seen[(d["code"], d["vendor"])] = d
        return list(seen.values())

    def name_unique(self, name):
        """exactly one live definition carries this name (by-name construction is then determined; with several
        carriers the properties only demand *a* live definition with that name - C14/C16 exercise that case)"""
        return sum(1 for d in self.live() if d["name"] == name) == 1

    def line(self):
        return dict_line(self.id, self.ops)


def synthetic_dict(r, dictid, via_xml=False):
    """every type under several (code, vendor) scopes, with vendor/vendor-less twins of different type"""
    g = GDict(dictid)
    defs = []
    code = 1000
    for ti, ty in enumerate(TYS[1:]):
        defs.append(dict(code=1000 + ti, vendor=None, name=f"T-{ty}".encode(), ty=ty, m=bool(ti & 1)))
        defs.append(dict(code=2000 + ti, vendor=10415, name=f"V-{ty}".encode(), ty=ty, m=not bool(ti & 1)))
        # same code under another vendor with another type
        other = TYS[1 + (ti + 5) % 16]
        defs.append(dict(code=1000 + ti, vendor=77, name=f"W-{ty}-{other}".encode(), ty=other, m=False))
    for _ in range(8):
        ty = r.choice(TYS[1:])
        defs.append(dict(code=r.choice([1, 255, 256, 65535, 65536, 0xffffffff, r.below(1 << 32)]),
                         vendor=r.choice([None, 1, 10415, 0xffffffff]), name=f"R-{r.below(1000)}".encode(), ty=ty, m=r.chance(1, 2)))
    defs = r.shuffle(defs)
    # re-declarations, in this order: keys renamed (the old name is no longer live), type and M flag replaced,
    # vendor id 0 next to the vendor-less twin, a name carried by two keys of which one is renamed afterwards
    seq = []
    for i, v in enumerate([None, 10415, 0, 77]):
        seq.append(dict(code=3000 + i, vendor=v, name=f"Old-{i}".encode(), ty=TYS[1 + i], m=bool(i & 1)))
    seq.append(dict(code=3002, vendor=None, name=b"Zero-Twin", ty="utf", m=True))
    for i, v in enumerate([None, 10415, 0, 77]):
        seq.append(dict(code=3000 + i, vendor=v, name=f"New-{i}".encode(), ty=TYS[6 + i], m=not bool(i & 1)))
    seq += [dict(code=3100, vendor=None, name=b"Twin", ty="u32", m=False), dict(code=3101, vendor=9, name=b"Twin", ty="u32", m=False),
            dict(code=3101, vendor=9, name=b"Twin-Renamed", ty="u64", m=True),
            dict(code=3200, vendor=None, name=b"Same-Name", ty="i32", m=False), dict(code=3200, vendor=None, name=b"Same-Name", ty="oct", m=True),
            # one name carried by two live definitions (which of them a by-name lookup returns is left open by the properties)
            dict(code=3301, vendor=10415, name=b"Shared-Name", ty="u32", m=True), dict(code=3300, vendor=None, name=b"Shared-Name", ty="utf", m=False),
            # a key whose type was known and is re-declared with a type name the library does not recognise: nothing may decode under it
            dict(code=3400, vendor=None, name=b"Was-Known", ty="u32", m=False), dict(code=3400, vendor=None, name=b"Was-Known", ty="unk", m=False)]
    # codes the RFC 6733 base protocol (and RFC 4006) assign, declared here with OTHER types than the RFCs give them: an AVP
    # is typed by the dictionary of its message, not by what the code usually means
    retype = {"utf": "u32", "id": "oct", "u32": "utf", "oct": "u64", "time": "u32", "addr": "utf", "grp": "u32", "en": "i32"}
    usual = {1: "utf", 25: "oct", 27: "u32", 33: "oct", 44: "oct", 50: "utf", 55: "time", 85: "u32", 257: "addr", 258: "u32", 259: "u32", 260: "grp",
             263: "utf", 264: "id", 265: "u32", 266: "u32", 268: "u32", 269: "utf", 278: "u32", 281: "utf", 282: "id", 283: "id", 293: "id", 296: "id",
             299: "u32", 415: "u32", 416: "en", 461: "utf"}
    seq += [dict(code=c, vendor=None, name=f"B-{c}".encode(), ty=retype[t], m=bool(c & 1)) for c, t in sorted(usual.items())]
    defs = defs + seq
    g.defs = defs
    if via_xml:
        apps = [dict(name=b"GenApp", id=4, cmds=[(b"Credit-Control", 272)],
                     avps=[dict(code=d["code"], vendor=d["vendor"], name=d["name"], tyname=TY_XML_NAME.get(d["ty"], "IPFilterRule").encode(),
                                must=(b"M" if d["m"] else None)) for d in defs])]
        xml = gen_xml(apps)
        g.ops = [load_toks(xml, apps)]
    else:
        g.ops = [add_toks(d) for d in defs]
    return g


def builtin_dict(repo, dictid="b"):
    xml = builtin_xml(repo)
    g = GDict(dictid)
    for a in xml_apps(xml):
        for d in a["avps"]:
            g.defs.append(dict(code=d["code"], vendor=d["vendor"], name=d["name"],
                               ty=XML_NAME_TY.get(d["tyname"].decode(), "unk"),
                               m=(d["must"] is not None and b"M" in d["must"].split(b","))))
    g.ops = [load_toks(xml)]
    return g


# ---------------- trees / expressions typed by a dictionary
def kinds_of_ty(ty):
    return {"addr": ["a4", "a6", "ae"]}.get(ty, [ty])


def gen_vexp(r, g, ty, depth, budget, big=False):
    if ty == "grp":
        n = 0 if depth <= 0 else r.choice([0, 1, 1, 2, 2, 3, 4])
        ms = []
        for _ in range(n):
            if budget[0] <= 0:
                break
            ms.append(gen_aexp(r, g, depth - 1, budget, big))
        return (r.choice(["GN", "GA"]), ms)
    return ("L", gen_leaf(r, r.choice(kinds_of_ty(ty)), big))


def gen_aexp(r, g, depth, budget, big=False, named_ok=True):
    budget[0] -= 1
    live = g.live()
    d = r.choice(live)
    tries = 0
    while (d["ty"] == "unk" or (d["ty"] == "grp" and depth <= 0 and r.chance(2, 3))) and tries < 20:
        d = r.choice(live)
        tries += 1
    if d["ty"] == "unk":
        d = dict(d, ty="u32")
    vty = d["ty"]
    if r.chance(1, 25):
        vty = r.choice(TYS[1:])      # a value of another type under this code (the encoder does not consult the dictionary)
    v = gen_vexp(r, g, vty, depth, budget, big)
    if named_ok and r.chance(1, 6) and g.name_unique(d["name"]):
        return ("N", d["name"], v)
    return ("E", d["code"], d["vendor"], r.choice([0, 0x40, 0x20, 0x60, 0x80, 0xff, 0x1f, r.below(256)]), v)


def gen_history(r, g, maxops=8, depth=3, big=False):
    start = ("NEW", r.choice(CMDS), r.choice(APPS), r.choice([0, 0x80, 0x40, 0xc0, 0xff, r.below(256)]),
             r.choice([0, 1, 0xffffffff, r.below(1 << 32)]), r.choice([0, 1, 0xffffffff, r.below(1 << 32)]))
    ops = []
    n = r.range(0, maxops)
    budget = [40]
    for i in range(n):
        c = r.below(100)
        if c < 55:
            e = gen_aexp(r, g, r.range(0, depth), budget, big, named_ok=False)
            ops.append(("ADDAVP", e[1], e[2], e[3], e[4]))
        elif c < 72:
            ops.append(("ADD", gen_aexp(r, g, r.range(0, depth), budget, big)))
        elif c < 84:
            e = gen_aexp(r, g, r.range(0, depth), budget, big, named_ok=False)
            d = g.lookup(e[1], e[2])
            if d and g.name_unique(d["name"]):
                ops.append(("ADDNAME", d["name"], e[4]))
            else:
                ops.append(("ADDAVP", e[1], e[2], e[3], e[4]))
        elif c < 89:
            ops.append(("ADDNAME", r.choice([b"Does-Not-Exist", b"", b"session-id", b"T-u32 ", r.bytes(3).hex().encode()]),
                        ("L", gen_leaf(r))))
        elif c < 94:
            ops.append(("READD", r.below(max(1, i + 1))))
        else:
            ex = [gen_aexp(r, g, 1, budget, big) for _ in range(r.below(3))]
            ops.append(("REWRAP", r.below(max(1, i + 1)), r.choice([1009, 2009, 873]), r.choice([None, 10415]), r.below(256), ex))
    return start, ops


# ---------------- frames
def be(n, k):
    return (n & ((1 << (8 * k)) - 1)).to_bytes(k, "big")


def nested_groups_frame(depth, code, vendor=None, cmd=272, app=4):
    """depth nested Grouped AVPs (innermost empty): used to measure the decoder's nesting limit.
    Built outermost first in one pass (lengths of more than 24 bits are truncated, as the field is)."""
    h = 12 if vendor is not None else 8
    fl = bytes([0x80 if vendor is not None else 0])
    c4 = be(code, 4)
    v4 = be(vendor, 4) if vendor is not None else b""
    out = bytearray()
    for k in range(depth, 0, -1):          # the k-th group from the inside spans k headers
        out += c4 + fl + be(h * k, 3) + v4
    total = 20 + len(out)
    return bytes([1]) + be(total, 3) + bytes([0x80]) + be(cmd, 3) + be(app, 4) + be(1, 4) + be(2, 4) + bytes(out)


def walk_frame(frame, tyof, lo=20, hi=None, depth=0, out=None):
    """structure of a (well-formed) frame: list of dict(off, hdr, len, pad, ty, depth).  Used only to
    aim mutations."""
    out = [] if out is None else out
    hi = len(frame) if hi is None else hi
    off = lo
    while off + 8 <= hi:
        code = int.from_bytes(frame[off:off + 4], "big")
        fl = frame[off + 4]
        ln = int.from_bytes(frame[off + 5:off + 8], "big")
        h = 12 if fl & 0x80 else 8
        vendor = int.from_bytes(frame[off + 8:off + 12], "big") if fl & 0x80 and off + 12 <= hi else None
        if ln < h or off + ln > hi:
            break
        pad = (4 - ln % 4) % 4
        ty = tyof(code, vendor)
        out.append(dict(off=off, hdr=h, len=ln, pad=pad, ty=ty, depth=depth))
        if ty == "grp":
            walk_frame(frame, tyof, off + h, off + ln, depth + 1, out)
        off += ln + pad
    return out


def mutate_free_bits(r, frame, nodes):
    """rewrites padding octets and the five reserved AVP flag bits: the tree must not change"""
    f = bytearray(frame)
    for n in nodes:
        if r.chance(1, 2):
            f[n["off"] + 4] = (f[n["off"] + 4] & 0xe0) | r.below(32)
        for k in range(n["pad"]):
            if r.chance(1, 2) and n["off"] + n["len"] + k < len(f):
                f[n["off"] + n["len"] + k] = r.below(256)
    return bytes(f)


def length_rewrites(frame, nodes):
    """every length field rewritten to small values and around the true value"""
    out = []

    def vals(true):
        s = set(range(0, 65)) | {true + d for d in (-8, -4, -3, -2, -1, 1, 2, 3, 4, 8)} | {0xffffff, 0xfffffe, 0x800000}
        return sorted(v for v in s if 0 <= v <= 0xffffff and v != true)
    for v in vals(len(frame)):
        f = bytearray(frame)
        f[1:4] = be(v, 3)
        out.append(("msglen", bytes(f)))
    for n in nodes:
        for v in vals(n["len"]):
            f = bytearray(frame)
            f[n["off"] + 5:n["off"] + 8] = be(v, 3)
            out.append(("avplen", bytes(f)))
    return out


def strip_final_padding(frame, nodes):
    """the frame without the padding of its last top-level AVP, message length adjusted (a complete frame that is NOT well-formed)"""
    tops = [n for n in nodes if n["depth"] == 0]
    if not tops or tops[-1]["pad"] == 0:
        return None
    return fix_msglen(frame[: len(frame) - tops[-1]["pad"]])


def vendorize(frame, nodes, node, vendor):
    """sets the V bit of a vendor-less AVP and inserts a Vendor-Id, adjusting every enclosing length:
    well-formed as octets, but (code, vendor) is a different dictionary key"""
    if node["hdr"] != 8:
        return None
    off = node["off"]
    f = bytearray(frame)
    f[off + 4] |= 0x80
    f[off + 5:off + 8] = be(node["len"] + 4, 3)
    f[off + 8:off + 8] = be(vendor, 4)
    for n in nodes:
        if n["depth"] < node["depth"] and n["off"] < off < n["off"] + n["len"]:
            f[n["off"] + 5:n["off"] + 8] = be(n["len"] + 4, 3)
    return fix_msglen(bytes(f))


def fix_msglen(f):
    f = bytearray(f)
    f[1:4] = be(len(f), 3)
    return bytes(f)


def hostile_variants(r, frame, nodes, count):
    """structure-aware lies, havoc and truncations; all re-labelled with a matching message length when asked"""
    out = []
    for _ in range(count):
        k = r.below(8)
        f = bytearray(frame)
        if k == 0 and len(f) > 20:      # single octet substitution
            i = r.below(len(f))
            f[i] = r.below(256)
            out.append(("subst", bytes(f)))
        elif k == 1 and nodes:          # flip V flag
            n = r.choice(nodes)
            f[n["off"] + 4] ^= 0x80
            out.append(("vflip", bytes(f)))
        elif k == 2 and nodes:          # lie about one length, keep the frame complete
            n = r.choice(nodes)
            v = max(0, n["len"] + r.choice([-12, -8, -5, -4, -1, 1, 3, 4, 8, 12]))
            f[n["off"] + 5:n["off"] + 8] = be(v, 3)
            out.append(("lenlie", bytes(f)))
        elif k == 3:                    # truncate and relabel
            cut = r.range(0, len(f))
            out.append(("trunc-relabel", fix_msglen(f[:cut]) if cut >= 4 else bytes(f[:cut])))
        elif k == 4:                    # append junk and relabel
            out.append(("extend-relabel", fix_msglen(bytes(f) + r.bytes(r.choice([1, 4, 8, 12])))))
        elif k == 5 and nodes:          # overwrite a value region with random octets
            n = r.choice(nodes)
            a, b = n["off"] + n["hdr"], n["off"] + n["len"]
            for i in range(a, min(b, len(f))):
                if r.chance(1, 2):
                    f[i] = r.below(256)
            out.append(("valhavoc", bytes(f)))
        elif k == 6:                    # multi-octet havoc
            for _ in range(r.range(2, 6)):
                if len(f):
                    f[r.below(len(f))] = r.below(256)
            out.append(("havoc", bytes(f)))
        else:                           # header field
            i = r.below(min(20, len(f))) if len(f) else 0
            if len(f):
                f[i] = r.below(256)
            out.append(("hdr", bytes(f)))
    return out


def random_frames(r, count):
    out = []
    for _ in range(count):
        n = r.choice([0, 1, 3, 4, 19, 20, 21, 28, 32, 40, 64, r.below(200)])
        b = bytearray(r.bytes(n))
        if n >= 20 and r.chance(3, 4):
            b[0] = 1
            b[1:4] = be(n, 3)
            if r.chance(1, 2):
                b[5:8] = be(r.choice(CMDS), 3)
                b[8:12] = be(r.choice(APPS), 4)
        out.append(("random", bytes(b)))
    return out
