#!/usr/bin/env python3
"""Regenerates MANIFEST.json from the table below (run by hand after adding a check)."""
import json, os, subprocess
ROOT = os.path.dirname(os.path.dirname(os.path.abspath(__file__)))

NOTE = ("Coq 8.16.1 kernel (vm_compute used; no axioms: every theorem is closed under the global context, audited with Print Assumptions on every run); "
        "extraction (ExtrOcamlBasic only, no Extract Constant); hand-written OCaml driver; Rust harness and Python generators/comparison; "
        "rustc/std/chrono/tokio semantics modelled or exercised, not verified; see DESIGN.md section 10")
CLAIMS = {
 "C01": ("codec", "Coq theorems (C01_*): for every construction history (new/add/add_avp/add_avp_by_name/re-add/re-wrap, from new() or from a decoded frame) the model encoder equals the independent reference encoder on the abstract tree and the reported length equals the octets produced; model tied to the code by differential execution of histories (exhaustive type/flag/residue table + generated) with the extracted reference encoder as oracle"),
 "C02": ("codec", "Coq theorem C02_roundtrip (all trees in the wire domain, all dictionaries typing them, every nesting limit >= their depth) + C02_any_image_decodes; the measured nesting limit of the implementation is checked to be >= 16; encode->decode by the implementation compared observation by observation, and both stages compared with the extracted model"),
 "C03": ("codec", "Coq theorems: accepted complete frame => the returned tree is THE tree the declarative RFC 6733 relation assigns to the octets (relation proved functional), re-encoding is the reference image of the same length; unreadable frames are rejected; every well-formed known frame is accepted whatever its padding/reserved bits; all modulo the recorded class KF-1 (witness theorem). The executable oracle chk_msg is proved equivalent to the relation. Tie: generated/mutated frames through implementation, model and oracle"),
 "C04": ("codec", "Coq theorems: the decoder model returns Ok or Err on every octet string (no arithmetic/index trap, fuel linear in the input always suffices), recursion depth <= nesting limit, every returned message re-encodes. Runtime half (partial): the real decoder on a 2 MiB thread in a worker process over truncations, length sweeps, nesting 1..131000, havoc, random; stack bytes/allocator/time are established by execution only"),
 "C05": ("codec", "Coq theorems over a std::io::Write model (budget writer, arbitrary per-call caps and Interrupted placement): the outcome of encode_to is independent of how the code chops its writes, success implies the complete frame was accepted, a fault at any offset is reported with exactly the prefix written, unrepresentable Times / lengths >= 2^24 are refused. Tie: every fault offset of a corpus x writer behaviours against implementation and model"),
 "C14": ("codec", "Coq theorems (35, C14_*): for ALL load/add histories lookup = last definition for exactly that (code, vendor) key; vendor and vendor-less twins are different keys; by-name sound and complete over live definitions; applications/commands last-wins; `must` parsing = split(',') contains \"M\". Tie: every lookup function after every step of generated histories vs an independent map and vs the extracted model"),
 "C15": ("codec", "Coq theorems: dictionary dispatch of the decoder on the exact (code, vendor) pair (no entry / unknown type => Err, else value of the entry's type), the 16-name table and ALL other spellings => Unknown, every recognised type usable (round trip). Tie: exhaustive name x scope x wire table and every definition of the two shipped dictionaries read independently with xml.etree"),
 "C16": ("codec", "Coq theorems: from_name yields exactly mk_avp(code, vendor, M) of the definition found (= the explicit-number construction, V bit iff vendor), a failed call leaves the message unchanged. Tie: exhaustive over every name of built-in, 3GPP and generated dictionaries + histories with an unknown-name call inserted"),
 "C18": ("codec", "Coq theorems: get_avp = first AVP with that code in list (= wire) order / None iff absent (find characterisation), the 16x16 typed-accessor matrix, group members. Tie: all 16 accessors on every AVP of built and decoded messages, get_avp by pointer position, vs independent expectation and extracted model"),
 "C17": ("codec", "Coq theorems for ALL 2^32 / 2^64 patterns symbolically: each four/eight-octet type decodes every pattern to the RFC value in closed form and re-encodes to the same octets (bijection); epoch offset derived from a civil calendar; IEEE-754 link through Flocq (file C17f, four standard-library axioms). Tie: boundary/lane/random patterns through implementation and model; thorough: all 2^32 patterns x 6 types through the implementation"),
 "C06": ("stream", "Coq theorems: for every read script with the same octet content (any chunking, any Pending placement) Codec::decode's model equals a byte-level function; k calls on k concatenated frames yield the k decodes and consume exactly the frames; write_all puts exactly the encoding for every accepting script. Partial: tokio read_exact/write_all by documented contract. Tie: scripted AsyncRead/AsyncWrite with exhaustive cut pairs / dribble / random chunkings"),
 "C07": ("stream", "Coq theorem C07_announced_length for every announced 24-bit length and continuation: never a panic, > 1 MiB or < 20 refused after exactly the 4-octet prefix, never more than max(L,4) octets taken; legacy witness (L<4 panics). Tie: the announced-length set x continuations on a byte-counting scripted reader"),
 "C08": ("server", "Coq theorems over ALL read/write scripts and ALL handlers: calls = the requests in order, written = exactly the answers, clean close; stops at the first malformed frame / handler failure / unencodable answer with nothing later called or written. Partial: tokio contract. Tie: hook verif_serve_stream on scripted streams"),
 "C09": ("server", "Coq theorems: read cut at every octet offset p (EOF or error) and write fault at every offset q: total (never out of fuel), never panics, calls = requests wholly before the cut, written = prefix of their answers. Tie: every p and q of corpus streams under 1-octet and whole-buffer delivery, paused virtual time"),
 "C11": ("client", "Coq theorems over ALL event interleavings of the client state machine (register / wire / peer / reader): an answer is only delivered to a waiter with its hop-by-hop id, is a frame the peer emitted, to at most one waiter (no assumptions); with distinct ids and a causal peer every waiter gets its answer whatever the order (needs register-before-write: refuted variant). Partial: atomicity at await points, tokio Mutex/oneshot by contract"),
 "C12": ("client", "Coq theorems: once the reader has stopped no waiter is pending; send after stop fails; superseded waiter fails; complete runs leave no waiter pending; legacy (pre-repair) model refuted by witness. Tie: scripted duplex, cut at every offset, quiescence under paused time"),
 "C10": ("net", "Coq theorems on a listener model (accept loop + per-connection states): what a connection receives is a function of its own events only, Accept is always enabled (legacy inline-handshake model refuted). Partial, most runtime-heavy: tokio::spawn isolation, scheduler, TCP, OpenSSL assumed; real sockets exercised"),
 "C13": ("net", "Coq: the name handed to the TLS library is the host part for ALL host/port strings; the finite configuration table decided by computation (forallb lifted); legacy refuted. Partial: OpenSSL/native-tls behaviour assumed. Tie: all cells on real sockets with static certificates and a recording relay"),
}
ENGINES = {
 "codec": ("lib/engine_codec.py", "Coq model + theorems; extracted OCaml runner vs Rust harness (public API) on generated cases"),
 "stream": ("lib/checks_stream.py", "Coq stream/server models + theorems; extracted runner vs Rust harness with scripted AsyncRead/AsyncWrite (paused tokio runtime)"),
 "server": ("lib/checks_stream.py", "same engine as stream; hook verif_serve_stream"),
 "client": ("lib/checks_client.py", "Coq client state machine + theorems; Rust harness with scripted duplex (hook verif_attach_stream)"),
 "net": ("lib/checks_net.py", "Coq listener/TLS models + theorems; real sockets, real OpenSSL"),
}


def main():
    import sys
    sys.path.insert(0, os.path.join(ROOT, "lib"))
    claimed = [l.strip() for l in open(os.path.join(ROOT, "lib", "claimed.txt")) if l.strip() and not l.startswith("#")]
    props = [json.loads(l)["id"] for l in open(os.path.join(ROOT, "properties.jsonl"))]
    reasons = dict(l.strip().split(" ", 1) for l in open(os.path.join(ROOT, "lib", "unclaimed.txt")) if l.strip() and not l.startswith("#"))
    checks = []
    for pid in props:
        if pid not in claimed:
            continue
        eng, text = CLAIMS[pid]
        checks.append(dict(
            property_id=pid, quick_cmd=f"./vcheck {pid} --tier quick", thorough_cmd=f"./vcheck {pid} --tier thorough",
            evidence_file=f"/verif/evidence/{pid}.json", replay_cmd_template=f"./vcheck {pid} --replay {{path}}", engine=eng,
            level_claimed=dict(category="proof", text=text, design_ref=f"DESIGN.md section 7 {pid}"),
            level_note=NOTE, technique="machine-checked proof in Coq (Rocq) 8.16 of the model + model/implementation correspondence check"))
    engs = []
    for name, (path, kind) in ENGINES.items():
        sp = [p for p in props if p in claimed and CLAIMS[p][0] == name]
        if sp:
            engs.append(dict(name=name, path=path, serves_properties=sp, kind_free_text=kind))
    hooks = subprocess.run(["git", "-C", "/repo", "log", "--format=%h", "--grep=^verif hooks"], capture_output=True, text=True).stdout.split()
    man = dict(version=1, setup_cmd="./setup.sh",
               hooks=dict(guard="cargo feature verif-hooks",
                          enable="harness/Cargo.toml: diameter = { path = \"/repo\", features = [\"verif-hooks\"] }",
                          baseline_off_cmd="cd /repo && cargo test --workspace --no-fail-fast --offline",
                          source_commits=hooks or ["0dcd5a3"], add_only=True),
               engines=engs, checks=checks,
               not_applicable=[dict(property_id=p, reason=reasons.get(p, "check under construction")) for p in props if p not in claimed],
               notes="All checks: ./vcheck <id> --tier quick|thorough; VERIF_SEED selects the PRNG seed; exit 0 held / 1 VIOLATION / 2 machinery error. See DESIGN.md.")
    json.dump(man, open(os.path.join(ROOT, "MANIFEST.json"), "w"), indent=1)
    print("claimed:", [c["property_id"] for c in checks])


if __name__ == "__main__":
    main()
