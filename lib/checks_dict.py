"""Checks for the dictionary properties C14, C15, C16 (engine `codec`: same runners)."""
import os
import core
from core import Rng, log
from proto import *
import gen
import engine_codec
from checks_codec import short, regress_cases, typed_by

MUSTS = [None, b"M", b"M,P", b"P,M", b"V", b" M", b"M ", b"MP", b"", b"P", b"m", b"M,M", b",M", b"M,", b"V,M,P", b"P,V", b"M;P"]
NAMES = [b"A", b"B", b"Session-Id", b"X-Y", b"a", b"Origin-Host", b"N1", b"N2", b"N3", b"3GPP-Charging-Id", b"TGPP-Charging-Id", b"3GPP-X"]
APPN = [b"App-A", b"App-B", b"Charging Control"]
CMDN = [b"Cmd-A", b"Cmd-B", b"Credit-Control"]
TYNAMES = [TY_XML_NAME[t] for t in TYS[1:]] + ["Unsigned16", "utf8string", "UTF8String ", "", "Integer", "Float", "OctetString2", "IPv4Address", "Group"]


def gen_def(r):
    # codes and vendor ids overlap (1, 2, 3, 5, 10415 occur as both): keys such as (1, vendor 2) / (2, vendor 1) must stay apart
    d = dict(code=r.choice([1, 2, 3, 5, 1000, 0, 0xffffffff, 264, 10415]), vendor=r.choice([None, None, 1, 2, 3, 10415, 0, 0xffffffff]),
             name=r.choice(NAMES), tyname=r.choice(TYNAMES[:16] if r.chance(4, 5) else TYNAMES).encode(), must=r.choice(MUSTS),
             may=r.choice([None, b"M", b"P"]))
    if r.chance(1, 6):
        d["pad"] = True          # zero-padded decimal attributes
    if r.chance(1, 4):
        # enumeration items listed under whatever type the definition has (documentation: the type attribute is the type)
        d["items"] = [(1, b"ONE"), (2, b"TWO")][: r.range(1, 2)]
    return d


def gen_doc(r):
    apps = []
    for _ in range(r.range(1, 3)):
        apps.append(dict(name=r.choice(APPN), id=r.choice(gen.APPS),
                         cmds=[(r.choice(CMDN), r.choice(gen.CMDS)) for _ in range(r.range(0, 3))],
                         avps=[gen_def(r) for _ in range(r.range(0, 6))]))
        if r.chance(1, 3):
            # <vendor id=.../> under the application, as in the shipped 3GPP file (one of the vendor ids the definitions use, or another):
            # it names the application's vendor; a definition is filed under its own vendor-id attribute, or under none
            apps[-1]["vendor_elem"] = r.choice([1, 2, 10415, 193])
    return apps


def def_of(x):
    ty = XML_NAME_TY.get(x["tyname"].decode(), "unk")
    m = x["must"] is not None and b"M" in x["must"].split(b",")
    return dict(code=x["code"], vendor=x["vendor"], name=x["name"], ty=ty, m=m)


class MapModel:
    """the 'simple abstract map' the property talks about"""

    def __init__(self):
        self.avps, self.apps, self.cmds = {}, {}, {}

    def load(self, apps):
        for a in apps:
            self.apps[a["name"]] = a["id"]
            for n, c in a["cmds"]:
                self.cmds[n] = c
            for x in a["avps"]:
                self.add(def_of(x))

    def add(self, d):
        self.avps[(d["code"], d["vendor"])] = d


def fmt_def(d):
    return f"{hx(d['code'])},{opt(d['vendor'])},{xb(d['name'])},{d['ty']},{1 if d['m'] else 0}"


def check_C14(chk, tier, seed):
    rng = Rng(seed).fork("C14")
    eng = engine_codec.setup(chk, rng, need_limit=False)
    nh = 250 if tier == "quick" else 12000
    lines = []       # (kind, text, expectation)
    for i in range(nh):
        r = rng.fork(f"h{i}")
        ops, mm = [], MapModel()
        nlead = r.choice([0, 1, 1, 2])
        steps = r.range(1, 7)
        for s in range(nlead + steps):
            if s < nlead or r.chance(1, 4):
                apps = gen_doc(r)
                ops.append(load_toks(gen_xml(apps), apps))
                mm.load(apps)
            else:
                x = gen_def(r)
                d = def_of(x)
                ops.append(add_toks(d))
                mm.add(d)
            if s < nlead - 1:
                continue         # Dictionary::new(&[..]) loads the leading documents in one go
            did = f"d{i}_{s}"
            lines.append(("D", dict_line(did, ops), None))
            # queries: every key of the pool (defined or not), every name
            qs, want = [], []
            keys = [(c, v) for c in (1, 2, 3, 5, 1000, 0, 0xffffffff, 264, 10415, 77) for v in (None, 1, 2, 3, 10415, 0, 0xffffffff, 5)]
            for (c, v) in r.shuffle(keys)[:24]:
                qs.append(f"AVP {hx(c)} {opt(v)}")
                d = mm.avps.get((c, v))
                want.append(("avp", fmt_def(d) if d else "none"))
            for n in NAMES + [b"Nope"]:
                qs.append(f"NAME {xb(n)}")
                want.append(("name", sorted(fmt_def(d) for d in mm.avps.values() if d["name"] == n)))
            for n in APPN + [b"Nope"]:
                qs.append(f"APP {xb(n)}")
                want.append(("app", hx(mm.apps[n]) if n in mm.apps else "none"))
            for n in CMDN + [b"Nope", b"CC", b"AA", b"X"]:
                qs.append(f"CMD {xb(n)}")
                want.append(("cmd", hx(mm.cmds[n]) if n in mm.cmds else "none"))
            lines.append(("Q", f"Q {did} {len(qs)} " + " ".join(qs), (want, len(ops), sum(1 for k in mm.avps) )))
    # codes at the seams of whatever a faster table might be built from (a dense array for low codes, a bitmap, a split at 2^16
    # or 2^24): every such code defined vendor-less and under a vendor, half by a document and half by add_avp, every key looked up
    seam = [0, 1, 254, 255, 256, 257, 511, 512, 1023, 1024, 1025, 2047, 2048, 4095, 4096, 65535, 65536, 65537, (1 << 24) - 1, 1 << 24,
            (1 << 31) - 1, 1 << 31, (1 << 32) - 2, (1 << 32) - 1]
    for variant in range(2):
        mm, ops, docdefs = MapModel(), [], []
        for j, c in enumerate(seam):
            for v in (None, 10415):
                x = dict(code=c, vendor=v, name=b"K%d-%s" % (c, b"n" if v is None else b"v"), tyname=TYNAMES[(j + (v or 0)) % 14].encode(), must=[None, b"M"][j % 2], may=None)
                if (j + variant) % 2:
                    docdefs.append(x)
                else:
                    d = def_of(x)
                    ops.append(add_toks(d))
                    mm.add(d)
        apps = [dict(name=b"Seams", id=4, cmds=[], avps=docdefs)]
        ops = ([load_toks(gen_xml(apps), apps)] + ops) if variant == 0 else (ops + [load_toks(gen_xml(apps), apps)])
        mm.load(apps)
        did = f"seam{variant}"
        lines.append(("D", dict_line(did, ops), None))
        qs, want = [], []
        for c in seam + [1022, 1026, 65534, 258]:
            for v in (None, 10415, 1):
                qs.append(f"AVP {hx(c)} {opt(v)}")
                d = mm.avps.get((c, v))
                want.append(("avp", fmt_def(d) if d else "none"))
        for c in seam:
            for n in (b"K%d-n" % c, b"K%d-v" % c):
                qs.append(f"NAME {xb(n)}")
                want.append(("name", sorted(fmt_def(d) for d in mm.avps.values() if d["name"] == n)))
        lines.append(("Q", f"Q {did} {len(qs)} " + " ".join(qs), (want, len(ops), len(mm.avps))))
    # the same dictionary OBJECT extended in place, step by step, looked up after every step; documents loaded again
    # after some of their definitions were overridden (latest wins: the reload restores them); a clone taken in the
    # middle, after which the two copies are extended and looked up independently
    import copy

    def queries(r, mm, did, nops):
        qs, want = [], []
        keys = [(c, v) for c in (1, 2, 3, 5, 1000, 0, 0xffffffff, 264, 10415, 77) for v in (None, 1, 2, 3, 10415, 0, 0xffffffff, 5)]
        for (c, v) in r.shuffle(keys)[:24]:
            qs.append(f"AVP {hx(c)} {opt(v)}")
            d = mm.avps.get((c, v))
            want.append(("avp", fmt_def(d) if d else "none"))
        for n in NAMES + [b"Nope"]:
            qs.append(f"NAME {xb(n)}")
            want.append(("name", sorted(fmt_def(d) for d in mm.avps.values() if d["name"] == n)))
        for n in APPN + [b"Nope"]:
            qs.append(f"APP {xb(n)}")
            want.append(("app", hx(mm.apps[n]) if n in mm.apps else "none"))
        for n in CMDN + [b"Nope"]:
            qs.append(f"CMD {xb(n)}")
            want.append(("cmd", hx(mm.cmds[n]) if n in mm.cmds else "none"))
        return ("Q", f"Q {did} {len(qs)} " + " ".join(qs), (want, nops, len(mm.avps)))

    for i in range(60 if tier == "quick" else 3000):
        r = rng.fork(f"p{i}")
        main, fork = f"m{i}", f"f{i}"
        mm = {main: MapModel()}
        docs = []
        first = gen_doc(r)
        docs.append(first)
        mm[main].load(first)
        lines.append(("D", dict_line(main, [load_toks(gen_xml(first), first)]), None))
        nops = 1
        for s_ in range(r.range(3, 9)):
            tgt = r.choice(list(mm))
            c = r.below(10)
            if c < 3:
                apps = gen_doc(r)
                docs.append(apps)
                op = load_toks(gen_xml(apps), apps)
                mm[tgt].load(apps)
            elif c < 5:
                apps = r.choice(docs)               # a document this history has loaded before, byte for byte
                op = load_toks(gen_xml(apps), apps)
                mm[tgt].load(apps)
            elif c < 6 and fork not in mm:
                lines.append(("D", f"DFORK {main} {fork}", None))
                mm[fork] = copy.deepcopy(mm[main])
                continue
            else:
                d = def_of(gen_def(r))
                op = add_toks(d)
                mm[tgt].add(d)
            nops += 1
            lines.append(("D", f"DADD {tgt} {op}", None))
            # look the changed copy up first, then the other one (a structure shared between the copies would show)
            for did in [tgt] + [x for x in mm if x != tgt]:
                lines.append(queries(r, mm[did], did, nops))
    # many definitions handed to the constructor at once, a later document re-declaring pairs of an earlier one (the built-in
    # document followed by overrides of 1, 263, 264, 268, 416, 461; two generated documents of 40 definitions of which the second
    # re-declares every third pair of the first): the later document wins, however the constructor builds its table
    bx0 = builtin_xml(core.REPO)
    ov = [dict(code=c, vendor=None, name=f"Override-{c}".encode(), tyname=b"Unsigned64", must=b"M") for c in (1, 263, 264, 268, 416, 461)]
    ov_apps = [dict(name=b"Overrides", id=4, cmds=[], avps=ov)]
    big1 = [dict(code=20000 + j, vendor=(None if j % 3 else 10415), name=f"Big-{j}".encode(), tyname=b"Unsigned32", must=None) for j in range(40)]
    big2 = [dict(code=20000 + j, vendor=(None if j % 3 else 10415), name=f"Big2-{j}".encode(), tyname=b"UTF8String", must=b"M") for j in range(0, 40, 3)] + \
           [dict(code=21000 + j, vendor=None, name=f"Big2-new-{j}".encode(), tyname=b"OctetString", must=None) for j in range(25)]
    a1, a2 = [dict(name=b"Big-One", id=4, cmds=[], avps=big1)], [dict(name=b"Big-Two", id=4, cmds=[], avps=big2)]
    for did, docs in (("lead-b", [(bx0, None), (gen_xml(ov_apps), ov_apps)]), ("lead-g", [(gen_xml(a1), a1), (gen_xml(a2), a2)]), ("lead-3", [(gen_xml(a1), a1), (bx0, None), (gen_xml(a2), a2), (gen_xml(ov_apps), ov_apps)])):
        mm3 = MapModel()
        for (x, ap) in docs:
            mm3.load(xml_apps(x) if ap is None else ap)
        lines.append(("D", dict_line(did, [load_toks(x, ap) for (x, ap) in docs]), None))
        qs, want = [], []
        keys = [(c, None) for c in (1, 263, 264, 268, 416, 461, 258, 296)] + [(20000 + j, (None if j % 3 else 10415)) for j in range(0, 40, 5)] + [(21003, None), (20001, 10415)]
        for (c, v) in keys:
            qs.append(f"AVP {hx(c)} {opt(v)}")
            d = mm3.avps.get((c, v))
            want.append(("avp", fmt_def(d) if d else "none"))
        for n in (b"Override-264", b"Origin-Host", b"Big-3", b"Big2-3", b"Big-4"):
            qs.append(f"NAME {xb(n)}")
            want.append(("name", sorted(fmt_def(d) for d in mm3.avps.values() if d["name"] == n)))
        lines.append(("Q", f"Q {did} {len(qs)} " + " ".join(qs), (want, len(docs), len(mm3.avps))))
    # the library's process-wide DEFAULT_DICT is public and mutable; what a program does to it must not show in dictionaries
    # created afterwards from documents (the built-in document included): a dictionary is what was loaded into IT
    bx = builtin_xml(core.REPO)
    bm = MapModel()
    bm.load(xml_apps(bx))
    lines.append(("D", "DGLOBAL " + add_toks(dict(code=59999, vendor=None, name=b"Glob-Only", ty="u32", m=True)), None))
    lines.append(("D", "DGLOBAL " + add_toks(dict(code=264, vendor=None, name=b"Hijacked", ty="u32", m=False)), None))
    for j, extra in enumerate([[], [add_toks(dict(code=59998, vendor=None, name=b"Own", ty="utf", m=False))]]):
        did = f"gb{j}"
        lines.append(("D", dict_line(did, [load_toks(bx)] + extra), None))
        mm2 = copy.deepcopy(bm)
        if extra:
            mm2.add(dict(code=59998, vendor=None, name=b"Own", ty="utf", m=False))
        qs, want = [], []
        for (c, v) in [(59999, None), (264, None), (59998, None), (263, None), (268, None)]:
            qs.append(f"AVP {hx(c)} {opt(v)}")
            d = mm2.avps.get((c, v))
            want.append(("avp", fmt_def(d) if d else "none"))
        for n in (b"Glob-Only", b"Hijacked", b"Origin-Host", b"Own", b"Session-Id"):
            qs.append(f"NAME {xb(n)}")
            want.append(("name", sorted(fmt_def(d) for d in mm2.avps.values() if d["name"] == n)))
        lines.append(("Q", f"Q {did} {len(qs)} " + " ".join(qs), (want, 2, len(mm2.avps))))
    # ... and a program that tried to load a malformed document into DEFAULT_DICT (the loader panics holding the lock, which
    # poisons it): dictionaries created from documents afterwards are what their documents say
    lines.append(("D", "DGLOBALPOISON", None))
    lines.append(("D", dict_line("gbp", [load_toks(bx)]), None))
    qs, want = [], []
    for (c, v) in [(264, None), (263, None), (59999, None)]:
        qs.append(f"AVP {hx(c)} {opt(v)}")
        d = bm.avps.get((c, v))
        want.append(("avp", fmt_def(d) if d else "none"))
    lines.append(("Q", f"Q gbp {len(qs)} " + " ".join(qs), (want, 2, len(bm.avps))))
    cases = [l[1] for l in lines]
    # dictionaries are per-process state: keep each history in one shard by running unsharded batches
    impl = core.run_sharded([eng.harness, "codec"], eng.prelude, cases, shards=1, timeout=1800)
    model = core.run_sharded([eng.runner], eng.prelude, cases, shards=1, timeout=1800, unlimited_stack=True)
    for i, ((kind, c, ex), im, mo) in enumerate(zip(lines, impl, model)):
        if kind == "D":
            if im.startswith("PANIC") or im.startswith("CRASH") or im.startswith("BADCASE"):
                chk.violation("loading a generated dictionary failed: " + short(im, 200), dict(case=c, impl=short(im)))
            continue
        want, nops, nkeys = ex
        chk.case(c + str(i), nops >= 2)
        chk.validated += 1
        chk.count(f"ops:{min(nops, 8)}")
        got = im.split()[1:]
        ok = True
        if not im.startswith("Q") or len(got) != len(want):
            chk.violation("lookup did not return: " + short(im, 200), dict(case=c, impl=short(im)))
            continue
        for (k, w), g in zip(want, got):
            chk.count("q:" + k)
            if "!inconsistent" in g:
                ok = False
                chk.violation("get_avp / get_avp_type / get_avp_name disagree about one key", dict(case=c, impl=short(im, 3000)))
                break
            if k == "name":
                if (g == "none") != (not w) or (w and g not in w):
                    ok = False
                    chk.violation(f"lookup by name returned {g}; live definitions with that name: {w}", dict(case=c, history=short(lines[i - 1][1], 6000), impl=short(im, 3000)))
                    break
                if len(w) > 1:
                    chk.count("name:ambiguous")
            elif g != w:
                ok = False
                chk.violation(f"{k} lookup returned {g}, the most recent definition for exactly that key is {w}",
                              dict(case=c, history=short(lines[i - 1][1], 6000), impl=short(im, 3000)))
                break
        # a name carried by several live definitions: the property asks for *a* live definition with that name, which one is
        # open (checked above); the correspondence therefore compares those answers as "some live carrier"
        canon = lambda toks: [("live-carrier" if k == "name" and len(w) > 1 and g2 in w else g2) for (k, w), g2 in zip(want, toks)]
        if ok and canon(got) != canon(mo.split()[1:]):
            chk.corr_break("lookup observation differs from the model", dict(case=c, history=short(lines[i - 1][1], 6000), impl=short(im, 2000), model=short(mo, 2000)))
        if i % max(1, len(lines) // 6) == 0:
            chk.sample(dict(case=c, impl=short(im, 200), P=ok))
    chk.rule = (f"{nh} operation histories (0-2 documents passed to the constructor, then loads of generated XML documents and add_avp calls) and further "
                "histories that extend ONE dictionary object in place (documents loaded again after overrides; a clone taken midway, both copies extended and looked up) over "
                "a pool of colliding codes/vendors/names, 17 `must` spellings, 16 type names + near misses; after EVERY step: 16 keyed lookups "
                "(get_avp, get_avp_type, get_avp_name cross-checked), 10 name lookups, 4 application and 4 command lookups, compared with an independent "
                "last-writer-wins map in the orchestrator (P) and with the extracted Coq model (correspondence); non-trivial = at least two operations")
    chk.assumptions = ["XML text -> element structure is serde-xml-rs's; the generator emits plain ASCII attributes; application ids / command codes are "
                       "drawn from the enums the library knows (others make parse() unwrap, which is outside this property)"]


# ------------------------------------------------------------------ C15
def one_avp_frame(code, vendor, data):
    h = 12 if vendor is not None else 8
    ln = h + len(data)
    body = gen.be(code, 4) + bytes([0x80 if vendor is not None else 0]) + gen.be(ln, 3) + (gen.be(vendor, 4) if vendor is not None else b"") + data
    body += b"\0" * ((4 - ln % 4) % 4)
    return bytes([1]) + gen.be(20 + len(body), 3) + bytes([0x80]) + gen.be(272, 3) + gen.be(4, 4) + gen.be(1, 4) + gen.be(2, 4) + body


def nested_avp_frame(gcode, gvendor, code, vendor, data):
    """one message holding one Grouped AVP (gcode, gvendor) whose only member is (code, vendor, data)"""
    h = 12 if vendor is not None else 8
    ln = h + len(data)
    member = gen.be(code, 4) + bytes([0x80 if vendor is not None else 0]) + gen.be(ln, 3) + (gen.be(vendor, 4) if vendor is not None else b"") + data
    member += b"\0" * ((4 - ln % 4) % 4)
    gh = 12 if gvendor is not None else 8
    body = gen.be(gcode, 4) + bytes([0x80 if gvendor is not None else 0]) + gen.be(gh + len(member), 3) + (gen.be(gvendor, 4) if gvendor is not None else b"") + member
    return bytes([1]) + gen.be(20 + len(body), 3) + bytes([0x80]) + gen.be(272, 3) + gen.be(4, 4) + gen.be(1, 4) + gen.be(2, 4) + body


SAMPLE_DATA = {"addr": b"\0\1\x7f\0\0\1", "ip4": b"\1\2\3\4", "ip6": bytes(range(16)), "id": b"host.example", "uri": b"aaa://h", "en": b"\0\0\0\5",
               "f32": b"\x3f\x80\0\0", "f64": b"\x3f\xf0\0\0\0\0\0\0", "grp": b"", "i32": b"\xff\xff\xff\xfe", "i64": b"\xff" * 8, "oct": b"\0\1\2",
               "time": b"\xe9\x3b\x6c\x5e", "u32": b"\0\0\1\0", "u64": b"\0" * 7 + b"\1", "utf": "hé".encode()}
SAMPLE_LEAF = {"addr": ("a4", b"\x7f\0\0\1"), "ip4": ("ip4", b"\1\2\3\4"), "ip6": ("ip6", bytes(range(16))), "id": ("id", b"host.example"),
               "uri": ("uri", b"aaa://h"), "en": ("en", 5), "f32": ("f32", 0x3f800000), "f64": ("f64", 0x3ff0000000000000), "i32": ("i32", -2),
               "i64": ("i64", -1), "oct": ("oct", b"\0\1\2"), "time": ("time", 1704882958), "u32": ("u32", 256), "u64": ("u64", 1), "utf": ("utf", "hé".encode())}


def shipped_dicts():
    out = [("builtin", builtin_xml(core.REPO))]
    p = os.path.join(core.REPO, "dict", "3gpp-ro-rf.xml")
    if os.path.exists(p):
        out.append(("3gpp", open(p, encoding="utf-8").read()))
    return out


def check_C15(chk, tier, seed):
    rng = Rng(seed).fork("C15")
    eng = engine_codec.setup(chk, rng)
    prelude = list(eng.prelude)
    cases, expect = [], []
    # (a) type names x vendor scoping x wire AVP
    k = 0
    spellings = [(TY_XML_NAME[t], t) for t in TYS[1:]] + [(s, "unk") for s in ("Unsigned16", "utf8string", "UTF8String ", "", "Integer", "IPAddress", "QoSFilterRule", "Grouped ", "grouped")]
    for tyname, ty in spellings:
        for scope in (None, 10415, 77, 0, 0xffffffff):
            for wire_v in (None, 10415, 0):
                did = f"t{k}"
                k += 1
                apps = [dict(name=b"GenApp", id=4, cmds=[], avps=[dict(code=5000, vendor=scope, name=b"Probe", tyname=tyname.encode(), must=None),
                                                                     dict(code=5001, vendor=None, name=b"Other", tyname=b"Unsigned32", must=None)])]
                prelude.append(dict_line(did, [load_toks(gen_xml(apps), apps)]))
                base = ty if ty != "unk" else "u32"
                data = SAMPLE_DATA[base]
                cases.append(f"X {did} {xb(one_avp_frame(5000, wire_v, data))}")
                expect.append(("scope", ty if scope == wire_v else None, tyname, scope, wire_v))
    # the same for codes of the RADIUS attribute space (1 .. 255) and its edge: a key is (code, vendor) there as everywhere else
    for c in (1, 2, 200, 255, 256):
        for scope in (None, 10415):
            did = f"t{k}"
            k += 1
            apps = [dict(name=b"GenApp", id=4, cmds=[], avps=[dict(code=c, vendor=scope, name=b"Low", tyname=b"Unsigned32", must=None)])]
            prelude.append(dict_line(did, [load_toks(gen_xml(apps), apps)]))
            for wire_v in (None, 10415, 77):
                cases.append(f"X {did} {xb(one_avp_frame(c, wire_v, SAMPLE_DATA['u32']))}")
                expect.append(("scope", "u32" if scope == wire_v else None, f"Unsigned32 at code {c}", scope, wire_v))
    # one document declaring the same code in two scopes (vendor-less and vendor v, or v and w), in both orders: each wire
    # AVP is typed by the entry of exactly its pair, the third scope is refused
    pairs = [("u32", "utf"), ("oct", "u64"), ("ip4", "time"), ("grp", "en"), ("i64", "ip6")]
    for (ta, tb) in pairs:
        for (sa, sb) in ((None, 10415), (10415, None), (10415, 77), (0, None)):
            did = f"t{k}"
            k += 1
            apps = [dict(name=b"GenApp", id=4, cmds=[], avps=[dict(code=5000, vendor=sa, name=b"Probe-A", tyname=TY_XML_NAME[ta].encode(), must=None),
                                                                 dict(code=5000, vendor=sb, name=b"Probe-B", tyname=TY_XML_NAME[tb].encode(), must=b"M")])]
            prelude.append(dict_line(did, [load_toks(gen_xml(apps), apps)]))
            for wire_v in (None, 10415, 77, 0):
                ty = ta if wire_v == sa else tb if wire_v == sb else None
                data = SAMPLE_DATA[ty or "u32"]
                cases.append(f"X {did} {xb(one_avp_frame(5000, wire_v, data))}")
                expect.append(("scope", ty, f"{TY_XML_NAME[ta]}/{TY_XML_NAME[tb]} twins", (sa, sb), wire_v))
    # the same scoping one level down: the member of a Grouped AVP is typed by the entry of ITS OWN (code, vendor) - the vendor
    # of the enclosing group lends it nothing
    for ty in ("u32", "utf", "grp", "ip4"):
        for scope in (None, 10415, 77):
            did = f"t{k}"
            k += 1
            apps = [dict(name=b"GenApp", id=4, cmds=[], avps=[dict(code=5000, vendor=scope, name=b"Probe", tyname=TY_XML_NAME[ty].encode(), must=None),
                                                                 dict(code=6000, vendor=None, name=b"Box", tyname=b"Grouped", must=None),
                                                                 dict(code=6000, vendor=10415, name=b"Box-V", tyname=b"Grouped", must=None),
                                                                 dict(code=6000, vendor=77, name=b"Box-W", tyname=b"Grouped", must=None)])]
            prelude.append(dict_line(did, [load_toks(gen_xml(apps), apps)]))
            for gv in (None, 10415, 77):
                for wire_v in (None, 10415, 77):
                    cases.append(f"X {did} {xb(nested_avp_frame(6000, gv, 5000, wire_v, SAMPLE_DATA[ty]))}")
                    expect.append(("nested", ty if scope == wire_v else None, TY_XML_NAME[ty] + f" inside a group of vendor {gv}", scope, wire_v))
    # groups the base protocol gives a special meaning (Failed-AVP 279, Proxy-Info 284, Vendor-Specific-Application-Id 260,
    # Experimental-Result 297, ...): their members are typed or rejected like everybody else's - an AVP without a usable exact
    # entry (none, another vendor only, unrecognised type name) is refused inside them too, one and two levels down
    did = f"t{k}"
    k += 1
    special = [279, 284, 260, 297, 456, 873]
    apps = [dict(name=b"GenApp", id=4, cmds=[], avps=[dict(code=g, vendor=None, name=f"Box-{g}".encode(), tyname=b"Grouped", must=None) for g in special]
                 + [dict(code=5000, vendor=10415, name=b"Only-V", tyname=b"Unsigned32", must=None), dict(code=5001, vendor=None, name=b"Odd", tyname=b"IPFilterRule", must=None),
                    dict(code=5002, vendor=None, name=b"Fine", tyname=b"Unsigned32", must=None)])]
    prelude.append(dict_line(did, [load_toks(gen_xml(apps), apps)]))
    for g in special:
        for (mc, mv, ok_ty) in ((5000, None, None), (5001, None, None), (5999, None, None), (5000, 77, None), (5002, None, "u32"), (5000, 10415, "u32")):
            cases.append(f"X {did} {xb(nested_avp_frame(g, None, mc, mv, SAMPLE_DATA['u32']))}")
            expect.append(("nested", ok_ty, f"member ({mc}, {mv}) inside group {g}", "-", mv))
            inner = nested_avp_frame(g, None, mc, mv, SAMPLE_DATA["u32"])[20:]
            two = gen.be(279, 4) + b"\0" + gen.be(8 + len(inner), 3) + inner
            cases.append(f"X {did} {xb(bytes([1]) + gen.be(20 + len(two), 3) + bytes([0x80]) + gen.be(272, 3) + gen.be(4, 4) + gen.be(1, 4) + gen.be(2, 4) + two)}")
            expect.append(("nested2", ok_ty, f"member ({mc}, {mv}) inside group {g} inside group 279", "-", mv))
    # a document whose <application> carries a <vendor id=.../> element (the shipped 3GPP dictionary has one): it names the vendor of
    # the application, it is not a default for the definitions - a definition is filed under the vendor-id attribute it has, or none
    for velem in (10415, 193):
        for must_not in (None, b"V", b"-", b"P,V"):
            did = f"t{k}"
            k += 1
            apps = [dict(name=b"GenApp", id=4, cmds=[], vendor_elem=velem,
                         avps=[dict(code=5000, vendor=None, name=b"No-Vendor-Attr", tyname=b"Unsigned32", must=None, must_not=must_not),
                               dict(code=5001, vendor=velem, name=b"With-Vendor-Attr", tyname=b"UTF8String", must=None, must_not=must_not)])]
            prelude.append(dict_line(did, [load_toks(gen_xml(apps), apps)]))
            for (c, wv, ty) in ((5000, None, "u32"), (5000, velem, None), (5001, velem, "utf"), (5001, None, None)):
                cases.append(f"X {did} {xb(one_avp_frame(c, wv, SAMPLE_DATA[ty or 'u32']))}")
                expect.append(("scope", ty, f"definition {c} in an application with <vendor id={velem}> (must-not {must_not})", "attr", wv))
    # definitions that list enumeration <item>s under a type that is not Enumerated (or not recognised at all): the items are
    # documentation - the data type attribute types the AVP
    for tyname, ty in [("Unsigned32", "u32"), ("Integer32", "i32"), ("Unsigned64", "u64"), ("UTF8String", "utf"), ("Enumerated", "en"), ("OctetString", "oct"), ("Unsigned16", None), ("", None)]:
        for scope in (None, 10415):
            did = f"t{k}"
            k += 1
            apps = [dict(name=b"GenApp", id=4, cmds=[], avps=[dict(code=5000, vendor=scope, name=b"With-Items", tyname=tyname.encode(), must=None, items=[(1, b"ONE"), (2, b"TWO")]),
                                                                 dict(code=5001, vendor=scope, name=b"Plain-Enum", tyname=b"Enumerated", must=None)])]
            prelude.append(dict_line(did, [load_toks(gen_xml(apps), apps)]))
            cases.append(f"X {did} {xb(one_avp_frame(5000, scope, SAMPLE_DATA[ty or 'u32']))}")
            expect.append(("scope", ty, f"'{tyname}' with <item> children", scope, scope))
            cases.append(f"X {did} {xb(one_avp_frame(5001, scope, SAMPLE_DATA['en']))}")
            expect.append(("scope", "en", "Enumerated without <item> children", scope, scope))
    # an IPv4-typed entry with a payload of IPv6 size and the other way round (and other sizes): the ENTRY decides the kind - the
    # value comes back as the declared kind or the frame is refused, never as the kind the payload size suggests
    did = f"t{k}"
    k += 1
    apps = [dict(name=b"GenApp", id=4, cmds=[], avps=[dict(code=5000, vendor=None, name=b"V4", tyname=b"IPv4", must=None), dict(code=5001, vendor=None, name=b"V6", tyname=b"IPv6", must=None),
                                                         dict(code=5002, vendor=None, name=b"U32", tyname=b"Unsigned32", must=None), dict(code=5003, vendor=None, name=b"U64", tyname=b"Unsigned64", must=None)])]
    prelude.append(dict_line(did, [load_toks(gen_xml(apps), apps)]))
    for code, ty in ((5000, "ip4"), (5001, "ip6"), (5002, "u32"), (5003, "u64")):
        for n in (4, 8, 16):
            cases.append(f"X {did} {xb(one_avp_frame(code, None, bytes(range(1, n + 1))))}")
            expect.append(("kind-or-refuse", ty, f"entry of type {TY_XML_NAME[ty]} with a {n}-octet payload", None, None))
    # a dictionary that is used and THEN extended in place: after every extension a wire AVP is typed by the entry its pair has
    # now (a new pair is known, a re-declared pair has its new type), whatever was decoded under the dictionary before
    grow_cases, grow_expect = [], []
    for rnd, (t0, t1) in enumerate([("u32", "utf"), ("utf", "u64"), ("oct", "grp"), ("en", "ip4")]):
        did = f"grow{rnd}"
        d0 = dict(code=5000, vendor=None, name=b"Probe", ty=t0, m=False)
        grow_cases.append(dict_line(did, [add_toks(d0)]))
        grow_expect.append(("ctl",))
        grow_cases.append(f"X {did} {xb(one_avp_frame(5000, None, SAMPLE_DATA[t0]))}")
        grow_expect.append(("scope", t0, TY_XML_NAME[t0], None, None))
        grow_cases.append(f"X {did} {xb(one_avp_frame(5001, None, SAMPLE_DATA[t1]))}")
        grow_expect.append(("scope", None, "not yet declared", None, None))
        grow_cases.append(f"DADD {did} {add_toks(dict(code=5001, vendor=None, name=b'Probe-New', ty=t1, m=True))}")
        grow_expect.append(("ctl",))
        grow_cases.append(f"X {did} {xb(one_avp_frame(5001, None, SAMPLE_DATA[t1]))}")
        grow_expect.append(("scope", t1, TY_XML_NAME[t1] + " declared after the dictionary was first used", None, None))
        grow_cases.append(f"DADD {did} {add_toks(dict(code=5000, vendor=None, name=b'Probe', ty=t1, m=False))}")
        grow_expect.append(("ctl",))
        grow_cases.append(f"X {did} {xb(one_avp_frame(5000, None, SAMPLE_DATA[t1]))}")
        grow_expect.append(("scope", t1, TY_XML_NAME[t0] + " re-declared as " + TY_XML_NAME[t1] + " after the dictionary was first used", None, None))
        grow_cases.append(f"DFORK {did} {did}c")
        grow_expect.append(("ctl",))
        grow_cases.append(f"DADD {did}c {add_toks(dict(code=5002, vendor=None, name=b'Probe-Clone', ty=t0, m=False))}")
        grow_expect.append(("ctl",))
        grow_cases.append(f"X {did}c {xb(one_avp_frame(5002, None, SAMPLE_DATA[t0]))}")
        grow_expect.append(("scope", t0, TY_XML_NAME[t0] + " declared in a clone of a used dictionary", None, None))
        grow_cases.append(f"X {did} {xb(one_avp_frame(5002, None, SAMPLE_DATA[t0]))}")
        grow_expect.append(("scope", None, "declared in the clone only", None, None))
    # two definitions carrying the SAME NAME under different keys, with different types (same document, or the second added
    # later with add_avp): a wire AVP is typed by the entry of its own (code, vendor), whatever other entry shares its name
    for (ta, tb) in pairs + [("utf", "u32"), ("u64", "oct")]:
        for (ka, kb) in (((5000, None), (5001, None)), ((5000, None), (5000, 10415)), ((5000, 10415), (6000, 10415)), ((5001, None), (5000, None))):
            for how in ("same-doc", "add"):
                did = f"t{k}"
                k += 1
                da = dict(code=ka[0], vendor=ka[1], name=b"Shared", tyname=TY_XML_NAME[ta].encode(), must=None)
                db = dict(code=kb[0], vendor=kb[1], name=b"Shared", tyname=TY_XML_NAME[tb].encode(), must=b"M")
                if how == "same-doc":
                    apps = [dict(name=b"GenApp", id=4, cmds=[], avps=[da, db])]
                    ops = [load_toks(gen_xml(apps), apps)]
                else:
                    apps = [dict(name=b"GenApp", id=4, cmds=[], avps=[da])]
                    ops = [load_toks(gen_xml(apps), apps), add_toks(dict(code=kb[0], vendor=kb[1], name=b"Shared", ty=tb, m=True))]
                prelude.append(dict_line(did, ops))
                for (kc, ty) in ((ka, ta), (kb, tb)):
                    cases.append(f"X {did} {xb(one_avp_frame(kc[0], kc[1], SAMPLE_DATA[ty]))}")
                    expect.append(("scope", ty, f"{TY_XML_NAME[ta]}/{TY_XML_NAME[tb]} sharing one name ({how})", (ka, kb), kc[1]))
    # one document, several <application> blocks (Base = id 0 among them, first, in the middle, last) declaring the same pair with
    # different types: the document is read top to bottom, the last declaration is the entry - whichever application it stands under
    for order in ((4, 0), (0, 4), (4, 0, 16777238), (16777238, 4, 0)):
        did = f"t{k}"
        k += 1
        tys = ["u64", "utf", "u32"]
        apps = [dict(name=f"App-{a}".encode(), id=a, cmds=[], avps=[dict(code=5001, vendor=None, name=f"Pair-{j}".encode(), tyname=TY_XML_NAME[tys[j]].encode(), must=None),
                                                                      dict(code=5002, vendor=77, name=f"VPair-{j}".encode(), tyname=TY_XML_NAME[tys[j]].encode(), must=None)])
                for j, a in enumerate(order)]
        prelude.append(dict_line(did, [load_toks(gen_xml(apps), apps)]))
        last = tys[len(order) - 1]
        for (c, v) in ((5001, None), (5002, 77)):
            for ty in tys[: len(order)]:
                cases.append(f"X {did} {xb(one_avp_frame(c, v, SAMPLE_DATA[ty]))}")
                # the payload of another declaration's type: typed by the LAST declaration all the same (refused if it does not fit it)
                expect.append(("kind-or-refuse", last, f"({c}, {v}) declared under applications {order} in this order, payload of a {TY_XML_NAME[ty]}"))
    # attributes written as zero-padded decimals (code="0300", vendor-id="010415", digits 0-7 only and with 8 / 9): decimal, as ever
    did = f"t{k}"
    k += 1
    apps = [dict(name=b"GenApp", id=4, cmds=[], avps=[dict(code=300, vendor=None, name=b"Pad-A", tyname=b"Unsigned32", must=None, pad=True), dict(code=5001, vendor=10415, name=b"Pad-B", tyname=b"Unsigned32", must=None, pad=True),
                                                       dict(code=1899, vendor=None, name=b"Pad-C", tyname=b"UTF8String", must=None, pad=True), dict(code=100, vendor=10, name=b"Pad-D", tyname=b"Unsigned32", must=None, pad=True)])]
    prelude.append(dict_line(did, [load_toks(gen_xml(apps), apps)]))
    for (c, v, ty) in ((300, None, "u32"), (5001, 10415, "u32"), (1899, None, "utf"), (100, 10, "u32"), (192, None, None), (5001, 4365, None), (64, 8, None), (64, 10, None)):
        cases.append(f"X {did} {xb(one_avp_frame(c, v, SAMPLE_DATA[ty or 'u32']))}")
        expect.append(("scope", ty, f"({c}, {v}) against a document that writes its numbers with a leading zero", None, v))
    # many Grouped AVPs side by side (40 at top level each with one member; one group with 40 grouped members): the nesting limit is
    # about depth, not about how many groups a message holds - every one is typed
    did = f"t{k}"
    k += 1
    apps = [dict(name=b"GenApp", id=4, cmds=[], avps=[dict(code=6100, vendor=None, name=b"Box", tyname=b"Grouped", must=None), dict(code=6101, vendor=None, name=b"Leaf", tyname=b"Unsigned32", must=None)])]
    prelude.append(dict_line(did, [load_toks(gen_xml(apps), apps)]))
    leafb = gen.be(6101, 4) + b"\0" + gen.be(12, 3) + gen.be(7, 4)
    boxb = gen.be(6100, 4) + b"\0" + gen.be(8 + len(leafb), 3) + leafb
    hdr = lambda body: bytes([1]) + gen.be(20 + len(body), 3) + bytes([0x80]) + gen.be(272, 3) + gen.be(4, 4) + gen.be(1, 4) + gen.be(2, 4) + body
    for nsib in (33, 40, 70):
        cases.append(f"X {did} {xb(hdr(boxb * nsib))}")
        expect.append(("kind-or-refuse", "grp", f"{nsib} sibling Grouped AVPs at top level"))
        cases.append(f"X {did} {xb(hdr(gen.be(6100, 4) + bytes(1) + gen.be(8 + len(boxb) * nsib, 3) + boxb * nsib))}")
        expect.append(("kind-or-refuse", "grp", f"one Grouped AVP with {nsib} Grouped members"))
    # two adjacent AVPs with the same code, both under a vendor, different vendors (v then w, w then v), at top level and inside a group:
    # each is typed by its own entry - or refused where it has none
    did = f"t{k}"
    k += 1
    apps = [dict(name=b"GenApp", id=4, cmds=[], avps=[dict(code=6200, vendor=10415, name=b"Twin-V", tyname=b"Unsigned32", must=None), dict(code=6200, vendor=9, name=b"Twin-W", tyname=b"UTF8String", must=None),
                                                       dict(code=6201, vendor=10415, name=b"Lone-V", tyname=b"Unsigned32", must=None), dict(code=6100, vendor=None, name=b"Box", tyname=b"Grouped", must=None)])]
    prelude.append(dict_line(did, [load_toks(gen_xml(apps), apps)]))
    vavp = lambda c, v, data: gen.be(c, 4) + b"\x80" + gen.be(12 + len(data), 3) + gen.be(v, 4) + data + b"\0" * ((4 - len(data) % 4) % 4)
    for (first, second, ty2) in (((6200, 10415, gen.be(5, 4)), (6200, 9, b"text"), "utf"), ((6200, 9, b"text"), (6200, 10415, gen.be(5, 4)), "u32"),
                                 ((6201, 10415, gen.be(5, 4)), (6201, 9, gen.be(6, 4)), None), ((6201, 10415, gen.be(5, 4)), (6201, 77, gen.be(6, 4)), None)):
        pair = vavp(*first) + vavp(*second)
        for wrap in (False, True):
            body = pair if not wrap else gen.be(6100, 4) + bytes(1) + gen.be(8 + len(pair), 3) + pair
            cases.append(f"X {did} {xb(hdr(body))}")
            expect.append(("adjacent", ty2, f"AVP ({second[0]}, vendor {second[1]}) right after ({first[0]}, vendor {first[1]})" + (" inside a group" if wrap else ""), None, second[1]))
    # codes that a lossy table would fold onto a defined one: c + k*1024, c + 2^16, c + 2^20, c + 2^24, c + 2^31, c with its
    # octets swapped - none of them is defined, each must be refused; and the defined code itself still decodes
    did = f"t{k}"
    k += 1
    base_codes = [1, 263, 1000, 1023]
    apps = [dict(name=b"GenApp", id=4, cmds=[], avps=[dict(code=c, vendor=None, name=f"Base-{c}".encode(), tyname=b"Unsigned32", must=None) for c in base_codes])]
    prelude.append(dict_line(did, [load_toks(gen_xml(apps), apps)]))
    for c in base_codes:
        cases.append(f"X {did} {xb(one_avp_frame(c, None, SAMPLE_DATA['u32']))}")
        expect.append(("scope", "u32", "Unsigned32", None, None))
        for alias in sorted({c + 1024, c + 2048, c + 65536, c + (1 << 20), c + (1 << 24), (c + (1 << 31)) & 0xffffffff, int.from_bytes(c.to_bytes(4, "big"), "little"), c ^ 0x400}):
            if alias in base_codes:
                continue
            cases.append(f"X {did} {xb(one_avp_frame(alias, None, SAMPLE_DATA['u32']))}")
            expect.append(("scope", None, f"alias {alias:#x} of defined code {c}", None, None))
    # a pair whose type was recognised and is then re-declared with a type name the library does not recognise (in the same
    # document, by a later document, by add_avp): from then on nothing decodes under it
    for how in ("same-doc", "later-doc", "add"):
        did = f"t{k}"
        k += 1
        first = dict(code=5000, vendor=None, name=b"Probe", tyname=b"Unsigned32", must=None)
        second = dict(code=5000, vendor=None, name=b"Probe", tyname=b"IPFilterRule", must=None)
        if how == "same-doc":
            apps = [dict(name=b"GenApp", id=4, cmds=[], avps=[first, second])]
            ops = [load_toks(gen_xml(apps), apps)]
        elif how == "later-doc":
            a1 = [dict(name=b"GenApp", id=4, cmds=[], avps=[first])]
            a2 = [dict(name=b"GenApp", id=4, cmds=[], avps=[second])]
            ops = [load_toks(gen_xml(a1), a1), load_toks(gen_xml(a2), a2)]
        else:
            a1 = [dict(name=b"GenApp", id=4, cmds=[], avps=[first])]
            ops = [load_toks(gen_xml(a1), a1), add_toks(dict(code=5000, vendor=None, name=b"Probe", ty="unk", m=False))]
        prelude.append(dict_line(did, ops))
        cases.append(f"X {did} {xb(one_avp_frame(5000, None, SAMPLE_DATA['u32']))}")
        expect.append(("scope", None, f"Unsigned32 re-declared as IPFilterRule ({how})", None, None))
    # the same table again in another order: consecutive decodes now carry the SAME (code, vendor) on the wire under
    # DIFFERENT dictionaries (an answer remembered from the previous decode, keyed by code and vendor only, would be wrong)
    n0 = len(cases)
    for i in sorted(range(n0), key=lambda i: (str(expect[i][4] if len(expect[i]) > 4 else expect[i][-1]), i)):
        cases.append(cases[i])
        expect.append(expect[i])
    # (b) every definition of the shipped dictionaries
    for name, xml in shipped_dicts():
        did = "s" + name
        prelude.append(dict_line(did, [load_toks(xml)]))
        mm = MapModel()
        mm.load(xml_apps(xml))
        chk.extra[f"definitions_in_{name}"] = sum(len(a["avps"]) for a in xml_apps(xml))
        qs = []
        for (c, v), d in sorted(mm.avps.items(), key=lambda kv: (kv[0][0], -1 if kv[0][1] is None else kv[0][1])):
            cases.append(f"Q {did} 1 AVP {hx(c)} {opt(v)}")
            expect.append(("def", fmt_def(d)))
            if d["ty"] != "unk":
                if d["ty"] == "grp":
                    cases.append(f"X {did} {xb(one_avp_frame(c, v, b''))}")
                    expect.append(("use", "grp", None))
                else:
                    leaf = SAMPLE_LEAF[d["ty"]]
                    line = hist_line(did, ("NEW", 272, 4, 0x80, 1, 2), [("ADDNAME", d["name"], ("L", leaf))])
                    cases.append(line)
                    expect.append(("build", d, leaf))
    cases += grow_cases
    expect += grow_expect
    # a program extends the library's process-wide DEFAULT_DICT (a vendor AVP of its own, Session-Id re-typed) and LATER builds a
    # dictionary of its own from the built-in document: that dictionary holds what its documents say - the pair only the global
    # knows is refused, Session-Id is text (at the end of the run: nothing before it sees the changed global)
    bx = builtin_xml(core.REPO)
    for dline in ("DGLOBAL " + add_toks(dict(code=70001, vendor=4242, name=b"Glob-Vendor-Only", ty="u64", m=False)),
                  "DGLOBAL " + add_toks(dict(code=70002, vendor=None, name=b"Glob-Only", ty="u32", m=False)),
                  "DGLOBAL " + add_toks(dict(code=263, vendor=None, name=b"Session-Id", ty="oct", m=True)),
                  dict_line("tglob", [load_toks(bx)]),
                  dict_line("tglob2", [load_toks(bx), add_toks(dict(code=70003, vendor=None, name=b"Mine", ty="u32", m=False))])):
        cases.append(dline)
        expect.append(("ctl", None, 0, "-"))
    for did in ("tglob", "tglob2"):
        for (c, v, data, ty) in ((70001, 4242, SAMPLE_DATA["u64"], None), (70002, None, SAMPLE_DATA["u32"], None), (263, None, b"ses;1", "utf"), (264, None, b"host.example", "id")):
            cases.append(f"X {did} {xb(one_avp_frame(c, v, data))}")
            expect.append(("scope", ty, f"({c}, {v}) in a dictionary built from the built-in document after DEFAULT_DICT was extended", None, v))
    eng.prelude = prelude
    impl, model = eng.run(cases, shards=1)
    stage2, s2idx = [], []
    for i, (c, ex, im) in enumerate(zip(cases, expect, impl)):
        if ex[0] == "build" and im.startswith("R ok") and " ENC x" in im:
            stage2.append(f"X {c.split()[1]} {im[im.rindex(' ENC ') + 5:]}")
            s2idx.append(i)
    impl2, model2 = eng.run(stage2, shards=1) if stage2 else ([], [])
    dec = dict(zip(s2idx, impl2))
    for i, (c, ex, im, mo) in enumerate(zip(cases, expect, impl, model)):
        mobs, _ = split_obs(mo)
        chk.case(c, True)
        chk.validated += 1
        chk.count("kind:" + ex[0])
        ok = True
        if im.startswith("PANIC") or im.startswith("CRASH"):
            chk.violation("crash: " + short(im, 200), dict(case=c, impl=short(im)))
            continue
        if ex[0] == "ctl":
            if im != "OK":
                chk.violation("a dictionary could not be created / extended: " + short(im, 200), dict(case=c, impl=short(im)))
            continue
        if ex[0] == "kind-or-refuse":
            if im.startswith("OK "):
                a = parse_result(im)["msg"]["avps"][0]
                kind = KIND_TY.get(a["val"][1]) if a["val"][0] == "L" else "grp"
                if kind != ex[1]:
                    ok = False
                    chk.violation(f"{ex[2]}: the value came back as kind {kind}; the entry decides the kind, not the size of the payload", dict(case=c, impl=short(im, 1000)))
        elif ex[0] == "adjacent":
            _, ty2, desc, _, _ = ex
            if ty2 is None:
                if not im.startswith("ERR"):
                    ok = False
                    chk.violation(f"{desc}: there is no entry for that pair, yet the frame was accepted", dict(case=c, impl=short(im, 1000)))
            elif im.startswith("OK "):
                avps = parse_result(im)["msg"]["avps"]
                last = avps[-1] if avps[-1]["val"][0] == "L" else avps[-1]["val"][1][-1]
                kind = KIND_TY.get(last["val"][1]) if last["val"][0] == "L" else "grp"
                if kind != ty2:
                    ok = False
                    chk.violation(f"{desc}: typed {kind}, its own entry says {ty2}", dict(case=c, impl=short(im, 1000)))
            else:
                ok = False
                chk.violation(f"{desc}: both pairs have entries, yet the frame was refused", dict(case=c, impl=short(im, 1000)))
        elif ex[0] in ("scope", "nested", "nested2"):
            _, ty, tyname, scope, wire_v = ex
            want_ok = ty is not None and ty != "unk"
            if im.startswith("OK ") != want_ok:
                ok = False
                chk.violation(f"AVP code 0x{c.split()[2][41:49]} (vendor {wire_v}) with the entry/entries under vendor {scope} and type name '{tyname}': "
                              + ("decoded although no entry / no recognised type applies" if not want_ok else "rejected although its exact entry has a recognised type"),
                              dict(case=c, impl=short(im, 1000)))
            elif want_ok:
                a = parse_result(im)["msg"]["avps"][0]
                if ex[0] == "nested":
                    a = a["val"][1][0]
                if ex[0] == "nested2":
                    a = a["val"][1][0]["val"][1][0]
                kind = KIND_TY.get(a["val"][1]) if a["val"][0] == "L" else "grp"
                if kind != ty:
                    ok = False
                    chk.violation(f"type name '{tyname}' produced a value of kind {kind}, expected {ty}", dict(case=c, impl=short(im, 1000)))
        elif ex[0] == "def":
            if im != "Q " + ex[1]:
                ok = False
                chk.violation(f"shipped definition reads back as {im}, the XML (read independently) says {ex[1]}", dict(case=c, impl=im))
        elif ex[0] == "use":
            if not im.startswith("OK "):
                ok = False
                chk.violation("a shipped Grouped definition cannot be used to decode an (empty) group", dict(case=c, impl=short(im)))
        else:
            _, d, leaf = ex
            d2 = dec.get(i)
            if not im.startswith("R ok 1") or d2 is None or not d2.startswith("OK "):
                ok = False
                chk.violation(f"shipped definition {d['name']!r} cannot be used to encode and decode a value of its declared type {d['ty']}",
                              dict(case=c, impl=short(im, 1000), decoded=short(str(d2), 1000)))
            else:
                a = parse_result(d2)["msg"]["avps"][0]
                if a["val"][0] != "L" or KIND_TY.get(a["val"][1]) != d["ty"] or (int(a["code"], 16), None if a["vendor"] == "-" else int(a["vendor"], 16)) != (d["code"], d["vendor"]):
                    ok = False
                    chk.violation(f"value of shipped definition {d['name']!r} came back as {a['val'][:2]} under ({a['code']},{a['vendor']})",
                                  dict(case=c, decoded=short(d2, 1000)))
        if ok and im != mobs:
            chk.corr_break("observation differs from the model", dict(case=c, impl=short(im, 2000), model=short(mobs, 2000)))
        if i % max(1, len(cases) // 6) == 0:
            chk.sample(dict(case=c, impl=short(im, 160), P=ok))
    chk.exhaustive = True
    chk.rule = ("exhaustive: 16 documented type names + 9 unknown spellings x entry scope {vendor-less, vendor 10415, vendor 77, vendor 0, vendor 2^32-1} x wire AVP {no vendor, vendor 10415, vendor 0} "
                "(one-AVP frames); every definition of the built-in dictionary and of dict/3gpp-ro-rf.xml read independently with xml.etree: looked up, and "
                "(recognised types) used to build by name, encode, decode a value of its declared type")


# ------------------------------------------------------------------ C16
def check_C16(chk, tier, seed):
    rng = Rng(seed).fork("C16")
    eng = engine_codec.setup(chk, rng)
    prelude = list(eng.prelude)
    dicts = {}
    for name, xml in shipped_dicts():
        did = "s" + name
        prelude.append(dict_line(did, [load_toks(xml)]))
        mm = MapModel()
        mm.load(xml_apps(xml))
        dicts[did] = list(mm.avps.values())
    for did in ("g", "x"):
        dicts[did] = eng.dicts[did].live()
    # operator documents in the layout of the shipped 3GPP file: an application that names its vendor (<vendor id=.../>) and declares
    # vendor-specific AVPs next to plain ones (no vendor-id attribute: vendor-less, whatever the application says about itself);
    # and a second document, loaded later, that declares more AVPs under application names the first one registered already
    def odef(name, code, vendor, ty, must):
        return dict(code=code, vendor=vendor, name=name, tyname=TY_XML_NAME[ty].encode(), must=must, may=None)
    doc1 = [dict(name=b"Base", id=0, cmds=[(b"Op-Cmd-A", 257)], avps=[odef(b"Op-Base-One", 6001, None, "u32", b"M"), odef(b"Op-Base-Two", 6002, None, "utf", None)]),
            dict(name=b"Operator App", id=16777238, cmds=[], vendor_elem=10415,
                 avps=[odef(b"Op-Tariff-Class", 6101, 10415, "u32", b"V,M"), odef(b"Op-Plain-Token", 6102, None, "oct", None), odef(b"Op-Plain-M", 6103, None, "u32", b"M")])]
    doc2 = [dict(name=b"Base", id=0, cmds=[], avps=[odef(b"Op-Base-Three", 6003, None, "u64", b"M"), odef(b"Op-Base-Four", 6004, None, "id", None),
                                                       # names outside the RFC 6733 diameter-name grammar (a digit first, '_', '.', a blank, non-ASCII): a name is what the dictionary says it is
                                                       odef(b"3GPP-IMSI-X", 6005, None, "utf", b"M"), odef(b"Operator_Note", 6006, None, "utf", None), odef(b"Acme.Trace-Id", 6007, None, "u32", None),
                                                       odef(b"Two Words", 6008, None, "u32", None), odef("Gebühr".encode(), 6009, None, "u32", b"M"), odef(b"x", 6010, None, "u32", None),
                                                       odef(b"Op-Event-Time", 6011, None, "time", b"M")]),
            dict(name=b"Operator App", id=16777238, cmds=[], vendor_elem=10415,
                 avps=[odef(b"Op-Later-Plain", 6104, None, "utf", b"M"), odef(b"Op-Later-Vendor", 6105, 10415, "oct", b"V")]),
            dict(name=b"Another App", id=4, cmds=[], vendor_elem=193, avps=[odef(b"Op-Other-Plain", 6201, None, "i32", None)])]
    for did, ops in (("op1", [load_toks(gen_xml(doc1), doc1), load_toks(gen_xml(doc2), doc2)]),
                     ("op2", [load_toks(gen_xml(doc1), doc1), add_toks(dict(code=6999, vendor=None, name=b"Op-Added", ty="u32", m=False)), load_toks(gen_xml(doc2), doc2)]),
                     ("op3", [add_toks(dict(code=6999, vendor=None, name=b"Op-Added", ty="u32", m=False)), load_toks(gen_xml(doc2), doc2), load_toks(gen_xml(doc1), doc1)])):
        prelude.append(dict_line(did, ops))
        mm = MapModel()
        mm.load(doc1)
        mm.load(doc2)
        mm.add(dict(code=6999, vendor=None, name=b"Op-Added", ty="u32", m=False))
        dicts[did] = [d for d in mm.avps.values() if did != "op1" or d["name"] != b"Op-Added"]
    eng.prelude = prelude
    cases, expect = [], []
    starts = {}
    for did, defs in dicts.items():
        names = {}
        for d in defs:
            names.setdefault(d["name"], []).append(d)
        for j, (nm, ds) in enumerate(sorted(names.items())):
            ty = ds[0]["ty"]
            v = ("L", SAMPLE_LEAF.get(ty, SAMPLE_LEAF["u32"])) if ty != "grp" else ("GN", [])
            # the message's command and application vary (Gx, Rx, Sy, accounting, base, ...): what a name resolves to is decided by
            # the message's dictionary, not by which application's section of a document declared it
            start = ("NEW", gen.CMDS[j % len(gen.CMDS)], gen.APPS[(j // 2) % len(gen.APPS)], [0x80, 0, 0x40][j % 3], 1 + j, 2)
            cases.append(hist_line(did, start, [("ADDNAME", nm, v)]))
            expect.append(("byname", ds, v, did))
            starts[len(cases) - 1] = start
            # the value given need not be of the declared type (the builder does not consult it): a narrower / related kind
            # must be carried exactly as given, as it is when the AVP is built from explicit numbers
            other = {"u64": "u32", "i64": "i32", "f64": "f32", "ip6": "ip4", "addr": "ip4", "id": "utf", "uri": "oct", "u32": "u64", "i32": "en",
                     "en": "i32", "utf": "oct", "oct": "utf", "time": "u32", "f32": "u32", "ip4": "u32", "grp": "oct"}.get(ty)
            if other and (did in ("g", "x") or len(names) < 200 or ty in ("u64", "i64", "f64")):
                v2 = ("L", SAMPLE_LEAF[other])
                cases.append(hist_line(did, ("NEW", 272, 4, 0x80, 1, 2), [("ADDNAME", nm, v2)]))
                expect.append(("byname", ds, v2, did))
    # names that were declared once but whose key has since been re-declared under another name: no live definition carries them
    for did in ("g", "x"):
        live_names = {d["name"] for d in eng.dicts[did].live()}
        for nm in sorted({d["name"] for d in eng.dicts[did].defs} - live_names):
            cases.append(hist_line(did, ("NEW", 272, 4, 0x80, 1, 2), [("ADDNAME", nm, ("L", SAMPLE_LEAF["u32"]))]))
            expect.append(("stale", hist_line(did, ("NEW", 272, 4, 0x80, 1, 2), []), 0, did))
    # dictionaries that come and go: a dictionary is dropped and another one, declaring a name just used differently (or not
    # at all), is created right after it - typically at the same address.  What a name resolves to is a function of the
    # dictionary's content, not of its identity or of what was resolved before.
    for rnd in range(6 if tier == "quick" else 40):
        nm = f"X-Quota-{rnd % 2}".encode()
        for step, d in enumerate([dict(code=9001 + rnd, vendor=None, name=nm, ty="u32", m=True),
                                  dict(code=9101 + rnd, vendor=10415, name=nm, ty="u32", m=False),
                                  None,
                                  dict(code=9201 + rnd, vendor=None, name=nm, ty="u32", m=False)]):
            other = dict(code=7000, vendor=None, name=b"Other-Name", ty="u32", m=False)
            dl = dict_line("tmpq", [add_toks(other)] + ([add_toks(d)] if d else []))
            cases.append(dl if step == 0 and rnd == 0 else "DSWAP" + dl[1:])
            expect.append(("ctl", None, 0, "-"))
            v = ("L", SAMPLE_LEAF["u32"])
            cases.append(hist_line("tmpq", ("NEW", 272, 4, 0x80, 1, 2), [("ADDNAME", nm, v)]))
            if d:
                expect.append(("byname", [d], v, "g"))
            else:
                expect.append(("stale", hist_line("g", ("NEW", 272, 4, 0x80, 1, 2), []), 0, "g"))

    # a dictionary that grows in place: a by-name build (whatever index a dictionary keeps is now built), then add_avp of a NEW
    # name, then a by-name build of that name - it must be found; and a name re-declared for another key is found there
    for rnd in range(3 if tier == "quick" else 20):
        base = dict(code=7100 + rnd, vendor=None, name=f"Grow-Base-{rnd}".encode(), ty="u32", m=False)
        later = dict(code=7200 + rnd, vendor=10415 if rnd % 2 else None, name=f"Grow-Later-{rnd}".encode(), ty="u32", m=bool(rnd % 2))
        v = ("L", SAMPLE_LEAF["u32"])
        cases.append(dict_line("grow", [add_toks(base)]))
        expect.append(("ctl", None, 0, "-"))
        cases.append(hist_line("grow", ("NEW", 272, 4, 0x80, 1, 2), [("ADDNAME", base["name"], v)]))
        expect.append(("byname", [base], v, "g"))
        cases.append(hist_line("grow", ("NEW", 272, 4, 0x80, 1, 2), [("ADDNAME", later["name"], v)]))
        expect.append(("stale", hist_line("g", ("NEW", 272, 4, 0x80, 1, 2), []), 0, "g"))
        cases.append(f"DADD grow {add_toks(later)}")
        expect.append(("ctl", None, 0, "-"))
        cases.append(hist_line("grow", ("NEW", 272, 4, 0x80, 1, 2), [("ADDNAME", later["name"], v)]))
        expect.append(("byname", [later], v, "g"))
        cases.append(hist_line("grow", ("NEW", 272, 4, 0x80, 1, 2), [("ADDNAME", base["name"], v)]))
        expect.append(("byname", [base], v, "g"))
    # a dictionary and a clone of it, extended differently afterwards: what a name resolves to is decided by the dictionary the
    # message holds, whichever of the two was asked first (nothing the two share may remember an answer)
    for rnd in range(4 if tier == "quick" else 24):
        o, f = f"co{rnd}", f"cf{rnd}"
        base = dict(code=7300 + rnd, vendor=None, name=f"Both-{rnd}".encode(), ty="u32", m=False)
        redecl = dict(code=7400 + rnd, vendor=10415, name=f"Both-{rnd}".encode(), ty="u32", m=True)       # the clone re-declares the NAME for another key
        only_f = dict(code=7500 + rnd, vendor=None, name=f"Clone-Only-{rnd}".encode(), ty="u32", m=True)
        only_o = dict(code=7600 + rnd, vendor=None, name=f"Orig-Only-{rnd}".encode(), ty="u32", m=False)
        v = ("L", SAMPLE_LEAF["u32"])
        hl = lambda did, nm: hist_line(did, ("NEW", 272, 4, 0x80, 1, 2), [("ADDNAME", nm, v)])
        cases.append(dict_line(o, [add_toks(base)]))
        expect.append(("ctl", None, 0, "-"))
        if rnd % 2:
            cases.append(hl(o, base["name"]))          # the original is asked before the clone exists
            expect.append(("byname", [base], v, "g"))
        cases.append(f"DFORK {o} {f}")
        expect.append(("ctl", None, 0, "-"))
        for dd, op in ((f, only_f), (o, only_o)):
            cases.append(f"DADD {dd} {add_toks(op)}")
            expect.append(("ctl", None, 0, "-"))
        # the clone drops the name from the shared key by renaming it there, and declares it for another key
        cases.append(f"DADD {f} {add_toks(dict(base, name=f'Renamed-{rnd}'.encode()))}")
        expect.append(("ctl", None, 0, "-"))
        cases.append(f"DADD {f} {add_toks(redecl)}")
        expect.append(("ctl", None, 0, "-"))
        order = [(o, base["name"], [base]), (f, base["name"], [redecl]), (f, only_f["name"], [only_f]), (o, only_f["name"], None),
                 (o, only_o["name"], [only_o]), (f, only_o["name"], None), (f, base["name"], [redecl]), (o, base["name"], [base])]
        if rnd % 4 >= 2:
            order = order[::-1]
        for (dd, nm, ds) in order:
            cases.append(hl(dd, nm))
            if ds is None:
                expect.append(("stale", hist_line("g", ("NEW", 272, 4, 0x80, 1, 2), []), 0, "g"))
            else:
                expect.append(("byname", ds, v, "g"))
    # names the library's built-in dictionary knows, asked of dictionaries that do not contain them: what a name resolves to
    # is decided by the message's own dictionary alone
    for did in ("g", "x"):
        have = {d["name"] for d in eng.dicts[did].live()}
        for nm in (b"Origin-Host", b"Session-Id", b"Result-Code", b"Origin-Realm", b"Destination-Host", b"CC-Request-Type", b"User-Name"):
            if nm not in have:
                cases.append(hist_line(did, ("NEW", 272, 4, 0x80, 1, 2), [("ADDAVP", 1011, None, 0, ("L", ("oct", b"x"))), ("ADDNAME", nm, ("L", SAMPLE_LEAF["u32"]))]))
                expect.append(("unknown", hist_line(did, ("NEW", 272, 4, 0x80, 1, 2), [("ADDAVP", 1011, None, 0, ("L", ("oct", b"x")))]), 1, did))
    # a by-name addition in the MIDDLE of a history (the message already holds AVPs, more follow): the same message as with the
    # numbers - the AVP goes where add_avp would put it (the end), whatever its name is (Session-Id included)
    for did in ("b", "g", "x"):
        live = [d for d in eng.dicts[did].live() if eng.dicts[did].name_unique(d["name"]) and d["ty"] not in ("grp", "unk")]
        fill = [d for d in live if d["ty"] in ("u32", "oct", "utf", "id")][:7]
        special = [d for d in live if d["name"] in (b"Session-Id", b"Origin-Host", b"Origin-Realm", b"Destination-Realm", b"Auth-Application-Id", b"Result-Code", b"Proxy-State", b"Route-Record")]
        rr = rng.fork("mid" + did)
        pick = special + rr.shuffle([d for d in live if d not in special])[: (60 if tier == "quick" else 600)]
        for j, d in enumerate(pick):
            if not fill:
                break
            f1, f2 = fill[j % len(fill)], fill[(j + 3) % len(fill)]
            mk = lambda x: ("ADDAVP", x["code"], x["vendor"], 0x40 if x["m"] else 0, ("L", SAMPLE_LEAF[x["ty"]]))
            v = ("L", SAMPLE_LEAF[d["ty"]])
            pre, post = [mk(f1)] * (1 + j % 2), [mk(f2)] * (j % 3)
            start = ("NEW", 272, 4, 0x80, 1, 2)
            cases.append(hist_line(did, start, pre + [("ADDNAME", d["name"], v)] + post))
            expect.append(("inhistory", hist_line(did, start, pre + [("ADDAVP", d["code"], d["vendor"], 0x40 if d["m"] else 0, v)] + post), None, did))
            if d["ty"] in ("oct", "utf", "id", "uri") and j % 3 == 0:
                # the same name several times in one message, with values of different lengths: each AVP is its own
                vs = [("L", (d["ty"], b"abcd")), ("L", (d["ty"], b"abcdefghijk")), ("L", (d["ty"], b"")), ("L", (d["ty"], b"xy"))][: 2 + j % 3]
                cases.append(hist_line(did, start, [("ADDNAME", d["name"], x) for x in vs] + post))
                expect.append(("inhistory", hist_line(did, start, [("ADDAVP", d["code"], d["vendor"], 0x40 if d["m"] else 0, x) for x in vs] + post), None, did))
    # a by-name build with a value the wire cannot carry (a Time in 2040, in 1899): the builder does not encode - the AVP is appended exactly
    # as add_avp appends it (whether the message can be encoded is C05's business)
    for did, nm, code in (("b", b"Event-Timestamp", 55), ("op2", b"Op-Event-Time", 6011)):
        for tval in (2208988800, 4102444800, -2208988801):
            v = ("L", ("time", tval))
            pre = [("ADDAVP", 264 if did == "b" else 6001, None, 0x40, ("L", ("id", b"h.example") if did == "b" else ("u32", 5)))]
            cases.append(hist_line(did, ("NEW", 272, 4, 0x80, 1, 2), pre + [("ADDNAME", nm, v)] + pre))
            expect.append(("inhistory", hist_line(did, ("NEW", 272, 4, 0x80, 1, 2), pre + [("ADDAVP", code, None, 0x40, v)] + pre), None, did))
    # unknown names interleaved in histories: the failed call must change nothing
    n = 600 if tier == "quick" else 30000
    for i in range(n):
        r = rng.fork(f"u{i}")
        did = r.choice(["g", "x", "b"])
        start, ops = gen.gen_history(r, eng.dicts[did], maxops=5, depth=2)
        ops = [o for o in ops if not (o[0] == "ADDNAME" and eng.dicts[did] and not any(d["name"] == o[1] for d in eng.dicts[did].defs))]
        pos = r.range(0, len(ops))
        bad = ("ADDNAME", r.choice([b"Does-Not-Exist", b"", b"session-id", b"Session-Id ", b" Session-Id", b"T-u32x", r.bytes(4).hex().encode(),
                                    b"N" * 63 + "\u00e9".encode(), b"N" * 62 + "\u20ac".encode() + b"x", b"M" * 31 + "\u00e9".encode() + b"tail", b"L" * 200,
                                    "\u00e9".encode() * 40, b"Multiple-Services-Credit-Control-Extension"]),
               ("L", gen.gen_leaf(r)) if r.chance(2, 3) else ("GN", []))
        cases.append(hist_line(did, start, ops[:pos] + [bad] + ops[pos:]))
        expect.append(("unknown", hist_line(did, start, ops), pos, did))
        if i % 3 == 0:
            # the same unknown name asked for AGAIN (right away / after the next good call), after a by-name call that succeeded
            live = [d for d in eng.dicts[did].live() if eng.dicts[did].name_unique(d["name"]) and d["ty"] not in ("grp", "unk")]
            if live:
                d = r.choice(live)
                good = ("ADDNAME", d["name"], ("L", SAMPLE_LEAF[d["ty"]]))
                gap = ops[pos:pos + (i // 3) % 2]
                cases.append(hist_line(did, start, ops[:pos] + [good, bad, bad] + gap + [bad] + ops[pos + len(gap):]))
                expect.append(("unknown3", hist_line(did, start, ops[:pos] + [good] + gap + ops[pos + len(gap):]), (pos + 1, pos + 2, pos + 3 + len(gap)), did))
    impl, model = eng.run(cases, shards=1)
    ref_lines, ref_idx = [], []
    for i, ex in enumerate(expect):
        if ex[0] == "ctl":
            continue
        if ex[0] == "byname":
            ds, v, did = ex[1], ex[2], ex[3]
            for d in ds:
                ref_lines.append(hist_line(did, starts.get(i, ("NEW", 272, 4, 0x80, 1, 2)), [("ADDAVP", d["code"], d["vendor"], 0x40 if d["m"] else 0, v)]))
                ref_idx.append(i)
        else:
            ref_lines.append(ex[1])
            ref_idx.append(i)
    ref_out = core.run_sharded([eng.harness, "codec"], eng.prelude, ref_lines, shards=1)
    refs = {}
    for i, o in zip(ref_idx, ref_out):
        refs.setdefault(i, []).append(o)
    for i, (c, ex, im, mo) in enumerate(zip(cases, expect, impl, model)):
        mobs, _ = split_obs(mo)
        chk.case(c, True)
        chk.validated += 1
        chk.count("kind:" + ex[0] + ":" + ex[-1][:1])
        ok = True
        if im.startswith("PANIC") or im.startswith("CRASH"):
            chk.violation("crash: " + short(im, 200), dict(case=c, impl=short(im)))
            continue
        if ex[0] == "ctl":
            if im.startswith("OK same-address"):
                chk.count("dictionary-recreated-at-same-address")
                im = "OK"
            if im != "OK":
                chk.violation("a dictionary could not be created / dropped: " + short(im, 200), dict(case=c, impl=short(im)))
            continue
        if ex[0] == "byname":
            # must equal the explicit-number construction from one of the live definitions carrying that name
            if im not in refs[i]:
                ok = False
                chk.violation("the AVP built from a dictionary name differs (code, vendor id, V bit, M flag or encoding) from the same AVP built from the "
                              "numbers the dictionary declares for that name", dict(case=c, impl=short(im, 2000), explicit=[short(x, 2000) for x in refs[i]][:3]))
            else:
                a = parse_result(im)["msg"]["avps"][0]
                enc = bytes.fromhex(im[im.rindex(" ENC ") + 6:])
                vbit = bool(enc[24] & 0x80)
                if vbit != (a["vendor"] != "-"):
                    ok = False
                    chk.violation("V bit of the encoding does not match the presence of a vendor id", dict(case=c, impl=short(im, 2000)))
        elif ex[0] == "inhistory":
            if im != refs[i][0]:
                ok = False
                chk.violation("a history with one AVP added by name differs (AVP order, code, vendor id, flags, reported length or encoding) from the same history "
                              "with that AVP added by the numbers the dictionary declares for the name", dict(case=c, impl=short(im, 2000), explicit=short(refs[i][0], 2000)))
        else:
            _, ref_line, pos, did = ex
            ref = refs[i][0]
            if not (im.startswith("R ok ") and ref.startswith("R ok ")):
                if im.split()[:2] != ref.split()[:2]:
                    chk.corr_break("start outcome differs between a history and the same history with a failing call", dict(case=c, impl=short(im), ref=short(ref)))
                continue
            st = im.split()[2]
            rst = ref.split()[2]
            rst = "" if rst == "-" else rst
            if ex[0] == "unknown3":
                want_st = rst
                for q in pos:
                    want_st = want_st[:q] + "0" + want_st[q:]
            else:
                want_st = rst[:pos] + "0" + rst[pos:]
            rest_i = im.split(" ", 3)[3]
            rest_r = ref.split(" ", 3)[3]
            if st != want_st:
                ok = False
                chk.violation("add_avp_by_name with a name the dictionary does not contain did not fail (or disturbed the result of another call)",
                              dict(case=c, impl=short(im, 2000), statuses=st, expected=want_st))
            elif rest_i != rest_r:
                ok = False
                chk.violation("a failed add_avp_by_name changed the message (AVP list, reported length or encoding)",
                              dict(case=c, impl=short(im, 2000), without_the_failed_call=short(ref, 2000)))
        ambiguous = ex[0] == "byname" and len(ex[1]) > 1      # several live carriers of the name: which one is open (checked above)
        if ambiguous:
            chk.count("name:ambiguous")
        if ok and im != mobs and not ambiguous:
            chk.corr_break("observation differs from the model", dict(case=c, impl=short(im, 2000), model=short(mobs, 2000)))
        if i % max(1, len(cases) // 6) == 0:
            chk.sample(dict(case=c, impl=short(im, 160), P=ok))
    # sixteen million names nobody declares, asked of a dictionary holding the built-in and the 3GPP documents (about 500 names):
    # every one is refused - a name is compared as a name (an index that compares 32-bit digests only meets a collision among these
    # with probability 0.84, one that compares 16 bits always)
    both = dict_line("both", [load_toks(xml) for _, xml in shipped_dicts()])
    im = core.run_sharded([eng.harness, "codec"], eng.prelude + [both], ["UNKNAMES both 16"], shards=1, timeout=900)[0]
    chk.case("UNKNAMES both 16", True)
    chk.validated += 1
    chk.count("millions-of-undeclared-names")
    if not im.startswith("UNKNAMES tried=16000000 accepted=0"):
        chk.violation("a name no dictionary declares was accepted by Avp::from_name: " + short(im, 200), dict(case="UNKNAMES both 16", prelude_extra=short(both, 200), impl=short(im, 300)))
    # a fresh dictionary shared by eight threads whose first by-name lookups overlap (300 dictionaries, one after the other)
    im = core.run_sharded([eng.harness, "codec"], eng.prelude, ["NAMERACE 300"], shards=1, timeout=600)[0]
    chk.case("NAMERACE 300", True)
    chk.validated += 1
    chk.count("by-name-from-several-threads-at-once")
    if not im.startswith("NAMERACE rounds=300 failures=0"):
        chk.violation("declared names were not found when several threads built AVPs by name from a freshly created dictionary at the same moment: " + short(im, 200),
                      dict(case="NAMERACE 300", impl=short(im, 300)))
    # by-name additions that carry a message past what a Message Length field can hold (16 MiB): a declared name is found and its AVP
    # appended like any other (whether the message can be ENCODED is C05's business), an unknown name fails and changes nothing
    for (n, size) in ((2, 16), (2, 9 << 20), (20, 1 << 20)):
        im = core.run_sharded([eng.harness, "codec"], eng.prelude, [f"GBIGN {n} {hx(size)}"], shards=1, timeout=300)[0]
        chk.case(f"GBIGN {n} {size}", True)
        chk.validated += 1
        chk.count("by-name-past-16MiB" if n * size > (1 << 24) else "by-name-small")
        padded = (8 + size + 3) // 4 * 4
        want = f"GBIGN ok={n} unknown_failed=1 count={n} length={20 + n * padded}"
        if im != want:
            chk.violation("building AVPs by a declared name failed (or an unknown name did not fail, or the message does not hold exactly what was added) once the "
                          "message had grown large", dict(case=f"GBIGN {n} {hx(size)}", impl=short(im, 300), expected=want))
    chk.rule = ("exhaustive over every name of the built-in, 3GPP and two generated dictionaries: built by name vs built from the explicit numbers of a live "
                "definition with that name (observation incl. encoding must be identical); names whose key was re-declared under another name (no longer live) "
                "must be refused; dictionaries dropped and re-created (same address) declaring a just-used name differently or not at all; plus generated histories with one unknown-name call inserted at a "
                "random position, compared with the same history without it")
