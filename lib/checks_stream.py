"""Checks for C06-C09: stream framing and the per-connection server loop on scripted streams."""
import core
from core import Rng, log
from proto import *
import gen
import engine_codec
from checks_codec import short, regress_cases, split_obs, msg_text


def small_messages(rng, eng, n, maxlen=72):
    """(history line, frame octets, message observation) of short in-domain messages"""
    cases = []
    g = eng.dicts["g"]
    # every command the library knows, as a request and as an answer, with the application it usually comes with
    for j, cmd in enumerate(gen.CMDS):
        for fl in (0x80, 0, 0xc0):
            cases.append(hist_line("g", ("NEW", cmd, gen.APPS[j % len(gen.APPS)], fl, 0x100 + j, 0x200 + j), []))
    for i in range(n * 3):
        r = rng.fork(f"sm{i}")
        ops = []
        for _ in range(r.choice([0, 1, 1, 2])):
            k = r.choice(["u32", "utf", "oct", "en", "u64", "id"])
            d = [x for x in g.live() if x["ty"] == KIND_TY[k] and x["vendor"] is None][0]
            leaf = gen.gen_leaf(r, k)
            if k in ("utf", "oct", "id"):
                leaf = (k, leaf[1][: r.choice([0, 1, 3, 5, 8])]) if k != "utf" and k != "id" else (k, gen.gen_utf8(r, r.choice([0, 1, 3, 5, 8])))
            ops.append(("ADDAVP", d["code"], None, r.choice([0, 0x40]), ("L", leaf)))
        start = ("NEW", r.choice(gen.CMDS), r.choice(gen.APPS), r.choice([0, 0x80]), r.below(1 << 32), r.below(1 << 32))
        cases.append(hist_line("g", start, ops))
    impl = core.run_sharded([eng.harness, "codec"], eng.prelude, cases)
    out = []
    for c, im in zip(cases, impl):
        if im.startswith("R ok") and " ENC x" in im:
            fr = bytes.fromhex(im[im.rindex(" ENC ") + 6:].split()[0])
            if len(fr) <= maxlen:
                out.append((c, fr, msg_text(im)))
        if len(out) >= n + 36:
            break
    if len(out) < min(n, 20):
        bad = [im for im in impl if not (im.startswith("R ok") and " ENC x" in im)]
        raise core.MachineryError("the implementation could not build and encode the small messages the stream checks are made of: " + (bad[0][:300] if bad else "?"))
    return out


def rs(chunks, tail="e"):
    """read script tokens from a list of chunk octet strings / 'p' markers"""
    toks = []
    for c in chunks:
        toks.append(c if isinstance(c, str) else "c:" + bytes(c).hex())
    if tail:
        toks.append(tail)
    return f"{len(toks)} " + " ".join(toks)


def ws(items):
    toks = []
    for x in items:
        toks.append(x if isinstance(x, str) else "a:%x" % x)
    return f"{len(toks)}" + "".join(" " + t for t in toks)


def random_chunking(r, s, pend=True):
    out, i = [], 0
    while i < len(s):
        n = r.choice([1, 1, 2, 3, 4, 5, 7, 8, 16, 19, 20, 21, 64])
        out.append(s[i:i + n])
        i += n
        if pend and r.chance(1, 3):
            out.extend(["p"] * r.choice([1, 1, 2, 3]))
        elif pend and r.chance(1, 6):
            # a pause measured in (virtual) time: "not ready yet" for a while
            out.append("t:%x" % r.choice([1, 999, 1000, 2000, 29000, 30000, 30001, 31000, 59000, 60000, 120000, 3600000]))
    return out


def check_C06(chk, tier, seed):
    rng = Rng(seed).fork("C06")
    eng = engine_codec.setup(chk, rng)
    msgs = small_messages(rng, eng, 40 if tier == "quick" else 300)
    cases, expect = [], []

    def add_read(frames_i, chunks, tail="e", extra=b""):
        stream = b"".join(msgs[i][1] for i in frames_i) + extra
        want, cum = [], 0
        for i in frames_i:
            cum += len(msgs[i][1])
            want.append(f"[OK {msgs[i][2]} @{cum}]")
        want.append(f"[{'EOF' if tail == 'e' else 'ERR'} @{len(stream)}]")
        cases.append(f"SD g {len(frames_i) + 1} {rs(chunks, tail)}")
        expect.append(("read", "SD " + " ".join(want)))

    # (a) every pair of cut positions, exhaustively, for short streams
    nexh = 2 if tier == "quick" else 12
    for k in range(nexh):
        r = rng.fork(f"ex{k}")
        fi = [r.below(len(msgs)) for _ in range(r.choice([1, 2, 2, 3]))]
        while sum(len(msgs[i][1]) for i in fi) > 96 and len(fi) > 1:
            fi.pop()
        s = b"".join(msgs[i][1] for i in fi)
        for i in range(0, len(s) + 1):
            for j in range(i, len(s) + 1):
                add_read(fi, [c for c in (s[:i], s[i:j], s[j:]) if c])
    # (b) dribble, (c) random chunkings with Pending, trailing partial frame, error cut
    nrand = 600 if tier == "quick" else 60000
    for k in range(nrand):
        r = rng.fork(f"rd{k}")
        fi = [r.below(len(msgs)) for _ in range(r.choice([1, 2, 3, 4]))]
        s = b"".join(msgs[i][1] for i in fi)
        mode = r.below(6)
        if mode == 0:
            add_read(fi, [s[i:i + 1] for i in range(len(s))])
        elif mode == 1:
            ch = []
            for i in range(len(s)):
                ch += [s[i:i + 1], "p"]
            add_read(fi, ch)
        elif mode == 2:
            extra = msgs[r.below(len(msgs))][1]
            extra = extra[: r.range(1, len(extra) - 1)]
            add_read(fi, random_chunking(r, s + extra), extra=extra)
        elif mode == 3:
            add_read(fi, random_chunking(r, s), tail="x")
        else:
            add_read(fi, random_chunking(r, s))
    # (e) frames that are refused for their CONTENT (a command code / application id the library has no name for - S6a ULR 316 /
    # 16777251 -, an AVP the dictionary does not define, an AVP length below the AVP header) between good frames, read by a caller
    # that goes on after the error: the refused frame is consumed whole (its announced length), the frames behind it are yielded
    for k in range(60 if tier == "quick" else 3000):
        r = rng.fork(f"bad{k}")
        fi = [r.below(len(msgs)) for _ in range(r.choice([2, 3, 4]))]
        pos = r.below(len(fi))
        frames = [msgs[i][1] for i in fi]
        withavp = [m for m in msgs if len(m[1]) > 28]
        b = bytearray(frames[pos])
        kind = k % 5
        vers = None
        if kind == 4:
            # the first octet (Version) is not 1: the reader frames by the length, the decoder has never looked at the version - yielded
            vers = [0, 2, 3, 0xff][(k // 5) % 4]
            b[0] = vers
        elif kind == 0:
            b[5:8] = gen.be(316, 3)
        elif kind == 1:
            b[8:12] = gen.be(16777251, 4)
        elif kind == 2 and withavp:
            b = bytearray(withavp[r.below(len(withavp))][1])
            b[20:24] = gen.be(0xfffff0, 4)
        elif withavp:
            b = bytearray(withavp[r.below(len(withavp))][1])
            b[25:28] = gen.be(3, 3)
        frames[pos] = bytes(b)
        stream = b"".join(frames)
        want, cum = [], 0
        for j, i in enumerate(fi):
            cum += len(frames[j])
            if j == pos and vers is not None:
                want.append(f"[OK M {hx(vers)} " + msgs[i][2].split(" ", 2)[2] + f" @{cum}]")
            else:
                want.append(f"[ERR @{cum}]" if j == pos else f"[OK {msgs[i][2]} @{cum}]")
        want.append(f"[EOF @{len(stream)}]")
        chunks = [[stream], [stream[i:i + 1] for i in range(len(stream))], random_chunking(r, stream)][(k // 4) % 3]
        cases.append(f"SD g {len(fi) + 1} {rs(chunks, 'e')}")
        expect.append(("read-refused-content", "SD " + " ".join(want)))
    # (f) two streams read side by side by two futures of one thread, each not ready now and then in the middle of its frames: each
    # yields its own messages - whatever a reader keeps while it waits belongs to its stream
    for k in range(60 if tier == "quick" else 3000):
        r = rng.fork(f"two{k}")
        parts, wants = [], []
        for _ in range(2):
            fi = [r.below(len(msgs)) for _ in range(r.choice([1, 2, 3]))]
            s2 = b"".join(msgs[i][1] for i in fi)
            ch = []
            for i in range(0, len(s2), 5):
                ch += [s2[i:i + 5], "p"]
            if k % 3 == 0:
                ch = random_chunking(r, s2)
            want, cum = [], 0
            for i in fi:
                cum += len(msgs[i][1])
                want.append(f"[OK {msgs[i][2]} @{cum}]")
            want.append(f"[EOF @{len(s2)}]")
            parts.append(f"{len(fi) + 1} {rs(ch, 'e')}")
            wants.append("SD " + " ".join(want))
        cases.append(f"SD2 g {parts[0]} {parts[1]}")
        expect.append(("read-two-streams", wants[0] + " || " + wants[1]))
    # (d) deviation-bounded Pending placement: one / two Pending entries at every position of a dribble
    r = rng.fork("dev")
    fi = [r.below(len(msgs)) for _ in range(2)]
    s = b"".join(msgs[i][1] for i in fi)
    base = [s[i:i + 1] for i in range(len(s))]
    for i in range(len(base) + 1):
        add_read(fi, base[:i] + ["p"] + base[i:])
    step = 1 if tier == "thorough" else 5
    for i in range(0, len(base) + 1, step):
        for j in range(i, len(base) + 1, step):
            add_read(fi, base[:i] + ["p"] + base[i:j] + ["p", "p"] + base[j:])
    # write side
    for k in range(300 if tier == "quick" else 20000):
        r = rng.fork(f"wr{k}")
        c, fr, _ = msgs[r.below(len(msgs))]
        mode = r.below(4)
        if mode == 0:
            script = [1] * len(fr)
        elif mode == 1:
            script = []
            for _ in range(len(fr)):
                script += ["p", 1]
        elif mode == 2:
            script = []
            left = len(fr)
            while left > 0:
                n = r.choice([1, 2, 3, 5, 8, 20, 1000])
                script.append(n)
                left -= min(n, left)
                if r.chance(1, 3):
                    script.append("p")
        else:
            script = []
        cases.append(f"SE {c[2:]} {ws(script)}")
        expect.append(("write", "SE ok " + xb(fr)))
        if k % 3 == 0:
            # the same through a writer that says it gathers (is_write_vectored, as a TcpStream does) and takes 1 ... 19 / 20 / 21
            # octets of whatever it is offered first, then the rest in its own portions
            first = [1, 2, 3, 4, 7, 8, 12, 19, 20, 21, 5][(k // 3) % 11]
            cases.append(f"SE {c[2:]} {ws(['v', first] + [x for x in script if x != 'p'][:40] + [1 << 20])}")
            expect.append(("write-gathering-writer", "SE ok " + xb(fr)))
        if k % 7 == 3:
            # a peer that stops reading for a while (6 s, a minute, an hour of virtual time) in the middle of the frame and then goes
            # on: the write waits - it neither gives up nor reports success for a prefix
            pause = ["t:1770", "t:ea60", "t:36ee80"][(k // 7) % 3]
            cut = max(1, len(fr) // 3)
            cases.append(f"SE {c[2:]} {ws([cut, pause, 7, pause, 1 << 20])}")
            expect.append(("write-slow-peer", "SE ok " + xb(fr)))
        # every now and then an encode that fails in between - a message the wire cannot carry (nothing may be written), a
        # writer that breaks in mid-frame (a prefix is written) - on the same thread: the next message must go out clean
        if k % 9 == 0:
            cases.append(f"SE g NEW 110 4 0 1 2 2 ADDAVP 3f3 - 0 L oct x0102030405 ADDAVP 3f4 - 0 L time 83aa7e80 {ws([])}")
            expect.append(("write-refused", "SE err x"))
        if k % 9 == 4:
            cut = 1 + r.below(max(1, len(fr) - 1))
            cases.append(f"SE {c[2:]} {ws([f'b:{cut:x}', 'x'])}")
            expect.append(("write-fault", "SE err " + xb(fr[:cut])))
            # a writer that takes a part, reports one transient Interrupted (EINTR) and would take everything from then on: the encode
            # has failed (tokio's write_all does not retry) and says so - and nothing of the frame is on the stream twice
            cases.append(f"SE {c[2:]} {ws([f'b:{cut:x}', 'i', 1 << 20])}")
            expect.append(("write-fault-interrupted", "SE err " + xb(fr[:cut]), "SE ok " + xb(fr)))      # (resuming where it stopped would be correct too)
    # messages carrying AVPs their dictionary does not define (the builder does not consult it; a relay forwards such AVPs): what is
    # written is the message's encoding, whether or not anybody could decode it again
    for j, (code, vend) in enumerate([(0xfffffe, None), (0xfffffe, 10415), (59999, None), (264, 77)]):
        for script in ([], [1] * 60, [7, "p"] * 12):
            cases.append(f"SE g NEW 110 4 80 {hx(j + 1)} 2 2 ADDAVP {hx(code)} {opt(vend)} 40 L oct x0102030405 ADDAVP 3f3 - 0 L oct x0a0b {ws(script)}")
            h = 12 if vend is not None else 8
            avp = gen.be(code, 4) + bytes([0x40 | (0x80 if vend is not None else 0)]) + gen.be(h + 5, 3) + (gen.be(vend, 4) if vend is not None else b"") + b"\1\2\3\4\5\0\0\0"
            avp2 = gen.be(1011, 4) + b"\0" + gen.be(10, 3) + b"\x0a\x0b\0\0"
            fr2 = bytes([1]) + gen.be(20 + len(avp) + len(avp2), 3) + bytes([0x80]) + gen.be(272, 3) + gen.be(4, 4) + gen.be(j + 1, 4) + gen.be(2, 4) + avp + avp2
            expect.append(("write-undefined-avp", "SE ok " + xb(fr2)))
    # large messages and frames: sizes that are not a multiple of any buffer size a codec might use (4096, 8192, 16384,
    # 65536), written through writers of various appetites, and read back pipelined with small frames with the seam between
    # two frames falling inside one delivery
    big_lines = [f"H g NEW 110 4 0 {hx(7 + j)} 2 1 ADDAVP 3f3 - 0 L octz {hx(n)}" for j, n in enumerate([4100, 5000, 9001, 16385, 21000, 1048548] + ([70000, 300001, 1048544] if tier == "thorough" else []))]      # 1048548: a frame of exactly 1 MiB, the largest the reader accepts
    big = []
    for c, im in zip(big_lines, core.run_sharded([eng.harness, "codec"], eng.prelude, big_lines, shards=1)):
        if " ENC2DIFF " in im:
            chk.violation("what is written for a message depends on the writer / on Codec::encode vs encode_to / on having been encoded before: " + short(im[im.index(" ENC2DIFF "):], 120),
                          dict(case=c, impl=short(im, 400)))
            im = im[:im.index(" ENC2DIFF ")]
        if im.startswith("R ok") and " ENC x" in im:
            big.append((c, bytes.fromhex(im[im.rindex(" ENC ") + 6:].split()[0]), msg_text(im)))
        else:
            chk.violation("a message of a few KiB ... 1 MiB could not be built and encoded (by encode_to and Codec::encode alike): " + short(im, 200), dict(case=c, impl=short(im, 400)))
    for (c, fr, obs) in big:
        scripts = ([], [4096] * (len(fr) // 4096 + 1), [1000, "p"] * (len(fr) // 1000 + 1), [16384] * (len(fr) // 16384 + 1), [len(fr) - 1, 1])
        for script in (scripts if len(fr) < 400000 else scripts[3:]):        # (the model's octet lists make a 1 MiB frame cost seconds per case)
            cases.append(f"SE {c[2:]} {ws(script)}")
            expect.append(("write-large", "SE ok " + xb(fr)))
        small = msgs[len(fr) % len(msgs)]
        stream = small[1] + fr + small[1] + small[1]
        a = len(small[1]) + len(fr)
        want = (f"SD [OK {small[2]} @{len(small[1])}] [OK {obs} @{a}] [OK {small[2]} @{a + len(small[1])}] [OK {small[2]} @{len(stream)}] [EOF @{len(stream)}]")
        allcuts = ([a - 7, a + 9], [a - 1, a + 1], [len(small[1]) + 3, a - 4000, a + 3], [4096, 8192, a + len(small[1]) + 2], [a + 2 * len(small[1]) - 1])
        for cuts in (allcuts if len(fr) < 400000 else allcuts[:2]):
            cuts = sorted(x for x in set(cuts) if 0 < x < len(stream))
            chunks = [stream[i:j] for i, j in zip([0] + cuts, cuts + [len(stream)])]
            cases.append(f"SD g 5 {rs(chunks, 'e')}")
            expect.append(("read-large", want))
    # two streams written by two futures of one thread: stream A takes a few octets and then nothing for an hour (virtual time), stream
    # B is ready - B's message is on B at once, A's arrives whole in the end (implementation only)
    e2cases, e2want = [], []
    for k in range(6):
        ma, mb = msgs[(3 * k) % len(msgs)], msgs[(3 * k + 1) % len(msgs)]
        script = [[5, "t:36ee80", 1 << 20], ["t:36ee80", 1 << 20], [1, "p", "t:ea60", 3, "t:ea60", 1 << 20]][k % 3]
        e2cases.append(f"SE2 {ma[0][2:]} {ws(script)} {mb[0][2:]}")
        e2want.append(f"SE2 A ok {xb(ma[1])} B ok {xb(mb[1])} B@0")
    for c, want, im in zip(e2cases, e2want, core.run_sharded([eng.harness, "codec"], eng.prelude, e2cases, shards=2, timeout=300)):
        chk.case(c, True)
        chk.validated += 1
        chk.count("write-two-streams")
        if im != want:
            chk.violation("two messages written to two streams side by side: the ready stream did not receive exactly its message at once while the other stream was stalled "
                          "(or the stalled one did not receive its message whole in the end)", dict(case=c, impl=short(im, 600), expected=short(want, 600)))
    # messages whose encoding is longer than the largest frame the READER accepts (1 MiB + 4, 1.5 MB, 4 MB): the writer has no such
    # limit - a message that encodes (below 16 MiB) is written, every octet (implementation only: no model run for megabytes)
    huge_lines = [f"H g NEW 110 4 0 {hx(0x70 + j)} 2 1 ADDAVP 3f3 - 0 L octz {hx(n)}" for j, n in enumerate([1048552, 1500000] + ([4000000] if tier == "thorough" else []))]
    huge_enc = core.run_sharded([eng.harness, "codec"], eng.prelude, huge_lines, shards=1, timeout=600)
    hcases, hwant = [], []
    for c, im in zip(huge_lines, huge_enc):
        if im.startswith("R ok") and " ENC x" in im:
            fr = im[im.rindex(" ENC ") + 5:].split()[0]
            for script in ([], [65536] * 40 + [1 << 24], [100000, "p"] * 12 + [1 << 24]):
                hcases.append(f"SE {c[2:]} {ws(script)}")
                hwant.append("SE ok " + fr)
        else:
            chk.violation("a message of 1 ... 4 MB could not be built and encoded: " + short(im, 200), dict(case=c, impl=short(im, 400)))
    for c, want, im in zip(hcases, hwant, core.run_sharded([eng.harness, "codec"], eng.prelude, hcases, shards=3, timeout=900)):
        chk.case(core.sha(c), True)
        chk.validated += 1
        chk.count("write-above-1MiB")
        if im != want:
            chk.violation("writing a message whose encoding is longer than 1 MiB (below 16 MiB) to a stream did not put exactly its encoding on the stream",
                          dict(case=short(c, 300), impl=short(im, 300), expected=short(want, 300)))
    impl, model = eng.run(cases)
    for i, (c, ex, im, mo) in enumerate(zip(cases, expect, impl, model)):
        chk.case(c, " p" in c or c.count("c:") >= 2 or c.count("a:") >= 2)
        chk.validated += 1
        chk.count(ex[0])
        ok = im == ex[1] or (len(ex) > 2 and im == ex[2])
        if not ok:
            if ex[0].startswith("read"):
                chk.violation("reading concatenated frames from a segmented stream did not yield exactly those messages with exactly their octets consumed per call"
                              + (" (the reader never completed)" if "HANG" in im else ""),
                              dict(case=c, impl=short(im, 3000), expected=short(ex[1], 3000)))
            else:
                chk.violation("writing a message to a stream that accepts octets in partial amounts did not put exactly its encoding on the stream",
                              dict(case=c, impl=short(im, 3000), expected=short(ex[1], 3000)))
        elif im != mo:
            chk.corr_break("observation differs from the model", dict(case=c, impl=short(im, 2000), model=short(mo, 2000)))
        if i % max(1, len(cases) // 6) == 0:
            chk.sample(dict(case=c, impl=short(im, 200), P=ok))
    chk.rule = (f"{nexh} short streams (1-3 frames, <= 96 octets): every pair of cut positions exhaustively; {nrand} random streams of 1-4 frames: one-octet dribble, "
                "dribble with Pending after every octet, random chunkings with Pending runs, trailing partial frame, error instead of EOF; one/two Pending entries at "
                "every position of a dribbled 2-frame stream; octets consumed after each call compared; write side: one-octet accepts, Pending before every accept, "
                "random accept sizes, failing encodes (unrepresentable message, writer breaking in mid-frame) interleaved on the same thread; messages of 4100 ... 21000 "
                "octets (thorough: 300 KB) through writers taking 1000 / 4096 / 16384 octets per call, and read back pipelined between small frames with the seam between "
                "frames inside one delivery; non-trivial = at least two chunks or a Pending")
    chk.assumptions = ["tokio read_exact / write_all are exercised through their real implementation on scripted AsyncRead/AsyncWrite, and modelled by their documented contract (partial)"]


def announced_lengths(rng, tier):
    ls = set(range(0, 65)) | set(range((1 << 20) - 16, (1 << 20) + 17)) | set(range((1 << 24) - 16, 1 << 24)) | {1 << k for k in range(0, 24)}
    # every length up to 1100 (tier quick: every one up to 300, then every third) and the neighbourhood of every power of two: the
    # seams of any small-frame fast path, stack buffer or size class a reader might have
    ls |= set(range(65, 1101)) if tier != "quick" else (set(range(65, 301)) | set(range(301, 1101, 3)))
    for k in range(8, 24):
        ls |= {(1 << k) + d for d in range(-5, 6)}
    r = rng.fork("L")
    for _ in range(40 if tier == "quick" else 4000):
        ls.add(r.below(1 << 24))
    return sorted(ls)


def check_C07(chk, tier, seed):
    rng = Rng(seed).fork("C07")
    eng = engine_codec.setup(chk, rng)
    cases, meta = [], []
    for L in announced_lengths(rng, tier):
        r = rng.fork(f"l{L}")
        b0 = r.choice([1, 1, 0, 0xff])
        prefix = bytes([b0]) + gen.be(L, 3)
        conts = [("none", b"")]
        body = max(0, L - 4)
        if body > 0:
            few = min(body - 1, 4096) if body > 1 else 0
            conts.append(("fewer", r.bytes(few)))
        if body <= 8192 or L in (1 << 20, (1 << 20) - 1):
            conts.append(("exact", r.bytes(body)))
            conts.append(("more", r.bytes(body) + r.bytes(r.choice([1, 4, 40]))))
        else:
            conts.append(("some", r.bytes(4096)))
        for kind, cont in conts:
            for chunked in (False, True):
                data = prefix + cont
                chunks = [data] if not chunked else random_chunking(r, data[:64]) + ([data[64:]] if len(data) > 64 else [])
                cases.append(f"SD g 1 {rs(chunks)}")
                meta.append((L, kind, len(cont)))
    # announced lengths 0 ... 3 under every first octet worth trying (0 - a NUL word -, 1, 2, 0xff) followed by more data, by a valid
    # frame, by nothing: refused after four octets - there is no such thing as padding between frames
    good92 = bytes([1]) + gen.be(92, 3) + rng.fork("nul").bytes(88)
    for b0 in (0, 1, 2, 0xff):
        for L in (0, 1, 2, 3):
            for tailname, tailb in (("none", b""), ("more", b"\0\0\0\0" * 3), ("more", good92), ("more", b"\0\0"), ("more", b"\x01")):
                data = bytes([b0]) + gen.be(L, 3) + tailb
                cases.append(f"SD g 1 {rs([data])}")
                meta.append((L, tailname, len(tailb)))
                if tailb:
                    cases.append(f"SD g 1 {rs([data[:4], 'p', data[4:]])}")
                    meta.append((L, tailname, len(tailb)))
    # legal lengths whose body arrives slowly: in two pieces with a pause of 1 ms ... 30 s (virtual time) after the prefix and again in
    # the middle, one octet per read, two octets per read (hundreds of reads for one frame) - how a body arrives is no reason to fail
    for L in (24, 92, 260, 1000, 4100):
        r = rng.fork(f"slow{L}")
        prefix = bytes([1]) + gen.be(L, 3)
        cont = r.bytes(L - 4)
        half = len(cont) // 2
        for pause in (1, 0x64, 0x190, 0x3e7, 0x3e8, 0x7530):
            cases.append(f"SD g 1 {rs([prefix, 't:%x' % pause, cont[:half], 't:%x' % pause, cont[half:]])}")
            meta.append((L, "exact", len(cont)))
            cases.append(f"SD g 1 {rs([prefix, cont[:5], 't:%x' % pause, cont[5:half], cont[half:half + 3], 't:%x' % pause, cont[half + 3:]])}")
            meta.append((L, "exact", len(cont)))
            cases.append(f"SD g 1 {rs([prefix + cont[:1], 't:%x' % pause, cont[1:]])}")
            meta.append((L, "exact", len(cont)))
        if L in (92, 1000):
            # ... and pauses in wall-clock time (150 ms, 300 ms), for whatever measures with the system clock
            for pause in (0x96, 0x12c):
                cases.append(f"SD g 1 {rs([prefix, cont[:half], 'r:%x' % pause, cont[half:]])}")
                meta.append((L, "exact", len(cont)))
                cases.append(f"SD g 1 {rs([prefix, cont[:7], 'r:%x' % pause, cont[7:half], cont[half:half + 9], cont[half + 9:]])}")
                meta.append((L, "exact", len(cont)))
        if L <= 1000:
            data = prefix + cont
            for step in (1, 2, 3):
                cases.append(f"SD g 1 {rs([data[i:i + step] for i in range(0, len(data), step)])}")
                meta.append((L, "exact", len(cont)))
    # a read that is interrupted (ErrorKind::Interrupted) inside the length prefix or inside the body: whatever the reader does
    # about it - give up with the error, or try again - the bound on the octets taken stands, and a refused length stays refused
    for L in (0, 3, 19, 20, 24, 92, (1 << 20) + 1, (1 << 24) - 1, 4096):
        r = rng.fork(f"i{L}")
        prefix = bytes([1]) + gen.be(L, 3)
        cont = r.bytes(min(max(L - 4, 0), 1200) + 40)
        for cut in (1, 2, 3, 4, 5, 12, 20):
            data = prefix + cont
            if cut >= len(data):
                continue
            cases.append(f"SD g 1 {rs([data[:cut], 'i', data[cut:]])}")
            meta.append((L, "interrupted-read", len(cont)))
    # every fifth case once more on a runtime that has no time driver (`Builder::new_current_thread().enable_io()`): reading a frame
    # needs no clock
    extra = [(c.replace("SD g", "SDN g", 1), m) for c, m in list(zip(cases, meta))[::5] if " t:" not in c]
    cases += [c for c, _ in extra]
    meta += [(m[0], m[1] + "@no-time-driver" if m[1] != "interrupted-read" else m[1], m[2]) for _, m in extra]
    # ... and every seventh case once more while 40 other decodes of the same process sit in the middle of frames whose peers have
    # stopped sending: what happens to a frame depends on its own stream alone - the refusal of a hostile length comes at once
    extra = [(c.replace("SD g", "SDP g", 1), m) for c, m in list(zip(cases, meta))[::7] if c.startswith("SD g")]
    cases += [c for c, _ in extra]
    meta += [(m[0], m[1] + "@others-parked" if m[1] != "interrupted-read" else m[1], m[2]) for _, m in extra]
    # ... and every ninth case (no timed pauses) polled by hand, every poll on a fresh OS thread: a decode that is waiting for the
    # rest of a frame may be resumed by any thread of the program
    extra = [(c.replace("SD g", "SDX g", 1), m) for c, m in list(zip(cases, meta))[::9] if c.startswith("SD g") and " t:" not in c]
    cases += [c for c, _ in extra]
    meta += [(m[0], m[1] + "@thread-hopping" if m[1] != "interrupted-read" else m[1], m[2]) for _, m in extra]
    cases += [c for c in regress_cases("C07")]
    meta += [(None, "regress", 0)] * (len(cases) - len(meta))
    impl = core.run_sharded([eng.harness, "codec"], eng.prelude, cases, timeout=900)
    model = core.run_sharded([eng.runner], eng.prelude, cases, timeout=900, unlimited_stack=True)
    for i, (c, (L, kind, nc), im, mo) in enumerate(zip(cases, meta, impl, model)):
        chk.case(c if len(c) < 4000 else core.sha(c), True)
        chk.validated += 1
        chk.count("cont:" + kind)
        if L is not None:
            chk.count("L<20" if L < 20 else "L>1MiB" if L > (1 << 20) else "L ok")
        ok = True
        t = im.replace("[", "").replace("]", "").split()
        res = t[1] if len(t) > 1 else "?"
        if "PANIC" in im or im.startswith("CRASH") or "HANG" in im or len(t) < 3:
            ok = False
            chk.violation(f"the stream reader did not return an error for an announced length of {L}: " + short(im, 200),
                          dict(case=c, announced=L, impl=short(im, 600)))
        else:
            consumed = int(t[-1][1:])
            if L is not None:
                if L > (1 << 20) and not (res == "ERR" and (consumed == 4 or (kind == "interrupted-read" and consumed <= 4))):
                    ok = False
                    chk.violation(f"a frame announcing {L} octets (above the 1 MiB limit) was not refused after consuming only its 4-octet prefix (result {res}, {consumed} octets taken)",
                                  dict(case=c, announced=L, impl=short(im, 600)))
                elif L < 20 and res not in ("ERR", "EOF"):
                    ok = False
                    chk.violation(f"a frame announcing {L} octets (less than a Diameter header) was not refused with an error", dict(case=c, announced=L, impl=short(im, 600)))
                elif consumed > max(L, 4):
                    ok = False
                    chk.violation(f"{consumed} octets were taken from the stream for an announced length of {L}", dict(case=c, announced=L, impl=short(im, 600)))
        if ok and im != mo and kind != "interrupted-read":      # (giving up with the error or trying again are both fine: only the bounds above are demanded)
            chk.corr_break("observation differs from the model", dict(case=c, announced=L, impl=short(im, 1000), model=short(mo, 1000)))
        if i % max(1, len(cases) // 6) == 0:
            chk.sample(dict(case=c, announced=L, impl=short(im, 120), P=ok))
    if tier == "thorough":
        # the same cases with library and harness built in the release profile: no panic there either, and the same outcomes
        rel = core.build_harness("release")
        rimpl = core.run_sharded([rel, "codec"], eng.prelude, cases, timeout=900)
        chk.count("release-profile-cases", len(cases))
        for c, (L, kind, nc), a, b in zip(cases, meta, impl, rimpl):
            if a != b:
                chk.violation(f"the stream reader behaves differently in the release profile for an announced length of {L}: " + short(b, 200),
                              dict(case=c if len(c) < 4000 else core.sha(c), announced=L, release=short(b, 600), dev=short(a, 600)))
                break
    chk.exhaustive = True
    chk.rule = ("every announced length in 0..64, within 16 of 2^20 and of 2^24-1, every power of two, random lengths; each followed by no data, fewer octets than "
                "announced, exactly, more (lengths <= 8 KiB and 2^20-1, 2^20) or 4 KiB of data; whole-buffer and chunked delivery; octets taken from the reader counted")
    chk.assumptions = ["partial: tokio read_exact modelled by contract; buffer allocation observed only through the octets taken from the reader"]


def server_scenarios(rng, eng, msgs, n, tier):
    """yields (case line, expected line, kind)"""
    out = []
    for k in range(n):
        r = rng.fork(f"sv{k}")
        nreq = r.range(1, 8)
        reqs = [msgs[r.below(len(msgs))] for _ in range(nreq)]
        answers = [msgs[r.below(len(msgs))] for _ in range(nreq)]
        bad = r.choice([None, None, "frame", "handler", "enc"]) if True else None
        pos = r.below(nreq)
        frames = [q[1] for q in reqs]
        ans_tok = ["A " + a[0][2:] for a in answers]
        if bad == "frame":
            f = bytearray(frames[pos])
            kind = r.below(4)
            if kind == 0 and len(f) > 20:
                f[25:28] = gen.be(3, 3)                      # AVP length below its header
            elif kind == 1:
                f[5:8] = gen.be(999, 3)                      # unknown command code
            elif kind == 2 and len(f) > 20:
                f[20:24] = gen.be(0xdead, 4)                 # unknown AVP code
            else:
                f = bytearray(bytes([1]) + gen.be(r.choice([0, 3, 8, 19, (1 << 20) + 1]), 3))   # hostile announced length
            frames[pos] = bytes(f)
        elif bad == "handler":
            ans_tok[pos] = "F"
        elif bad == "enc":
            # an answer the wire cannot carry: Time in 2040
            ans_tok[pos] = "A g NEW 110 4 0 1 2 1 ADDAVP 3f4 - 0 L time 83aa7e80"
        stream = b"".join(frames)
        mode = r.below(5)
        if mode == 0:
            chunks = [stream]
        elif mode == 1:
            chunks = list(frames)
        elif mode == 2:
            chunks = [stream[i:i + 1] for i in range(len(stream))]
        else:
            chunks = random_chunking(r, stream)
        wmode = r.below(4)
        total_ans = sum(len(a[1]) for a in answers)
        if wmode == 0:
            wscript = []
        elif wmode == 1:
            wscript = [1] * total_ans
        else:
            wscript = []
            for _ in range(r.range(1, 30)):
                wscript.append(r.choice([1, 2, 3, 7, 20, 1000]) if r.chance(3, 4) else "p")
        if r.chance(1, 3):
            # handlers that are not ready at once: they yield, or take 1 ms ... an hour of (virtual) time
            ans_tok = [f"Z {hx(r.choice([0, 0, 1, 9000, 11000, 61000, 3601000]))} " + a for a in ans_tok]
        case = f"SV g {rs(chunks)} {ws(wscript)} {len(ans_tok)} " + " ".join(ans_tok)
        good = nreq if bad is None else pos
        calls = [f"[{q[2]}]" for q in reqs[:good]]
        written = b"".join(a[1] for a in answers[:good])
        if bad in ("handler", "enc"):
            calls.append(f"[{reqs[pos][2]}]")
        res = "closed" if bad is None else "failed"
        exp = f"SV {res} CALLS {len(calls)}" + "".join(" " + x for x in calls) + f" WRITTEN {xb(written)}"
        out.append((case, exp, bad or "good", nreq))
    # retransmissions and duplicates: the same request two or three times on one connection, with the T (potentially
    # re-transmitted) flag set on the copies, identical End-to-End / Hop-by-Hop ids - each one is a request: the handler
    # is called for each, in order, and each gets the handler's (possibly different) answer
    for k in range(40 if tier == "quick" else 2000):
        r = rng.fork(f"dup{k}")
        base = msgs[r.below(len(msgs))]
        fr = bytearray(base[1])
        copies = []
        for j in range(r.range(2, 4)):
            f2 = bytearray(fr)
            if j > 0 and r.chance(3, 4):
                f2[4] |= 0x10
            copies.append(bytes(f2))
        other = [msgs[r.below(len(msgs))] for _ in range(r.range(0, 2))]
        frames = copies[:1] + [o[1] for o in other] + copies[1:]
        answers = [msgs[r.below(len(msgs))] for _ in frames]
        stream = b"".join(frames)
        chunks = [stream] if r.chance(1, 2) else random_chunking(r, stream)
        case = f"SV g {rs(chunks)} {ws([])} {len(frames)} " + " ".join("A " + a[0][2:] for a in answers)
        out.append((case, ("ret", xb(b"".join(a[1] for a in answers))), "retransmission", len(frames)))
    # the same, with what a duplicate-detection scheme would key on (RFC 6733 5.5.4 / 3: Origin-Host + End-to-End Identifier):
    # requests of the built-in dictionary carrying Origin-Host, sent again with the T flag, the same End-to-End id and a fresh
    # or the same Hop-by-Hop id, on the same connection and on later ones (the harness process serves all cases) - the
    # connection loop has no business answering any of them itself: one handler call each, the handler's answer each
    hosts = [b"host.example.com", b"a.b", b"peer-%d.realm" % (rng.fork("oh").below(1000))]
    ohist = []
    for k in range(12 if tier == "quick" else 200):
        r = rng.fork(f"oh{k}")
        e2e = [0x7000 + k % 4, r.below(1 << 32)][k % 2]
        host = hosts[k % len(hosts)]
        cmd, app = [(0x110, 4), (0x101, 0), (0x118, 0)][k % 3]
        top = 0xfffffffe if k % 4 == 3 else None        # (every fourth group: Hop-by-Hop ids fffffffe, ffffffff, 0, 1 in that order)
        for j, (fl, hbh) in enumerate([(0x80, 0x5000 + k), (0x90, 0x5000 + k), (0x90, 0x6000 + k), (0xd0, 0x5000 + k)] if top is None else
                                      [(0x80, 0xfffffffe), (0x80, 0xffffffff), (0x80, 0), (0x80, 1)]):
            ops = [("ADDAVP", 264, None, 0x40, ("L", ("id", host))), ("ADDAVP", 296, None, 0x40, ("L", ("id", b"realm.example.com")))]
            if j >= 2:
                ops.append(("ADDAVP", 415, None, 0x40, ("L", ("u32", j))))
            if k % 2:
                # the AVPs a relay / proxy would look at (Session-Id, Proxy-Info with Proxy-Host and Proxy-State, Route-Record,
                # Destination-Host): to the connection loop they are payload - the answer written is the handler's, nothing added
                # (a Session-Id of 70-odd octets with multi-octet characters around octet 64: whoever abbreviates values for a log line cuts there)
                ops.append(("ADDAVP", 263, None, 0x40, ("L", ("utf", b"s" * (57 + k % 10) + "\u00e9\u20ac\U00010348\u00e9\u20ac".encode() + b";%d" % k))))
                ops.append(("ADDAVP", 284, None, 0x40, ("GN", [("E", 280, None, 0x40, ("L", ("id", b"proxy.example.com"))), ("E", 33, None, 0x40, ("L", ("oct", b"state%d" % k)))])))
                ops.append(("ADDAVP", 282, None, 0x40, ("L", ("id", b"relay.example.com"))))
                ops.append(("ADDAVP", 293, None, 0x40, ("L", ("id", b"dest.example.com"))))
            ohist.append(hist_line("b", ("NEW", cmd, app, fl, hbh, e2e), ops))
    oimpl = core.run_sharded([eng.harness, "codec"], eng.prelude, ohist)
    omsgs = [(c, bytes.fromhex(im[im.rindex(" ENC ") + 6:].split()[0]), msg_text(im)) for c, im in zip(ohist, oimpl) if im.startswith("R ok") and " ENC x" in im]
    if len(omsgs) != len(ohist):
        raise core.MachineryError("the implementation could not build the Origin-Host requests of the retransmission family")
    for k in range(len(omsgs) // 4):
        r = rng.fork(f"ohc{k}")
        grp = omsgs[4 * k:4 * k + 4]
        for variant in range(2):
            if variant == 0:
                frames = [grp[0][1]] + [omsgs[r.below(len(omsgs))][1] for _ in range(r.range(0, 2))] + [g[1] for g in grp[1:]]
            else:
                frames = [grp[r.range(1, 3)][1]]                 # alone on a later connection: the key was seen by an EARLIER connection
            answers = [msgs[r.below(len(msgs))] for _ in frames]
            stream = b"".join(frames)
            chunks = [stream] if r.chance(1, 2) else random_chunking(r, stream)
            case = f"SV b {rs(chunks)} {ws([])} {len(frames)} " + " ".join("A " + a[0][2:] for a in answers)
            out.append((case, ("ret", xb(b"".join(a[1] for a in answers))), "retransmission-origin-host", len(frames)))
    # a frame whose last AVP lacks its padding (Message Length 29, 30, 31: not a multiple of four) between good requests: malformed - the
    # connection ends there, in every build profile (the thorough tier repeats this on the release build)
    for k, n in enumerate((1, 2, 3, 5)):
        r = rng.fork(f"nopad{k}")
        reqs = [msgs[r.below(len(msgs))] for _ in range(3)]
        answers = [msgs[r.below(len(msgs))] for _ in range(3)]
        avp = gen.be(1011, 4) + b"\0" + gen.be(8 + n, 3) + b"x" * n
        bad = bytes([1]) + gen.be(20 + len(avp), 3) + bytes([0x80]) + gen.be(272, 3) + gen.be(4, 4) + gen.be(1, 4) + gen.be(2, 4) + avp
        stream = reqs[0][1] + bad + reqs[1][1] + reqs[2][1]
        case = f"SV g {rs([stream])} {ws([])} 3 " + " ".join("A " + a[0][2:] for a in answers)
        exp = f"SV failed CALLS 1 [{reqs[0][2]}] WRITTEN {xb(answers[0][1])}"
        out.append((case, exp, "frame-without-final-padding", 3))
    # retransmitted requests (T flag) whose handler answers with the request's flags minus R - T, P, E and their combinations kept: the
    # answer written is the handler's, flag octet included
    for k, afl in enumerate([0x10, 0x50, 0x30, 0x70, 0x20, 0x40, 0x60, 0x00]):
        grp = omsgs[4 * (k % (len(omsgs) // 4)):4 * (k % (len(omsgs) // 4)) + 4]
        ans_line = hist_line("b", ("NEW", 272, 4, afl, 0xa00 + k, 0xa01 + k), [("ADDAVP", 268, None, 0x40, ("L", ("u32", 2001 if not afl & 0x20 else 3002)))])
        aenc = core.run_sharded([eng.harness, "codec"], eng.prelude, [ans_line], shards=1)[0]
        if not (aenc.startswith("R ok") and " ENC x" in aenc):
            raise core.MachineryError("could not build an answer with flags %x" % afl)
        abytes = bytes.fromhex(aenc[aenc.rindex(" ENC ") + 6:].split()[0])
        case = f"SV b {rs([grp[1][1] + grp[0][1]])} {ws([])} 2 A {ans_line[2:]} A {ans_line[2:]}"
        exp = f"SV closed CALLS 2 [{grp[1][2]}] [{grp[0][2]}] WRITTEN {xb(abytes + abytes)}"
        out.append((case, exp, "answer-flags-kept", 2))
    # a peer that stops reading for 12 s / 31 s (virtual time) in the middle of an answer and then reads on: the write waits, the
    # answer goes out whole, the requests already received are handled
    for k, pause in enumerate(["t:2ee0", "t:7918"]):
        r = rng.fork(f"wpause{k}")
        reqs = [msgs[r.below(len(msgs))] for _ in range(3)]
        answers = [msgs[r.below(len(msgs))] for _ in range(3)]
        case = f"SV g {rs([b''.join(q[1] for q in reqs)])} {ws([5, pause, 3, pause, 1 << 20])} 3 " + " ".join("A " + a[0][2:] for a in answers)
        exp = "SV closed CALLS 3" + "".join(f" [{q[2]}]" for q in reqs) + f" WRITTEN {xb(b''.join(a[1] for a in answers))}"
        out.append((case, exp, "peer-stops-reading-for-a-while", 3))
    # answers that carry Origin-Host / Origin-Realm (as real answers do), then a long silence (31 s, 61 s, an hour of virtual time), then
    # the next request, then a silence before the peer closes: the connection loop writes answers - it does not speak on its own
    for k in range(6 if tier == "quick" else 60):
        r = rng.fork(f"idle{k}")
        grp = omsgs[4 * (k % (len(omsgs) // 4)):4 * (k % (len(omsgs) // 4)) + 4]
        ans_line = hist_line("b", ("NEW", 272, 4, 0, 0x900 + k, 0x901 + k), [("ADDAVP", 264, None, 0x40, ("L", ("id", b"server.example.com"))), ("ADDAVP", 296, None, 0x40, ("L", ("id", b"example.com"))),
                                                                          ("ADDAVP", 268, None, 0x40, ("L", ("u32", 2001)))])
        aenc = core.run_sharded([eng.harness, "codec"], eng.prelude, [ans_line], shards=1)[0]
        if not (aenc.startswith("R ok") and " ENC x" in aenc):
            raise core.MachineryError("could not build an answer with Origin-Host")
        abytes = bytes.fromhex(aenc[aenc.rindex(" ENC ") + 6:].split()[0])
        pause = ["t:7918", "t:ee48", "t:36ee80"][k % 3]
        chunks = [grp[0][1], pause, grp[2][1], pause]
        case = f"SV b {rs(chunks)} {ws([])} 2 A {ans_line[2:]} A {ans_line[2:]}"
        exp = f"SV closed CALLS 2 [{grp[0][2]}] [{grp[2][2]}] WRITTEN {xb(abytes + abytes)}"
        out.append((case, exp, "idle-after-identified-answer", 2))
    # every command the library knows as the first request of a pipeline (capabilities exchange, watchdog, disconnect-peer, ...):
    # whatever a command means to the application, the connection loop treats it like any other request - the two requests
    # behind it are handled and answered
    for k in range(min(36, len(msgs))):
        r = rng.fork(f"cmd{k}")
        reqs = [msgs[k]] + [msgs[r.below(len(msgs))] for _ in range(2)]
        answers = [msgs[(k + 5) % len(msgs)]] + [msgs[r.below(len(msgs))] for _ in range(2)]
        stream = b"".join(q[1] for q in reqs)
        case = f"SV g {rs([stream] if k % 2 else list(q[1] for q in reqs))} {ws([])} 3 " + " ".join("A " + a[0][2:] for a in answers)
        exp = "SV closed CALLS 3" + "".join(f" [{q[2]}]" for q in reqs) + f" WRITTEN {xb(b''.join(a[1] for a in answers))}"
        out.append((case, exp, "every-command", 3))
    # while the handler works on a request, part of the NEXT request arrives, the stream then has nothing for a moment, and the
    # rest arrives after the handler is done: no octet of it may be lost, whatever the server does while it waits for the handler
    for k in range(30 if tier == "quick" else 1500):
        r = rng.fork(f"slowpart{k}")
        reqs = [msgs[r.below(len(msgs))] for _ in range(3)]
        answers = [msgs[r.below(len(msgs))] for _ in range(3)]
        f2 = reqs[1][1]
        cut = [1, 3, 4, 5, 19, 20, 21, len(f2) - 1, len(f2) // 2][k % 9]
        cut = max(1, min(cut, len(f2) - 1))
        chunks = [reqs[0][1] + f2[:cut], "p", f2[cut:] + reqs[2][1]] if k % 2 == 0 else [reqs[0][1] + f2[:cut], "p", "p", f2[cut:], "p", reqs[2][1]]
        z = [0, 1, 11000][(k // 9) % 3]
        case = f"SV g {rs(chunks)} {ws([])} 3 " + " ".join(f"Z {hx(z)} A " + a[0][2:] for a in answers)
        exp = "SV closed CALLS 3" + "".join(f" [{q[2]}]" for q in reqs) + f" WRITTEN {xb(b''.join(a[1] for a in answers))}"
        out.append((case, exp, "slow-handler-partial-next", 3))
    # a peer that sends a request together with the first octets of the next one and the REST only after it has seen the answer
    # to the first (it waits for / times out on that answer): an answer is on the stream when the handler has given it, not when
    # the server has nothing else to read
    for k in range(27 if tier == "quick" else 600):
        r = rng.fork(f"await{k}")
        reqs = [msgs[r.below(len(msgs))] for _ in range(3)]
        answers = [msgs[r.below(len(msgs))] for _ in range(3)]
        f2 = reqs[1][1]
        cut = max(1, min([1, 3, 4, 5, 19, 20, 21, len(f2) - 1, len(f2) // 2][k % 9], len(f2) - 1))
        a1 = len(answers[0][1])
        need = [a1, 1, a1 - 1][(k // 9) % 3]
        chunks = [reqs[0][1] + f2[:cut], "w:%x" % need, f2[cut:] + reqs[2][1]]
        case = f"SV g {rs(chunks)} {ws([] if k % 2 else [7] * 40)} 3 " + " ".join("A " + a[0][2:] for a in answers)
        exp = "SV closed CALLS 3" + "".join(f" [{q[2]}]" for q in reqs) + f" WRITTEN {xb(b''.join(a[1] for a in answers))}"
        out.append((case, exp, "rest-sent-after-answer-seen", 3))
    # an answer that cannot be encoded AFTER a lot of it could (70 000 / 200 000 octets of AVPs, then a Time in 2040): nothing
    # of it may reach the stream, the connection ends, the earlier answers stand
    for k, n in enumerate([70000, 200000]):
        r = rng.fork(f"bigbad{k}")
        reqs = [msgs[r.below(len(msgs))] for _ in range(3)]
        small = [msgs[r.below(len(msgs))] for _ in range(2)]
        ans_tok = ["A " + small[0][0][2:], f"A g NEW 110 4 0 1 2 2 ADDAVP 3f3 - 0 L octz {hx(n)} ADDAVP 3f4 - 0 L time 83aa7e80", "A " + small[1][0][2:]]
        case = f"SV g {rs([b''.join(q[1] for q in reqs)])} {ws([])} 3 " + " ".join(ans_tok)
        exp = "SV failed CALLS 2" + "".join(f" [{q[2]}]" for q in reqs[:2]) + f" WRITTEN {xb(small[0][1])}"
        out.append((case, exp, "big-unencodable-answer", 3))
    # long pipelines: far more request octets in flight than any per-connection buffer a server might keep (8 KiB, 64 KiB),
    # delivered in chunks that do not respect request boundaries
    for k, (nreq, csize) in enumerate([(150, 512), (150, 4096), (300, 8192), (120, 100000), (200, 777)] if tier == "quick" else
                                      [(150, 512), (150, 4096), (300, 8192), (120, 100000), (200, 777), (600, 1000), (600, 65536), (1000, 3000)]):
        r = rng.fork(f"long{k}")
        reqs = [msgs[r.below(len(msgs))] for _ in range(nreq)]
        answers = [msgs[r.below(len(msgs))] for _ in range(nreq)]
        stream = b"".join(q[1] for q in reqs)
        chunks = [stream[i:i + csize] for i in range(0, len(stream), csize)]
        case = f"SV g {rs(chunks)} {ws([])} {nreq} " + " ".join("A " + a[0][2:] for a in answers)
        exp = f"SV closed CALLS {nreq}" + "".join(f" [{q[2]}]" for q in reqs) + f" WRITTEN {xb(b''.join(a[1] for a in answers))}"
        out.append((case, exp, "long-pipeline", nreq))
    # requests of the largest size the stream reader accepts (1 MiB exactly) and just below: handled like any other, the request
    # behind them too; 4 octets more is refused (nothing after it is handled)
    for k, total in enumerate([0x100000 - 4, 0x100000, 0x100000 + 4]):
        r = rng.fork(f"bigreq{k}")
        small = [msgs[r.below(len(msgs))] for _ in range(2)]
        answers = [msgs[r.below(len(msgs))] for _ in range(3)]
        n = total - 20 - 8
        avp = gen.be(1011, 4) + b"\0" + gen.be(8 + n, 3) + bytes(n)
        bigreq = bytes([1]) + gen.be(total, 3) + bytes([0x80]) + gen.be(0x110, 3) + gen.be(4, 4) + gen.be(1, 4) + gen.be(2, 4) + avp
        stream = small[0][1] + bigreq + small[1][1]
        chunks = [stream] if k % 2 else [stream[i:i + 60000] for i in range(0, len(stream), 60000)]
        case = f"SV g {rs(chunks)} {ws([])} 3 " + " ".join("A " + a[0][2:] for a in answers)
        if total <= 0x100000:
            out.append((case, ("bigreq", 3, xb(b"".join(a[1] for a in answers))), "big-request", 3))
        else:
            out.append((case, ("bigreq", 1, xb(answers[0][1])), "big-request", 3))
    # requests above any small receive buffer (4 KiB, 8 KiB, 64 KiB) in SHRINKING order, each shorter than an earlier one on the same
    # connection, delivered in one piece and in pieces: each is handled, and so is the small request behind them
    for k, sizes in enumerate([(6000, 4500), (9000, 8200, 4100), (70000, 66000, 5000, 4097), (5000, 4999, 4998, 4997)]):
        r = rng.fork(f"shrink{k}")
        tail = msgs[r.below(len(msgs))]
        answers = [msgs[r.below(len(msgs))] for _ in range(len(sizes) + 1)]
        frames = []
        for j, total in enumerate(sizes):
            n = total - 20 - 8
            avp = gen.be(1011, 4) + b"\0" + gen.be(8 + n, 3) + bytes((i * 7 + j) % 251 for i in range(n)) + b"\0" * ((4 - n % 4) % 4)
            frames.append(bytes([1]) + gen.be(20 + len(avp), 3) + bytes([0x80]) + gen.be(0x110, 3) + gen.be(4, 4) + gen.be(j + 1, 4) + gen.be(2, 4) + avp)
        stream = b"".join(frames) + tail[1]
        for chunks in ([stream], [stream[i:i + 3000] for i in range(0, len(stream), 3000)], [f for f in frames] + [tail[1]]):
            case = f"SV g {rs(chunks)} {ws([])} {len(answers)} " + " ".join("A " + a[0][2:] for a in answers)
            out.append((case, ("bigreq", len(answers), xb(b"".join(a[1] for a in answers))), "shrinking-large-requests", len(answers)))
    # an answer larger than the 1 MiB the server is prepared to READ: the limit is about incoming frames, whatever the
    # handler returns (up to the 2^24 the wire can carry) must be written in full
    for k, n in enumerate([0x100000 - 28 - 4, 0x100000 - 28, 0x100000 + 4] if tier == "quick" else [0x100000 - 28 - 4, 0x100000 - 28, 0x100000 + 4, 0x400000]):
        r = rng.fork(f"big{k}")
        reqs = [msgs[r.below(len(msgs))] for _ in range(3)]
        small = [msgs[r.below(len(msgs))] for _ in range(2)]
        ln = 8 + n
        avp = gen.be(1011, 4) + b"\0" + gen.be(ln, 3) + bytes(n) + b"\0" * ((4 - ln % 4) % 4)
        bigframe = bytes([1]) + gen.be(20 + len(avp), 3) + bytes([0]) + gen.be(0x110, 3) + gen.be(4, 4) + gen.be(1, 4) + gen.be(2, 4) + avp
        ans_tok = ["A " + small[0][0][2:], f"A g NEW 110 4 0 1 2 1 ADDAVP 3f3 - 0 L octz {hx(n)}", "A " + small[1][0][2:]]
        case = f"SV g {rs([b''.join(q[1] for q in reqs)])} {ws([])} 3 " + " ".join(ans_tok)
        exp = "SV closed CALLS 3" + "".join(f" [{q[2]}]" for q in reqs) + f" WRITTEN {xb(small[0][1] + bigframe + small[1][1])}"
        out.append((case, exp, "big-answer", 3))
    return out


def strip_consumed(s):
    return s[: s.rindex(" CONSUMED")] if " CONSUMED" in s else s


def check_C08(chk, tier, seed):
    rng = Rng(seed).fork("C08")
    eng = engine_codec.setup(chk, rng)
    msgs = small_messages(rng, eng, 40 if tier == "quick" else 300)
    sc = server_scenarios(rng, eng, msgs, 1500 if tier == "quick" else 80000, tier)
    cases = [s[0] for s in sc]
    impl, model = eng.run(cases)
    for i, ((c, exp, kind, nreq), im, mo) in enumerate(zip(sc, impl, model)):
        chk.case(c, nreq >= 2 or kind != "good")
        chk.validated += 1
        chk.count("scenario:" + kind)
        chk.count(f"requests:{nreq}")
        if isinstance(exp, tuple) and exp[0] == "bigreq":
            t = strip_consumed(im)
            want_res = "closed" if (exp[1] == 3 or kind == "shrinking-large-requests") else "failed"
            ok = t.startswith(f"SV {want_res} CALLS {exp[1]} [") and t.endswith(" WRITTEN " + exp[2])
            exp = f"SV {want_res} CALLS {exp[1]} [...] WRITTEN {exp[2]}"
        elif isinstance(exp, tuple):
            # the calls' content is compared with the model below; here: one call per frame, exactly the answers written, clean close
            t = strip_consumed(im)
            ok = t.startswith(f"SV closed CALLS {nreq} [") and t.endswith(" WRITTEN " + exp[1])
            exp = f"SV closed CALLS {nreq} [one call per frame, copies included] WRITTEN {exp[1]}"
        else:
            ok = strip_consumed(im) == exp
        if ok and " WAFTER " in im:
            ok = False
            chk.violation("a write was attempted on the stream after its write side had failed", dict(case=c, scenario=kind, impl=short(im, 3000)))
        elif not ok:
            chk.violation("the connection loop did not call the handler exactly once per request in order and write exactly its answers (or did not stop at the first "
                          "malformed frame / handler failure)" + (": the connection task never completed" if "HANG" in im else "") + (": it panicked" if "panicked" in im else ""),
                          dict(case=c, scenario=kind, impl=short(im, 3000), expected=short(exp, 3000)))
        elif ok and strip_consumed(im) != strip_consumed(mo):      # how far a served connection has read AHEAD is not part of the property (a buffered reader may)
            chk.corr_break("observation differs from the model", dict(case=short(c, 4000), impl=short(im, 2000), model=short(mo, 2000)))
        if i % max(1, len(sc) // 6) == 0:
            chk.sample(dict(case=c, impl=short(im, 200), P=ok))
    # more than 4 GiB of requests over one connection (4100 requests of 1 MiB): whatever a connection counts, it does not run out
    vol = core.run_sharded([eng.harness, "codec"], eng.prelude, ["SVBIG 4100 100000"], shards=1, timeout=900)[0]
    chk.case("SVBIG 4100 100000", True)
    chk.validated += 1
    chk.count("volume:4GiB-on-one-connection")
    f = dict(x.split("=", 1) for x in vol.split()[2:] if "=" in x) if vol.startswith("SVBIG closed") else {}
    if f and f.get("hostile") != "eee":
        chk.violation("after more than 2^32 octets of requests had been read by the process, frames announcing hostile lengths (1 MiB + 4, 3, 2^24 - 1) were no longer "
                      "refused with an error (e = error, A = accepted, P = panic, H = hang): " + str(f.get("hostile")), dict(case="SVBIG 4100 100000", impl=short(vol, 400)))
    if not (f.get("calls") == "4100" and f.get("written") == str(4100 * 32)):
        chk.violation("a connection carrying 4100 requests of 1 MiB (more than 2^32 octets in all) was not served to the end: " + short(vol, 300), dict(case="SVBIG 4100 100000", impl=short(vol, 400)))
    # on real sockets: a peer pipelines three requests whose answers are 512 KiB each, closes its sending direction at once and reads
    # only half a second later - the server sees the end of the stream while most of its answers still sit in its send queue; every
    # answer must still arrive complete (a close that discards what was written is not "written")
    import checks_net
    slow = core.run_sharded([eng.harness, "codec"], eng.prelude, ["NETSLOW 0", "NETSLOW 1"], shards=2, timeout=300, env=checks_net.NET_ENV)
    for c, im in zip(["NETSLOW 0", "NETSLOW 1"], slow):
        chk.case(c, True)
        chk.validated += 1
        chk.count("real-socket:slow-reader")
        f = dict(x.split("=", 1) for x in im.split()[1:] if "=" in x) if im.startswith("NETSLOW") else {}
        if not (f.get("got") == f.get("want") and f.get("end") == "eof" and f.get("calls") == "3"):
            chk.violation("over a real socket, the answers to three pipelined requests did not all arrive complete at a peer that had closed its sending direction "
                          "and read them late: " + short(im, 200), dict(case=c, impl=short(im)))
    chk.rule = ("1..8 requests (random AVP content) with handler answers of random size; delivery: one chunk (pipelined), one chunk per frame, one-octet dribble, random "
                "chunkings with Pending; writer: unconstrained, one octet per poll, random accept sizes with Pending; in 3/5 of the scenarios one malformed frame "
                "(AVP length below its header, unknown command, unknown AVP, hostile announced length), one failing handler call or one unencodable answer at a random "
                "position; the same request sent two to four times with the T flag on the copies (each is a request of its own); handler call log (content, order), octets written and the result of the connection future compared; non-trivial = >= 2 requests or a fault")
    chk.assumptions = ["partial: tokio contract; the handler is a scripted closure (the theorem quantifies over all handlers)", "hook verif_serve_stream = the private per-connection loop"]


def check_C09(chk, tier, seed):
    rng = Rng(seed).fork("C09")
    eng = engine_codec.setup(chk, rng)
    msgs = small_messages(rng, eng, 40 if tier == "quick" else 300)
    nstreams = 10 if tier == "quick" else 200
    cases, expect, kinds = [], [], []
    for k in range(nstreams):
        r = rng.fork(f"st{k}")
        nreq = r.range(2, 4)
        reqs = [msgs[r.below(len(msgs))] for _ in range(nreq)]
        answers = [msgs[r.below(len(msgs))] for _ in range(nreq)]
        stream = b"".join(q[1] for q in reqs)
        ans_tok = " ".join("A " + a[0][2:] for a in answers)
        bounds, acc = [], 0
        for q in reqs:
            acc += len(q[1])
            bounds.append(acc)
        # every read-side cut offset
        for p in range(0, len(stream) + 1):
            whole = sum(1 for b in bounds if b <= p)
            calls = "".join(f" [{q[2]}]" for q in reqs[:whole])
            written = b"".join(a[1] for a in answers[:whole])
            for tail, res in (("e", "closed"), ("x", "failed")):
                for deliver in ("whole", "dribble"):
                    data = stream[:p]
                    chunks = ([data] if data else []) if deliver == "whole" else [data[i:i + 1] for i in range(len(data))]
                    cases.append(f"SV g {rs(chunks, tail)} 0 {nreq} {ans_tok}")
                    expect.append(f"SV {res} CALLS {whole}{calls} WRITTEN {xb(written)}")
                    kinds.append("read-cut:" + tail)
            # the same cut while the writer is under back-pressure (not ready once before every portion it takes): the answers
            # to the requests that arrived completely are still written in full
            data = stream[:p]
            cases.append(f"SV g {rs([data] if data else [], 'e')} {ws(['p', 1000] * (2 * nreq + 2))} {nreq} {ans_tok}")
            expect.append(f"SV closed CALLS {whole}{calls} WRITTEN {xb(written)}")
            kinds.append("read-cut:backpressure")
        # every write-side failure offset
        alla = b"".join(a[1] for a in answers)
        abounds, acc = [], 0
        for a in answers:
            acc += len(a[1])
            abounds.append(acc)
        for q in range(0, len(alla) + 1):
            hit = sum(1 for b in abounds if b <= q)          # answers completely written
            ncalls = min(nreq, hit + 1) if q < len(alla) else nreq
            res = "failed" if q < len(alla) else "closed"
            calls = "".join(f" [{x[2]}]" for x in reqs[:ncalls])
            for style in ("dribble", "whole", "interrupted"):
                if style == "interrupted":
                    if q % 3:
                        continue
                    # the write side fails with ErrorKind::Interrupted after q octets: a failure like any other - nothing is written again
                    wscript = [f"b:{q:x}", "i", "x"] if q % 2 else [f"b:{q:x}", "i", 1 << 20]
                elif style == "dribble":
                    wscript = [1] * q + ["x"]
                else:
                    # a writer that lets exactly q octets through, in whatever portions they are offered, then fails
                    wscript = [f"b:{q:x}", "x"]
                for deliver in ("whole", "dribble", "whole-peer-stays"):
                    if deliver == "whole-peer-stays" and (q >= len(alla) or q % 2):
                        continue
                    chunks = [stream] if deliver != "dribble" else [stream[i:i + 1] for i in range(len(stream))]
                    # (whole-peer-stays: after the failed write the peer's sending direction stays open and silent - the connection has
                    # ended with the failed write all the same, the task returns)
                    cases.append(f"SV g {rs(chunks, 'n' if deliver == 'whole-peer-stays' else 'e')} {ws(wscript)} {nreq} {ans_tok}")
                    expect.append(f"SV {res} CALLS {ncalls}{calls} WRITTEN {xb(alla[:q])}")
                    kinds.append("write-fault")
    # every 41st case once more while 70 other connections of the process are stuck writing answers to peers that have stopped
    # reading: a connection cut after a complete request still handles it and still ends (whatever the process limits, it is not this)
    for q in range(0, len(cases), 41):
        if cases[q].startswith("SV g"):
            cases.append(cases[q].replace("SV g", "SVP g", 1))
            expect.append(expect[q])
            kinds.append(kinds[q].split(":")[0] + ":others-stuck-writing")
    impl, model = eng.run(cases)
    for i, (c, exp, kind, im, mo) in enumerate(zip(cases, expect, kinds, impl, model)):
        chk.case(c, True)
        chk.validated += 1
        chk.count(kind)
        ok = strip_consumed(im) == exp
        if ok and " WAFTER " in im:
            ok = False
            chk.violation("a write was attempted on the stream after its write side had failed (" + im[im.index(" WAFTER ") + 8:] + " further attempt(s))",
                          dict(case=c, kind=kind, impl=short(im, 3000), expected=short(exp, 3000)))
        elif not ok:
            chk.violation("after a connection loss the task did not terminate cleanly having called the handler for exactly the requests that had arrived completely "
                          "and written exactly (a prefix of) their answers" + (": it never completed" if "HANG" in im else "") + (": it panicked" if "panicked" in im else ""),
                          dict(case=c, kind=kind, impl=short(im, 3000), expected=short(exp, 3000)))
        elif ok and strip_consumed(im) != strip_consumed(mo):      # how far a served connection has read AHEAD is not part of the property (a buffered reader may)
            chk.corr_break("observation differs from the model", dict(case=c, impl=short(im, 2000), model=short(mo, 2000)))
        if i % max(1, len(cases) // 6) == 0:
            chk.sample(dict(case=c, impl=short(im, 200), P=ok))
    chk.exhaustive = True
    chk.rule = (f"{nstreams} request streams of 2-4 requests: EVERY read-side cut offset p in [0, N] (EOF and connection error; whole-buffer and one-octet delivery) and "
                "EVERY write-side failure offset q in [0, total answer length] (one octet per poll, and a writer that takes whatever is offered until q octets are through; both deliveries); completion under paused "
                "virtual time (a pending future with an idle runtime is reported as a hang); handler log, octets written and result compared")
    chk.assumptions = ["partial: tokio contract; 'promptly' = the future completes without any timer firing under paused virtual time"]
