"""Checks for C11 / C12: the client's request/answer matching and completion, on the real client
driven through explicit schedules over a gated in-memory duplex (hook verif_attach_stream)."""
import itertools
import core
from core import Rng, log
from proto import *
import gen
import engine_codec
from checks_codec import short

ANSWER_LEN = 32     # octets of the answers the harness peer emits (header 20 + one Unsigned32 AVP of 12)


def linear_extensions(n):
    """every interleaving of R_i < G_i < W_i, G_i < P_i, W_i < R_{i+1} (sends are sequential: &mut self)"""
    evs = []
    for i in range(n):
        evs += [("R", i), ("G", i), ("W", i), ("P", i)]
    pred = {}
    for i in range(n):
        pred[("R", i)] = [("W", i - 1)] if i else []
        pred[("G", i)] = [("R", i)]
        pred[("W", i)] = [("G", i)]
        pred[("P", i)] = [("G", i)]
    out = []

    def go(done, seq):
        if len(seq) == len(evs):
            out.append(list(seq))
            return
        for e in evs:
            if e not in done and all(p in done for p in pred[e]):
                done.add(e)
                seq.append(e)
                go(done, seq)
                seq.pop()
                done.remove(e)
    go(set(), [])
    return out


def render(seq, hops, r=None, split=False):
    toks = []
    for (k, i) in seq:
        if k == "R":
            toks.append(f"R {hx(hops[i])}")
        elif k == "G":
            toks.append("G 1" if r is None else "G " + hx(r.choice([1, 1, 2, 19, 20, 21, 60])))
        elif k == "W":
            toks.append("W")
        elif k == "P":
            if split and r is not None and r.chance(1, 2):
                if r.chance(1, 2):
                    # the two pieces of the answer are separated by (virtual) time: anything timer-driven in the client fires in between
                    toks.append(f"PG {hx(hops[i])} {hx(r.range(1, ANSWER_LEN - 1))} {hx(r.choice([1, 50, 999, 1000, 1001, 1500, 3500, 30000, 61000]))}")
                else:
                    toks.append(f"PS {hx(hops[i])} {hx(r.range(1, ANSWER_LEN - 1))}")
            else:
                toks.append(f"P {hx(hops[i])}")
            if split and r is not None and r.chance(1, 6):
                toks.append(f"T {hx(r.choice([1, 1000, 5000, 60000, 600000]))}")
        else:
            toks.append(k if isinstance(k, str) and " " in k else str(k))
    return toks


def line(toks):
    return f"CL b {len(toks)} " + " ".join(toks)


def parse_cl(s):
    t = s.split()
    if not t or t[0] != "CL" or "READER" not in t:
        return None
    i = t.index("READER")
    return t[1:i], t[i + 1]


def conn_view(toks):
    """per request: (hop, connection it was sent on); per connection: hop ids its peer emitted, was it cut"""
    reqs, emitted, cut = [], {0: []}, {0: False}
    cur = sel = 0
    for x in toks:
        if x == "CA":
            cur += 1
            sel = cur
            emitted[cur] = []
            cut[cur] = False
        elif x.startswith("SEL "):
            c = int(x.split()[1])
            if c <= cur:
                sel = c
        elif x.startswith(("R ", "RX ")):
            reqs.append((int(x.split()[1], 16), cur))
        elif x.startswith(("P ", "PS ", "PG ", "PL ", "PC ")):
            emitted[sel].append(int(x.split()[1], 16))
        elif x.startswith("B "):
            cut[sel] = True
        elif x.startswith("RS "):
            reqs.append((int(x.split()[1], 16), cur))
        elif x.startswith("RN "):
            _, n, h = x.split()
            reqs += [((int(h, 16) + j) & 0xffffffff, cur) for j in range(int(n))]
        elif x.startswith("BB "):
            cut[sel] = True
            _, _, n, h, _ = x.split()
            reqs += [((int(h, 16) + j) & 0xffffffff, cur) for j in range(int(n))]
    return reqs, emitted, cut


def readers_of(im):
    """reader state per connection"""
    t = im.split()
    if "ALL" in t:
        return t[t.index("ALL") + 1:]
    return [t[t.index("READER") + 1]] if "READER" in t else []


def multi_schedule(r, adversarial=False):
    """one client object, 2-3 connections over its life: requests on each, answers on each connection for the requests sent
    on it (any order, interleaved across connections), failed connect() calls anywhere, older connections cut by their peer
    while newer ones have requests outstanding"""
    toks = []
    nconn = r.choice([2, 2, 3])
    hop = 0x30
    pending = {}          # connection -> hop ids sent on it and not yet answered
    alive = {}
    for c in range(nconn):
        if c > 0:
            toks.append("CA")
        pending[c] = []
        alive[c] = True
        for _ in range(r.range(0 if c == 0 and adversarial else 1, 2)):
            toks += [f"R {hx(hop)}", "W"]
            pending[c].append(hop)
            hop += 1
            if r.chance(1, 4):
                toks.append("CF")
        # peer activity on any connection opened so far
        for _ in range(r.range(0, 3)):
            k = r.below(c + 1)
            act = r.below(10)
            if act < 6 and pending[k] and alive[k]:
                h = pending[k].pop(r.below(len(pending[k])))
                toks += [f"SEL {k}", f"P {hx(h)}" if r.chance(2, 3) else f"PG {hx(h)} {hx(r.range(1, ANSWER_LEN - 1))} {hx(r.choice([1, 1000, 61000]))}"]
            elif act < 8 and alive[k] and (k < c or adversarial):
                toks += [f"SEL {k}", "B " + r.choice(["eof", "reset", "garbage"])]
                alive[k] = False
            elif act == 8:
                toks.append("CF")
            elif adversarial:
                toks += [f"SEL {k}", f"P {hx(r.choice([0x30, 0x31, 0x32, 0x99]))}"]
    # drain: every connection still alive answers what it owes, in random order across connections
    owed = [(k, h) for k in pending for h in pending[k] if alive[k]]
    for k, h in r.shuffle(owed):
        toks += [f"SEL {k}", f"P {hx(h)}"]
    if adversarial and r.chance(1, 2):
        toks += [f"R {hx(hop)}", "W"]
    return toks


ARITY = {"BB": 4, "RX": 1, "PL": 2, "R": 1, "G": 1, "W": 0, "WE": 0, "D": 1, "T": 1, "CA": 0, "CF": 0, "SEL": 1, "P": 1, "PS": 2, "PG": 3, "PT": 2, "B": 1, "H": 0, "U": 0, "RN": 2, "RS": 2, "AW": 1, "HR": 0, "PC": 1, "TR": 1}


def regress_schedules(pid):
    """minimised schedules of every client defect found so far (corpus/regress.json): run first"""
    from checks_codec import regress_cases
    out = []
    for c in regress_cases(pid):
        t = c.split()
        if t[0] != "CL":
            continue
        toks, i = [], 3
        while i < len(t):
            k = ARITY.get(t[i], 0)
            toks.append(" ".join(t[i:i + 1 + k]))
            i += 1 + k
        out.append((line(toks), toks, "multi"))
    return out


def judge_safety(chk, pid, case, toks, im):
    """C11 safety on any schedule: returns (ok, parsed)"""
    p = parse_cl(im)
    if p is None:
        chk.violation("the client run did not complete: " + short(im, 200), dict(case=case, impl=short(im)))
        return False, None
    outs, reader = p
    if " WIRE bad" in im:
        chk.violation("the octets the peer received are not a sequence of whole request frames (something other than the requests that were sent is on the wire)",
                      dict(case=case, impl=short(im)))
        return False, p
    # which connection each request was sent on and each answer was emitted on (events CA / SEL; one connection otherwise)
    reqs, emitted, _ = conn_view(toks)
    if len(outs) != len(reqs):
        chk.violation("number of futures differs from the number of sends", dict(case=case, impl=short(im)))
        return False, None
    seen = set()
    for i, o in enumerate(outs):
        o = o.split("@")[0]
        if o.startswith("GOT:"):
            _, h, e = o.split(":")
            h, e = int(h, 16), int(e, 16)
            want_h, c = reqs[i]
            why = None
            if h != want_h:
                why = f"future {i} (request hop-by-hop id {want_h:x}) completed with an answer carrying id {h:x}"
            elif not any(e < len(em) and em[e] == h for em in emitted.values()):
                why = f"future {i} received a message the peer did not send (end-to-end id {e:x})"
            else:
                cc = c if e < len(emitted[c]) and emitted[c][e] == h else next(k for k, em in emitted.items() if e < len(em) and em[e] == h)
                if (cc, e) in seen:
                    why = f"answer frame {e:x} of connection {cc} was delivered to more than one future"
                seen.add((cc, e))
            if why:
                chk.violation(why, dict(case=case, impl=short(im)))
                return False, p
    return True, p


def completion_late(im, mo):
    """both observations carry, per future, the index of the event after which it was first seen completed (GOT:..@k / ERR@k).
    Returns a description if some future completed later in the implementation than the model says it can (e.g. the reader
    was held up behind a send that is blocked in its write), else None."""
    pi, pm = parse_cl(im), parse_cl(mo)
    if pi is None or pm is None or len(pi[0]) != len(pm[0]):
        return None
    for k, (a, b) in enumerate(zip(pi[0], pm[0])):
        if "@" not in b:
            continue
        kb = int(b.split("@")[1])
        if a == "PENDING":
            return f"future {k} is still pending at the end of the run, its outcome ({b.split('@')[0]}) was determined after event {kb}"
        if "@" in a and a.split("@")[0] == b.split("@")[0] and int(a.split("@")[1]) > kb:
            return f"future {k} completed after event {a.split('@')[1]}, its outcome was determined after event {kb}"
    return None


def reconn_cases(chk, eng, pid, variants, reps):
    """connect() called twice on one client object over real loopback TCP (the in-memory engine reaches the second connection
    through the hook; this reaches it through connect() itself)"""
    cases = [f"RECONN {v}" for v in variants for _ in range(reps)]
    impl = core.run_sharded([eng.harness, "codec"], eng.prelude, cases, shards=min(8, len(cases)), timeout=300)
    # the same scenarios as histories of the client-object model (Model/ClientObj.v; theorem C12_reconnect_scenarios /
    # C12_failed_handshake_repaired_example state these very outcomes)
    pred = dict(zip(variants, eng.ask_model([f"OBJ repaired {v}" for v in variants])))
    for c, im in zip(cases, impl):
        f = dict(x.split("=", 1) for x in im.split()[1:] if "=" in x) if im.startswith("RECONN") else {}
        want = pred[c.split()[1]].split()[1:]
        got = [f.get(f"f{i + 1}", "?") for i in range(len(want))]
        norm = lambda x: "err" if x in ("err", "senderr", "futerr") else x
        racy = c.endswith("overlap")      # f1: whether the old connection's loss or the caller's look comes first is open
        if f and any(norm(g) != w for i, (g, w) in enumerate(zip(got, want)) if not (racy and i == 0)):
            chk.corr_break("reconnect scenario: the outcomes of the sends differ from the client-object model's", dict(case=c, impl=short(im), model=pred[c.split()[1]]))
    for c, im in zip(cases, impl):
        chk.case(c + im, True)
        chk.validated += 1
        chk.count("reconnect:" + c.split()[1])
        f = dict(x.split("=", 1) for x in im.split()[1:] if "=" in x) if im.startswith("RECONN") else {}
        if c.endswith("overlap"):
            ok = f.get("reconnect") == "ok" and f.get("f2") == "got" and f.get("f1") in ("err", "got")
            what = ("a request in flight on the current connection did not get the answer its peer sent after the peer of an EARLIER connection of the same "
                    "client object had closed (or the request on the closed connection was left pending)")
        elif c.endswith("tlsfail"):
            ok = f.get("reconnect") == "failed" and f.get("f1") == "got" and f.get("f2") == "got" and f.get("f3") in ("senderr", "futerr")
            what = ("after a connect() whose TLS handshake failed, the client's previous, still live connection no longer delivered the answer to a request "
                    "sent on it, or a send after that connection was lost neither failed nor yielded a future that fails")
        else:
            ok = f.get("reconnect") == "failed" and f.get("f1") == "got" and f.get("f2") in ("senderr", "futerr")
            what = ("after a connect() that failed and the loss of the live connection, a further send neither failed nor yielded a future that fails "
                    "(or the earlier exchange did not complete)")
        if not ok:
            chk.violation(what + ": " + short(im, 200), dict(case=c, impl=short(im)))


def reset_cases(chk, eng, reps):
    """real sockets: two requests outstanding, the peer goes away without answering (RST / FIN / half-close), plain TCP and TLS"""
    import checks_net
    cases = [f"CLRST {tls} {how}" for tls in (0, 1) for how in ("reset", "close", "half") for _ in range(reps)]
    impl = core.run_sharded([eng.harness, "codec"], eng.prelude, cases, shards=min(8, len(cases)), timeout=300, env=checks_net.NET_ENV)
    for c, im in zip(cases, impl):
        chk.case(c + im, True)
        chk.validated += 1
        chk.count("peer-gone:" + ("tls:" if c.split()[1] == "1" else "plain:") + c.split()[2])
        f = dict(x.split("=", 1) for x in im.split()[1:] if "=" in x) if im.startswith("CLRST") else {}
        if not (f.get("f1") == "err" and f.get("f2") == "err" and f.get("f3") in ("senderr", "futerr")):
            chk.violation("over a real " + ("TLS" if c.split()[1] == "1" else "TCP") + f" connection whose peer went away ({c.split()[2]}) with two requests outstanding, a response future "
                          "was left pending (or a later send neither failed nor yielded a future that fails): " + short(im, 200), dict(case=c, impl=short(im)))


def check_C11(chk, tier, seed):
    rng = Rng(seed).fork("C11")
    eng = engine_codec.setup(chk, rng, need_limit=False)
    cases = regress_schedules("C11")      # (line, toks, good)
    # exhaustive interleavings for 1..3 outstanding requests, every answer order is among them
    for n in (1, 2, 3):
        for seq in linear_extensions(n):
            hops = [0x10 + i for i in range(n)]
            toks = render(seq, hops)
            cases.append((line(toks), toks, True))
    # sampled: 4..5 requests, segmentation, gate sizes, hop ids at the extremes
    nrand = 1500 if tier == "quick" else 120000
    pools = {4: linear_extensions(4)}
    for k in range(nrand):
        r = rng.fork(f"s{k}")
        n = r.choice([2, 3, 4, 4, 5])
        if n == 5:
            # random linear extension by random topological choice
            seq, done = [], set()
            evs = [(a, i) for i in range(5) for a in "RGWP"]
            pred = lambda e: ([("W", e[1] - 1)] if e[0] == "R" and e[1] else []) + ({"G": [("R", e[1])], "W": [("G", e[1])], "P": [("G", e[1])]}.get(e[0], []))
            while len(seq) < len(evs):
                ready = [e for e in evs if e not in done and all(p in done for p in pred(e))]
                e = r.choice(ready)
                done.add(e)
                seq.append(e)
        else:
            pool = pools.setdefault(n, linear_extensions(n))
            seq = r.choice(pool)
        hops = r.shuffle([0, 1, 2, 0xffffffff, 0x7fffffff, 0x80000000, r.below(1 << 32), r.below(1 << 32)])[:n]
        toks = render(seq, hops, r, split=True)
        cases.append((line(toks), toks, True))
    # identifiers that a lossy index would confuse: equal modulo 2^k (k = 8 ... 31), modulo 1000, 1009, 65521, byte-swapped
    # twins, ids differing in one bit; two or three requests in flight, answered in every order
    base = [5, 0x01020304, 0xfffffffe]
    twins = []
    for b in base:
        for k in list(range(8, 32)):
            twins.append((b, (b + (1 << k)) & 0xffffffff))
        for m in (1000, 1009, 65521, 1 << 16):
            twins.append((b, (b + 3 * m) & 0xffffffff))
        twins.append((b, int.from_bytes(b.to_bytes(4, "big"), "little")))
    for (a, b2) in twins:
        if a == b2:
            continue
        for order in ((0, 1), (1, 0)):
            hops = [a, b2]
            toks = [f"R {hx(hops[0])}", "W", f"R {hx(hops[1])}", "W", f"P {hx(hops[order[0]])}", f"P {hx(hops[order[1]])}"]
            cases.append((line(toks), toks, True))
    # answers of different lengths on one connection (long before short, short before long), and a request the encoder
    # refuses (nothing of it may reach the wire) between ordinary ones
    for k, sizes in enumerate([(300, 0), (0, 300), (5000, 1, 0), (17000, 3), (1, 70000, 2), (40, 39, 38, 37), (1048536, 0), (4, 1048532, 1048536)]):      # 1048536: an answer of exactly 1 MiB, the largest the reader accepts
        hops = [0x60 + j for j in range(len(sizes))]
        toks = []
        for hp in hops:
            toks += [f"R {hx(hp)}", "W"]
        for hp, n in zip(hops, sizes):
            toks.append(f"PL {hx(hp)} {hx(n)}")
        cases.append((line(toks), toks, True))
        toks2 = [f"R {hx(hops[0])}", "W", f"RX {hx(0x7f)}", f"R {hx(hops[1])}", "W", f"PL {hx(hops[0])} {hx(sizes[0])}", f"PL {hx(hops[1])} {hx(sizes[1])}"]
        cases.append((line(toks2), toks2, "multi"))
    # several answers delivered in ONE piece (the peer answers a burst at once), of different lengths - in particular a short one
    # after a long one and followed by more - and the peer idle afterwards: each request gets its own answer
    for k, sizes in enumerate([(300, 0, 0), (0, 300, 0, 1), (5000, 1, 0), (17000, 3, 40, 2), (40, 39, 38, 37), (1, 0), (0, 0, 0, 0, 0), (70000, 0, 300, 0)]):
        hops = [0x90 + j for j in range(len(sizes))]
        for variant in range(3):
            toks = []
            for hp in hops:
                toks += [f"R {hx(hp)}", "W"]
            if variant == 0:      # all in one piece
                toks += ["H"] + [f"PL {hx(hp)} {hx(n)}" for hp, n in zip(hops, sizes)] + ["U"]
            elif variant == 1:    # the first alone, the others in one piece
                toks += [f"PL {hx(hops[0])} {hx(sizes[0])}", "H"] + [f"PL {hx(hp)} {hx(n)}" for hp, n in list(zip(hops, sizes))[1:]] + ["U"]
            else:                 # in one piece, then an idle hour, then nothing more
                toks += ["H"] + [f"PL {hx(hp)} {hx(n)}" for hp, n in zip(hops, sizes)] + ["U", "T " + hx(3600000)]
            cases.append((line(toks), toks, True))
    # 40 and 100 answers delivered by ONE read, then silence (the peer has nothing more to say and keeps the connection open): every
    # one of them reaches its future - what the reader has taken from the stream it hands out, however many messages that is
    for nans in (40, 100):
        hops = [0x4000 + j for j in range(nans)]
        toks = []
        for hp in hops:
            toks += [f"R {hx(hp)}", "W"]
        toks += ["H"] + [f"P {hx(hp)}" for hp in reversed(hops)] + ["U", "T " + hx(3600000)]
        cases.append((line(toks), toks, True))
    # more than a mebibyte of answers over the life of one connection (five of 300 000 octets, answered out of order; then
    # small ones): whatever bound a reader has is per message, not per connection
    hops = [0xb0 + j for j in range(8)]
    toks = []
    for hp in hops:
        toks += [f"R {hx(hp)}", "W"]
    for j in (2, 0, 4, 1, 3):
        toks.append(f"PL {hx(hops[j])} {hx(300000)}")
    toks += [f"P {hx(hops[5])}", f"PL {hx(hops[7])} {hx(70000)}", f"P {hx(hops[6])}"]
    cases.append((line(toks), toks, True))
    # a future that was looked at once while pending (a `timeout(&mut fut)` that elapsed, a `select!` that took another branch) and
    # is then awaited by ANOTHER task: it completes there when the answer comes (whoever asks last is the one to be woken)
    for k, toks in enumerate([
            ["R a1", "W", "AW 0", "P a1"],
            ["R a1", "W", "R a2", "W", "AW 1", "AW 0", "P a1", "P a2"],
            ["R a1", "W", "T 3e8", "AW 0", "T 3e8", "P a1"],
            ["R a1", "W", "R a2", "W", "AW 0", "P a2", "P a1"],
            ["R a1", "G 5", "AW 0", "W", "P a1"]]):
        cases.append((line(toks), toks, True))
    # a peer that answers as soon as it has seen the beginning of a request and then ends the connection, while the client is still
    # busy writing the rest of that request (a request larger than the pipe): the answer was sent and belongs to that request - its
    # future yields it, however the send itself ends
    for k, (g, end) in enumerate([(g, end) for g in (1, 20, 43) for end in ("eof", "reset", "garbage")]):
        toks = ["R c1", f"G {hx(g)}", "P c1", f"B {end}", "W"]
        cases.append((line(toks), toks, "answered-then-ended"))
        toks = ["R c1", "W", "R c2", f"G {hx(g)}", "P c2", "P c1", f"B {end}", "W"]
        cases.append((line(toks), toks, "answered-then-ended"))
    # answers whose command code differs from the request's (a peer that answers a CCR with an accounting answer is wrong - that is the
    # application's to find out: the client matches by hop-by-hop id), and a request answered only after 31 s / an hour during which other
    # requests were sent and answered: each future gets its answer
    for toks in (["R e1", "W", "R e2", "W", "PC e2", "P e1"], ["R e1", "W", "PC e1"], ["R e1", "W", "R e2", "W", "PC e1", "PC e2"],
                 ["R e1", "W", "T 7918", "R e2", "W", "P e1", "P e2"], ["R e1", "W", "T 36ee80", "R e2", "W", "P e2", "T 7918", "R e3", "W", "P e1", "P e3"]):
        cases.append((line(toks), toks, True))
    if tier == "thorough":
        # ... and the same with 31 s of wall-clock time (thorough tier only: it takes that long)
        toks = ["R e1", "W", "TR 7918", "R e2", "W", "P e1", "P e2"]
        cases.append((line(toks), toks, True))
    # the caller drives handle() from a select! / timeout of its own: the handle() future is dropped while the connection is idle
    # (nothing half-read) and handle() is called again on the same ClientHandler - the requests in flight are still answered
    for toks in (["R d1", "W", "R d2", "W", "HR", "P d1", "P d2"], ["R d1", "W", "HR", "HR", "P d1"], ["R d1", "W", "P d1", "HR", "R d2", "W", "P d2"],
                 ["R d1", "W", "R d2", "W", "P d2", "HR", "R d3", "W", "P d3", "HR", "P d1"]):
        cases.append((line(toks), toks, True))
    # adversarial peers (safety only): unsolicited, duplicated, wrong-id answers
    for k in range(300 if tier == "quick" else 20000):
        r = rng.fork(f"a{k}")
        n = r.range(1, 4)
        hops = [r.choice([1, 2, 3, 4]) for _ in range(n)]
        toks = []
        for i in range(n):
            toks.append(f"R {hx(hops[i])}")
            c = r.below(8)
            if c == 0:
                toks += ["G " + hx(r.choice([1, 20, 43])), "WE"]       # the write fails after the waiter was registered
            elif c == 1:
                toks += ["G " + hx(r.choice([1, 20])), f"P {hx(hops[i])}", "WE"]   # ... after the answer has already come in
            toks.append("W")
            if r.chance(1, 4):
                toks.append(f"D {r.below(i + 1)}")                        # the caller drops a future (pending or completed)
            for _ in range(r.below(3)):
                toks.append(f"P {hx(r.choice([1, 2, 3, 4, 5]))}")
            if r.chance(1, 8):
                toks.append(f"T {hx(r.choice([1000, 60000]))}")
        cases.append((line(toks), toks, False))
    # one client object, several connections over its life (connect() called again, also unsuccessfully)
    for k in range(400 if tier == "quick" else 30000):
        r = rng.fork(f"m{k}")
        toks = multi_schedule(r)
        cases.append((line(toks), toks, "multi"))
    lines = [c[0] for c in cases]
    impl, model = eng.run(lines)
    for i, ((c, toks, good), im, mo) in enumerate(zip(cases, impl, model)):
        nreq = sum(1 for x in toks if x.startswith("R "))
        chk.case(c, nreq >= 2)
        chk.validated += 1
        chk.count(f"requests:{nreq}")
        chk.count("several-connections" if good == "multi" else "answered-then-ended" if good == "answered-then-ended" else "causal-distinct" if good else "adversarial-peer")
        if good == "multi":
            ok, p = judge_safety(chk, "C11", c, toks, im)
            if ok:
                outs, _ = p
                reqs, emitted, cut = conn_view(toks)
                for k2, ((h, cn), o) in enumerate(zip(reqs, outs)):
                    if not cut[cn] and h in emitted[cn] and not o.startswith("GOT:"):
                        ok = False
                        chk.violation(f"request {k2} (hop-by-hop id {h:x}) was sent on connection {cn}, which was never cut and whose peer answered it, but its future "
                                      f"completed with {o.split('@')[0]} (another connection of the same client object was cut or re-established meanwhile)",
                                      dict(case=c, impl=short(im), model=short(mo)))
                        break
                late = completion_late(im, mo) if ok else None
                if late:
                    ok = False
                    chk.violation("a response future completed later than its answer was available to the client: " + late, dict(case=c, impl=short(im), model=short(mo)))
            if ok and im != mo:
                chk.corr_break("client observation differs from the model", dict(case=c, impl=short(im), model=short(mo)))
            if i % max(1, len(cases) // 6) == 0:
                chk.sample(dict(case=c, impl=short(im, 200), P=ok))
            continue
        ok, p = judge_safety(chk, "C11", c, toks, im)
        if ok and good == "answered-then-ended":
            outs, reader = p
            if any(not o.startswith("GOT:") for o in outs):
                ok = False
                chk.violation("the peer answered a request (after at least one octet of it was written) and then ended the connection while the rest of the request was "
                              "still being written: the future of that request did not yield the answer", dict(case=c, impl=short(im), model=short(mo)))
            elif im != mo:
                chk.corr_break("client observation differs from the model", dict(case=c, impl=short(im), model=short(mo)))
            continue
        if ok and good:
            outs, reader = p
            late = completion_late(im, mo)
            if any(not o.startswith("GOT:") for o in outs) or reader != "alive":
                ok = False
                chk.violation("with distinct hop-by-hop ids and a peer that answers each request once (after at least one octet of it was written) a response "
                              "future did not complete with its answer", dict(case=c, impl=short(im)))
            elif late:
                ok = False
                chk.violation("a response future completed later than its answer was available to the client: " + late, dict(case=c, impl=short(im), model=short(mo)))
        if ok and im != mo:
            chk.corr_break("client observation differs from the model", dict(case=c, impl=short(im), model=short(mo)))
        if i % max(1, len(cases) // 6) == 0:
            chk.sample(dict(case=c, impl=short(im, 200), P=ok))
    reconn_cases(chk, eng, "C11", ["overlap", "tlsfail"], 2 if tier == "quick" else 10)
    chk.rule = ("EVERY interleaving of {send starts and registers, first request octet written, send returns, peer answers} for 1, 2 and 3 outstanding requests "
                "(answers may overtake each other, arrive before the send call has returned or before the request is fully written), the reader running to "
                f"quiescence after every event; {nrand} sampled interleavings for 4-5 requests with split answers, varying write-gate sizes and extreme ids; "
                "pairs of ids equal modulo 2^8 ... 2^31, modulo 1000 / 1009 / 65521, byte-swapped twins; adversarial peers (unsolicited / duplicated / foreign ids), futures dropped by the caller while pending or after completion, sends whose write fails "
                "after the waiter was registered - for the safety half; answers delivered in two pieces separated by 1 ms .. 61 s of virtual time and idle periods up "
                "to 10 min (anything timer-driven inside the client gets its chance to fire); one client object with 2-3 connections over its life (connect() again, "
                "also failing for real against a closed port), requests outstanding on each, older connections cut while newer ones are busy; single-threaded runtime, paused time; non-trivial = >= 2 requests")
    chk.assumptions = ["partial: atomicity at await points; tokio Mutex/oneshot by contract; sends are sequential because send_message takes &mut self"]


def check_C12(chk, tier, seed):
    rng = Rng(seed).fork("C12")
    eng = engine_codec.setup(chk, rng, need_limit=False)
    cases = regress_schedules("C12")
    kinds = ["eof", "reset", "garbage", "unknownavp", "oversized", "short", "dpr", "dwr"]
    # 1..4 outstanding x which answers were already delivered x how the stream ends (incl. every cut offset of a partial answer)
    for n in (1, 2, 3, 4):
        hops = [0x20 + i for i in range(n)]
        for answered in itertools.product([0, 1], repeat=n):
            for kind in kinds:
                toks = []
                for i in range(n):
                    toks += [f"R {hx(hops[i])}", "W"]
                for i in range(n):
                    if answered[i]:
                        toks.append(f"P {hx(hops[i])}")
                toks.append(f"B {kind}")
                cases.append((line(toks), toks, "cut"))
            un = [i for i in range(n) if not answered[i]]
            if un:
                for cut in range(1, ANSWER_LEN):
                    toks = []
                    for i in range(n):
                        toks += [f"R {hx(hops[i])}", "W"]
                    for i in range(n):
                        if answered[i]:
                            toks.append(f"P {hx(hops[i])}")
                    toks += [f"PT {hx(hops[un[0]])} {hx(cut)}", "B eof" if cut % 2 else "B reset"]
                    cases.append((line(toks), toks, "cut-inside-answer"))
    # a request sent again under the SAME hop-by-hop id (a retransmission): the older future fails at once (superseded); the caller
    # drops it - before or after the newer send, before or after the answer - and the newer future gets the answer
    for k, toks in enumerate([
            ["R 51", "W", "R 51", "W", "D 0", "P 51"],
            ["R 51", "W", "R 51", "D 0", "W", "P 51"],
            ["R 51", "W", "R 51", "W", "P 51", "D 0"],
            ["R 51", "W", "R 52", "W", "R 51", "W", "D 0", "P 52", "P 51"],
            ["R 51", "W", "R 51", "W", "R 51", "W", "D 0", "D 1", "P 51"],
            ["R 51", "W", "RS 51 0", "P 51"],
            ["R 51", "W", "R 52", "W", "RS 51 0", "P 52", "P 51"],
            ["R 51", "W", "RS 51 0", "RS 51 1", "T 3e8", "P 51"],
            ["R 51", "W", "RS 51 0", "P 51", "R 51", "W", "P 51"],
            ["R 51", "W", "R 51", "W", "D 0", "T 3e8", "P 51", "R 53", "W", "P 53"]]):
        cases.append((line(toks), toks, "resend"))
    # answers and the end of the stream arriving TOGETHER (one segment carries the last answers and the FIN): the answers are
    # delivered, then the rest is released - whichever order a reader's internals would like to process them in
    for k, n in enumerate((1, 2, 3, 4)):
        hops = [0x70 + j for j in range(n)]
        for early in range(n):
            for kind2 in ("eof", "reset", "garbage"):
                toks = []
                for hp in hops:
                    toks += [f"R {hx(hp)}", "W"]
                toks += [f"P {hx(hp)}" for hp in hops[:early]]
                toks += ["H"] + [f"P {hx(hp)}" for hp in hops[early:n - 1]] + [f"B {kind2}", "U"] if n > 1 or early == 0 else []
                if toks:
                    cases.append((line(toks), toks, "answers-with-end"))
        toks = []
        for hp in hops:
            toks += [f"R {hx(hp)}", "W"]
        toks += ["H"] + [f"P {hx(hp)}" for hp in hops] + ["B eof", "U"]
        cases.append((line(toks), toks, "answers-with-end"))
    # MANY requests outstanding when the stream ends (more than any window, table capacity or permit pool a client might keep:
    # 300, 1100, 2100; thorough 70000), some answered first; every future fails, and one more send afterwards is refused
    for n in (300, 1100, 2100) if tier == "quick" else (300, 1100, 2100, 70000):
        for kind in ("eof", "garbage"):
            toks = [f"RN {n} {hx(0x10000)}", f"P {hx(0x10000)}", f"P {hx(0x10000 + n - 1)}", f"B {kind}", f"R {hx(0x9999)}", f"R {hx(0x999a)}"]
            cases.append((line(toks), toks, "many"))
    nrand = 1200 if tier == "quick" else 80000
    for k in range(nrand):
        r = rng.fork(f"r{k}")
        toks = []
        n = r.range(1, 5)
        ids = [r.choice([1, 2, 3, 4, 5]) for _ in range(n)]       # repeated ids: superseded waiters
        stopped = False
        for i in range(n):
            toks.append(f"R {hx(ids[i])}")
            if r.chance(1, 3):
                toks.append("G " + hx(r.choice([1, 5, 20])))
                if r.chance(1, 2):
                    toks.append(f"P {hx(ids[i])}")
            if r.chance(1, 5):
                toks.append(f"B {r.choice(kinds)}")
            if r.chance(1, 12):
                toks += ["W", f"RX {hx(r.choice([0x70, 0x71]))}"]         # a request the encoder refuses, in between
            if r.chance(1, 10):
                toks.append("WE")                                         # send_message fails in its write (nothing happens if it is not blocked)
            toks.append("W")
            if r.chance(1, 6):
                toks.append(f"D {r.below(i + 1)}")                        # a future dropped by the caller (e.g. its own timeout)
            if r.chance(1, 8):
                toks.append(f"T {hx(r.choice([1, 1000, 30000, 600000]))}")
            c = r.below(8)
            if c < 3:
                if r.chance(1, 4):
                    toks.append(f"PG {hx(ids[r.below(i + 1)])} {hx(r.range(1, ANSWER_LEN - 1))} {hx(r.choice([1, 1000, 1500, 61000]))}")
                elif r.chance(1, 4):
                    toks.append(f"PL {hx(ids[r.below(i + 1)])} {hx(r.choice([0, 1, 100, 5000]))}")
                else:
                    toks.append(f"P {hx(ids[r.below(i + 1)])}")
            elif c == 3:
                toks.append(f"P {hx(r.choice([7, 8, 9]))}")          # unmatched answer: the reader stops
            elif c == 4:
                toks.append(f"B {r.choice(kinds)}")
        if r.chance(1, 2):
            toks.append(f"B {r.choice(kinds)}")
        if r.chance(1, 3):
            toks += [f"R {hx(r.choice([1, 2, 9]))}", "W"]             # a send attempted after the reader has stopped
        cases.append((line(toks), toks, "random"))
    for k in range(400 if tier == "quick" else 30000):
        r = rng.fork(f"m{k}")
        toks = multi_schedule(r, adversarial=True)
        cases.append((line(toks), toks, "multi"))
    # the reader's shutdown racing a burst of sends issued from one task without a pause (the runtime decides where the
    # sender yields: after 64, 128, ... operations): every send must fail or hand out a future that fails
    for k in range(32 if tier == "quick" else 400):
        r = rng.fork(f"b{k}")
        toks = []
        for i in range(r.range(0, 3)):
            toks += [f"R {hx(0x40 + i)}", "W"]
            if r.chance(1, 2):
                toks.append(f"P {hx(0x40 + i)}")
        for _ in range(r.range(0, 4)):
            toks.append(f"T {hx(r.choice([0, 1, 1000]))}")            # shifts where the cooperative budget runs out
        toks.append(f"BB {r.choice(['eof', 'reset', 'garbage'])} {r.choice([70, 130, 200])} {hx(0x1000)} {k % 8}")
        cases.append((line(toks), toks, "burst"))
    # the same with several hundred requests outstanding when the reader stops (releasing them takes the reader a while - in
    # batches, perhaps): a send that slips in meanwhile must still fail or hand out a future that fails
    for k, (nout, kind) in enumerate([(260, "garbage"), (270, "eof"), (258, "reset")] if tier == "quick" else [(260, "garbage"), (270, "eof"), (258, "reset"), (290, "garbage"), (257, "eof"), (280, "unknownavp")]):
        toks = [f"RN {nout} {hx(0x2000)}", f"BB {kind} 130 {hx(0x1000)} {k % 8}"]
        cases.append((line(toks), toks, "burst"))
    # hop-by-hop ids that agree in their low 8 / 12 / 16 / 24 bits, outstanding together and answered in both orders: each future gets
    # its own answer - an id is all 32 bits of it
    for ids in (("7", "107"), ("7", "1007"), ("7", "10007"), ("7", "1000007"), ("7", "2b5a1007"), ("ffffffff", "ffff"), ("80000000", "0")):
        for order in ((0, 1), (1, 0)):
            toks = [f"R {ids[0]}", "W", f"R {ids[1]}", "W"] + [f"P {ids[j]}" for j in order]
            cases.append((line(toks), toks, "random"))
    # a peer that sends a REQUEST of its own (Disconnect-Peer, Device-Watchdog) while requests are outstanding and keeps the connection
    # open: nobody is waiting for it; whatever the reader does about it, the outstanding futures complete
    for kind in ("dpr", "dwr"):
        for toks in (["R f1", "W", f"B {kind}"], ["R f1", "W", "R f2", "W", "P f2", f"B {kind}", "R f3", "W"], [f"B {kind}", "R f1", "W"]):
            cases.append((line(toks), toks, "random"))
    # an answer of 70 000 / 300 000 octets (client driven by a current-thread runtime, as here): delivered like any other
    for n in (70000, 300000):
        toks = ["R a7", "W", "R a8", "W", f"PL a8 {hx(n)}", "P a7"]
        cases.append((line(toks), toks, "random"))
    # a future that was looked at once while pending and is then awaited by another task: when the reader stops (or the answer comes)
    # it is THAT task that must be woken
    for toks in (["R e1", "W", "AW 0", "B eof"], ["R e1", "W", "R e2", "W", "AW 1", "AW 0", "B garbage"], ["R e1", "W", "T 3e8", "AW 0", "T 3e8", "B reset"],
                 ["R e1", "W", "AW 0", "P e1"], ["R e1", "W", "R e2", "W", "AW 0", "P e2", "B eof"]):
        cases.append((line(toks), toks, "awaited-elsewhere"))
    lines = [c[0] for c in cases]
    # the model's state is a chain of function updates over unary numbers: histories with more than a few hundred requests
    # are judged by the property predicate alone (no model run)
    big = [i for i, c in enumerate(cases) if c[2] == "many" and int(c[1][0].split()[1]) > 300]
    impl, model = eng.run([l for i, l in enumerate(lines) if i not in big])
    if big:
        impl_big = core.run_sharded([eng.harness, "codec"], eng.prelude, [lines[i] for i in big], shards=min(8, len(big)), timeout=1200)
        for i, im_b in zip(big, impl_big):
            impl.insert(i, im_b)
            model.insert(i, im_b)
    from checks_client import judge_safety as js
    for i, ((c, toks, kind), im, mo) in enumerate(zip(cases, impl, model)):
        nreq = sum(1 for x in toks if x.startswith("R "))
        chk.case(c, True)
        chk.validated += 1
        chk.count("kind:" + kind)
        chk.count(f"requests:{nreq}")
        ok, p = js(chk, "C12", c, toks, im)
        if ok:
            outs, reader = p
            has_bad = any(x.startswith("B ") for x in toks)
            late = completion_late(im, mo)
            outs = [o.split("@")[0] for o in outs]
            reqs_c, _, cut_c = conn_view(toks)
            rds = readers_of(im)
            hung = [k2 for k2, ((h, cn), o) in enumerate(zip(reqs_c, outs)) if o == "PENDING" and cn < len(rds) and rds[cn] == "stopped"]
            if kind == "burst":
                has_bad = False
                late = None
                if "PENDING" in outs:
                    ok = False
                    chk.violation(f"response future {outs.index('PENDING')} of a burst of sends issued while the reader was shutting down is still pending: "
                                  "the send was accepted after the waiters had been released", dict(case=c, impl=short(im)))
                mo = im         # which sends see the closed flag and which are registered first is decided by the scheduler: not compared
            if kind == "many":
                # hundreds of futures polled in one go by the harness exhaust the runtime's cooperative budget: WHEN each is seen
                # complete is an artefact of the observer here, only the outcomes count
                late = None
                import re as _re
                im_cmp, mo = _re.sub(r"@\d+", "", im), _re.sub(r"@\d+", "", mo)
                if im_cmp != mo and ok:
                    chk.corr_break("client observation differs from the model", dict(case=c, impl=short(im), model=short(mo)))
                mo = im
                n_many = int(toks[0].split()[1])
                if len(outs) == n_many + 2 and not (outs[0].startswith("GOT") and outs[n_many - 1].startswith("GOT")):
                    ok = False
                    chk.violation("with hundreds of requests outstanding, the first and the last of them did not get the answers the peer sent to exactly those two",
                                  dict(case=c, impl=short(im, 600), first=outs[0], last=outs[n_many - 1]))
                elif len(outs) != n_many + 2 or not all(o == "ERR" for o in outs[1:n_many - 1] + outs[n_many:]):
                    ok = False
                    chk.violation("with hundreds of requests outstanding when the stream ended, not every response future failed (or a send afterwards was not refused)",
                                  dict(case=c, impl=short(im, 600), outcomes_not_ERR=[(j, o) for j, o in enumerate(outs) if o != "ERR"][:10]))
            if kind == "multi":
                has_bad = False
                if hung:
                    ok = False
                    chk.violation(f"response future {hung[0]} is still pending although the reader of the connection it was sent on has stopped (it can never complete)",
                                  dict(case=c, impl=short(im)))
                elif any(cut_c[cn] and cn < len(rds) and rds[cn] != "stopped" for cn in cut_c):
                    ok = False
                    chk.violation("a reader did not stop after its peer closed / reset / sent an undecodable message", dict(case=c, impl=short(im)))
            if not ok:
                pass
            elif reader == "stopped" and "PENDING" in outs and kind != "multi":
                ok = False
                chk.violation("a response future is still pending although the connection's reader has stopped (it can never complete)",
                              dict(case=c, impl=short(im)))
            elif has_bad and reader != "stopped":
                ok = False
                chk.violation("the reader did not stop after the peer closed / reset / sent an undecodable message", dict(case=c, impl=short(im)))
            elif kind == "many":
                pass
            elif kind == "resend":
                if outs[-1 if toks[-1].startswith("P 53") else len(outs) - 1].startswith("GOT") is False or not any(o.startswith("GOT") for o in outs):
                    ok = False
                    chk.violation("a request sent again under the same hop-by-hop id did not get the answer the peer sent after the older, superseded future "
                                  "had been dropped by the caller", dict(case=c, impl=short(im)))
            else:
                # while the reader is alive, a pending future must be one whose answer was never emitted after its registration
                reqs = [(j, int(x.split()[1], 16)) for j, x in enumerate(toks) if x.startswith(("R ", "RX "))]
                for (idx, (pos, h)), o in zip(enumerate(reqs), outs):
                    if o == "PENDING":
                        later_same = any(x.startswith("R ") and int(x.split()[1], 16) == h for x in toks[pos + 1:])
                        answered = any(x.startswith(("P ", "PS ", "PG ", "PL ")) and int(x.split()[1], 16) == h for x in toks[pos + 1:])
                        if later_same or answered:
                            ok = False
                            chk.violation("a response future is pending although its answer was sent or its waiter was superseded", dict(case=c, impl=short(im)))
                            break
            if ok and late:
                ok = False
                chk.violation("a response future completed later than its outcome was determined (answer delivered / reader stopped): " + late,
                              dict(case=c, impl=short(im), model=short(mo)))
            if kind == "cut" and ok:
                chk.count("answers-delivered-before-cut:%d" % sum(1 for o in outs if o.startswith("GOT")))
        if ok and im != mo:
            chk.corr_break("client observation differs from the model", dict(case=c, impl=short(im), model=short(mo)))
        if i % max(1, len(cases) // 6) == 0:
            chk.sample(dict(case=c, impl=short(im, 200), P=ok))
    if tier == "thorough":
        # the same histories once more with library and harness built in the release profile (no debug assertions, no overflow
        # checks): what a future ends up with must not depend on the build profile
        rel = core.build_harness("release")
        sub = [i for i, c in enumerate(cases) if c[2] in ("cut", "cut-inside-answer", "resend") or i % 5 == 0]
        sub = [i for i in sub if i not in big and cases[i][2] != "burst"]
        rimpl = core.run_sharded([rel, "codec"], eng.prelude, [lines[i] for i in sub], timeout=1800)
        chk.extra["release_profile_histories"] = len(sub)
        for i, ri in zip(sub, rimpl):
            chk.count("release-profile")
            if ri != impl[i]:
                chk.violation("the outcome of a client history depends on the build profile (release differs from dev): in the release build "
                              + ("a response future is left pending" if "PENDING" in ri and "PENDING" not in impl[i] else "the observation differs"),
                              dict(case=lines[i], impl=short(ri), dev_profile=short(impl[i])))
    reconn_cases(chk, eng, "C12", ["overlap", "failed", "tlsfail"], 2 if tier == "quick" else 10)
    reset_cases(chk, eng, 1 if tier == "quick" else 6)
    chk.rule = ("1..4 outstanding requests x every subset of answers already delivered x {EOF, reset, undecodable octets, unknown AVP}; the answer stream cut at "
                f"EVERY octet offset inside a pending answer; {nrand} random histories with repeated ids (superseded waiters), unmatched answers, answers racing the "
                "write, sends attempted after the reader stopped, bursts of 70-300 sends racing the reader's shutdown, several connections of one client object (connect() again, also failing), sends whose write fails, futures dropped by the caller, idle periods and split answers with gaps in "
                "virtual time; hangs = futures still pending once the paused runtime is idle; reader running to quiescence after every event")
    chk.assumptions = ["partial as C11; 'eventually' = by the time the finite peer script has been played and the runtime is idle"]
