"""Orchestrator core: builds, process wrappers, PRNG, verdicts, evidence.  stdlib only."""
import hashlib, json, os, re, resource, subprocess, sys, time, shutil

ROOT = os.path.dirname(os.path.dirname(os.path.abspath(__file__)))
REPO = os.environ.get("VERIF_REPO", "/repo")
CACHE = os.path.join(ROOT, ".cache")
COQ = os.path.join(ROOT, "coq")
OCAML = os.path.join(ROOT, "ocaml")
HARNESS = os.path.join(ROOT, "harness")
TARGET = os.path.join(CACHE, "target")
EVID = os.path.join(ROOT, "evidence") if REPO == "/repo" else os.path.join(CACHE, "evidence-alt" + os.environ.get("VERIF_LANE", ""))
REPLAYS = os.path.join(ROOT, "replays")
NPROC = min(16, os.cpu_count() or 1)

ENV = dict(os.environ, CARGO_NET_OFFLINE="true", CARGO_TARGET_DIR=TARGET)


class MachineryError(Exception):
    """The machinery itself could not run (exit status 2, never a violation)."""


def log(*a):
    print(*a, file=sys.stderr, flush=True)


def sha(s):
    if isinstance(s, str):
        s = s.encode()
    return hashlib.sha256(s).hexdigest()


# ---------------------------------------------------------------- PRNG
class Rng:
    """splitmix64; every random choice of a run derives from one state."""
    M = (1 << 64) - 1

    def __init__(self, seed):
        self.s = (seed * 0x9E3779B97F4A7C15 + 0x1234567) & self.M

    def next(self):
        self.s = (self.s + 0x9E3779B97F4A7C15) & self.M
        z = self.s
        z = ((z ^ (z >> 30)) * 0xBF58476D1CE4E5B9) & self.M
        z = ((z ^ (z >> 27)) * 0x94D049BB133111EB) & self.M
        return z ^ (z >> 31)

    def below(self, n):
        return self.next() % n if n > 0 else 0

    def range(self, lo, hi):
        return lo + self.below(hi - lo + 1)

    def chance(self, num, den):
        return self.below(den) < num

    def choice(self, xs):
        return xs[self.below(len(xs))]

    def bytes(self, n):
        out = bytearray()
        while len(out) < n:
            out += self.next().to_bytes(8, "little")
        return bytes(out[:n])

    def fork(self, tag):
        return Rng(int(sha(f"{self.s}:{tag}")[:15], 16))

    def shuffle(self, xs):
        xs = list(xs)
        for i in range(len(xs) - 1, 0, -1):
            j = self.below(i + 1)
            xs[i], xs[j] = xs[j], xs[i]
        return xs


# ---------------------------------------------------------------- builds
def run_cmd(cmd, cwd=None, timeout=3600, env=None, check=True):
    p = subprocess.run(cmd, cwd=cwd, env=env or ENV, stdout=subprocess.PIPE, stderr=subprocess.STDOUT,
                       timeout=timeout, text=True, shell=isinstance(cmd, str))
    if check and p.returncode != 0:
        raise MachineryError(f"command failed ({p.returncode}): {cmd}\n{p.stdout[-4000:]}")
    return p


def coq_sources():
    out = []
    for d, _, fs in os.walk(os.path.join(COQ, "theories")):
        for f in fs:
            if f.endswith(".v"):
                out.append(os.path.join(d, f))
    return sorted(out)


def coq_make(targets=None):
    """Full .vo build (never -vos).  Returns (ok, output)."""
    if not os.path.exists(os.path.join(COQ, "Makefile")) or \
            os.path.getmtime(os.path.join(COQ, "Makefile")) < os.path.getmtime(os.path.join(COQ, "_CoqProject")):
        run_cmd(["coq_makefile", "-f", "_CoqProject", "-o", "Makefile"], cwd=COQ)
    cmd = ["timeout", "3000", "make", f"-j{NPROC}"] + (targets or [])
    p = run_cmd(cmd, cwd=COQ, check=False, timeout=3100)
    return p.returncode == 0, p.stdout


def build_runner():
    """Extract the model and compile the OCaml runner; cached by content hash of its inputs."""
    import fcntl
    with open(os.path.join(COQ, ".build.lock"), "w") as lk:
        fcntl.flock(lk, fcntl.LOCK_EX)
        return _build_runner()


def _build_runner():
    gen = os.path.join(OCAML, "gen")
    os.makedirs(gen, exist_ok=True)
    srcs = [p for p in coq_sources() if "/Proofs/" not in p and "/Properties/" not in p and "/Refuted/" not in p
            and "/Float/" not in p]
    h = sha("".join(open(p).read() for p in srcs) + open(os.path.join(OCAML, "driver.ml")).read())
    stamp = os.path.join(gen, "stamp")
    runner = os.path.join(gen, "runner")
    if os.path.exists(stamp) and os.path.exists(runner) and open(stamp).read() == h:
        return runner
    ok, out = coq_make(["theories/Model/Build.vo", "theories/Model/Stream.vo", "theories/Model/Server.vo",
                        "theories/Model/Client.vo", "theories/Model/ClientMulti.vo", "theories/Model/ClientObj.vo", "theories/Model/Listener.vo",
                        "theories/Model/Tls.vo"]
                       if os.path.exists(os.path.join(COQ, "theories/Model/Tls.v")) else ["theories/Model/Build.vo"])
    if not ok:
        raise MachineryError("model does not compile:\n" + out[-3000:])
    run_cmd(["coqc", "-Q", os.path.join(COQ, "theories"), "DV",
             os.path.join(COQ, "theories/Extract/Extract.v")], cwd=gen, timeout=600)
    shutil.copy(os.path.join(OCAML, "driver.ml"), os.path.join(gen, "driver.ml"))
    run_cmd(["ocamlfind", "ocamlopt", "-w", "-a", "-package", "unix", "-linkpkg", "model.mli", "model.ml", "driver.ml", "-o", "runner"],
            cwd=gen, timeout=600)
    open(stamp, "w").write(h)
    return runner


_harness_built = {}


def build_harness(profile="dev"):
    """cargo build of the harness against /repo's current working tree (incremental)."""
    if profile in _harness_built:
        return _harness_built[profile]
    os.makedirs(TARGET, exist_ok=True)
    lock = os.path.join(REPO, "Cargo.lock")
    if os.path.exists(lock):
        # same dependency versions as the repository's own build
        dst = os.path.join(HARNESS, "Cargo.lock")
        src = open(lock).read()
        if not os.path.exists(dst) or "name = \"dverif\"" not in open(dst).read():
            open(dst, "w").write(src)
    cmd = ["cargo", "build", "--offline"] + (["--release"] if profile == "release" else [])
    env = ENV
    hdir, tdir = HARNESS, TARGET
    if REPO != "/repo":
        # development aid: run the checks against another checkout (VERIF_REPO), e.g. a clean worktree while
        # /repo itself carries a seeded change.  Registered commands never set VERIF_REPO.
        lane = os.environ.get("VERIF_LANE", "")
        hdir = os.path.join(CACHE, "harness-alt" + lane)
        tdir = TARGET + "-alt" + lane
        shutil.rmtree(hdir, ignore_errors=True)
        shutil.copytree(HARNESS, hdir, ignore=shutil.ignore_patterns("target"))
        ct = open(os.path.join(hdir, "Cargo.toml")).read().replace('path = "/repo"', f'path = "{REPO}"')
        open(os.path.join(hdir, "Cargo.toml"), "w").write(ct)
        env = dict(ENV, CARGO_TARGET_DIR=tdir)
    if os.environ.get("VERIF_COVERAGE"):
        # diagnostic only (tools/coverage.py): which lines of /repo/src does the correspondence exercise?
        cmd = ["cargo", "+nightly", "build", "--offline"]
        env = dict(ENV, RUSTFLAGS="-C instrument-coverage", CARGO_TARGET_DIR=TARGET + "-cov")
        profile = "cov"
    p = run_cmd(cmd, cwd=hdir, check=False, timeout=3000, env=env)
    if p.returncode != 0:
        raise MachineryError("harness does not build against the current tree "
                             "(a public signature it uses changed?):\n" + p.stdout[-3000:])
    exe = os.path.join(tdir, "release" if profile == "release" else "debug", "dverif")
    if profile == "cov":
        exe = os.path.join(TARGET + "-cov", "debug", "dverif")
    _harness_built[profile] = exe
    return exe


# ---------------------------------------------------------------- batch execution
def _unlimit_stack():
    try:
        soft, hard = resource.getrlimit(resource.RLIMIT_STACK)
        resource.setrlimit(resource.RLIMIT_STACK, (hard, hard))
    except Exception:
        pass


def run_batch(exe_args, lines, timeout=1200, unlimited_stack=False, env=None):
    """Feeds `lines` to the process, returns (list of output lines, crashed_at or None).
    If the process dies, crashed_at is the index of the case line it died on."""
    data = ("\n".join(lines) + "\n").encode()
    try:
        p = subprocess.run(exe_args, input=data, stdout=subprocess.PIPE, stderr=subprocess.PIPE, timeout=timeout,
                           preexec_fn=_unlimit_stack if unlimited_stack else None, env=env or ENV)
        out = p.stdout.decode(errors="replace").split("\n")
        if out and out[-1] == "":
            out.pop()
        if p.returncode != 0 or len(out) < len(lines):
            return out, len(out), f"exit={p.returncode} stderr={p.stderr.decode(errors='replace')[-300:]}"
        return out, None, ""
    except subprocess.TimeoutExpired as e:
        out = (e.stdout or b"").decode(errors="replace").split("\n")
        if out and out[-1] == "":
            out.pop()
        return out, len(out), "timeout"


CRASH_BUDGET = 8      # worker deaths (crash, abort, hang) tolerated per batch before the rest is skipped


def run_sharded(exe_args, prelude, cases, shards=None, timeout=1200, unlimited_stack=False, env=None):
    """Runs cases over several processes (each gets `prelude` first).  Returns the output line per
    case; a case that killed its worker yields 'CRASH <why>' and the shard resumes after it."""
    from concurrent.futures import ThreadPoolExecutor
    n = len(cases)
    if n == 0:
        return []
    shards = shards or min(NPROC, max(1, n // 200))
    bounds = [(i * n // shards, (i + 1) * n // shards) for i in range(shards)]
    results = [None] * n
    crashes = [0]

    def work(b):
        lo, hi = b
        pos = lo
        while pos < hi:
            if crashes[0] >= CRASH_BUDGET:
                # enough workers have died: the remaining cases are not run (judges ignore SKIP lines)
                for k in range(pos, hi):
                    results[k] = "SKIP crash budget exhausted"
                return True
            lines = prelude + cases[pos:hi]
            out, crashed, why = run_batch(exe_args, lines, timeout=timeout, unlimited_stack=unlimited_stack, env=env)
            body = out[len(prelude):]
            for k, l in enumerate(body[: hi - pos]):
                results[pos + k] = l
            if crashed is None:
                pos = hi
            else:
                idx = pos + max(0, crashed - len(prelude))
                if idx >= hi:
                    pos = hi
                else:
                    crashes[0] += 1
                    if "exit=97" in why:
                        why = "HANG the case ran longer than the per-case wall-clock limit (harness watchdog) " + why
                    results[idx] = "CRASH " + why.replace("\n", " ")
                    pos = idx + 1
        return True

    with ThreadPoolExecutor(max_workers=shards) as ex:
        list(ex.map(work, bounds))
    return [r if r is not None else "CRASH missing" for r in results]


# ---------------------------------------------------------------- proofs
ALLOWED_AXIOMS = {
    # declared by Coq's standard library; reached only through Flocq/Reals (C17_ieee754*)
    "ClassicalDedekindReals.sig_not_dec", "ClassicalDedekindReals.sig_forall_dec",
    "FunctionalExtensionality.functional_extensionality_dep", "Classical_Prop.classic",
}
FORBIDDEN = re.compile(r"\b(Admitted|admit|Axiom|Axioms|Parameter|Parameters|Conjecture|Hypothesis|Variable|Variables|Hypotheses)\b|Unset Guard|bypass_check|type-in-type|impredicative-set|Admit Obligations")


def strip_comments(src):
    out, depth, i = [], 0, 0
    while i < len(src):
        if src.startswith("(*", i):
            depth += 1
            i += 2
        elif src.startswith("*)", i) and depth > 0:
            depth -= 1
            i += 2
        else:
            if depth == 0:
                out.append(src[i])
            i += 1
    return "".join(out)


def audit_sources():
    """No Admitted / Axiom / Parameter ... anywhere.  Variable/Hypothesis are allowed inside Sections only."""
    problems = []
    for p in coq_sources():
        src = strip_comments(open(p).read())
        depth = 0
        for ln, line in enumerate(src.split("\n"), 1):
            if re.match(r"\s*Section\b", line):
                depth += 1
            if re.match(r"\s*End\b", line) and depth > 0:
                depth -= 1
            for m in FORBIDDEN.finditer(line):
                w = m.group(0)
                if w in ("Variable", "Variables", "Hypothesis", "Hypotheses") and depth > 0:
                    continue
                problems.append(f"{os.path.relpath(p, COQ)}:{ln}: {w}")
    return problems


def parse_assumptions(output):
    """Splits coqc output into Print Assumptions blocks.  Returns list of sets of axiom names
    (empty set = closed under the global context)."""
    blocks = []
    cur = None
    for line in output.split("\n"):
        if line.startswith("Closed under the global context"):
            blocks.append(set())
            cur = None
        elif line.startswith("Axioms:"):
            cur = set()
            blocks.append(cur)
        elif cur is not None:
            m = re.match(r"^([A-Za-z_][\w.']*)\s*:", line)
            if m:
                cur.add(m.group(1))
            elif line.strip() == "" or not line.startswith(" "):
                if line.strip() and not line.startswith(" "):
                    cur = None
    return blocks


def check_proofs(pid, tier="quick"):
    """Builds Properties/<pid>.v (and <pid>f.v, the file allowed to depend on the named standard-library
    axioms, when it exists) from source and audits them.
    Returns dict(obligations, discharged, theorems, axioms, problems)."""
    res = dict(obligations=0, discharged=0, theorems=[], axioms=[], problems=[])
    files = [f for f in (f"{pid}.v", f"{pid}f.v") if os.path.exists(os.path.join(COQ, "theories", "Properties", f))]
    if not files:
        res["problems"].append("no property file")
        return res
    pins_path = os.path.join(COQ, "pins.json")
    pins = json.load(open(pins_path)) if os.path.exists(pins_path) else {}
    res["problems"] += audit_sources()
    allax = set()
    for fname in files:
        vfile = os.path.join(COQ, "theories", "Properties", fname)
        code = strip_comments(open(vfile).read())
        thms = re.findall(r"^\s*Theorem\s+([\w']+)", code, flags=re.M)
        res["theorems"] += thms
        res["obligations"] += len(thms)
        # (a) property files contain statements closed by `exact`, nothing else
        bodies = re.findall(r"Proof\.(.*?)Qed\.", code, flags=re.S)
        for b in bodies:
            if not re.fullmatch(r"\s*(intros[^.;]*[.;]\s*)?(exact|apply)\s[^;]*\.\s*", b) or \
                    re.search(r"\b(lia|auto|eauto|induction|destruct|rewrite|tauto|firstorder|admit|vm_compute|reflexivity|by)\b", b):
                res["problems"].append(f"{fname}: property proof is not a single exact/apply: " + b.strip()[:80])
        if len(bodies) != len(thms):
            res["problems"].append(f"{fname}: theorem/proof count mismatch")
        if code.count("Print Assumptions") < len(thms):
            res["problems"].append(f"{fname}: missing Print Assumptions")
        if re.search(r"^\s*(Lemma|Definition|Fixpoint|Example|Corollary|Fact|Remark|Ltac|Notation|Instance)\b", code, flags=re.M):
            res["problems"].append(f"{fname}: property file contains more than statements")
        # (b) pinned statements
        norm = sha(re.sub(r"\s+", " ", code).strip())
        if pins.get(fname[:-2]) != norm:
            res["problems"].append(f"statement pin mismatch for {fname} (coq/pins.json)")
        # build dependencies, then compile the property file itself to capture Print Assumptions
        # (one build at a time per checkout: two checks running side by side would otherwise write the same .vo files)
        import fcntl
        with open(os.path.join(COQ, ".build.lock"), "w") as lk:
            fcntl.flock(lk, fcntl.LOCK_EX)
            ok, out = coq_make([f"theories/Properties/{fname}o"])
            p = run_cmd(["timeout", "900", "coqc", "-Q", "theories", "DV", f"theories/Properties/{fname}"], cwd=COQ, check=False) if ok else None
        if not ok:
            res["problems"].append(f"proof obligations of {fname} do not build: " + out[-1500:])
            continue
        if p.returncode != 0:
            res["problems"].append(f"{fname} does not compile: " + p.stdout[-1500:])
            continue
        blocks = parse_assumptions(p.stdout)
        if len(blocks) < len(thms):
            res["problems"].append(f"{fname}: expected {len(thms)} Print Assumptions blocks, got {len(blocks)}")
        allowed = ALLOWED_AXIOMS if fname.endswith("f.v") else set()
        for b in blocks:
            allax |= b
            if not b <= allowed:
                res["problems"].append(f"{fname}: axioms outside the allow-list: " + ", ".join(sorted(b - allowed)))
    res["axioms"] = sorted(allax)
    if tier == "thorough" and not res["problems"]:
        # independent re-check of the compiled files and everything they depend on
        mods = [f"DV.Properties.{f[:-2]}" for f in files]
        p = run_cmd(["timeout", "2400", "coqchk", "-silent", "-o", "-Q", "theories", "DV"] + mods, cwd=COQ, check=False, timeout=2500)
        out = p.stdout
        res["coqchk"] = "ok" if p.returncode == 0 else "failed"
        if p.returncode != 0:
            res["problems"].append("coqchk rejects the compiled development: " + out[-800:])
        else:
            m = re.search(r"\* Axioms:(.*?)\n\s*\n\* Constants/Inductives relying on type-in-type:(.*?)\n\s*\n\* Constants/Inductives relying on unsafe \(co\)fixpoints:(.*?)\n\s*\n\* Inductives whose positivity is assumed:(.*?)\n", out, flags=re.S)
            if not m:
                res["problems"].append("coqchk summary not understood: " + out[-400:])
            else:
                ax = [x.strip() for x in m.group(1).split("\n") if x.strip() and x.strip() != "<none>"]
                res["coqchk_axioms"] = ax
                allowed_any = any(f.endswith("f.v") for f in files)
                for a in ax:
                    base = a.split()[0]
                    if not (allowed_any and any(base.endswith(x.split(".")[-1]) or x in base for x in ALLOWED_AXIOMS)):
                        res["problems"].append("coqchk reports an axiom outside the allow-list: " + a)
                for k, g in enumerate(m.groups()[1:]):
                    if g.strip() != "<none>":
                        res["problems"].append("coqchk reports relaxed kernel checks: " + g.strip()[:200])
    # the table-like parts of the current source (type names, command / application tables, frame limit, header length,
    # epoch offset) translated to Coq and proved to be the model's (lib/srctie.py); shapes the translator does not
    # recognise are reported, not alarmed on
    try:
        import srctie
        tie = srctie.check(pid, REPO, COQ, os.path.join(CACHE, "srctie" + os.environ.get("VERIF_LANE", "")))
        res["source_tie"] = dict(status=tie["status"], tied=tie["tied"], not_recognised=tie["not_recognised"])
        res["obligations"] += len(tie["tied"])
        res["theorems"] += ["source_tie:" + t for t in tie["tied"]]
        if tie["status"] == "disagree":
            res["problems"].append("the tables / constants read out of the current source (" + ", ".join(tie["tied"]) + ") are not the model's: the generated "
                                   "file lib/srctie.py wrote does not check: " + tie["detail"][-700:])
    except Exception as e:           # the translator is an extra tie: its own failure is not a verdict
        res["source_tie"] = dict(status="translator-error", detail=str(e)[:300])
    res["discharged"] = res["obligations"] if not res["problems"] else 0
    return res


def update_pins():
    pins = {}
    d = os.path.join(COQ, "theories", "Properties")
    for f in sorted(os.listdir(d)):
        if re.fullmatch(r"C\d+f?\.v", f):
            code = strip_comments(open(os.path.join(d, f)).read())
            pins[f[:-2]] = sha(re.sub(r"\s+", " ", code).strip())
    json.dump(pins, open(os.path.join(COQ, "pins.json"), "w"), indent=1, sort_keys=True)
    return pins


# ---------------------------------------------------------------- known findings
def known_findings():
    p = os.path.join(ROOT, "known_findings.json")
    return json.load(open(p))["findings"] if os.path.exists(p) else []


# ---------------------------------------------------------------- verdict / evidence
TRUSTED_BASE = [
    "Coq 8.16.1 kernel (coqc; vm_compute used, native_compute not used)",
    "Coq extraction with ExtrOcamlBasic only (no Extract Constant); OCaml 4.13.1",
    "hand-written OCaml driver ocaml/driver.ml (parsing/printing of cases)",
    "Rust harness harness/ (runs the implementation through its public API + verif-hooks)",
    "Python orchestrator lib/ (generators, canonicalisation, comparison)",
    "lib/srctie.py: regular-expression translator of the source's tables/constants into Coq (an extra tie; unrecognised shapes are skipped)",
    "rustc/std, chrono, num-derive, serde-xml-rs, tokio, native-tls/OpenSSL: modelled or exercised, not verified",
]


class Check:
    """Collects what one run of one property's check did and renders verdict + evidence."""

    def __init__(self, pid, tier, seed):
        self.pid, self.tier, self.seed = pid, tier, seed
        self.t0 = time.time()
        self.evaluations = 0
        self.hashes = set()
        self.nontrivial_hashes = set()
        self.validated = 0
        self.violations = []        # (description, replay dict)
        self.corr_breaks = []       # (description, replay dict)
        self.known_hits = {}        # finding id -> count
        self.dist = {}
        self.samples = []
        self.proofs = None
        self.rule = ""
        self.assumptions = []
        self.extra = {}
        self.exhaustive = False

    def count(self, key, n=1):
        self.dist[key] = self.dist.get(key, 0) + n

    def case(self, text, nontrivial):
        self.evaluations += 1
        h = sha(text)[:16]
        self.hashes.add(h)
        if nontrivial:
            self.nontrivial_hashes.add(h)

    def sample(self, obj, limit=6):
        if len(self.samples) < limit:
            self.samples.append(obj)

    @staticmethod
    def _skipped(replay):
        return any(isinstance(v, str) and v.startswith("SKIP crash budget") for v in replay.values())

    def violation(self, what, replay):
        if self._skipped(replay):
            self.count("skipped-after-crash-budget")
            return
        self.violations.append((what, replay))

    def corr_break(self, what, replay):
        if self._skipped(replay):
            self.count("skipped-after-crash-budget")
            return
        self.corr_breaks.append((what, replay))

    def known(self, fid):
        self.known_hits[fid] = self.known_hits.get(fid, 0) + 1

    def finish(self):
        os.makedirs(EVID, exist_ok=True)
        os.makedirs(REPLAYS, exist_ok=True)
        lines = []
        status = 0
        pr = self.proofs or dict(obligations=0, discharged=0, theorems=[], axioms=[], problems=["proofs not run"])
        # a broken proof obligation with no failing input found
        if pr["problems"] and not self.violations:
            rp = self._write_replay("proof", dict(kind="proof-obligation", property=self.pid, problems=pr["problems"],
                                                  theorems=pr["theorems"]))
            lines.append(f"VIOLATION property={self.pid} replay={rp} no-failing-input-found")
            status = 1
        for fid, n in sorted(self.known_hits.items()):
            for f in known_findings():
                if f["id"] == fid and f["status"] == "open" and self.pid in f["properties"]:
                    lines.append(f["line"].replace("<id>", self.pid) if "<id>" in f["line"] else
                                 re.sub(r"property=\S+", f"property={self.pid}", f["line"], count=1))
        if self.violations:
            what, replay = self.violations[0]
            rp = self._write_replay(sha(json.dumps(replay, sort_keys=True))[:10], dict(replay, what=what, property=self.pid))
            lines.append(f"VIOLATION property={self.pid} replay={rp}")
            status = 1
        elif self.corr_breaks and status == 0:
            what, replay = self.corr_breaks[0]
            rp = self._write_replay(sha(json.dumps(replay, sort_keys=True))[:10],
                                    dict(replay, what=what, property=self.pid, kind="correspondence-broken"))
            lines.append(f"VIOLATION property={self.pid} replay={rp} no-failing-input-found")
            status = 1
        ev = dict(
            property_id=self.pid, tier=self.tier, seed=self.seed, level="proof",
            coverage=dict(
                obligations=pr["obligations"], discharged=pr["discharged"],
                checker_cmd=f"make -C coq theories/Properties/{self.pid}.vo && coqc theories/Properties/{self.pid}.v "
                            "(Print Assumptions allow-list, statement pins coq/pins.json, forbidden-word scan)",
                trusted_base=TRUSTED_BASE, theorems=pr["theorems"], axioms=pr["axioms"],
                proof_problems=pr["problems"],
                coqchk=pr.get("coqchk", "not run (thorough tier only)"), coqchk_axioms=pr.get("coqchk_axioms", []),
                source_tie=pr.get("source_tie", dict(status="not run")),
                evaluations=self.evaluations, distinct_nontrivial=len(self.nontrivial_hashes),
                distinct=len(self.hashes), rule=self.rule,
                traces_validated_against_impl=self.validated,
                distribution=self.dist, known_findings_hit=self.known_hits,
                correspondence_breaks=len(self.corr_breaks), samples=self.samples, exhaustive=self.exhaustive,
                **self.extra),
            assumptions=self.assumptions, wall_s=round(time.time() - self.t0, 2),
            violations=len(self.violations) + (1 if (pr["problems"] or self.corr_breaks) and not self.violations else 0))
        json.dump(ev, open(os.path.join(EVID, f"{self.pid}.json"), "w"), indent=1)
        for l in lines:
            print(l, flush=True)
        if status == 0 and "machinery_error" not in self.extra:
            print(f"OK property={self.pid} tier={self.tier} obligations={pr['obligations']} discharged={pr['discharged']} "
                  f"evaluations={self.evaluations} distinct_nontrivial={len(self.nontrivial_hashes)} "
                  f"wall_s={ev['wall_s']}", flush=True)
        return status

    def _write_replay(self, tag, obj):
        p = os.path.join(REPLAYS, f"{self.pid}-{tag}.json")
        obj = dict(obj, seed=self.seed, tier=self.tier)
        eng = getattr(self, "engine", None)
        if eng is not None and "case" in obj:
            # everything needed to run the case again: dictionaries and the measured nesting limit
            obj["prelude"] = list(eng.prelude)
        if isinstance(obj.get("case"), str) and len(obj["case"]) > 8_000_000:
            obj["case_truncated"] = True
            obj["case"] = obj["case"][:8_000_000]
        json.dump(obj, open(p, "w"), indent=1)
        return p
