"""Checks for the pure-codec properties."""
import core
from core import Rng, log
from proto import *
import gen
import engine_codec


def short(s, n=400):
    return s if len(s) <= n else s[:n] + f"...[{len(s)} chars]"


def kf1_open(pid):
    return any(f["id"] == "KF-1" and f["status"] == "open" and pid in f["properties"] for f in core.known_findings())


# ------------------------------------------------------------------ histories (C01, C16, C18 share them)
def gen_histories(rng, eng, n, big):
    cases = []
    for i in range(n):
        r = rng.fork(f"h{i}")
        did = r.choice(["g", "g", "x", "b"])
        start, ops = gen.gen_history(r, eng.dicts[did], maxops=r.choice([1, 3, 6, 10]), depth=r.choice([0, 1, 2, 3, 5]), big=big)
        cases.append(hist_line(did, start, ops))
    return cases


def exhaustive_type_table(eng):
    """all 17 leaf kinds + group x vendor/no vendor x M/P flags x every length residue"""
    r = Rng(12345)
    cases = []
    for kind in gen.LEAF_KINDS + ["grp"]:
        for vendor in (None, 10415):
            for fl in (0, 0x40, 0x20, 0x60):
                for res in range(4):
                    if kind in ("id", "utf"):
                        leafs = [("L", (kind, gen.gen_utf8(r, n))) for n in (res, res + 4, res + 252)]
                    elif kind in ("uri", "oct"):
                        leafs = [("L", (kind, r.bytes(n))) for n in (res, res + 4, res + 4092)]
                    elif kind == "ae":
                        leafs = [("L", (kind, b"1234567890123456"[: n])) for n in (1 + res, 5 + res, 9 + res, 12 + res) if n <= 15]
                    elif kind == "grp":
                        leafs = [("GN", [("E", 1011, None, 0, ("L", ("oct", r.bytes(res))))] * k) for k in (0, 1, 2)]
                    else:
                        if res:
                            continue
                        leafs = [("L", gen.gen_leaf(r, kind)) for _ in range(6)]
                    ti = TYS.index(KIND_TY.get(kind, "grp")) - 1
                    code = (1000 if vendor is None else 2000) + ti
                    for v in leafs:
                        cases.append(hist_line("g", ("NEW", 272, 4, 0x80, 1, 2), [("ADDAVP", code, vendor, fl, v)]))
    return cases


def judge_history(chk, pid, case, impl, model, want_enc=True):
    """returns True if P_impl holds.  Records violations / correspondence breaks / known hits."""
    mobs, oracle = split_obs(model)
    if impl.startswith("PANIC") or impl.startswith("CRASH"):
        chk.violation("implementation panicked while building/encoding a message", dict(case=case, impl=short(impl), model=short(mobs)))
        return False
    if mobs.startswith("PANIC") or mobs.startswith("OUTOFFUEL"):
        chk.corr_break("model outcome " + mobs[:20], dict(case=case, impl=short(impl), model=short(mobs)))
        return True
    try:
        ri, rm = parse_result(impl), parse_result(mobs)
    except Exception as e:
        chk.corr_break(f"unparsable observation: {e}", dict(case=case, impl=short(impl), model=short(mobs)))
        return True
    if rm.get("start") != "ok" or ri.get("start") != "ok":
        if rm.get("start") != ri.get("start"):
            chk.corr_break("start outcome differs", dict(case=case, impl=short(impl), model=short(mobs)))
        return True
    ok = True
    in_dom = oracle.get("WD") == "1"
    nomm = oracle.get("NOMM") == "1"
    why = []
    if ri["steps"] != rm["steps"]:
        why.append("per-call success/failure differs from what the dictionary determines")
    if abs_msg(ri["msg"]) != abs_msg(rm["msg"]):
        why.append("message content differs from what the history denotes")
    if in_dom:
        if ri["enc"] != oracle["SPEC"]:
            why.append("encoded octets differ from the reference RFC 6733 encoding")
        elif int(ri["msg"]["len"], 16) != (len(ri["enc"]) - 1) // 2:
            why.append("reported message length differs from octets produced")
    if why:
        if not nomm and kf1_open(pid):
            chk.known("KF-1")
        else:
            ok = False
            chk.violation("; ".join(why), dict(case=case, impl=short(impl, 3000), model=short(mobs, 3000), reference=short(oracle.get("SPEC", ""), 3000)))
    elif impl != mobs:
        chk.corr_break("observation differs from the model (stored lengths/padding or out-of-domain behaviour)",
                       dict(case=case, impl=short(impl, 3000), model=short(mobs, 3000)))
    return ok


def check_C01(chk, tier, seed):
    rng = Rng(seed).fork("C01")
    eng = engine_codec.setup(chk, rng)
    n = 3000 if tier == "quick" else 120000
    cases = exhaustive_type_table(eng)
    ntable = len(cases)
    cases += regress_cases("C01")
    cases += gen_histories(rng, eng, n, big=True)
    # decode-then-extend: frames produced by the reference encoder become starting points
    impl, model = eng.run(cases)
    frames = []
    for c, m in zip(cases, model):
        _, o = split_obs(m)
        if o.get("WD") == "1":
            frames.append((c.split()[1], bytes.fromhex(o["SPEC"][1:])))
    frames = rng.fork("pick").shuffle(frames)[: (400 if tier == "quick" else 8000)]
    ext = []
    for i, (did, fr) in enumerate(frames):
        r = rng.fork(f"ext{i}")
        _, ops = gen.gen_history(r, eng.dicts[did], maxops=4, depth=2)
        ext.append(hist_line(did, ("DEC", fr), ops))
    impl2, model2 = eng.run(ext)
    allc = list(zip(cases + ext, impl + impl2, model + model2))
    for i, (c, im, mo) in enumerate(allc):
        toks = c.split()
        nontrivial = " A " in im or " A " in mo
        chk.case(c, nontrivial)
        chk.count("start:" + toks[2])
        chk.count("dict:" + toks[1])
        ok = judge_history(chk, "C01", c, im, mo)
        chk.validated += 1
        _, o = split_obs(mo)
        chk.count("in_wire_domain" if o.get("WD") == "1" else "outside_wire_domain_or_failed")
        if "DEPTH" in o:
            chk.count("depth:" + o["DEPTH"])
        if i % max(1, len(allc) // 5) == 0:
            chk.sample(dict(case=short(c, 300), impl=short(im, 300), P=ok))
    chk.rule = (f"exhaustive table of 18 kinds x vendor x M/P x length residue ({ntable} cases) + regression corpus + "
                f"{n} generated construction histories over 3 dictionaries + decode-then-extend of reference frames; "
                "non-trivial = message has at least one AVP; distinct by SHA-256 of the case line")
    chk.assumptions = ["values below 2^32 octets (Rust `as u32` casts)", "dictionary contents as read by xml.etree agree with serde-xml-rs (checked by C14/C15)"]


# ------------------------------------------------------------------ C17
def leaf_patterns(rng, k, bits):
    pats = set(gen.lanes(bits))
    for i in range(bits):
        pats.add(1 << i)
        pats.add(((1 << bits) - 1) ^ (1 << i))
    for lane in range(bits // 8):
        for v in range(256):
            pats.add(v << (8 * lane))
    r = rng.fork(f"pat{bits}")
    while len(pats) < k:
        pats.add(r.below(1 << bits))
    return sorted(pats)


def check_C17(chk, tier, seed):
    rng = Rng(seed).fork("C17")
    eng = engine_codec.setup(chk, rng, need_limit=False)
    n32 = 3000 if tier == "quick" else 200000
    n64 = 3000 if tier == "quick" else 200000
    cases = []
    for ty in ("u32", "i32", "en", "f32", "time", "ip4"):
        for p in leaf_patterns(rng, n32, 32):
            cases.append(f"LEAFDEC {ty} 4 {xb(p.to_bytes(4, 'big'))}")
    for ty in ("u64", "i64", "f64"):
        for p in leaf_patterns(rng, n64, 64):
            cases.append(f"LEAFDEC {ty} 8 {xb(p.to_bytes(8, 'big'))}")
    # encode side on in-range values
    r = rng.fork("enc")
    for k in ("u32", "i32", "en", "f32", "time", "ip4", "u64", "i64", "f64"):
        for _ in range(300 if tier == "quick" else 20000):
            cases.append("LEAFENC " + leaf_toks(gen.gen_leaf(r, k)))
    impl, model = eng.run(cases)
    for i, (c, im, mo) in enumerate(zip(cases, impl, model)):
        mobs, o = split_obs(mo)
        chk.case(c, True)
        chk.count(c.split()[1] if c.startswith("LEAFDEC") else "enc:" + c.split()[1])
        chk.validated += 1
        ok = im == mobs
        if c.startswith("LEAFDEC") and ok:
            # decode-then-encode must give back the same octets
            t = im.split()
            ok = t[0] == "OK" and t[4] == c.split()[3] and t[5] == "0"
        if not ok:
            chk.violation("four/eight-octet value codec is not the RFC 6733 bijection",
                          dict(case=c, impl=short(im), model=short(mobs)))
        if i % max(1, len(cases) // 6) == 0:
            chk.sample(dict(case=c, impl=im, model=mobs))
    if tier == "thorough":
        sweep32(chk, eng)
    chk.rule = ("every value of every byte lane, walking ones/zeros, boundaries and random patterns for the six 4-octet and three "
                "8-octet types, decoded and re-encoded by the implementation and by the extracted model; "
                "the model's output is the RFC value by theorems C17_*; non-trivial = every case; distinct by SHA-256")


def sweep32(chk, eng):
    """thorough: all 2^32 patterns x 6 types inside the harness against closed-form arithmetic"""
    shards = 64
    cases = []
    for ty in ("u32", "i32", "en", "f32", "time", "ip4"):
        for s in range(shards):
            lo = s * (1 << 32) // shards
            hi = (s + 1) * (1 << 32) // shards
            cases.append(f"SWEEP32 {ty} {lo:x} {hi:x}")
    out = core.run_sharded([core.build_harness("release"), "codec"], [], cases, shards=16, timeout=7200)
    total = 0
    for c, o in zip(cases, out):
        t = o.split()
        if t and t[0] == "SWEPT":
            total += int(t[1])
            if t[2] != "0":
                chk.violation("exhaustive sweep found a pattern that does not round-trip to the closed form",
                              dict(case=c, impl=o))
        else:
            chk.violation("sweep worker failed", dict(case=c, impl=o))
    chk.extra["sweep32_patterns_checked"] = total
    chk.exhaustive = True


# ------------------------------------------------------------------ regression corpus
def regress_cases(pid):
    import os, json
    p = os.path.join(core.ROOT, "corpus", "regress.json")
    if not os.path.exists(p):
        return []
    return [e["case"] for e in json.load(open(p)) if pid in e["properties"]]
