"""Checks for the pure-codec properties."""
import re
import core
from core import Rng, log
from proto import *
import gen
import engine_codec


def short(s, n=400):
    return s if len(s) <= n else s[:n] + f"...[{len(s)} chars]"


def kf1_open(pid):
    return any(f["id"] == "KF-1" and f["status"] == "open" and pid in f["properties"] for f in core.known_findings())


# ------------------------------------------------------------------ histories (C01, C16, C18 share them)
def gen_histories(rng, eng, n, big):
    cases = []
    for i in range(n):
        r = rng.fork(f"h{i}")
        did = r.choice(["g", "g", "x", "b"])
        start, ops = gen.gen_history(r, eng.dicts[did], maxops=r.choice([1, 3, 6, 10]), depth=r.choice([0, 1, 2, 3, 5]), big=big)
        cases.append(hist_line(did, start, ops))
    return cases


def exhaustive_type_table(eng):
    """all 17 leaf kinds + group x vendor/no vendor x M/P flags x every length residue"""
    r = Rng(12345)
    cases = []
    for kind in gen.LEAF_KINDS + ["grp"]:
        for vendor in (None, 10415):
            for fl in (0, 0x40, 0x20, 0x60):
                for res in range(4):
                    if kind in ("id", "utf"):
                        leafs = [("L", (kind, gen.gen_utf8(r, n))) for n in (res, res + 4, res + 252)]
                        if fl == 0x40 and res == 0:
                            leafs += [("L", (kind, b)) for b in gen.text_special_forms()]
                    elif kind in ("uri", "oct"):
                        leafs = [("L", (kind, r.bytes(n))) for n in (res, res + 4, res + 4092)]
                        if fl == 0x40 and res == 0:
                            leafs += [("L", (kind, b)) for b in gen.text_special_forms() + gen.uri_special_forms()]
                    elif kind == "ae":
                        leafs = [("L", (kind, b"1234567890123456"[: n])) for n in (1 + res, 5 + res, 9 + res, 12 + res) if n <= 15]
                        leafs += [("L", (kind, b"+123456789012345"[: n])) for n in (1 + res, 6 + res, 12 + res) if n <= 15]
                    elif kind == "grp":
                        leafs = [("GN", [("E", 1011, None, 0, ("L", ("oct", r.bytes(res))))] * k) for k in (0, 1, 2)]
                        if fl == 0 and res in (1, 3):
                            # many members that each need padding: the padding octets of a group add up past 255 and 65535/… boundaries of narrow counters
                            leafs += [("GN", [("E", 1011, None, 0, ("L", ("oct", r.bytes(res))))] * k) for k in (85, 86, 90, 300)]
                    else:
                        if res:
                            continue
                        leafs = [("L", gen.gen_leaf(r, kind)) for _ in range(6)]
                        if kind == "time" and fl == 0x40:
                            # the two ends of the wire range, the first instant of 1901-12-14 (Unix time i32::MIN + 1 s ...), leap seconds
                            leafs += [("L", ("time", v)) for v in (gen.TIME_LO, gen.TIME_LO + 1, gen.TIME_HI, -2147483649, -2147483648, -2147483647, 1483228799, 1341100799, 2147483647)]
                        if kind in ("ip4", "a4") and fl == 0x40:
                            leafs += [("L", (kind, b)) for b in (b"\0\0\0\0", b"\xff\xff\xff\xff", b"\xaa\xaa\xaa\xaa")]
                        if kind in ("u32", "i32", "en", "f32") and fl == 0x40:
                            # repeated-octet patterns (00, AA, 55, FF ...): values like any other
                            leafs += [("L", (kind, v if kind in ("u32", "f32") else (v - (1 << 32) if v >= (1 << 31) else v))) for v in (0, 0xaaaaaaaa, 0x55555555, 0xffffffff, 0x80000000, 0x7fc01234, 0xcdcdcdcd)]
                        if kind in ("a6", "ip6") and fl == 0x40:
                            leafs += [("L", (kind, b)) for b in gen.ipv6_special_forms()]
                        if kind in ("a4", "ip4") and fl == 0x40:
                            leafs += [("L", (kind, b)) for b in (b"\0\0\0\0", b"\xff\xff\xff\xff", b"\x7f\0\0\1", b"\xe0\0\0\1", b"\xa9\xfe\1\1")]
                    ti = TYS.index(KIND_TY.get(kind, "grp")) - 1
                    code = (1000 if vendor is None else 2000) + ti
                    for v in leafs:
                        cases.append(hist_line("g", ("NEW", 272, 4, 0x80, 1, 2), [("ADDAVP", code, vendor, fl, v)]))
    # built with vendor id None although the dictionary defines the code only under a vendor (and the other way round), and with a value
    # of a narrower / wider / other kind than the dictionary declares for the code: the builder does not consult the dictionary - what
    # goes out is what it was given
    for kind in gen.LEAF_KINDS:
        ti = TYS.index(KIND_TY.get(kind, "grp")) - 1
        leaf = ("L", gen.gen_leaf(r, kind))
        cases.append(hist_line("g", ("NEW", 272, 4, 0x80, 1, 2), [("ADDAVP", 2000 + ti, None, 0x40, leaf)]))
        cases.append(hist_line("g", ("NEW", 272, 4, 0x80, 1, 2), [("ADDAVP", 1000 + ti, 10415, 0x40, leaf)]))
    for (code_kind, val_kind) in (("u64", "u32"), ("i64", "i32"), ("u32", "u64"), ("i32", "i64"), ("f64", "f32"), ("utf", "oct"), ("oct", "utf"), ("time", "u32"), ("en", "i32"), ("ip6", "ip4"), ("a6", "ip6"), ("id", "utf")):
        ti = TYS.index(KIND_TY[code_kind]) - 1
        for vendor in (None, 10415):
            cases.append(hist_line("g", ("NEW", 272, 4, 0x80, 1, 2), [("ADDAVP", (1000 if vendor is None else 2000) + ti, vendor, 0x40, ("L", gen.gen_leaf(r, val_kind))),
                                                                     ("ADDAVP", 1011, None, 0, ("L", ("oct", b"next")))]))
    # every value length 0 .. 70 (and around 255 / 256) for the variable-length types, with and without a vendor id: whatever small-value
    # path an encoder has, its boundary is in here
    for kind in ("oct", "utf"):
        ti = TYS.index(KIND_TY[kind]) - 1
        for vendor in (None, 10415):
            code = (1000 if vendor is None else 2000) + ti
            for n in list(range(0, 71)) + [127, 128, 129, 254, 255, 256, 257]:
                v = ("L", (kind, bytes((7 + 3 * i) % 95 + 32 for i in range(n))))
                cases.append(hist_line("g", ("NEW", 272, 4, 0x80, 1, 2), [("ADDAVP", code, vendor, 0x40, v)]))
    # the same code twice, and once more under a vendor (Session-Id's code 263 among them): every AVP goes out, in the order added
    for c in (263, 264, 1011):
        cases.append(hist_line("g", ("NEW", 272, 4, 0x80, 1, 2), [("ADDAVP", 1011, None, 0, ("L", ("oct", b"first"))), ("ADDAVP", c, None, 0x40, ("L", ("utf", b"one"))),
                                                                  ("ADDAVP", c, 10415, 0x40, ("L", ("utf", b"two-vendor"))), ("ADDAVP", c, None, 0x40, ("L", ("utf", b"three"))),
                                                                  ("ADDAVP", 1012, None, 0, ("L", ("u32", 5)))]))
    # every command the library knows with every application, every flag nibble, ids at the edges
    for ci, cmd in enumerate(gen.CMDS):
        for ai, app in enumerate(gen.APPS):
            fl = [0x80, 0, 0x40, 0xc0, 0x20, 0x10, 0xf0, 0x90][(ci + ai) % 8]
            hbh, e2e = [(0, 0), (1, 0xffffffff), (0xffffffff, 1), (0x80000000, 0x7fffffff)][(ci * 6 + ai) % 4]
            cases.append(hist_line("g", ("NEW", cmd, app, fl, hbh, e2e), [("ADDAVP", 1011, None, 0, ("L", ("oct", b"hdr")))] if (ci + ai) % 2 else []))
    # Grouped AVPs nested 1 .. limit + 2 deep, built with the builder (what may be built may be encoded: the decoder's nesting
    # limit is the decoder's)
    grp = [d for d in eng.dicts["g"].live() if d["ty"] == "grp" and d["vendor"] is None][0]
    leafdef = [d for d in eng.dicts["g"].live() if d["ty"] == "u32" and d["vendor"] is None and 1000 <= d["code"] < 1100][0]
    for depth in list(range(1, 20, 3)) + list(range(28, min(eng.lim or 32, 200) + 3)):
        e = ("E", leafdef["code"], None, 0x40, ("L", ("u32", depth)))
        for _ in range(depth):
            e = ("E", grp["code"], None, 0, ("GN", [e]))
        cases.append(hist_line("g", ("NEW", 272, 4, 0x80, 1, 2), [("ADD", e)]))
    return cases


def judge_history(chk, pid, case, impl, model, want_enc=True):
    """returns True if P_impl holds.  Records violations / correspondence breaks / known hits."""
    mobs, oracle = split_obs(model)
    if impl.startswith("PANIC") or impl.startswith("CRASH"):
        chk.violation("implementation panicked while building/encoding a message", dict(case=case, impl=short(impl), model=short(mobs)))
        return False
    if mobs.startswith("PANIC") or mobs.startswith("OUTOFFUEL"):
        chk.corr_break("model outcome " + mobs[:20], dict(case=case, impl=short(impl), model=short(mobs)))
        return True
    try:
        ri, rm = parse_result(impl), parse_result(mobs)
    except Exception as e:
        chk.corr_break(f"unparsable observation: {e}", dict(case=case, impl=short(impl), model=short(mobs)))
        return True
    if rm.get("start") != "ok" or ri.get("start") != "ok":
        if rm.get("start") != ri.get("start"):
            chk.corr_break("start outcome differs", dict(case=case, impl=short(impl), model=short(mobs)))
        return True
    ok = True
    in_dom = oracle.get("WD") == "1"
    nomm = oracle.get("NOMM") == "1"
    why = []
    if ri["steps"] != rm["steps"]:
        why.append("per-call success/failure differs from what the dictionary determines")
    if abs_msg(ri["msg"]) != abs_msg(rm["msg"]):
        why.append("message content differs from what the history denotes")
    if in_dom:
        if ri["enc"] != oracle["SPEC"]:
            why.append("encoded octets differ from the reference RFC 6733 encoding")
        elif int(ri["msg"]["len"], 16) != (len(ri["enc"]) - 1) // 2:
            why.append("reported message length differs from octets produced")
    if why:
        if not nomm and kf1_open(pid):
            chk.known("KF-1")
        else:
            ok = False
            chk.violation("; ".join(why), dict(case=case, impl=short(impl, 3000), model=short(mobs, 3000), reference=short(oracle.get("SPEC", ""), 3000)))
    elif impl != mobs:
        chk.corr_break("observation differs from the model (stored lengths/padding or out-of-domain behaviour)",
                       dict(case=case, impl=short(impl, 3000), model=short(mobs, 3000)))
    return ok


def check_C01(chk, tier, seed):
    rng = Rng(seed).fork("C01")
    eng = engine_codec.setup(chk, rng)
    n = 3000 if tier == "quick" else 120000
    cases = exhaustive_type_table(eng)
    ntable = len(cases)
    cases += regress_cases("C01")
    cases += gen_histories(rng, eng, n, big=True)
    # decode-then-extend: frames produced by the reference encoder become starting points
    impl, model = eng.run(cases)
    frames = []
    for c, m in zip(cases, model):
        _, o = split_obs(m)
        if o.get("WD") == "1":
            frames.append((c.split()[1], bytes.fromhex(o["SPEC"][1:])))
    frames = rng.fork("pick").shuffle(frames)[: (400 if tier == "quick" else 8000)]
    ext = []
    for i, (did, fr) in enumerate(frames):
        r = rng.fork(f"ext{i}")
        _, ops = gen.gen_history(r, eng.dicts[did], maxops=4, depth=2)
        ext.append(hist_line(did, ("DEC", fr), ops))
    # decode-then-extend from frames that are NOT well-formed: whatever the decoder accepts must still encode consistently
    cf = corpus_frames(rng.fork("hostile"), eng, 150 if tier == "quick" else 3000)[: (60 if tier == "quick" else 1200)]
    for i, (kind, did, f, _) in enumerate(frame_families(rng.fork("hf"), eng, cf, 6 if tier == "quick" else 20)):
        if kind in ("wellformed", "random", "truncate") or len(f) < 20:
            continue
        r = rng.fork(f"hx{i}")
        _, ops = gen.gen_history(r, eng.dicts[did], maxops=2, depth=1)
        ext.append(hist_line(did, ("DEC", f), ops))
    impl2, model2 = eng.run(ext)
    allc = list(zip(cases + ext, impl + impl2, model + model2))
    # the implementation accepted a starting frame the model rejects (or vice versa): judge the implementation on its own
    # observation with the reference encoder (independent of the model's run)
    lonely = [k for k, (c, im, mo) in enumerate(allc) if im.startswith("R ok") and not split_obs(mo)[0].startswith("R ok")]
    spec = dict(zip(lonely, eng.ask_model(["SPEC " + msg_text(allc[k][1]) for k in lonely]))) if lonely else {}
    for k in lonely:
        c, im, mo = allc[k]
        t = spec[k].split()
        enc = im[im.rindex(" ENC ") + 5:]
        try:
            m = parse_result(im)["msg"]
        except Exception:
            continue
        if len(t) >= 6 and t[3] == "1":
            why = None
            if enc != t[1]:
                why = "encoded octets differ from the reference RFC 6733 encoding of the message the builder holds"
            elif int(m["len"], 16) != (len(enc) - 1) // 2:
                why = "reported message length differs from octets produced"
            if why:
                if has_fixed_mismatch(m) and kf1_open("C01"):
                    chk.known("KF-1")
                else:
                    chk.violation(why + " (history starting from a decoded frame)", dict(case=c, impl=short(im, 3000), reference=short(t[1], 3000)))
    for i, (c, im, mo) in enumerate(allc):
        toks = c.split()
        nontrivial = " A " in im or " A " in mo
        chk.case(c, nontrivial)
        chk.count("start:" + toks[2])
        chk.count("dict:" + toks[1])
        ok = judge_history(chk, "C01", c, im, mo)
        chk.validated += 1
        _, o = split_obs(mo)
        chk.count("in_wire_domain" if o.get("WD") == "1" else "outside_wire_domain_or_failed")
        if "DEPTH" in o:
            chk.count("depth:" + o["DEPTH"])
        if i % max(1, len(allc) // 5) == 0:
            chk.sample(dict(case=c, impl=short(im, 300), P=ok))
    # deep nesting encoded on a thread with a small stack (128 KiB): the encoder needs little stack per level
    gdef01 = [d for d in eng.dicts["g"].live() if d["ty"] == "grp" and d["vendor"] is None][0]
    for depth in (8, min(eng.lim or 31, 31)):
        e = ("E", 1011, None, 0x40, ("L", ("oct", b"leaf")))
        for _ in range(depth):
            e = ("E", gdef01["code"], None, 0, ("GN", [e, ("E", 1011, None, 0, ("L", ("oct", b"ab")))]))
        line = hist_line("g", ("NEW", 272, 4, 0x80, 1, 2), [("ADD", e)])
        o = core.run_sharded([eng.harness, "codec"], eng.prelude, [f"SMALLENC 128 {line[2:]}"], shards=1, timeout=120)[0]
        chk.case(f"SMALLENC 128 depth {depth}", True)
        chk.validated += 1
        chk.count("encode-on-small-stack")
        if o != "OK":
            chk.violation(f"a message with Grouped AVPs nested {depth} deep could not be encoded on a thread with a 128 KiB stack (or came out differently): " + short(o, 200),
                          dict(case=f"SMALLENC 128 {line[2:]}", impl=short(o)))
    chk.rule = (f"exhaustive table of 18 kinds x vendor x M/P x length residue ({ntable} cases) + regression corpus + "
                f"{n} generated construction histories over 3 dictionaries + decode-then-extend of reference frames; "
                "non-trivial = message has at least one AVP; distinct by SHA-256 of the case line")
    chk.assumptions = ["values below 2^32 octets (Rust `as u32` casts)", "dictionary contents as read by xml.etree agree with serde-xml-rs (checked by C14/C15)"]


# ------------------------------------------------------------------ C17
def leaf_patterns(rng, k, bits):
    pats = set(gen.lanes(bits))
    for i in range(bits):
        pats.add(1 << i)
        pats.add(((1 << bits) - 1) ^ (1 << i))
    for lane in range(bits // 8):
        for v in range(256):
            pats.add(v << (8 * lane))
    for v in range(256):
        pats.add(int.from_bytes(bytes([v]) * (bits // 8), "big"))          # the same octet throughout (00, AA, 55, CD, FF ...: fill patterns are values too)
    if bits == 32:
        pats |= {0x03aa7e7f, 0x03aa7e80, 0x03aa7e81, 0x83aa7e7f, 0x83aa7e80, 0x83aa7e81}      # Unix time i32::MIN, 0 as seconds since 1900
    r = rng.fork(f"pat{bits}")
    while len(pats) < k:
        pats.add(r.below(1 << bits))
    return sorted(pats)


def check_C17(chk, tier, seed):
    rng = Rng(seed).fork("C17")
    eng = engine_codec.setup(chk, rng, need_limit=False)
    n32 = 3000 if tier == "quick" else 200000
    n64 = 3000 if tier == "quick" else 200000
    cases = []
    for ty in ("u32", "i32", "en", "f32", "time", "ip4"):
        for p in leaf_patterns(rng, n32, 32):
            cases.append(f"LEAFDEC {ty} 4 {xb(p.to_bytes(4, 'big'))}")
    for ty in ("u64", "i64", "f64"):
        for p in leaf_patterns(rng, n64, 64):
            cases.append(f"LEAFDEC {ty} 8 {xb(p.to_bytes(8, 'big'))}")
    # every seventh pattern once more through a reader that hands out one octet per read() call
    base = list(cases)
    cases += [c.replace("LEAFDEC ", "LEAFDECD ", 1) for c in base[::7]]
    # ... every eleventh through a reader whose read() is interrupted (ErrorKind::Interrupted) before every octet it hands out
    cases += [c.replace("LEAFDEC ", "LEAFDECI ", 1) for c in base[3::11]]
    # ... and every thirteenth again after somebody else's decode / encode, on another thread, went through a reader / writer that
    # panicked inside read() / write(): nothing of that may be felt here
    cases.append("POISON")
    cases += base[5::13]
    # ... and every seventeenth right after a value of the same size whose octets ended early (1, 2 or 3 of 4; 1 ... 7 of 8), which
    # is refused: nothing of the refused value may turn up in the next one
    for j, c in enumerate(base[7::17]):
        ty, n, hexv = c.split()[1], int(c.split()[2]), c.split()[3]
        cut = 1 + j % (n - 1)
        cases.append(f"LEAFDEC {ty} {n} x{'deadbeefcafef00d'[: 2 * cut]}")
        cases.append(c)
    # ... and every twenty-third right after a whole MESSAGE was refused on the same thread, in the middle of an AVP that announced
    # fewer octets than its type needs (a 4-octet type with 3, 1, 0 octets; an 8-octet type with 7, 4): the refusal leaves nothing behind
    u32d = [d for d in eng.dicts["g"].live() if d["ty"] == "u32" and d["vendor"] is None][0]
    u64d = [d for d in eng.dicts["g"].live() if d["ty"] == "u64" and d["vendor"] is None][0]
    for j, c in enumerate(base[11::23]):
        dd, n = [(u32d, 3), (u32d, 1), (u32d, 0), (u64d, 7), (u64d, 4)][j % 5]
        # (the frame ENDS where the short value ends - no padding octets behind it that a reader could take for the rest of the value: KF-1)
        body = gen.be(dd["code"], 4) + b"\x40" + gen.be(8 + n, 3) + bytes(range(1, n + 1))
        fr = bytes([1]) + gen.be(20 + len(body), 3) + bytes([0x80]) + gen.be(272, 3) + gen.be(4, 4) + gen.be(1, 4) + gen.be(2, 4) + body
        cases.append(f"X g {xb(fr)}")
        cases.append(c)
        cases.append(f"LEAFAFTER g {xb(fr)} " + c.split(" ", 1)[1])           # ... the message and the value on one and the same thread
    # ... and on a thread whose own thread-local object uses the library while the thread's locals are being destroyed
    cases.append("TLDROP")
    # encode side on in-range values
    r = rng.fork("enc")
    for k in ("u32", "i32", "en", "f32", "time", "ip4", "u64", "i64", "f64"):
        for _ in range(300 if tier == "quick" else 20000):
            cases.append("LEAFENC " + leaf_toks(gen.gen_leaf(r, k)))
    impl, model = eng.run(cases)
    for i, (c, im, mo) in enumerate(zip(cases, impl, model)):
        mobs, o = split_obs(mo)
        chk.case(c, True)
        if c.startswith("X g "):
            chk.count("refused-message-before-a-value")
            # (whether such a frame is refused is C03's business and touches the known finding KF-1; here it only has to come back)
            if not (im == "ERR" or im.startswith("OK ")):
                chk.violation("decoding a message whose fixed-size AVP announces fewer octets than its type needs did not come back with a result: " + short(im, 200), dict(case=c, impl=short(im)))
            continue
        if c in ("POISON", "TLDROP"):
            if im != "OK":
                chk.violation("a decode / encode through a panicking reader / writer on another thread could not be contained: " + short(im, 200), dict(case=c, impl=short(im)))
            continue
        if c.startswith("LEAFAFTER"):
            c = "LEAFDEC " + c.split(" ", 3)[3]
            chk.count("after-a-refused-message")
        chk.count(("dribble:" if c.startswith("LEAFDECD") else "interrupted:" if c.startswith("LEAFDECI") else "") + c.split()[1] if c.startswith("LEAFDEC") else "enc:" + c.split()[1])
        chk.validated += 1
        ok = im == mobs
        if c.startswith("LEAFDEC") and ok and len(c.split()[3]) - 1 < 2 * int(c.split()[2]):
            ok = im == "ERR"        # a value whose octets end early is refused
        elif c.startswith("LEAFDEC") and ok:
            # decode-then-encode must give back the same octets
            t = im.split()
            ok = t[0] == "OK" and t[4] == c.split()[3] and t[5] == "0"
        if not ok:
            chk.violation("four/eight-octet value codec is not the RFC 6733 bijection",
                          dict(case=c, impl=short(im), model=short(mobs)))
        if i % max(1, len(cases) // 6) == 0:
            chk.sample(dict(case=c, impl=im, model=mobs))
    # Time values once more in a process whose local time zone is not UTC (TZ=EST5EDT: five hours off, daylight saving gaps and
    # folds): the wire carries seconds since 1900-01-01 00:00:00 UTC, wherever the process runs
    tcases = [c for c in cases if c.startswith("LEAFDEC time ")][::3] + [c for c in cases if c.startswith("LEAFENC time ")]
    timpl = core.run_sharded([eng.harness, "codec"], eng.prelude, tcases, timeout=600, env=dict(core.ENV, TZ="EST5EDT"))
    ref = dict(zip(cases, impl))
    for c, im in zip(tcases, timpl):
        chk.case("TZ " + c, True)
        chk.count("time-under-non-UTC-zone")
        chk.validated += 1
        if im != ref[c]:
            chk.violation("a Time value is decoded / encoded differently when the process's local time zone is not UTC",
                          dict(case=c, env="TZ=EST5EDT", impl=short(im), under_utc=short(ref[c])))
            break
    # 300 short-lived threads, one after the other (a thread per connection, per request): the 257th is served like the first
    o = core.run_sharded([eng.harness, "codec"], eng.prelude, ["THREADS 300"], shards=1, timeout=300)[0]
    chk.case("THREADS 300", True)
    chk.validated += 1
    chk.count("many-short-lived-threads")
    if not o.startswith("THREADS n=300 bad=0"):
        chk.violation("fixed-size values were not decoded / encoded correctly on every one of 300 short-lived threads: " + short(o, 200), dict(case="THREADS 300", impl=short(o)))
    # a sample of the values once more in a process that sees ONE cpu (`taskset -c 0`: a one-vCPU machine, a container with a quota)
    import shutil as _sh
    if _sh.which("taskset"):
        sample = [c for c in cases if c.startswith(("LEAFDEC ", "LEAFENC "))][::97]
        one = core.run_sharded(["taskset", "-c", "0", eng.harness, "codec"], eng.prelude, sample, shards=1, timeout=300)
        ref1 = dict(zip(cases, impl))
        for c, o in zip(sample, one):
            chk.case("1cpu " + c, True)
            chk.validated += 1
            chk.count("one-cpu-process")
            if o != ref1[c]:
                chk.violation("a value was decoded / encoded differently (or not at all) in a process restricted to one CPU", dict(case=c, env="taskset -c 0", impl=short(o), with_all_cpus=short(ref1[c])))
                break
    # the first values a process handles, on a thread with a small stack (160 KiB)
    o = core.run_sharded([eng.harness, "codec"], [], ["SMALLSTACK"], shards=1, timeout=300)[0]
    chk.case("SMALLSTACK", True)
    chk.validated += 1
    chk.count("small-stack-thread")
    if o != "OK":
        chk.violation("decoding / encoding a few fixed-size values as the first thing in a process, on a thread with a 160 KiB stack, did not work: " + short(o, 200),
                      dict(case="SMALLSTACK", impl=short(o)))
    # eight threads at once, each taking every four-octet type through 70 000 patterns a day and a bit apart, in the dev profile
    # (overflow checks on): what a value decodes to depends on its octets - not on what other threads decode at the same moment,
    # not on how many values the thread has decoded before (2^16 and beyond)
    mt = core.run_sharded([eng.harness, "codec"], eng.prelude, ["SWEEPMT 8 11170", "SWEEPMT 16 11170"][: 1 if tier == "quick" else 2], shards=1, timeout=900)
    for c, o in zip(["SWEEPMT 8 11170", "SWEEPMT 16 11170"], mt):
        chk.case(c, True)
        chk.validated += 1
        chk.count("concurrent-threads-sweep")
        t = o.split()
        if not (len(t) >= 3 and t[0] == "SWEPTMT" and t[2] == "0"):
            chk.violation("values decoded on several threads at once (or beyond the 65 536th value of a thread) did not all round-trip to the closed form: " + short(o, 200),
                          dict(case=c, impl=short(o)))
        else:
            chk.extra["concurrent_sweep_patterns"] = chk.extra.get("concurrent_sweep_patterns", 0) + int(t[1])
    if tier == "thorough":
        sweep32(chk, eng)
    chk.rule = ("every value of every byte lane, walking ones/zeros, boundaries and random patterns for the six 4-octet and three "
                "8-octet types, decoded and re-encoded by the implementation and by the extracted model; "
                "the model's output is the RFC value by theorems C17_*; non-trivial = every case; distinct by SHA-256")


def sweep32(chk, eng):
    """thorough: all 2^32 patterns x 6 types inside the harness against closed-form arithmetic"""
    shards = 64
    cases = []
    for ty in ("u32", "i32", "en", "f32", "time", "ip4"):
        for s in range(shards):
            lo = s * (1 << 32) // shards
            hi = (s + 1) * (1 << 32) // shards
            cases.append(f"SWEEP32 {ty} {lo:x} {hi:x}")
    out = core.run_sharded([core.build_harness("release"), "codec"], [], cases, shards=16, timeout=7200)
    total = 0
    for c, o in zip(cases, out):
        t = o.split()
        if t and t[0] == "SWEPT":
            total += int(t[1])
            if t[2] != "0":
                chk.violation("exhaustive sweep found a pattern that does not round-trip to the closed form",
                              dict(case=c, impl=o))
        else:
            chk.violation("sweep worker failed", dict(case=c, impl=o))
    chk.extra["sweep32_patterns_checked"] = total
    chk.exhaustive = True


# ------------------------------------------------------------------ regression corpus
def regress_cases(pid):
    import os, json
    p = os.path.join(core.ROOT, "corpus", "regress.json")
    if not os.path.exists(p):
        return []
    return [e["case"] for e in json.load(open(p)) if pid in e["properties"]]


# ------------------------------------------------------------------ shared helpers
def limit_checks(chk, pid, eng):
    """the measured nesting limit: a crash while probing is a C04 violation; C02 needs >= 16"""
    lim, crash = eng.limit_probe
    chk.extra["measured_nesting_limit"] = lim
    if crash is not None:
        d, o = crash
        chk.extra["limit_probe_crash"] = dict(depth=d, obs=short(o, 200))
    return lim, crash


def typed_by(g, m):
    """does the dictionary declare each AVP's data type (recursively)?"""
    table = {}
    for d in g.defs:
        table[(d["code"], d["vendor"])] = d["ty"]

    def ok(a):
        if "!" in a["vendor"]:
            return False            # the V flag the library reports disagrees with the presence of a vendor id (flagged by the engine)
        vd = None if a["vendor"] == "-" else int(a["vendor"], 16)
        ty = table.get((int(a["code"], 16), vd))
        v = a["val"]
        if v[0] == "L":
            return ty == KIND_TY.get(v[1])
        return ty == "grp" and all(ok(x) for x in v[1])
    return all(ok(a) for a in m["avps"])


def msg_depth(m):
    def d(a):
        v = a["val"]
        return 0 if v[0] == "L" else 1 + max([d(x) for x in v[1]] + [0])
    return max([d(a) for a in m["avps"]] + [0])


def msg_text(obs):
    """'OK M ... ENC x..' / 'R ok st M ... ENC x..' -> 'M ...'"""
    i = obs.index("M ")
    j = obs.rindex(" ENC ")
    return obs[i:j]


# ------------------------------------------------------------------ C02
def check_C02(chk, tier, seed):
    rng = Rng(seed).fork("C02")
    eng = engine_codec.setup(chk, rng)
    lim, crash = limit_checks(chk, "C02", eng)
    if lim is None or lim < 16:
        chk.violation(f"the decoder's nesting limit is {lim}, the property requires at least 16 levels"
                      if lim is not None else "no nesting limit found: nesting is unbounded (see C04) - groups nested to any depth are entered",
                      dict(case=f"X g {xb(gen.nested_groups_frame(16, 1008))}", measured_limit=lim, probe=str(crash)[:300]))
    n = 2500 if tier == "quick" else 150000
    cases = exhaustive_type_table(eng) + regress_cases("C02") + gen_histories(rng, eng, n, big=True)
    # depth sweep 1 .. lim + 2
    grp = [d for d in eng.dicts["g"].live() if d["ty"] == "grp" and d["vendor"] is None][0]
    leafdef = [d for d in eng.dicts["g"].live() if d["ty"] == "u32" and d["vendor"] is None][0]
    for depth in range(1, min(lim or 32, 200) + 3):
        v = ("L", ("u32", depth))
        e = ("E", leafdef["code"], None, 0x40, v)
        for _ in range(depth):
            e = ("E", grp["code"], None, 0, ("GN", [e]))
        cases.append(hist_line("g", ("NEW", 272, 4, 0x80, 1, 2), [("ADD", e)]))
    impl, model = eng.run(cases)
    stage2 = []
    idx = []
    for i, (c, im) in enumerate(zip(cases, impl)):
        if im.startswith("R ok") and " ENC x" in im:
            did = c.split()[1]
            stage2.append(f"X {did} {im[im.rindex(' ENC ') + 5:]}")
            idx.append(i)
    # a message inside the round-trip domain (wire domain by the model's oracle, typed by its dictionary, depth within the
    # limit) that the implementation builds but cannot encode never reaches stage 2: that is a failure of the round trip too
    for i, (c, im, mo) in enumerate(zip(cases, impl, model)):
        if im.startswith(("PANIC", "CRASH")):
            chk.violation("building / encoding a message crashed: " + short(im, 200), dict(case=c, impl=short(im, 600)))
            break
        if im.startswith("R ok") and " ENC ERR" in im:
            mobs, o = split_obs(mo)
            try:
                m1 = parse_result(im)["msg"]
            except Exception:
                continue
            if o.get("WD") == "1" and typed_by(eng.dicts[c.split()[1]], m1) and msg_depth(m1) <= (lim or 0):
                chk.violation("a message inside the round-trip domain could not be encoded (so decode(encode(m)) is not m)", dict(case=c, impl=short(im, 2000), model=short(mobs, 2000)))
    # values above 1 MiB (the limit of the STREAM reader; decode_from takes what the 24-bit lengths can carry): built, encoded,
    # decoded and compared by the implementation alone (the model's octet lists would take minutes)
    octd = [d for d in eng.dicts["g"].live() if d["ty"] == "oct" and d["vendor"] is None and 1000 <= d["code"] < 1100][0]
    utfd = [d for d in eng.dicts["g"].live() if d["ty"] == "utf" and d["vendor"] is None and 1000 <= d["code"] < 1100][0]
    bigs = [hist_line("g", ("NEW", 272, 4, 0x80, 1, 2), [("ADDAVP", octd["code"], None, 0x40, ("L", ("octp", n)))]) for n in ([65537, 1048577, 3000001] if tier == "quick" else [65537, 1048577, 3000001, 16000000])]
    bigs.append(hist_line("g", ("NEW", 272, 4, 0x80, 1, 2), [("ADDAVP", utfd["code"], None, 0x40, ("L", ("utf", b"a" * 1100000 + "\u00e9".encode())))]))
    big1 = core.run_sharded([eng.harness, "codec"], eng.prelude, bigs, shards=len(bigs), timeout=600)
    big_frames = [(b1[b1.rindex(" ENC ") + 5:].split()[0] if b1.startswith("R ok") and " ENC x" in b1 else None) for b1 in big1]
    big2 = core.run_sharded([eng.harness, "codec"], eng.prelude, [f"X g {fx}" for fx in big_frames if fx], shards=len(bigs), timeout=600)
    it2 = iter(big2)
    for c, b1, fx in zip(bigs, big1, big_frames):
        chk.case(short(c, 200), True)
        chk.count("value-above-1MiB")
        chk.validated += 1
        b2 = next(it2) if fx else None
        if fx is None or " ENC2DIFF " in b1:
            chk.violation("a message holding one value above 1 MiB could not be built and encoded consistently", dict(case=short(c, 300), impl=short(b1, 300)))
        elif not (b2.startswith("OK ") and msg_text(b2) == msg_text(b1) and b2[b2.rindex(" ENC "):] == b1[b1.rindex(" ENC "):]):
            chk.violation("decode(encode(m)) differs from m for a message holding one value above 1 MiB (decode_from is not the stream reader: its limit is the 24-bit length)",
                          dict(case=short(c, 300), original=short(b1, 300), decoded=short(b2, 300)))
    impl2, model2 = eng.run(stage2)
    # the encodings once more through the other readers (one octet per read() call; the frame sitting 1..5 octets into the
    # buffer): what comes back must not depend on how the reader hands the octets out
    var_lines = []
    for k, l in enumerate(stage2):
        _, did, fx = l.split()
        var_lines.append(f"XD {did} {fx}" if k % 2 == 0 else f"XO {did} {1 + (k // 2) % 5} {fx}")
    # ... and three at a time back to back in one reader, decoded one after the other: the third comes out as it does alone
    multi, multi_k = [], []
    by_dict = {}
    for k, l in enumerate(stage2):
        by_dict.setdefault(l.split()[1], []).append(k)
    for did, ks in by_dict.items():
        # (only encodings that round-trip exactly on their own: those are consumed to their last octet)
        ks = [k for k in ks if impl2[k].startswith("OK ") and len(stage2[k]) < 20000 and msg_text(impl2[k]) == msg_text(impl[idx[k]])
              and impl2[k][impl2[k].rindex(" ENC "):] == impl[idx[k]][impl[idx[k]].rindex(" ENC "):]]
        for j in range(0, len(ks) - 2, 3):
            a, b, c3 = ks[j], ks[j + 1], ks[j + 2]
            multi.append(f"XM {did} 3 {stage2[a].split()[2]} {stage2[b].split()[2]} {stage2[c3].split()[2]}")
            multi_k.append(c3)
    implm, _ = eng.run(multi) if multi else ([], [])
    for l, k, b in zip(multi, multi_k, implm):
        chk.count("stage2-reader:XM")
        if b != impl2[k]:
            chk.violation("decode(encode(m)) depends on where the frame sits in its reader: three encodings back to back in one reader, decoded one after "
                          "the other - the third does not come out as it does alone", dict(case=short(l, 6000), alone=short(impl2[k], 3000), third=short(b, 3000)))
    implv, _ = eng.run(var_lines)
    for k, (l, a, b) in enumerate(zip(var_lines, impl2, implv)):
        chk.count("stage2-reader:" + l.split()[0])
        if a != b:
            if b.startswith("PANIC") or b.startswith("CRASH"):
                chk.violation("decoding the library's own encoding through another reader crashed", dict(case=l, impl=short(b)))
            elif a.startswith("OK "):
                chk.violation("decode(encode(m)) depends on the reader: the same octets read through a reader that hands out one octet per call / "
                              "that starts inside its buffer give a different result", dict(case=l, plain=short(a, 3000), variant=short(b, 3000)))
            else:
                chk.corr_break("a refused frame is refused differently through another reader", dict(case=l, plain=short(a, 600), variant=short(b, 600)))
    for k, i in enumerate(idx):
        c, im, mo = cases[i], impl[i], model[i]
        mobs, o = split_obs(mo)
        did = c.split()[1]
        try:
            r1 = parse_result(im)
        except Exception as e:
            chk.corr_break(f"unparsable observation {e}", dict(case=c, impl=short(im)))
            continue
        m1 = r1["msg"]
        d = msg_depth(m1)
        in_dom = o.get("WD") == "1" and typed_by(eng.dicts[did], m1) and d <= (lim or 0)
        chk.case(c, bool(m1["avps"]))
        chk.count("depth:%d" % d)
        chk.count("in_domain" if in_dom else "outside_domain")
        chk.validated += 1
        i2, m2 = impl2[k], model2[k]
        m2obs, _ = split_obs(m2)
        if i2.startswith("PANIC") or i2.startswith("CRASH"):
            chk.violation("decoding the library's own encoding crashed", dict(case=stage2[k], impl=short(i2)))
            continue
        if in_dom:
            ok = i2.startswith("OK ") and msg_text(i2) == msg_text(im) and i2[i2.rindex(" ENC "):] == im[im.rindex(" ENC "):]
            if not ok:
                chk.violation("decode(encode(m)) differs from m (header fields, AVP order, code, vendor, flags, type, value, reported lengths)",
                              dict(case=c, stage2=short(stage2[k], 3000), original=short(im, 3000), decoded=short(i2, 3000)))
            elif k % max(1, len(idx) // 5) == 0:
                chk.sample(dict(case=c, decoded=short(i2, 200), P=True))
        if i2 != m2obs:
            chk.corr_break("decoder observation differs from the model on an encoded frame", dict(case=stage2[k], impl=short(i2, 3000), model=short(m2obs, 3000)))
        if im != mobs and in_dom:
            chk.corr_break("builder/encoder observation differs from the model", dict(case=c, impl=short(im, 3000), model=short(mobs, 3000)))
    chk.rule = ("type/flag/residue table + regression corpus + generated construction histories over 3 dictionaries (built-in XML, programmatic, "
                "generated XML) + depth sweep 1..limit+2; each encoded by the implementation, decoded by the implementation, compared observation by "
                "observation (all accessors incl. lengths/padding); in-domain = wire domain (model oracle) and dictionary-typed and depth <= limit "
                "(computed independently in the orchestrator); non-trivial = at least one AVP")
    chk.assumptions = ["dictionary contents as read by xml.etree agree with serde-xml-rs (checked by C14/C15)"]


# ------------------------------------------------------------------ frames for C03 / C04
def corpus_frames(rng, eng, nhist):
    """reference-encoded frames of generated in-domain messages: (dictid, frame, tyof)"""
    cases = gen_histories(rng, eng, nhist, big=False)
    model = eng.ask_model(cases)
    out = []
    for c, m in zip(cases, model):
        mobs, o = split_obs(m)
        if o.get("WD") == "1" and mobs.startswith("R ok"):
            did = c.split()[1]
            try:
                mm = parse_result(mobs)["msg"]
            except Exception:
                continue
            if typed_by(eng.dicts[did], mm) and msg_depth(mm) <= (eng.lim or 0) and len(o["SPEC"]) < 6000:
                out.append((did, bytes.fromhex(o["SPEC"][1:])))
    return out


def display_stress_frames(eng):
    """reference-encoded frames whose values stress formatting/inspection of returned messages: every type with empty / minimal
    variable-length values, strings of multi-octet characters at every alignment around 32, 64, 128 and 256 octets"""
    g = eng.dicts["g"]
    by = {}
    for d in g.live():
        if d["vendor"] is None and d["code"] < 1100:
            by.setdefault(d["ty"], d)
    cases = []

    def one(ty, leaf):
        d = by[ty]
        cases.append(hist_line("g", ("NEW", 272, 4, 0x80, 1, 2), [("ADDAVP", d["code"], None, 0x40, ("L", leaf))]))
    for ty, kind in (("utf", "utf"), ("id", "id"), ("oct", "oct"), ("uri", "uri")):
        one(ty, (kind, b""))
        one(ty, (kind, b"\0"))
    cases.append(hist_line("g", ("NEW", 272, 4, 0x80, 1, 2), [("ADDAVP", by["grp"]["code"], None, 0, ("GN", []))]))
    for ch in ("é", "€", "\U00010000"):
        cb = ch.encode()
        for edge in (16, 32, 64, 128, 256):
            for shift in range(len(cb)):
                for extra in (0, 1, len(cb)):
                    body = b"a" * (edge - shift) + cb * 2 + b"b" * extra
                    one("utf", ("utf", body))
                    one("id", ("id", body))
    model = eng.ask_model(cases)
    out = []
    for c, m in zip(cases, model):
        _, o = split_obs(m)
        if o.get("WD") == "1":
            out.append(("g", bytes.fromhex(o["SPEC"][1:])))
    return out


def frame_families(rng, eng, frames, per_frame, thorough=False):
    """(kind, dictid, frame, must_accept) for every family of section 6"""
    out = []
    for i, (did, fr) in enumerate(frames):
        r = rng.fork(f"fr{i}")
        nodes = gen.walk_frame(fr, eng.tyof(did))
        out.append(("wellformed", did, fr, True))
        for _ in range(3):
            out.append(("freebits", did, gen.mutate_free_bits(r, fr, nodes), True))
        lr = gen.length_rewrites(fr, nodes)
        if not thorough:
            lr = r.shuffle(lr)[: per_frame]
        for k, f in lr:
            out.append((k, did, f, False))
        for k, f in gen.hostile_variants(r, fr, nodes, per_frame):
            out.append((k, did, f, False))
        f = gen.strip_final_padding(fr, nodes)
        if f is not None:
            out.append(("strip-final-padding", did, f, False))
        for nd in r.shuffle([n for n in nodes if n["hdr"] == 8])[:2]:
            for vendor in (0, 1, 10415):
                f = gen.vendorize(fr, nodes, nd, vendor)
                if f is not None:
                    out.append(("vendorize", did, f, False))
        if thorough or i % 8 == 0:
            for cut in range(0, len(fr)):
                out.append(("truncate", did, fr[:cut], False))
        if thorough:
            for pos in range(len(fr)):
                f = bytearray(fr)
                f[pos] ^= 1 << r.below(8)
                out.append(("bitflip", did, bytes(f), False))
    for k, f in gen.random_frames(rng.fork("rand"), len(frames) * 4):
        out.append((k, "g", f, False))
    return out


def is_complete(fr):
    return len(fr) >= 4 and int.from_bytes(fr[1:4], "big") == len(fr)


def value_position_sweeps(eng, tier):
    """one-AVP frames in which an interesting octet sequence sits at EVERY position of a variable-length value: a validator
    that looks at a string word by word, or only at its head, or stops early, is wrong at specific lengths and offsets only.
    UTF8String and DiameterIdentity: ill-formed sequences (stray continuation, overlong, surrogate, > U+10FFFF, truncated,
    0xff) and well-formed multi-octet characters inside ASCII text; Address: every family/length combination around the
    legal ones.  Returns (kind, dictid, frame, must_accept)."""
    g = eng.dicts["g"]
    by = {}
    for d in g.live():
        if d["vendor"] is None and 1000 <= d["code"] < 1100:
            by.setdefault(d["ty"], d)

    def frame(code, data):
        ln = 8 + len(data)
        body = gen.be(code, 4) + bytes([0x40]) + gen.be(ln, 3) + data + b"\0" * ((4 - ln % 4) % 4)
        return bytes([1]) + gen.be(20 + len(body), 3) + bytes([0x80]) + gen.be(272, 3) + gen.be(4, 4) + gen.be(1, 4) + gen.be(2, 4) + body
    out = []
    bad = [b"\x80", b"\xc0\xaf", b"\xed\xa0\x80", b"\xf4\x90\x80\x80", b"\xe2\x82", b"\xff"]
    good = ["é".encode(), "€".encode(), "\U00010000".encode()]
    lengths = list(range(1, 26)) + [31, 32, 33, 63, 64, 65] + ([127, 128, 129, 255, 256, 257] if tier == "thorough" else [])
    for ty in ("utf", "id"):
        code = by[ty]["code"]
        for L in lengths:
            positions = range(L) if L <= 33 else sorted(set(list(range(0, 10)) + list(range(L - 10, L)) + [p for p in range(L) if p % 8 in (0, 7)]))
            for p in positions:
                for k, seq in enumerate(bad + good):
                    if p + len(seq) > L and k != 4:
                        continue
                    seq2 = seq[: L - p]
                    body = b"a" * p + seq2 + b"b" * (L - p - len(seq2))
                    ok = k >= len(bad) and len(seq2) == len(seq)
                    out.append(("utf8-at-every-position", "g", frame(code, body), ok))
    # the groups the base protocol and the credit-control application give a special role (Failed-AVP, Proxy-Info, Vendor-Specific-
    # Application-Id, Experimental-Result, Multiple-Services-Credit-Control, User-Equipment-Info, Subscription-Id) in the BUILT-IN
    # dictionary: what is inside them is checked like everywhere else - an undefined member, a member length below its header or
    # beyond the group, stray octets after the last member, ill-formed UTF-8 in a text member are refused; a good member is accepted
    def bframe(body):
        return bytes([1]) + gen.be(20 + len(body), 3) + bytes([0x80]) + gen.be(272, 3) + gen.be(4, 4) + gen.be(1, 4) + gen.be(2, 4) + body
    def avp(code, data, ln=None):
        n = 8 + len(data)
        return gen.be(code, 4) + bytes([0x40]) + gen.be(n if ln is None else ln, 3) + data + b"\0" * ((4 - n % 4) % 4)
    sid_ok, sid_bad = avp(263, b"ses;1;2"), avp(263, b"ses;\xe9;2")
    for g in (279, 284, 260, 297, 456, 458, 443):
        for what, inner, ok in (("good-member", sid_ok, True), ("undefined-member", avp(59999, b"abcd"), False), ("member-length-3", avp(263, b"abcd", 3), False),
                                ("member-length-beyond-group", avp(263, b"abcd", 64), False), ("stray-octets", sid_ok + b"\1\2\3\4", False),
                                ("stray-3-octets", sid_ok[:-1] + b"", False) if False else ("ill-formed-utf8-member", sid_bad, False),
                                ("empty-group", b"", True)):
            for levels in (1, 2):
                body = avp(g, inner)
                if levels == 2:
                    body = avp(279, body)
                out.append(("builtin-special-group:" + what, "b", bframe(avp(264, b"host.example") + body), ok))
    a = by["addr"]["code"]
    for fam in (0, 1, 2, 3, 8, 255, 256, 0xffff):
        for n in list(range(0, 20)) + [32, 33]:
            data = gen.be(fam, 2) + bytes((0x30 + (i % 10)) for i in range(n))
            legal = (fam == 1 and n == 4) or (fam == 2 and n == 16) or (fam == 8)
            out.append(("address-family-length", "g", frame(a, data), False if not legal else (fam != 8 or 1 <= n <= 15)))
    for n in (0, 1):
        out.append(("address-family-length", "g", frame(a, bytes(n)), False))
    # E.164 numbers with octets above 0x7f: well-formed UTF-8 is text like any other (accepted, octets kept), ill-formed UTF-8 is refused
    for num, ok in ((b"123\xc3\xa9456", True), ("12\u20ac3".encode(), True), (b"123\xe9456", False), (b"\xff", False), (b"12\xc3", False), (b"1\x80", False), (b"\xc3\xa9", True)):
        out.append(("address-e164-octets", "g", frame(a, gen.be(8, 2) + num), ok))
    # text values of 1100 ... 2100 octets in ascending and descending order, one after the other on one decoder thread (a scratch buffer
    # that grew for one value is there for the next)
    for ty in ("utf", "id"):
        for n in (1100, 1500, 1800, 1300, 2100, 1025, 1024, 2099):
            out.append(("long-texts-in-a-row", "g", frame(by[ty]["code"], bytes(0x61 + (i * 7) % 26 for i in range(n))), True))
        # ... and within ONE frame (cases of a run are dealt out to several worker processes)
        for sizes in ((1100, 1500, 1800), (1500, 1800, 1300, 2100), (1025, 1030, 1040, 1100, 1200, 1600, 2047, 2048, 2049), (3000, 2000, 2500, 4000)):
            body = b""
            for n in sizes:
                ln = 8 + n
                body += gen.be(by[ty]["code"], 4) + bytes([0x40]) + gen.be(ln, 3) + bytes(0x61 + (i * 5) % 26 for i in range(n)) + b"\0" * ((4 - ln % 4) % 4)
            out.append(("long-texts-in-a-row", "g", bytes([1]) + gen.be(20 + len(body), 3) + bytes([0x80]) + gen.be(272, 3) + gen.be(4, 4) + gen.be(1, 4) + gen.be(2, 4) + body, True))
    # the address forms a library might want to "normalise" (IPv4-mapped / -compatible IPv6, NAT64, 6to4, unspecified, all ones,
    # loopback, link-local, multicast; 0.0.0.0, broadcast, loopback): each is accepted and is the value its octets say
    for ty in ("utf", "id", "uri", "oct"):
        for b in gen.text_special_forms() + (gen.uri_special_forms() if ty in ("uri", "oct") else []):
            out.append(("text-special-forms", "g", frame(by[ty]["code"], b), True))
    for b in gen.ipv6_special_forms():
        out.append(("address-special-forms", "g", frame(a, gen.be(2, 2) + b), True))
        if "ip6" in by:
            out.append(("address-special-forms", "g", frame(by["ip6"]["code"], b), True))
    for b in (b"\0\0\0\0", b"\xff\xff\xff\xff", b"\x7f\0\0\1", b"\xe0\0\0\1", b"\xa9\xfe\1\2", b"\0\0\0\1"):
        out.append(("address-special-forms", "g", frame(a, gen.be(1, 2) + b), True))
        if "ip4" in by:
            out.append(("address-special-forms", "g", frame(by["ip4"]["code"], b), True))
    return out


def check_C03(chk, tier, seed):
    rng = Rng(seed).fork("C03")
    eng = engine_codec.setup(chk, rng)
    limit_checks(chk, "C03", eng)
    nh = 500 if tier == "quick" else 6000
    frames = corpus_frames(rng, eng, nh)
    frames = frames[: (160 if tier == "quick" else 3000)]
    fam = frame_families(rng, eng, frames, 20 if tier == "quick" else 60, thorough=(tier == "thorough" and False))
    fam += [("regress", c.split()[1], bytes.fromhex(c.split()[2][1:]), False) for c in regress_cases("C03") if c.startswith("X ")]
    fam += [("display-stress", did, f, True) for did, f in display_stress_frames(eng)]
    fam += value_position_sweeps(eng, tier)
    # values larger than the 1 MiB the STREAM reader accepts: decode_from itself has no such limit (up to the 2^24 the wire can carry)
    gg = {d["ty"]: d for d in eng.dicts["g"].live() if d["vendor"] is None and 1000 <= d["code"] < 1100}
    pattern = lambda n: bytes((i * 31 + 7 + i // 251) % 256 for i in range(n))        # long values whose parts cannot be confused with one another
    for n in ([65537, 70001, (1 << 20) + 1] if tier == "quick" else [65537, 70001, (1 << 20) + 1, 5 << 20]):
        ln = 8 + n
        big = gen.be(gg["oct"]["code"], 4) + b"\0" + gen.be(ln, 3) + pattern(n) + b"\0" * ((4 - ln % 4) % 4)
        fam.append(("large-value", "g", bytes([1]) + gen.be(20 + len(big), 3) + bytes([0x80]) + gen.be(272, 3) + gen.be(4, 4) + gen.be(1, 4) + gen.be(2, 4) + big, True))
    third = 400 * 1024
    member = gen.be(gg["oct"]["code"], 4) + b"\0" + gen.be(8 + third, 3) + pattern(third)
    grp = gen.be(gg["grp"]["code"], 4) + b"\0" + gen.be(8 + 3 * len(member), 3) + member * 3
    fam.append(("large-value", "g", bytes([1]) + gen.be(20 + len(grp), 3) + bytes([0x80]) + gen.be(272, 3) + gen.be(4, 4) + gen.be(1, 4) + gen.be(2, 4) + grp, True))
    cases = [f"X {did} {xb(f)}" for (_, did, f, _) in fam]
    # the same frames again through other readers: sitting 1, 2, 3 or 5 octets into the buffer (a decoder that aligns
    # padding to the reader's position instead of the value's length), and through a reader that hands out one octet per
    # read() call (a value read with read() instead of read_exact()).  The reader must not matter.
    nvar = 0
    for (kind, did, f, must) in list(fam):
        if kind in ("wellformed", "freebits", "display-stress", "type-table", "regress", "nest", "vendorize") or (kind == "utf8-at-every-position" and len(f) % 7 == 0):
            k = (len(f) * 7 + nvar) % 4
            k = 5 if k == 0 else k
            cases.append(f"XO {did} {k} {xb(f)}")
            fam.append((kind + "@offset", did, f, must))
            cases.append(f"XD {did} {xb(f)}")
            fam.append((kind + "@dribble", did, f, must))
            if nvar % 3 == 0:
                cases.append(f"XI {did} {xb(f)}")
                fam.append((kind + "@interrupted", did, f, must))
            nvar += 1
    impl, model = eng.run(cases)
    # oracle: is the returned tree the one the octets denote, and what is its reference encoding
    chk_lines, chk_idx = [], []
    for i, ((kind, did, f, must), im) in enumerate(zip(fam, impl)):
        if im.startswith("OK "):
            chk_lines.append(f"CHK {did} {xb(f)} {msg_text(im)}")
            chk_idx.append(i)
    oracle = dict(zip(chk_idx, eng.ask_model(chk_lines))) if chk_lines else {}
    for i, ((kind, did, f, must), c, im, mo) in enumerate(zip(fam, cases, impl, model)):
        mobs, o = split_obs(mo)
        comp = is_complete(f)
        chk.case(c, len(f) > 20)
        chk.count("kind:" + kind)
        chk.count("complete" if comp else "incomplete")
        chk.validated += 1
        if im.startswith("PANIC") or im.startswith("CRASH"):
            chk.count("impl:crash")
            chk.violation("decoder crashed (see C04)", dict(case=c, impl=short(im)))
            continue
        acc = im.startswith("OK ")
        chk.count("impl:accepted" if acc else "impl:rejected")
        ok = True
        if acc and comp:
            t = oracle[i].split()
            good_tree = t[1] == "1"
            spec = t[3]
            enc = im[im.rindex(" ENC ") + 5:]
            why = []
            if not good_tree:
                why.append("the returned message is not the one an independent RFC 6733 reading of these octets gives")
            if enc != spec:
                why.append("re-encoding the returned message does not give the reference encoding of the tree")
            elif (len(enc) - 1) // 2 != len(f):
                why.append("re-encoding has a different length than the frame")
            if why:
                try:
                    known = has_fixed_mismatch(parse_result(im)["msg"])
                except Exception:
                    known = False
                if known and kf1_open("C03"):
                    chk.known("KF-1")
                    chk.count("known:KF-1")
                else:
                    ok = False
                    chk.violation("; ".join(why), dict(case=c, kind=kind, impl=short(im, 3000), reference=short(spec, 3000)))
        if (not acc) and must:
            ok = False
            chk.violation("a well-formed frame with known command, application and AVPs was rejected (padding octets / reserved bits must not matter)",
                          dict(case=c, kind=kind, impl=short(im)))
        # octet strings shorter or longer than their own declared message length are outside this property's quantifier
        # (whether such input is refused or read as far as it goes is left open): judged for crashes only, not compared
        if ok and comp and im != mobs:
            chk.corr_break("decoder observation differs from the model", dict(case=c, kind=kind, impl=short(im, 3000), model=short(mobs, 3000)))
        if i % max(1, len(fam) // 6) == 0:
            chk.sample(dict(case=c, kind=kind, impl=short(im, 120), P=ok))
    # eight threads decoding one well-formed frame of 20 nested groups (16 when the limit is lower) at the same time, 3000 times each
    depth = min(20, eng.lim or 16)
    nf = gen.nested_groups_frame(depth, [d for d in eng.dicts["g"].live() if d["ty"] == "grp" and d["vendor"] is None][0]["code"])
    o = core.run_sharded([eng.harness, "codec"], eng.prelude, [f"NESTMT g 8 3000 {xb(nf)}"], shards=1, timeout=600)[0]
    chk.case("NESTMT g 8 3000", True)
    chk.validated += 1
    chk.count("nested-frames-on-several-threads")
    if o != "NESTMT decodes=24000 refused=0":
        chk.violation(f"a well-formed frame of {depth} nested groups was refused when several threads decoded such frames at the same time: " + short(o, 200),
                      dict(case=f"NESTMT g 8 3000 {xb(nf)}", impl=short(o)))
    chk.rule = (f"{len(frames)} reference-encoded corpus frames; per frame: as is, 3 rewrites of padding octets/reserved bits (must be accepted, same tree), "
                "length-field rewrites (message, AVP, nested AVP: 0..64, true+-{1,2,3,4,8}, 2^24-1 ...), structure-aware lies, havoc, truncations, "
                "random octets; one-AVP frames with ill-formed and well-formed UTF-8 sequences at EVERY offset of strings of 1..33, 63..65 octets (UTF8String and "
                "DiameterIdentity) and every Address family x length combination around the legal ones; accepted complete frames judged by the extracted checker "
                "chk_msg + reference encoder; non-trivial = longer than the header")
    chk.assumptions = ["KF-1 (fixed-size types ignore the declared length) is a recorded finding: cases in that class are counted, not reported"]


def check_C04(chk, tier, seed):
    rng = Rng(seed).fork("C04")
    eng = engine_codec.setup(chk, rng)
    lim, crash = limit_checks(chk, "C04", eng)
    if crash is not None:
        d, o = crash
        chk.violation(f"decoding {d} nested grouped AVPs on a 2 MiB stack killed the worker: {o[:120]}",
                      dict(case=f"X g {xb(gen.nested_groups_frame(d, [x for x in eng.dicts['g'].live() if x['ty'] == 'grp' and x['vendor'] is None][0]['code']))}"[:200000],
                           depth=d, impl=short(o)))
    elif lim is None:
        chk.violation("no nesting limit: the decoder recursed through every depth tried (up to 131000 levels in a 1 MiB frame)",
                      dict(case="nested groups", impl="accepted all depths"))
    nh = 300 if tier == "quick" else 3000
    frames = corpus_frames(rng, eng, nh)[: (120 if tier == "quick" else 1500)]     # thorough: every length rewrite, truncation and single-bit flip of each
    fam = frame_families(rng, eng, frames, 25 if tier == "quick" else 80, thorough=(tier == "thorough"))
    fam += [("regress", c.split()[1], bytes.fromhex(c.split()[2][1:]), False) for c in regress_cases("C04") if c.startswith("X ")]
    fam += [("display-stress", did, f, True) for did, f in display_stress_frames(eng)]
    # (the value families of C03 that are about what a decoder keeps between values or takes apart: none may panic either)
    fam += [x for x in value_position_sweeps(eng, tier) if x[0].startswith(("long-texts", "address-e164", "builtin-special-group", "text-special", "address-special"))]
    # AVPs the dictionary lists with a data type the library does not implement (e.g. IPFilterRule in the built-in
    # dictionary), and AVPs it does not list at all: to be refused with an error, at top level and inside a group
    for did in ("b", "g"):
        g = eng.dicts[did]
        grp = [d for d in g.live() if d["ty"] == "grp" and d["vendor"] is None]
        targets = [(d["code"], d["vendor"]) for d in g.live() if d["ty"] == "unk"][:4] + [(0x00fffffe, None), (0x00fffffe, 10415)]
        for (code, vend) in targets:
            for n in (0, 1, 4, 8):
                for fl in (0, 0x40):
                    h = 12 if vend is not None else 8
                    ln = h + n
                    avp = gen.be(code, 4) + bytes([fl | (0x80 if vend is not None else 0)]) + gen.be(ln, 3) + (gen.be(vend, 4) if vend is not None else b"") + bytes(n) + b"\0" * ((4 - ln % 4) % 4)
                    bodies = [avp]
                    if grp:
                        bodies.append(gen.be(grp[0]["code"], 4) + b"\0" + gen.be(8 + len(avp), 3) + avp)
                    for body in bodies:
                        fam.append(("unknown-typed", did, bytes([1]) + gen.be(20 + len(body), 3) + bytes([0x80]) + gen.be(272, 3) + gen.be(4, 4) + gen.be(1, 4) + gen.be(2, 4) + body, False))
    # fixed-size values whose AVP declares fewer (or more) octets than the value has, the enclosing length compensating so
    # that the decoder's own bookkeeping comes out even (recorded finding KF-1: such frames are accepted): whatever is
    # returned must still be formattable, inspectable and re-encodable without a trap
    gl = {d["ty"]: d for d in eng.dicts["g"].live() if d["vendor"] is None and 1000 <= d["code"] < 1100}
    for ty, size in (("u32", 4), ("i32", 4), ("en", 4), ("f32", 4), ("time", 4), ("ip4", 4), ("u64", 8), ("i64", 8), ("f64", 8), ("ip6", 16)):
        d = gl.get(ty)
        if not d:
            continue
        for vend in (None, 10415):
            h = 12 if vend is not None else 8
            code = d["code"] if vend is None else 2000 + (d["code"] - 1000)
            for decl in list(range(h, h + size)) + [h + size + 1, h + size + 4, h + size + 8]:
                vl = decl - h
                pad = (4 - vl % 4) % 4
                avp = gen.be(code, 4) + bytes([0x80 if vend is not None else 0]) + gen.be(decl, 3) + (gen.be(vend, 4) if vend is not None else b"") + bytes(range(1, size + 1))
                tailavp = gen.be(1011, 4) + b"\0" + gen.be(8 + 4, 3) + b"tail"
                for announce in (20 + decl + pad, 20 + decl + pad + len(tailavp)):
                    body = avp + b"\0" * 12 + (tailavp if announce > 20 + decl + pad else b"")
                    fam.append(("fixed-size-length-lie", "g", bytes([1]) + gen.be(announce, 3) + bytes([0x80]) + gen.be(272, 3) + gen.be(4, 4) + gen.be(1, 4) + gen.be(2, 4) + body, False))
                # the same lie with the frame ENDING where it says it ends (the value's missing octets are simply not there): whatever
                # lies behind the frame in memory - an earlier, longer frame in a reused buffer - is not part of it.  Three copies
                # differing in their last octet go through decode_from, Codec::decode and decode_from at an offset.
                if decl < h + size:
                    for last in (1, 2, 3):
                        vals = bytes(range(1, vl)) + bytes([last]) if vl > 0 else b""
                        exact = gen.be(code, 4) + bytes([0x80 if vend is not None else 0]) + gen.be(decl, 3) + (gen.be(vend, 4) if vend is not None else b"") + vals + b"\0" * pad
                        if vl == 0:
                            exact = exact[:-1] + bytes([last]) if pad else exact
                        fam.append(("fixed-size-short-at-end", "g", bytes([1]) + gen.be(20 + len(exact), 3) + bytes([0x80]) + gen.be(272, 3) + gen.be(4, 4) + gen.be(1, 4) + gen.be(2, 4) + exact, False))
    # Result-Code (268) values of every class, and outside every class, in the built-in dictionary: decoded, then formatted
    for rc in (0, 1, 999, 1001, 2001, 3002, 4010, 5012, 5999, 6000, 6001, 9999, 65535, 1 << 31, 0xffffffff):
        for code in (268, 298, 297):
            body = gen.be(code, 4) + b"\x40" + gen.be(12, 3) + gen.be(rc, 4)
            fam.append(("display-stress", "b", bytes([1]) + gen.be(20 + len(body), 3) + bytes([0]) + gen.be(272, 3) + gen.be(4, 4) + gen.be(1, 4) + gen.be(2, 4) + body, False))
    tab = eng.ask_model(exhaustive_type_table(eng))
    for m in tab:
        _, o = split_obs(m)
        if o.get("WD") == "1" and len(o["SPEC"]) < 20000:
            fam.append(("type-table", "g", bytes.fromhex(o["SPEC"][1:]), True))
    # nesting sweep: every depth 1..70, then up to what fits 1 MiB (quick) / 16 MiB is out of the stream limit but legal for decode_from
    grp = [d for d in eng.dicts["g"].live() if d["ty"] == "grp" and d["vendor"] is None][0]
    depths = list(range(1, 71)) + [100, 500, 1000, 5000, 20000, 60000, 131000]
    if tier == "thorough":
        depths += [500000, 2000000]
    for d in depths:
        fam.append(("nest", "g", gen.nested_groups_frame(d, grp["code"]), False))
        fam.append(("nest-vendor", "g", gen.nested_groups_frame(min(d, 80000), grp["code"] + 1000, vendor=10415), False))
    # one group with 10^5 small members, and a message with 10^5 small top-level AVPs (about 1 MiB each): work that grows faster
    # than linearly in the number of AVPs (a length recomputed per member, a list rebuilt per AVP) shows as a decode that does
    # not come back within the per-case watchdog
    octd = [d for d in eng.dicts["g"].live() if d["ty"] == "oct" and d["vendor"] is None and 1000 <= d["code"] < 1100][0]
    nmem = 250000 if tier == "quick" else 1000000          # (100 000 left a quadratic decoder at 11 s on an idle machine - under the 15 s per-case limit)
    member = gen.be(octd["code"], 4) + b"\0" + gen.be(9, 3) + b"m\0\0\0"
    hdr = lambda n: bytes([1]) + gen.be(20 + n, 3) + bytes([0x80]) + gen.be(272, 3) + gen.be(4, 4) + gen.be(1, 4) + gen.be(2, 4)
    fam.append(("many-members", "g", hdr(8 + nmem * len(member)) + gen.be(grp["code"], 4) + b"\0" + gen.be(8 + nmem * len(member), 3) + member * nmem, True))
    fam.append(("many-members", "g", hdr(nmem * len(member)) + member * nmem, True))
    cases = [f"X {did} {xb(f)}" for (_, did, f, _) in fam]
    # decode_from on a reader that already stands at, or past, the end of what it holds (a second decode after the last frame;
    # a caller that sought too far): an error, not a panic
    for (kind, did, f, _) in [x for x in fam if x[0] in ("wellformed", "type-table")][:12]:
        for k in (0, 1, 3, 4, 20, 1000, 1 << 31):
            fam.append(("reader-past-its-end", did, b"", False))
            cases.append(f"XP {did} {k} {xb(f)}")
    impl = core.run_sharded([eng.harness, "codec"], eng.prelude, cases, timeout=900)
    small = [i for i, (_, _, f, _) in enumerate(fam) if len(f) <= 200000]
    model = dict(zip(small, core.run_sharded([eng.runner], eng.prelude, [cases[i] for i in small], unlimited_stack=True, timeout=900)))
    for i, ((kind, did, f, _), c, im) in enumerate(zip(fam, cases, impl)):
        chk.case(c if len(c) < 5000 else core.sha(c), len(f) > 0)
        chk.count("kind:" + kind)
        chk.validated += 1
        if im.startswith("PANIC") or im.startswith("CRASH"):
            chk.count("impl:crash")
            chk.violation("decoder did not return: " + short(im, 160), dict(case=c, kind=kind, impl=short(im)))
            continue
        chk.count("impl:" + im.split()[0])
        if i in model:
            mobs, _ = split_obs(model[i])
            if mobs.startswith("PANIC") or mobs.startswith("OUTOFFUEL"):
                chk.corr_break("model outcome " + mobs[:12] + " (contradicts theorem C04_never_panics: the runner is broken)", dict(case=c))
            elif im != mobs and is_complete(f):      # incomplete / over-long input: Ok-or-Err is all this property asks
                # (the model is faithful to the known finding KF-1 - fixed-size types ignore the declared length - so frames of that
                # class compare equal too; nothing is exempted here)
                chk.corr_break("decoder observation differs from the model", dict(case=c, kind=kind, impl=short(im, 2000), model=short(mobs, 2000)))
        if i % max(1, len(fam) // 6) == 0:
            chk.sample(dict(case=c, kind=kind, impl=short(im, 100)))
    # after a program poisoned the lock of the library's process-wide DEFAULT_DICT (a malformed document loaded into it panics the
    # loader under the write lock): frames with AVPs unknown to the dictionary they are decoded with are refused as before
    unk = bytes([1]) + gen.be(32, 3) + bytes([0x80]) + gen.be(272, 3) + gen.be(4, 4) + gen.be(1, 4) + gen.be(2, 4) + gen.be(9999, 4) + b"\0" + gen.be(12, 3) + b"\0\0\0\1"
    pcs = ["DGLOBALPOISON", f"X g {xb(unk)}", f"X b {xb(unk)}", f"X x {xb(unk)}"] + [c for c in cases[:40]]
    pout = core.run_sharded([eng.harness, "codec"], eng.prelude, pcs, shards=1, timeout=300)
    for c, o in zip(pcs[1:], pout[1:]):
        chk.case("poisoned-global " + (c if len(c) < 4000 else core.sha(c)), True)
        chk.count("kind:after-poisoned-global")
        chk.validated += 1
        if o.startswith("PANIC") or o.startswith("CRASH"):
            chk.violation("decoder did not return (after the lock of the process-wide default dictionary had been poisoned by a failed load): " + short(o, 160), dict(case=c, impl=short(o)))
            break
    chk.rule = ("every family of hostile frame (truncations, length-field sweeps, lies, havoc, random) over the corpus + nesting 1..70 and up to 131000 levels "
                "(1 MiB); decoded on a 2 MiB thread in a worker process, returned messages are formatted (Display), inspected through every accessor and "
                "re-encoded; P = the worker returned Ok or Err (no unwind, abort, hang); non-trivial = non-empty input")
    chk.assumptions = ["stack bytes per frame, allocator behaviour and wall-clock time are runtime facts established by execution only (partial)"]


# ------------------------------------------------------------------ C05
def writer_behaviours(r, n):
    """per-call behaviours: '' default, caps, interruptions"""
    k = r.below(5)
    if k == 0:
        return []
    if k == 1:
        return ["1"] * n                      # one octet per call
    out = []
    for _ in range(r.range(1, 40)):
        out.append("i" if r.chance(1, 4) else hx(r.choice([1, 1, 2, 3, 4, 7, 8, 64, 1000])))
    return out


def check_C05(chk, tier, seed):
    rng = Rng(seed).fork("C05")
    eng = engine_codec.setup(chk, rng, need_limit=False)
    nmsg = 40 if tier == "quick" else 400
    hist = [c for c in gen_histories(rng, eng, nmsg * 3, big=False)]
    impl_h, model_h = eng.run(hist)
    corpus = []
    for c, im, mo in zip(hist, impl_h, model_h):
        mobs, o = split_obs(mo)
        if o.get("WD") == "1" and len(o["SPEC"]) < 1400 and im.startswith("R ok"):
            corpus.append((c, bytes.fromhex(o["SPEC"][1:])))
        if len(corpus) >= nmsg:
            break
    cases, expect = [], []
    for i, (c, frame) in enumerate(corpus):
        r = rng.fork(f"w{i}")
        body = c[2:]            # "<dict> <history...>"
        n = len(frame)
        ks = list(range(0, n)) + [n, n + 1, n + 100]
        if tier == "quick" and n > 160:
            ks = sorted(set(r.shuffle(list(range(0, n)))[:160] + [0, 1, 19, 20, 21, n - 1, n, n + 1]))
        for k in ks:
            b = writer_behaviours(r, n)
            if k % 3 == 1:
                b = ["z"] + b          # a writer that says Ok(0) ("no room left", as a too-small &mut [u8] does) instead of failing when it is full
            cases.append(f"W {body} {hx(k)} {len(b)}" + "".join(" " + x for x in b))
            expect.append(("fault", frame, k))
    # values the wire cannot carry
    tdef = [d for d in eng.dicts["g"].live() if d["ty"] == "time" and d["vendor"] is None][0]
    gdef = [d for d in eng.dicts["g"].live() if d["ty"] == "grp" and d["vendor"] is None][0]
    for t, inr in [(-2208988801, False), (-2208988800, True), (2085978495, True), (2085978496, False), (2208988800, False),
                   (-5000000000, False), (4102444800, False), (0, True), (-1, True),
                   # instants chrono represents and an i64 of nanoseconds does not (before 1677-09-21, after 2262-04-11), and the ends of that window
                   (9223372036, False), (9223372037, False), (-9223372036, False), (-9223372037, False), (-9223372038, False),
                   (253402300799, False), (-62135596800, False), (4000000000000, False), (-4000000000000, False)]:
        for wrap in (0, 1, 2):
            v = ("L", ("time", t))
            e = ("E", tdef["code"], None, 0x40, v)
            for _ in range(wrap):
                e = ("E", gdef["code"], None, 0, ("GN", [("E", 1011, None, 0, ("L", ("oct", b"ab"))), e]))
            line = hist_line("g", ("NEW", 272, 4, 0x80, 1, 2), [("ADD", e), ("ADDAVP", 1011, None, 0, ("L", ("oct", b"xyz")))])
            cases.append(f"W {line[2:]} {hx(100000)} 0")
            expect.append(("time", inr, t))
    # a writer that fails ONE call with WouldBlock / TimedOut (taking nothing) after j one-octet writes and is fine afterwards: std's
    # write_all gives up at the first such error - the encode has failed and must say so; had it carried on it would have to deliver
    # every octet (implementation only: the model's writer has no transient errors)
    tcases, tframes = [], []
    for (hline, frame) in corpus[:6]:
        body = hline[2:]
        for j in list(range(0, 24)) + [len(frame) // 2, len(frame) - 1]:
            for tok in ("e", "t"):
                tcases.append(f"W {body} {hx(1 << 20)} {j + 1}" + " 1" * j + f" {tok}")
                tframes.append(frame)
    for c, frame, im in zip(tcases, tframes, core.run_sharded([eng.harness, "codec"], eng.prelude, tcases, timeout=600)):
        chk.case(c, True)
        chk.validated += 1
        chk.count("fault:transient-error")
        t = im.split()
        if len(t) < 4 or t[0] != "W":
            chk.violation("encoder did not return a result: " + short(im, 200), dict(case=c, impl=short(im)))
        elif t[1] == "ok" and bytes.fromhex(t[3][1:]) != frame:
            chk.violation("encoding reported success although a write call had failed (WouldBlock / TimedOut) and the writer did not receive the complete frame",
                          dict(case=c, impl=short(im, 3000), frame=xb(frame)))
    # values a message can hold although no decoder would take them back (an E.164 address of more than 15 digits): whatever the
    # encoder decides - refuse, or write them - a success means a frame as long as its own Message Length says, every octet of it
    adef = [d for d in eng.dicts["g"].live() if d["ty"] == "addr" and d["vendor"] is None][0]
    for n in (15, 16, 17, 20, 40, 255):
        for wrap in (0, 1):
            e = ("E", adef["code"], None, 0x40, ("L", ("ae", bytes(0x30 + i % 10 for i in range(n)))))
            if wrap:
                e = ("E", gdef["code"], None, 0, ("GN", [e, ("E", 1011, None, 0, ("L", ("oct", b"ab")))]))
            line = hist_line("g", ("NEW", 272, 4, 0x80, 1, 2), [("ADD", e), ("ADDAVP", 1011, None, 0, ("L", ("oct", b"xyz")))])
            cases.append(f"W {line[2:]} {hx(100000)} 0")
            expect.append(("selfconsistent", n, wrap))
    impl, model = eng.run(cases)
    # sizes at and past 2^24: implementation only (the theorem C05_unrepresentable covers the model side)
    big = []
    for n, ok in [((1 << 24) - 8 - 20 - 4, True), ((1 << 24) - 8 - 20, False), ((1 << 24) - 8, False), ((1 << 24) - 4, False)]:
        if tier == "quick" and n == (1 << 24) - 4:
            continue
        big.append((f"W g NEW 110 4 80 1 2 1 ADDAVP 3f3 - 0 L octz {hx(n)} {hx(1 << 26)} 0", n, ok))
    # single AVPs through Avp::encode_to (public API), with and without vendor id, around 2^24, also inside a group
    for vendor, h in ((None, 8), (10415, 12)):
        for total in ((1 << 24) - 1, 1 << 24, (1 << 24) + 1, (1 << 24) + 3, (1 << 24) + 4):
            n = total - h
            v = "-" if vendor is None else hx(vendor)
            big.append((f"WA g E 3f3 {v} 0 L octz {hx(n)} {hx(1 << 26)}", None, total < (1 << 24)))
        # a group whose only member pushes the group's own length to 2^24 - 4 (fits) and to 2^24 (does not)
        for glen in ((1 << 24) - 4, 1 << 24):
            m = glen - 8 - h                     # member value length (multiple of 4: no padding)
            v = "-" if vendor is None else hx(vendor)
            big.append((f"WA g E 3f0 - 0 GN 1 E 3f3 {v} 0 L octz {hx(m)} {hx(1 << 26)}", None, glen < (1 << 24)))

    big_out = core.run_sharded([eng.harness, "codec"], eng.prelude, [b[0] for b in big], shards=min(8, len(big)), timeout=900)
    for (c, n, ok), o in zip(big, big_out):
        chk.case(c, True)
        chk.count("big")
        chk.validated += 1
        t = o.split()
        if n is None:
            if len(t) < 4 or t[0] != "WA":
                chk.violation("AVP encoder did not return on a large AVP: " + short(o, 200), dict(case=c, impl=short(o)))
            elif (t[1] == "ok") != ok:
                ln = int(t[5], 16)
                chk.violation((f"encoding reported success for an AVP whose length {ln} does not fit the 24-bit length field" if not ok else
                               f"an AVP of {ln} octets (below 2^24) was refused"), dict(case=c, impl=short(o)))
            elif ok and not (int(t[2], 16) == int(t[5], 16) + int(t[7], 16) and t[3][11:17] == "%06x" % int(t[5], 16)):
                chk.violation("a large AVP was not encoded faithfully (octet count / length field)", dict(case=c, impl=short(o)))
            continue
        total = 20 + 8 + n + (4 - n % 4) % 4
        if len(t) < 4 or t[0] != "W":
            chk.violation("encoder did not return on a large message: " + short(o, 200), dict(case=c, impl=short(o)))
        elif ok:
            if not (t[1] == "ok" and int(t[2], 16) == total and t[3][3:9] == "%06x" % total):
                chk.violation("a message just below 2^24 octets was not encoded faithfully", dict(case=c, impl=short(o), expected_octets=total))
        elif t[1] == "ok":
            chk.violation("encoding reported success for a message/AVP of 2^24 octets or more (its 24-bit length field cannot say so)",
                          dict(case=c, impl=short(o), avp_length=8 + n, message_length=total))
    for i, (c, ex, im, mo) in enumerate(zip(cases, expect, impl, model)):
        mobs, o = split_obs(mo)
        chk.case(c, True)
        chk.validated += 1
        t = im.split()
        if len(t) < 4 or t[0] != "W":
            chk.violation("encoder did not return a result: " + short(im, 200), dict(case=c, impl=short(im)))
            continue
        ok = True
        if ex[0] == "fault":
            _, frame, k = ex
            chk.count("fault:k<len" if k < len(frame) else "fault:k>=len")
            want_ok = k >= len(frame)
            want_acc = frame[:k] if k < len(frame) else frame
            got_acc = bytes.fromhex(t[3][1:])
            if t[1] == "ok" and got_acc != frame:
                ok = False
                chk.violation("encoding reported success although the writer had not accepted the complete frame",
                              dict(case=c, impl=short(im, 3000), frame=xb(frame), budget=k))
            elif (t[1] == "ok") != want_ok:
                ok = False
                chk.violation("a writer that accepts every octet (short writes / interruptions only) made encoding fail" if want_ok else
                              "encoding reported success although the writer failed",
                              dict(case=c, impl=short(im, 3000), frame=xb(frame), budget=k))
            elif got_acc != want_acc:
                ok = False
                chk.violation("the octets handed to the writer are not a prefix of the frame up to the fault",
                              dict(case=c, impl=short(im, 3000), frame=xb(frame), budget=k))
        elif ex[0] == "selfconsistent":
            chk.count("long-e164")
            got_acc = bytes.fromhex(t[3][1:])
            if t[1] == "ok" and (len(got_acc) < 20 or len(got_acc) != int.from_bytes(got_acc[1:4], "big")):
                ok = False
                chk.violation("encoding reported success for a frame that is not as long as its own Message Length field says",
                              dict(case=c, impl=short(im, 3000), octets_written=len(got_acc), message_length=int.from_bytes(got_acc[1:4], "big") if len(got_acc) >= 4 else None))
        else:
            _, inr, tval = ex
            chk.count("time:in" if inr else "time:out")
            if (t[1] == "ok") != inr:
                ok = False
                chk.violation(("a Time the wire cannot carry (%d s from 1970) was encoded with success" % tval) if not inr else
                              "a representable Time was refused", dict(case=c, impl=short(im, 3000), model=short(mobs, 3000)))
        if ok and o.get("CAPS") == "1" and "?" not in mobs.split()[:4] and im != mobs:
            chk.corr_break("encode_to observation differs from the model", dict(case=c, impl=short(im, 2000), model=short(mobs, 2000)))
        if i % max(1, len(cases) // 6) == 0:
            chk.sample(dict(case=c, impl=short(im, 120), P=ok))
    chk.rule = (f"{len(corpus)} in-domain corpus messages x every budget k in [0, len) (quick: all k up to 160 octets, else 160 sampled incl. boundaries) and k >= len, "
                "each with default / one-octet-per-call / random capped+interrupted writer behaviour; Times at and beyond both ends of the wire range at "
                "nesting 0..2; AVP/message sizes 2^24-32 .. 2^24 (implementation only); reference frame from the extracted reference encoder")
    chk.assumptions = ["std::io::Write contract (write_all retries Interrupted, Ok(0) is WriteZero) modelled", "a writer returning Ok(0) is outside the quantifier"]


# ------------------------------------------------------------------ C18
def check_C18(chk, tier, seed):
    rng = Rng(seed).fork("C18")
    eng = engine_codec.setup(chk, rng)
    n = 2500 if tier == "quick" else 100000
    hist = exhaustive_type_table(eng)[::3] + gen_histories(rng, eng, n, big=False)
    # decoded starting points too
    frames = corpus_frames(rng.fork("dec"), eng, 300 if tier == "quick" else 5000)
    # messages that repeat a top-level code - the same code two to four times with different values, and the same code under
    # another vendor (hence another type) in between - both as built messages and as decoded starting points
    rep_hist = []
    gd = eng.dicts["g"]
    leafdefs = [d for d in gd.live() if d["ty"] not in ("grp", "unk") and 1000 <= d["code"] < 1100]
    for k, d in enumerate(leafdefs):
        r = rng.fork(f"rep{k}")
        twin = [x for x in leafdefs if x["code"] == d["code"] and x["vendor"] != d["vendor"]]
        seq = []
        for j in range(r.range(2, 4)):
            seq.append(("ADDAVP", d["code"], d["vendor"], r.choice([0, 0x40]), ("L", gen.gen_leaf(r, gen.kinds_of_ty(d["ty"])[0]))))
            if twin and j == 0:
                t = twin[0]
                seq.append(("ADDAVP", t["code"], t["vendor"], 0, ("L", gen.gen_leaf(r, gen.kinds_of_ty(t["ty"])[0]))))
            if r.chance(1, 2):
                o = r.choice(leafdefs)
                seq.append(("ADDAVP", o["code"], o["vendor"], 0, ("L", gen.gen_leaf(r, gen.kinds_of_ty(o["ty"])[0]))))
        rep_hist.append(hist_line("g", ("NEW", 272, 4, 0x80, 1, 2), seq))
    hist += rep_hist
    # built Address AVPs holding E.164 numbers of more than 15 characters (what a message holds is what was put in), top level and in a group
    adef18 = [d for d in gd.live() if d["ty"] == "addr" and d["vendor"] is None][0]
    gdef18 = [d for d in gd.live() if d["ty"] == "grp" and d["vendor"] is None][0]
    for n in (15, 16, 19, 24, 40):
        e = ("E", adef18["code"], None, 0x40, ("L", ("ae", bytes(0x30 + (3 * i) % 10 for i in range(n)))))
        hist.append(hist_line("g", ("NEW", 272, 4, 0x80, 1, 2), [("ADD", e)]))
        hist.append(hist_line("g", ("NEW", 272, 4, 0x80, 1, 2), [("ADD", ("E", gdef18["code"], None, 0, ("GN", [e])))]))
    for m in eng.ask_model(rep_hist):
        _, o = split_obs(m)
        if o.get("WD") == "1":
            frames.insert(0, ("g", bytes.fromhex(o["SPEC"][1:])))
    # a frame that is refused in the middle of a group (one good member, then a member the dictionary does not know) is decoded
    # right before every decoded starting point, on the same decoder thread: nothing of it may show up in the next message
    ggrp = [d for d in eng.dicts["g"].live() if d["ty"] == "grp" and d["vendor"] is None][0]
    member = gen.be(1011, 4) + b"\0" + gen.be(8 + 3, 3) + b"xyz\0"
    unknown = gen.be(0x00fffffe, 4) + b"\0" + gen.be(8 + 4, 3) + b"\1\2\3\4"
    body = gen.be(ggrp["code"], 4) + b"\0" + gen.be(8 + len(member) * 2 + len(unknown), 3) + member + member + unknown
    hostile = bytes([1]) + gen.be(20 + len(body), 3) + bytes([0x80]) + gen.be(272, 3) + gen.be(4, 4) + gen.be(1, 4) + gen.be(2, 4) + body
    for i, (did, fr) in enumerate(frames[: (200 if tier == "quick" else 4000)]):
        r = rng.fork(f"e{i}")
        _, ops = gen.gen_history(r, eng.dicts[did], maxops=3, depth=2)
        if i % 2 == 0:
            hist.append(hist_line("g", ("DEC", hostile), []))
        hist.append(hist_line(did, ("DEC", fr), ops))
    # nine or more top-level AVPs in ascending code order with runs of one code (different values): get_avp(code) is the FIRST of its run
    asc = sorted([d for d in gd.live() if d["ty"] == "u32" and d["vendor"] is None] + [d for d in gd.live() if d["ty"] == "oct" and d["vendor"] is None and 1000 <= d["code"] < 1100], key=lambda d: d["code"])
    if asc:
        d0 = asc[0]
        mk18 = lambda d, j: ("ADDAVP", d["code"], None, 0, ("L", ("u32", 100 + j) if d["ty"] == "u32" else ("oct", b"v%d" % j)))
        for runs in ((3, 1, 1, 1, 1, 1, 1), (1, 1, 2, 1, 1, 1, 1, 1), (2, 2, 2, 2, 2), (1, 1, 1, 1, 1, 1, 1, 3)):
            ops, j = [], 0
            for idx, n in enumerate(runs):
                d = asc[idx % len(asc)] if len(asc) > idx else d0
                for _ in range(n):
                    ops.append(mk18(d, j))
                    j += 1
            ops.sort(key=lambda o: o[1])
            hist.append(hist_line("g", ("NEW", 272, 4, 0x80, 1, 2), ops))
    # decoded starting points of 8 ... 8.3 KiB whose LAST AVP is a long OctetString / DiameterURI (patterned, not zeros): the readers
    # the decoder thread rotates through include a buffered one whose buffer ends inside that value
    odef18 = [d for d in gd.live() if d["ty"] == "oct" and d["vendor"] is None and 1000 <= d["code"] < 1100][0]
    udef18 = [d for d in gd.live() if d["ty"] == "uri" and d["vendor"] is None][0]
    for j, n in enumerate(range(8100, 8400, 12)):
        dd = [odef18, udef18][j % 2]
        val = bytes((i * 7 + 13) % 251 + 1 for i in range(n))
        lead = gen.be(1011, 4) + b"\0" + gen.be(8 + 2, 3) + b"ab\0\0"
        last = gen.be(dd["code"], 4) + b"\x40" + gen.be(8 + n, 3) + val + b"\0" * ((4 - n % 4) % 4)
        fr = bytes([1]) + gen.be(20 + len(lead) + len(last), 3) + bytes([0x80]) + gen.be(272, 3) + gen.be(4, 4) + gen.be(1, 4) + gen.be(2, 4) + lead + last
        hist.append(hist_line("g", ("DEC", fr), []))
    cases = []
    for i, h in enumerate(hist):
        r = rng.fork(f"q{i}")
        did = h.split()[1]
        live = eng.dicts[did].live()
        used = [int(x, 16) for x in re.findall(r"(?:ADDAVP|E) ([0-9a-f]+) ", h)] or [1]
        codes = [r.choice(used) for _ in range(3)] + [r.choice(live)["code"], 1000 + r.below(17), 2000 + r.below(17), 999999]
        cases.append("G" + h[1:] + f" {len(codes)} " + " ".join(hx(c) for c in codes))
    impl, model = eng.run(cases)
    impl_h, _ = eng.run(hist) if False else (None, None)
    himpl = core.run_sharded([eng.harness, "codec"], eng.prelude, hist)
    for i, (c, h, im, mo, hi) in enumerate(zip(cases, hist, impl, model, himpl)):
        chk.validated += 1
        if im.startswith("R err") or im.startswith("PANIC") or not hi.startswith("R ok"):
            chk.case(c, False)
            if im != mo:
                chk.corr_break("start outcome differs", dict(case=c, impl=short(im), model=short(mo)))
            continue
        try:
            m = parse_result(hi)["msg"]
            head, q = im.split(" Q")
            items = head.split()[2:]
            qs = q.split()
        except Exception as e:
            chk.violation(f"unparsable accessor observation: {e}", dict(case=c, impl=short(im)))
            continue
        chk.case(c, len(m["avps"]) >= 2)
        why = []
        # "in wire order": the order of get_avps() against the order of the AVPs in the octets the message encodes to
        try:
            wire = wire_top_level(bytes.fromhex(parse_result(hi)["enc"].lstrip("x")))
        except Exception:
            wire = None
        if wire is not None and not has_fixed_mismatch(m):      # KF-1 frames re-encode inconsistently: not walkable by their own lengths
            listed = [(int(a["code"], 16), None if a["vendor"].startswith("-") else int(a["vendor"], 16)) for a in m["avps"]]
            chk.count("wire-order:compared")
            if listed != wire:
                why.append(f"get_avps() lists the top-level AVPs as {listed[:6]}, on the wire they are {wire[:6]}")
        if len(items) != len(m["avps"]):
            why.append("get_avps() does not list every top-level AVP")
        else:
            for a, it in zip(m["avps"], items):
                w = getter_mismatch(a, it)
                if w:
                    why.append(w)
                    break
        codes = [int(x, 16) for x in c.split()[-len(qs):]]
        for code, got in zip(codes, qs):
            want = next((str(j) for j, a in enumerate(m["avps"]) if int(a["code"], 16) == code), "none")
            chk.count("lookup:hit" if want != "none" else "lookup:miss")
            if sum(1 for a in m["avps"] if int(a["code"], 16) == code) > 1:
                chk.count("lookup:repeated-code")
            if got != want:
                why.append(f"get_avp({code}) returned {got}, the first AVP with that code in wire order is {want}")
        if why:
            chk.violation("; ".join(why[:3]), dict(case=c, impl=short(im, 3000), message=short(hi, 3000)))
        elif im != mo:
            chk.corr_break("accessor observation differs from the model", dict(case=c, impl=short(im, 3000), model=short(mo, 3000)))
        if i % max(1, len(cases) // 6) == 0:
            chk.sample(dict(case=c, impl=short(im, 200), P=not why))
    # messages that grow past what a Message Length field can carry (16 MiB): add() appends whatever it is given - whether such a
    # message can be ENCODED is another matter (C05) - so the list and the lookups still see every AVP, in order
    for (n, size) in ((3, 16), (17, 1 << 20), (40, 1 << 19)):
        im = core.run_sharded([eng.harness, "codec"], eng.prelude, [f"GBIG {n} {hx(size)}"], shards=1, timeout=300)[0]
        chk.case(f"GBIG {n} {size}", True)
        chk.validated += 1
        chk.count("built-past-16MiB" if n * size > (1 << 24) else "built-small")
        padded = (8 + size + 3) // 4 * 4
        want = f"GBIG count={n + 2} big={n} tail=3f4,10c first1011=0 first1012={n} first268={n + 1} length={20 + n * padded + 12 + 12}"
        if im != want:
            chk.violation("a message built from many large AVPs does not hold exactly the AVPs it was given, in order (get_avps / get_avp / reported length)",
                          dict(case=f"GBIG {n} {hx(size)}", impl=short(im, 400), expected=want))
    o = core.run_sharded([eng.harness, "codec"], eng.prelude, ["TIMEFRAC"], shards=1, timeout=120)[0]
    chk.case("TIMEFRAC", True)
    chk.validated += 1
    chk.count("built-time-with-fraction")
    if o != "OK":
        chk.violation("get_time() on a built Time AVP did not return the instant the AVP was built from (sub-second part): " + short(o, 200), dict(case="TIMEFRAC", impl=short(o)))
    chk.rule = ("type table + generated construction histories (repeated codes under different vendors/types, groups) + decoded-then-extended frames; "
                "for the final message: all 16 typed accessors on every AVP (recursively through Grouped::avps()), get_avp for 7 codes (present, repeated, "
                "absent) identified by pointer position in get_avps(); non-trivial = at least two top-level AVPs")


def wire_top_level(b):
    """(code, vendor) of the top-level AVPs of an encoded message, read off the octets; None if they cannot be walked"""
    if len(b) < 20:
        return None
    out, off = [], 20
    while off < len(b):
        if off + 8 > len(b):
            return None
        code = int.from_bytes(b[off:off + 4], "big")
        fl = b[off + 4]
        ln = int.from_bytes(b[off + 5:off + 8], "big")
        vend = None
        if fl & 0x80:
            if off + 12 > len(b):
                return None
            vend = int.from_bytes(b[off + 8:off + 12], "big")
        if ln < 8:
            return None
        out.append((code, vend))
        off += ln + (-ln) % 4
    return out if off == len(b) else None


def getter_mismatch(a, item):
    """item = '[mask|render]' for the observed AVP a; returns a description or None"""
    if not (item.startswith("[") and item.endswith("]")) or "|" not in item:
        return "malformed getter observation"
    mask, render = item[1:-1].split("|", 1)
    v = a["val"]
    kind = KIND_TY.get(v[1]) if v[0] == "L" else "grp"
    want = "".join("1" if t == kind else "0" for t in TYS[1:])
    if mask != want:
        return f"typed accessors answer {mask} for a value of type {kind} (expected {want})"
    if v[0] == "L":
        if render != f"L,{v[1]},{v[2]}":
            return f"typed accessor returned {render}, the AVP holds L,{v[1]},{v[2]}"
        return None
    parts = split_top(render)
    if parts[0] != "G" or int(parts[1]) != len(v[1]) or len(parts) != 2 + len(v[1]):
        return "group member accessor does not list the members"
    for x, it in zip(v[1], parts[2:]):
        w = getter_mismatch(x, it)
        if w:
            return w
    return None


def split_top(s):
    """split on commas that are not inside brackets"""
    out, depth, cur = [], 0, []
    for ch in s:
        if ch == "[":
            depth += 1
        elif ch == "]":
            depth -= 1
        if ch == "," and depth == 0:
            out.append("".join(cur))
            cur = []
        else:
            cur.append(ch)
    out.append("".join(cur))
    return out
