"""Case and observation grammar shared by the Rust harness and the extracted-model runner."""
import re
import xml.etree.ElementTree as ET

BYTES_KINDS = {"a4", "a6", "ae", "ip4", "ip6", "id", "uri", "oct", "utf"}
SIGNED_KINDS = {"en", "i32", "i64", "time"}
UNSIGNED_KINDS = {"f32", "f64", "u32", "u64"}
KIND_TY = {"a4": "addr", "a6": "addr", "ae": "addr", "ip4": "ip4", "ip6": "ip6", "id": "id", "uri": "uri",
           "en": "en", "f32": "f32", "f64": "f64", "i32": "i32", "i64": "i64", "oct": "oct", "time": "time",
           "u32": "u32", "u64": "u64", "utf": "utf"}
TYS = ["unk", "addr", "ip4", "ip6", "id", "uri", "en", "f32", "f64", "grp", "i32", "i64", "oct", "time", "u32", "u64", "utf"]
TY_XML_NAME = {"utf": "UTF8String", "oct": "OctetString", "i32": "Integer32", "i64": "Integer64", "u32": "Unsigned32",
               "u64": "Unsigned64", "en": "Enumerated", "grp": "Grouped", "id": "DiameterIdentity", "uri": "DiameterURI",
               "time": "Time", "addr": "Address", "ip4": "IPv4", "ip6": "IPv6", "f32": "Float32", "f64": "Float64"}
XML_NAME_TY = {v: k for k, v in TY_XML_NAME.items()}


def hx(n):
    return ("-%x" % -n) if n < 0 else ("%x" % n)


def xb(b):
    return "x" + bytes(b).hex()


def opt(v):
    return "-" if v is None else hx(v)


# ---------------- expressions
def leaf_toks(l):
    k, p = l
    if k in BYTES_KINDS:
        return f"{k} {xb(p)}"
    return f"{k} {hx(p)}"


def vexp_toks(v):
    if v[0] == "L":
        return "L " + leaf_toks(v[1])
    return f"{v[0]} {len(v[1])}" + "".join(" " + aexp_toks(a) for a in v[1])


def aexp_toks(a):
    if a[0] == "E":
        _, c, vd, fl, v = a
        return f"E {hx(c)} {opt(vd)} {hx(fl)} {vexp_toks(v)}"
    _, name, v = a
    return f"N {xb(name)} {vexp_toks(v)}"


def hop_toks(o):
    k = o[0]
    if k == "ADD":
        return "ADD " + aexp_toks(o[1])
    if k == "ADDAVP":
        _, c, vd, fl, v = o
        return f"ADDAVP {hx(c)} {opt(vd)} {hx(fl)} {vexp_toks(v)}"
    if k == "ADDNAME":
        return f"ADDNAME {xb(o[1])} {vexp_toks(o[2])}"
    if k == "READD":
        return f"READD {o[1]}"
    if k == "REWRAP":
        _, i, c, vd, fl, ex = o
        return f"REWRAP {i} {hx(c)} {opt(vd)} {hx(fl)} {len(ex)}" + "".join(" " + aexp_toks(a) for a in ex)
    raise ValueError(k)


def hist_line(dictid, start, ops):
    if start[0] == "NEW":
        s = "NEW " + " ".join(hx(x) for x in start[1:])
    else:
        s = "DEC " + xb(start[1])
    return f"H {dictid} {s} {len(ops)}" + "".join(" " + hop_toks(o) for o in ops)


def vexp_count(v):
    """number of AVP nodes below a value expression"""
    if v[0] == "L":
        return 0
    return sum(1 + vexp_count(a[4] if a[0] == "E" else a[2]) for a in v[1])


def vexp_depth(v):
    if v[0] == "L":
        return 0
    return 1 + max([vexp_depth(a[4] if a[0] == "E" else a[2]) for a in v[1]] + [0])


# ---------------- observations
class P:
    def __init__(self, s):
        self.t = s.split()
        self.i = 0

    def next(self):
        x = self.t[self.i]
        self.i += 1
        return x

    def done(self):
        return self.i >= len(self.t)


def parse_avp(p):
    assert p.next() == "A"
    a = dict(code=p.next(), vendor=p.next(), m=p.next(), p=p.next(), len=p.next(), pad=p.next())
    k = p.next()
    if k == "L":
        a["val"] = ("L", p.next(), p.next())
    else:
        n = int(p.next())
        a["val"] = ("G", [parse_avp(p) for _ in range(n)])
    return a


def parse_msg(p):
    assert p.next() == "M"
    m = dict(ver=p.next(), len=p.next(), flags=p.next(), cmd=p.next(), app=p.next(), hbh=p.next(), e2e=p.next())
    n = int(p.next())
    m["avps"] = [parse_avp(p) for _ in range(n)]
    return m


def abs_avp(a):
    """forget stored length and padding"""
    v = a["val"]
    return (a["code"], a["vendor"], a["m"], a["p"], (v[0], v[1], v[2]) if v[0] == "L" else ("G", tuple(abs_avp(x) for x in v[1])))


def abs_msg(m):
    return (m["ver"], m["flags"], m["cmd"], m["app"], m["hbh"], m["e2e"], tuple(abs_avp(a) for a in m["avps"]))


def walk_avps(avps):
    for a in avps:
        yield a
        if a["val"][0] == "G":
            yield from walk_avps(a["val"][1])


FIXED = {"ip4": 4, "en": 4, "f32": 4, "i32": 4, "time": 4, "u32": 4, "f64": 8, "i64": 8, "u64": 8, "ip6": 16}


def has_fixed_mismatch(m):
    """the known class KF-1: an observed fixed-size AVP whose reported length is not header + natural size"""
    for a in walk_avps(m["avps"]):
        v = a["val"]
        if v[0] == "L" and v[1] in FIXED:
            h = 8 if a["vendor"].startswith("-") else 12
            if int(a["len"], 16) != h + FIXED[v[1]]:
                return True
    return False


def split_obs(line):
    """'<obs> ## <oracle k v ...>' -> (obs, dict)"""
    if " ## " in line:
        obs, o = line.split(" ## ", 1)
        t = o.split()
        return obs, dict(zip(t[0::2], t[1::2]))
    return line, {}


def parse_result(obs):
    """R ok <st> M ... ENC x.. | OK M ... ENC x.. -> dict(status, steps, msg, enc)"""
    p = P(obs)
    head = p.next()
    r = dict(head=head)
    if head == "R":
        r["start"] = p.next()
        if r["start"] != "ok":
            return r
        r["steps"] = p.next()
    elif head != "OK":
        return r
    r["msg"] = parse_msg(p)
    assert p.next() == "ENC"
    r["enc"] = p.next()
    return r


# ---------------- dictionaries
_builtin_cache = {}


def builtin_xml(repo):
    """the built-in dictionary document: asked from the library itself (public static DEFAULT_DICT_XML, through
    the harness), so that moving the text around inside the crate is not an event; falls back to the source text"""
    if repo in _builtin_cache:
        return _builtin_cache[repo]
    xml = None
    try:
        import core
        out, crashed, why = core.run_batch([core.build_harness("dev"), "codec"], ["BUILTINXML"], timeout=120)
        if out and out[0].startswith("XML x"):
            xml = bytes.fromhex(out[0][5:]).decode("utf-8")
    except Exception:
        xml = None
    if xml is None:
        src = open(f"{repo}/src/dictionary.rs", encoding="utf-8").read()
        m = re.search(r'DEFAULT_DICT_XML: &\'static str = \{\s*let xml = r#"(.*?)"#;', src, flags=re.S)
        if not m:
            raise RuntimeError("cannot obtain the built-in dictionary document (DEFAULT_DICT_XML)")
        xml = m.group(1)
    _builtin_cache[repo] = xml
    return xml


def xml_apps(xml_text):
    """independent reading of a dictionary document (xml.etree, not serde-xml-rs)"""
    root = ET.fromstring(xml_text)
    apps = []
    for app in root.findall("application"):
        cmds = [(c.attrib["name"].encode(), int(c.attrib["code"])) for c in app.findall("command")]
        avps = []
        for a in app.findall("avp"):
            data = a.find("data")
            avps.append(dict(code=int(a.attrib["code"]),
                             vendor=int(a.attrib["vendor-id"]) if "vendor-id" in a.attrib else None,
                             name=a.attrib["name"].encode(), tyname=data.attrib["type"].encode(),
                             must=a.attrib["must"].encode() if "must" in a.attrib else None))
        apps.append(dict(name=app.attrib["name"].encode(), id=int(app.attrib["id"]), cmds=cmds, avps=avps))
    return apps


def load_toks(xml_text, apps=None):
    apps = xml_apps(xml_text) if apps is None else apps
    s = f"LOAD {xb(xml_text.encode())} {len(apps)}"
    for a in apps:
        s += f" {xb(a['name'])} {hx(a['id'])} {len(a['cmds'])}"
        for n, c in a["cmds"]:
            s += f" {xb(n)} {hx(c)}"
        s += f" {len(a['avps'])}"
        for d in a["avps"]:
            s += f" {hx(d['code'])} {opt(d['vendor'])} {xb(d['name'])} {xb(d['tyname'])} " + ("-" if d["must"] is None else xb(d["must"]))
    return s


def add_toks(d):
    return f"ADD {hx(d['code'])} {opt(d['vendor'])} {xb(d['name'])} {d['ty']} {1 if d['m'] else 0}"


def dict_line(dictid, ops):
    return f"D {dictid} {len(ops)} " + " ".join(ops)


def gen_xml(apps):
    """renders generated definitions as a dictionary document (commands before AVPs:
    serde-xml-rs wants same-named children contiguous)"""
    def esc(b):
        return (b.decode() if isinstance(b, bytes) else b).replace("&", "&amp;").replace("<", "&lt;").replace('"', "&quot;")
    out = ["<diameter>"]
    for a in apps:
        out.append(f'<application id="{a["id"]}" type="auth" name="{esc(a["name"])}">')
        if a.get("vendor_elem") is not None:
            # as in the shipped 3GPP dictionary: names the vendor whose application this is; says nothing about any AVP's key
            out.append(f'<vendor id="{a["vendor_elem"]}" name="V{a["vendor_elem"]}"/>')
        for n, c in a["cmds"]:
            # the abbreviation of a command is not a name: it is chosen among the NAMES other commands are declared with
            short = ["CC", "AA", "Cmd-A", "Cmd-B", "Credit-Control", "X"][(c + len(n)) % 6]
            out.append(f'<command code="{c}" short="{short}" name="{esc(n)}"><request></request><answer></answer></command>')
        for d in a["avps"]:
            # (`pad`: numbers written with a leading zero - code="0264", vendor-id="010415" -: decimal all the same)
            z = "0" if d.get("pad") else ""
            at = f'name="{esc(d["name"])}" code="{z}{d["code"]}"'
            if d["must"] is not None:
                at += f' must="{esc(d["must"])}"'
            if d.get("may") is not None:
                at += f' may="{esc(d["may"])}"'
            if d.get("must_not") is not None:
                at += f' must-not="{esc(d["must_not"])}"'
            if d["vendor"] is not None:
                at += f' vendor-id="{z}{d["vendor"]}"'
            if d.get("items"):
                # enumeration items (as the shipped dictionaries list them for Enumerated AVPs): documentation, not a type
                its = "".join(f'<item code="{c}" name="{esc(n)}"/>' for c, n in d["items"])
                out.append(f'<avp {at}><data type="{esc(d["tyname"])}">{its}</data></avp>')
            else:
                out.append(f'<avp {at}><data type="{esc(d["tyname"])}"/></avp>')
        out.append("</application>")
    out.append("</diameter>")
    return "\n".join(out)
