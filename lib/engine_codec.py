"""Engine `codec`: shared plumbing for C01-C05, C15-C18 (pure codec, builder, accessors)."""
import os
import core
from core import Rng, log, MachineryError
from proto import *
import gen


class Codec:
    def __init__(self, chk, profile="dev"):
        self.chk = chk
        self.runner = core.build_runner()
        self.harness = core.build_harness(profile)
        self.lim = None
        self.prelude = []
        self.dicts = {}

    # -- dictionaries available to every case of this run
    def add_dict(self, g):
        self.dicts[g.id] = g
        self.prelude.append(g.line())

    def standard_dicts(self, rng):
        self.add_dict(gen.builtin_dict(core.REPO, "b"))
        self.add_dict(gen.synthetic_dict(rng.fork("dict-g"), "g", via_xml=False))
        self.add_dict(gen.synthetic_dict(rng.fork("dict-x"), "x", via_xml=True))

    def tyof(self, dictid):
        g = self.dicts[dictid]
        table = {}
        for d in g.defs:
            table[(d["code"], d["vendor"])] = d["ty"]
        return lambda c, v: table.get((c, v))

    # -- measured parameter: the decoder's nesting limit
    def measure_limit(self):
        """largest nesting depth the implementation accepts (probed in an isolated worker).
        Returns (limit or None, crash_frame or None)."""
        g = self.dicts["g"]
        grp = [d for d in g.live() if d["ty"] == "grp" and d["vendor"] is None][0]
        depths = list(range(1, 70)) + [96, 128, 192, 256, 384, 512, 768, 1024, 2048, 4096, 8192, 16384, 32768, 65536, 131000]
        cases = [f"X g {xb(gen.nested_groups_frame(d, grp['code']))}" for d in depths]
        out = core.run_sharded([self.harness, "codec"], self.prelude, cases, shards=1, timeout=600)
        lim = None
        crash = None
        for d, o in zip(depths, out):
            if o.startswith("OK"):
                lim = d
            elif o.startswith("CRASH") or o.startswith("PANIC"):
                crash = (d, o)
                break
            else:
                break
        # accepted everything we tried => no limit found
        if lim == depths[-1]:
            return None, crash
        return lim, crash

    def use_limit(self, lim):
        self.lim = lim
        self.prelude.append(f"LIM {lim}")

    # -- run the same case lines through implementation and model
    def run(self, cases, shards=None, timeout=1800):
        impl = core.run_sharded([self.harness, "codec"], self.prelude, cases, shards=shards, timeout=timeout)
        model = core.run_sharded([self.runner], self.prelude, cases, shards=shards, timeout=timeout, unlimited_stack=True)
        for k, (a, b) in enumerate(zip(impl, model)):
            if a.startswith("BADCASE unknown dict") and not b.startswith(("BADCASE", "PARSEERROR")):
                # the model's runner has the dictionary this case names, the implementation's has not: the library did not load the
                # document(s) it was made from (the loader panicked on a document an independent reader parses)
                self.chk.violation("a dictionary could not be created by the library from documents an independent XML reader parses (the loader panicked or gave up): "
                                   "every case that uses it is lost", dict(case=cases[k][:3000], impl=a[:300], model=b[:300]))
                impl[k] = "ERR"
        for l in impl + model:
            if l.startswith("BADCASE") or l.startswith("PARSEERROR"):
                raise MachineryError("malformed case reached a runner: " + l[:300])
        if getattr(self.chk, "tier", "quick") == "thorough" and cases and not os.environ.get("VERIF_NO_RELEASE_PASS"):
            # thorough tier: the same cases through library + harness built in the release profile (no debug assertions, no
            # overflow checks, optimised): whatever the implementation does must not depend on the build profile.  A sample
            # of at most 20 000 cases per call keeps this a fraction of the run.
            rel = core.build_harness("release")
            step = max(1, len(cases) // 20000)
            # (not compared: races the scheduler decides - bursts of sends against the reader's shutdown - and whether the allocator
            # happened to hand out the same address again)
            # (lines that change what later cases see - dictionaries created, extended, swapped, dropped; the global dictionary - are
            # always executed, sampled or not, in one worker, in order: leaving one out would make the two runs differ by construction)
            control = ("D ", "DSWAP", "DADD", "DFORK", "DROP", "DGLOBAL", "POISON", "LIM ")
            stateful = any(c.startswith(control) for c in cases)
            idx = [i for i in range(len(cases)) if (i % step == 0 or cases[i].startswith(control)) and " BB " not in cases[i] and not cases[i].startswith(("NET", "TLS", "RECONN"))]
            rimpl = core.run_sharded([rel, "codec"], self.prelude, [cases[i] for i in idx], shards=(1 if stateful else shards), timeout=timeout)
            self.chk.count("release-profile-cases", len(idx))
            for i, r in zip(idx, rimpl):
                if cases[i].startswith("DSWAP"):
                    continue
                if r != impl[i] and not (r.startswith("CRASH") and impl[i].startswith("CRASH")):
                    self.chk.violation("the implementation behaves differently when built in the release profile (no debug assertions / overflow checks) than in the dev profile",
                                       dict(case=cases[i], release=r[:3000], dev=impl[i][:3000]))
                    break
        # encoding is a function of the message: the harness encodes every message twice and flags a difference
        for k, a in enumerate(impl):
            if " ENC2DIFF " in a:
                self.chk.violation("encoding the same message a second time gave a different result than the first time (something is remembered between calls)",
                                   dict(case=cases[k], impl=a[:3000]))
                impl[k] = a[:a.index(" ENC2DIFF ")]
        # an AVP whose V flag (as the library reports it) disagrees with the presence of a vendor id is malformed by construction
        for k, a in enumerate(impl):
            if "!V " in a and not model[k].startswith(("PANIC", "OUTOFFUEL")) and "!V " not in model[k]:
                self.chk.violation("an AVP reports the V flag without a vendor id (or a vendor id without the V flag): the flag octet and the header disagree",
                                   dict(case=cases[k], impl=a[:3000]))
                break
        # the message version has no accessor; when the harness could not observe it at all ("M ?") it is not compared
        for k, (a, b) in enumerate(zip(impl, model)):
            if " M ? " in a:
                i = a.index(" M ? ")
                pre = a[:i].count(" ")
                bt = b.split(" ")
                if len(bt) > pre + 2 and bt[pre + 1] == "M":
                    impl[k] = a[:i] + " M " + bt[pre + 2] + " " + a[i + 5:]
                    self.chk.count("version-unobservable")
        return impl, model

    def ask_model(self, lines):
        out = core.run_sharded([self.runner], self.prelude, lines, shards=1, unlimited_stack=True)
        return out


def setup(chk, rng, profile="dev", need_limit=True):
    c = Codec(chk, profile)
    chk.engine = c
    c.standard_dicts(rng)
    if need_limit:
        lim, crash = c.measure_limit()
        c.limit_probe = (lim, crash)
        c.use_limit(lim if lim is not None else 32)
    return c
