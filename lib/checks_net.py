"""Checks for C10 / C13: the real listener and the real client over loopback TCP and TLS."""
import os, re
import core
from core import Rng, log
from proto import *
import gen
import engine_codec
from checks_codec import short

NET_ENV = dict(core.ENV, SSL_CERT_FILE=os.path.join(core.ROOT, "tls", "bundle.crt"), VERIF_TLS_DIR=os.path.join(core.ROOT, "tls"))


# server identities of other key / signature kinds (tls/gen.sh): Ed25519 leaf from an Ed25519 CA, RSA leaf from the Ed25519 CA,
# ECDSA P-256 leaf from the RSA CA - all trusted and matching; an Ed25519 self-signed one nobody trusts.  What kind of key or
# signature a certificate carries is not a setting.
CERT_CLASS = {"edmatch": "match", "mixmatch": "match", "ecmatch": "match", "edself": "untrusted", "weak": "untrusted"}


def spec_cell(tls, verify, srv, cert):
    """what the property demands, written down independently of the Coq model"""
    if not tls:
        return "plain" if srv == "plain" else "noservice"
    if srv == "plain":
        return "refused"
    if not verify:
        return "tls"
    return "tls" if CERT_CLASS.get(cert, cert) == "match" else "refused"


def classify(obs):
    f = dict(x.split("=", 1) for x in obs.split()[1:] if "=" in x)
    c, r, clear, proc = f.get("connect"), f.get("request"), f.get("cleartext"), f.get("processed")
    if c == "ok" and r == "answered" and clear == "1" and proc == "1":
        return "plain"
    if c == "ok" and r == "answered" and clear == "0" and proc == "1":
        return "tls"
    if c in ("refused", "timeout") and clear == "0" and proc == "0":
        return "refused"
    if c == "ok" and r in ("failed", "noanswer", "sendfailed") and proc == "0":
        return "noservice"      # whether the plain-text request got onto the wire before the peer hung up does not matter
    return "other"


def check_C13(chk, tier, seed):
    rng = Rng(seed).fork("C13")
    eng = engine_codec.setup(chk, rng, need_limit=False)
    cells = []
    for tls in (0, 1):
        for verify in (0, 1):
            for srv in ("plain", "tls"):
                for cert in ("match", "wrongname", "untrusted"):
                    for addr in ("host", "ip"):
                        cells.append((tls, verify, srv, cert, addr))
    reps = 1 if tier == "quick" else 3
    cases, meta = [], []
    # Each worker process runs several cells one after the other.  The configuration alone must decide, whatever a
    # previous client or server in the same process was configured with: pass A alternates verify off/on (off first),
    # pass B on/off (on first), so that every TLS client cell is preceded in its process by one with the other setting.
    for rep in range(reps):
        for flip in (0, 1):
            order = sorted(range(len(cells)), key=lambda i: (cells[i][3], cells[i][4], cells[i][2], cells[i][0], cells[i][1] ^ flip))
            for i in order:
                tls, verify, srv, cert, addr = cells[i]
                marker = "MARK%04dx%d%dq%d" % (i, rep, flip, seed % 1000)
                cases.append(f"TLS {tls} {verify} {srv} {cert} {addr} {marker}")
                meta.append((tls, verify, srv, cert, addr))
    # a TLS server whose listen() is entered, left and entered again must still be a TLS server
    for i, (tls, verify, srv, cert, addr) in enumerate(cells):
        if srv == "tls" and addr == "host":
            cases.append(f"TLS {tls} {verify} {srv} {cert} {addr} MARKR{i:04d}q{seed % 1000} relisten")
            meta.append((tls, verify, srv, cert, addr))
    # a server given an identity the TLS library refuses to serve with (RSA-1024 key): it is still "configured with a TLS
    # identity" - no plain-text request may be processed or answered, and a TLS client gets no session
    for tls in (0, 1):
        for verify in (0, 1):
            cases.append(f"TLS {tls} {verify} tls weak host MARKW{tls}{verify}q{seed % 1000}")
            meta.append((tls, verify, "tls", "weak", "host"))
    # the first octets of what the client sends arrive at the server one per TCP segment (a relay, a slow path, Nagle off): TLS
    # is negotiated over a byte stream, how it is cut into segments changes nothing
    for i, (tls, verify, srv, cert, addr) in enumerate(cells):
        if tls == 1 and srv == "tls" and addr == "host":
            cases.append(f"TLS {tls} {verify} {srv} {cert} {addr} MARKD{i:04d}q{seed % 1000} dribble")
            meta.append((tls, verify, srv, cert, addr))
    # ... and while that slowed-down connection setup is in flight, two other peers connect to the server: one peer's connection
    # setup is no business of another's
    for i, (tls, verify, srv, cert, addr) in enumerate(cells):
        if tls == 1 and srv == "tls" and addr == "host":
            cases.append(f"TLS {tls} {verify} {srv} {cert} {addr} MARKV{i:04d}q{seed % 1000} dribble rival")
            meta.append((tls, verify, srv, cert, addr))
    # the port IANA lists for Diameter over TLS (5658): the configuration decides, not the port.  (3868 is left alone: the
    # repository's own transport test binds it, and a check must not be able to disturb a test run going on next to it.)
    for port in (5658,):
        for (tls, verify, srv, cert) in ((0, 0, "plain", "match"), (0, 1, "tls", "match"), (1, 1, "tls", "match"), (1, 0, "plain", "match")):
            cases.append(f"TLS {tls} {verify} {srv} {cert} host MARKP{port}{tls}{verify}q{seed % 1000} port={port}")
            meta.append((tls, verify, srv, cert, "host"))
    for verify in (0, 1):
        for cert in ("edmatch", "mixmatch", "ecmatch", "edself"):
            for addr in ("host", "ip"):
                cases.append(f"TLS 1 {verify} tls {cert} {addr} MARKK{verify}{cert[:3]}{addr[0]}q{seed % 1000}")
                meta.append((1, verify, "tls", cert, addr))
    # a slow path: the server's first flight reaches the client 6 s late (a relay holds it).  How long a handshake takes is not a
    # setting: the acceptable certificate is accepted, verification off accepts any
    for (verify, cert) in ((1, "match"), (0, "match"), (0, "untrusted"), (1, "untrusted")):
        cases.append(f"TLS 1 {verify} tls {cert} host MARKH{verify}{cert[0]}q{seed % 1000} hold=6000")
        meta.append((1, verify, "tls", cert, "host"))
    n_main = len(cases)
    # verification switched off means off: a trust file that is missing or is not a certificate file at all must not matter
    for bad_trust in ("/nonexistent/dir/ca.pem", os.path.join(core.ROOT, "tls", "gen.sh")):
        for srv in ("plain", "tls"):
            for cert in ("match", "wrongname", "untrusted"):
                cases.append(f"TLS 1 0 {srv} {cert} host MARKT{len(cases):04d}q{seed % 1000}")
                meta.append((1, 0, srv, cert, "host"))
    impl = []
    # (port cells bind fixed ports: one worker runs them all, one after the other)
    port_idx = [i for i, c in enumerate(cases) if " port=" in c]
    rest_idx = [i for i in range(n_main) if i not in port_idx]
    out_rest = core.run_sharded([eng.harness, "codec"], eng.prelude, [cases[i] for i in rest_idx], shards=16, timeout=600, env=NET_ENV)
    out_port = core.run_sharded([eng.harness, "codec"], eng.prelude, [cases[i] for i in port_idx], shards=1, timeout=600, env=NET_ENV)
    merged = dict(zip(rest_idx, out_rest))
    merged.update(zip(port_idx, out_port))
    impl = [merged[i] for i in range(n_main)]
    for j, bad_trust in enumerate(("/nonexistent/dir/ca.pem", os.path.join(core.ROOT, "tls", "gen.sh"))):
        impl += core.run_sharded([eng.harness, "codec"], eng.prelude, cases[n_main + 6 * j: n_main + 6 * (j + 1)], shards=3, timeout=600, env=dict(NET_ENV, SSL_CERT_FILE=bad_trust))
    mcases = [f"TLSCELL {t} {v} {s} {CERT_CLASS.get(c, c)} {a} x33383638" for (t, v, s, c, a) in meta]
    model = eng.ask_model(mcases)
    if tier == "thorough":
        # the whole table once more with the library and harness built in the release profile (no debug assertions,
        # no overflow checks): what the configuration means must not depend on the build profile
        rel = core.build_harness("release")
        n0 = len(cases)
        rcases = [c.replace("MARK", "MREL", 1) for c in cases[: n0 // reps]] if reps > 1 else [c.replace("MARK", "MREL", 1) for c in cases]
        rmeta = meta[: len(rcases)]
        impl += core.run_sharded([rel, "codec"], eng.prelude, rcases, shards=16, timeout=900, env=NET_ENV)
        model += model[: len(rcases)]
        cases += rcases
        meta += rmeta
        chk.extra["release_profile_cells"] = len(rcases)
    for i, (c, (tls, verify, srv, cert, addr), im, mo) in enumerate(zip(cases, meta, impl, model)):
        chk.case(c, True)
        chk.validated += 1
        want = spec_cell(tls, verify, srv, cert) if cert != "weak" else ("refused" if tls else "noservice")
        if im.startswith("TLS skipped"):
            chk.count("skipped:fixed-port-in-use")
            continue
        got = classify(im) if im.startswith("TLS") else "other"
        chk.count("expected:" + want)
        ok = got == want
        if not ok:
            what = {
                "plain": "with TLS disabled on both sides the client did not speak plain Diameter and get its answer",
                "tls": ("with verification enabled a trusted certificate matching the host was not accepted" if verify else
                        "with verification disabled a certificate was not accepted") + " (or clear text appeared on the wire)",
                "refused": "the client proceeded (or put Diameter octets on the socket in clear text) although no acceptable TLS session could be established",
                "noservice": "a server configured with a TLS identity processed or answered a plain-text request",
            }[want]
            chk.violation(f"{what}: expected {want}, observed {got}", dict(case=c, impl=short(im), expected=want))
        elif cert != "weak":
            mt = mo.split()
            if len(mt) < 2 or mt[1] != got:
                chk.corr_break("outcome differs from the model's table", dict(case=c, impl=short(im), model=short(mo)))
        if i % max(1, len(cases) // 6) == 0:
            chk.sample(dict(case=c, impl=im, P=ok))
    # the FIRST connection the client makes is torn down right after its first octets (a middlebox, a peer restarting); whatever
    # the client does next - give up, or try again - the settings still decide: a certificate that verification refuses stays
    # refused, nothing goes out in clear.  (A client that gives up where a session would have been acceptable is right too.)
    ccases, cmeta = [], []
    for verify in (0, 1):
        for cert in ("match", "wrongname", "untrusted"):
            for addr in ("host", "ip"):
                ccases.append(f"TLS 1 {verify} tls {cert} {addr} MARKC{verify}{cert[0]}{addr[0]}q{seed % 1000} cutfirst")
                cmeta.append((1, verify, "tls", cert, addr))
    cout = core.run_sharded([eng.harness, "codec"], eng.prelude, ccases, shards=6, timeout=600, env=NET_ENV)
    for c, (tls, verify, srv, cert, addr), im in zip(ccases, cmeta, cout):
        chk.case(c, True)
        chk.validated += 1
        chk.count("first-connection-cut")
        want = spec_cell(tls, verify, srv, cert)
        got = classify(im) if im.startswith("TLS") else "other"
        if not (got == "refused" or (want == "tls" and got == "tls")):
            chk.violation(f"after its first connection attempt was cut off, the client went on against the settings: expected refused{' or tls' if want == 'tls' else ''}, observed {got}",
                          dict(case=c, impl=short(im), expected=want))
    # one client object, the server behind its address replaced between connect() calls: a rotation to another trusted, matching
    # certificate is accepted, a certificate for another name is refused (verification on) or accepted (off), the first one again is accepted
    # (... after a connect() the caller gave up on while the peer sat on the ClientHello; after 33 connect() calls in a row that were
    # rightly refused; while another connection's handler is busy for five seconds: none of that is a setting either)
    swapcases = ["TLSSWAP 1", "TLSSWAP 0", "TLSSWAP 1 dropfirst", "TLSSWAP 0 dropfirst", "TLSSWAP 1 fails33", "TLSSWAP 1 busy", "TLSSWAP 0 busy"]
    swap = core.run_sharded([eng.harness, "codec"], eng.prelude, swapcases, shards=7, timeout=300, env=NET_ENV)
    for c, im in zip(swapcases, swap):
        chk.case(c, True)
        chk.validated += 1
        chk.count("server-replaced-between-connects")
        want = "TLSSWAP c1=ok c2=ok c3=refused c4=ok" if c.split()[1] == "1" else "TLSSWAP c1=ok c2=ok c3=ok c4=ok"
        if im != want:
            chk.violation("one client object whose server was replaced between connect() calls (match, another trusted matching certificate, a certificate for another "
                          "name, match again): expected " + want[8:] + ", observed " + short(im, 200), dict(case=c, impl=short(im), expected=want))
    # two TLS clients in one process, the first stuck in a handshake with a peer that never answers: the second gets its session
    two = core.run_sharded([eng.harness, "codec"], eng.prelude, ["TLSTWO 1", "TLSTWO 0"], shards=2, timeout=300, env=NET_ENV)
    for c, im in zip(["TLSTWO 1", "TLSTWO 0"], two):
        chk.case(c, True)
        chk.validated += 1
        chk.count("two-clients-one-stuck")
        if im != "TLSTWO connect=ok":
            chk.violation("a TLS client did not get its session with a trusted, matching server while another client of the same process was stuck in a handshake: " + short(im, 200),
                          dict(case=c, impl=short(im)))
    # an endpoint that chooses its certificate by the name the client asks for (SNI; `openssl s_server` with a default certificate
    # for another name): the client was told "localhost", the endpoint has a trusted certificate for it - accepted, verification on or off
    snicases = ["TLSSNI 1", "TLSSNI 0", "TLSSNI 1 tls13", "TLSSNI 0 tls13", "TLSSNI 1 alpn", "TLSSNI 0 alpn"]     # (tls13: a TLS-1.3-only endpoint; alpn: one with ALPN configured for other protocols)
    sni = core.run_sharded([eng.harness, "codec"], eng.prelude, snicases, shards=6, timeout=300, env=NET_ENV)
    for c, im in zip(snicases, sni):
        chk.case(c, True)
        chk.validated += 1
        if im.startswith("TLSSNI skipped"):
            chk.count("skipped:no-sni-endpoint")
            continue
        chk.count("openssl-endpoint:" + (c.split()[2] if len(c.split()) > 2 else "sni"))
        if im != "TLSSNI connect=ok":
            chk.violation("a client told to connect to a host name was refused by an endpoint (openssl s_server: certificate selected by SNI / TLS 1.3 only / ALPN configured) that holds a trusted certificate for that name: " + short(im, 200),
                          dict(case=c, impl=short(im)))
    # a plain-text peer whose FIRST message is something a TLS-identity server might be tempted to treat specially: an ordinary
    # request, capabilities exchanges announcing in-band security (Inband-Security-Id 0 / 1, RFC 3588 style), a watchdog, a
    # disconnect request - none may reach the handler or be answered in clear
    def raw(cmd, app, avps):
        body = b""
        for (code, fl, data) in avps:
            ln = 8 + len(data)
            body += gen.be(code, 4) + bytes([fl]) + gen.be(ln, 3) + data + b"\0" * ((4 - ln % 4) % 4)
        return bytes([1]) + gen.be(20 + len(body), 3) + bytes([0x80]) + gen.be(cmd, 3) + gen.be(app, 4) + gen.be(0x51, 4) + gen.be(0x52, 4) + body
    sid = lambda k: (263, 0x40, f"PLAIN{k}q{seed % 1000}".encode())
    oh, orr = (264, 0x40, b"peer.example.com"), (296, 0x40, b"example.com")
    firsts = [("ccr", raw(272, 4, [sid(0), oh, orr])),
              ("cer-inband-tls", raw(257, 0, [sid(1), oh, orr, (257, 0x40, b"\0\1\x7f\0\0\1"), (266, 0x40, gen.be(0, 4)), (269, 0, b"peer"), (299, 0x40, gen.be(1, 4))])),
              ("cer-inband-none", raw(257, 0, [sid(2), oh, orr, (257, 0x40, b"\0\1\x7f\0\0\1"), (266, 0x40, gen.be(0, 4)), (269, 0, b"peer"), (299, 0x40, gen.be(0, 4))])),
              ("cer-bare", raw(257, 0, [sid(3), oh, orr])),
              ("dwr", raw(280, 0, [sid(4), oh, orr])),
              ("dpr", raw(282, 0, [sid(5), oh, orr, (273, 0x40, gen.be(0, 4))])),
              ("header-only", raw(272, 4, []))]
    # one TLS server over time: idle for a while (longer than any handshake deadline a server might keep), then peers that fail at
    # connection setup, then a verifying client with a trusted, matching certificate: served, both before and after
    hist_cases = ["TLSHIST 0", f"TLSHIST {hx(6500)}"]
    himpl = core.run_sharded([eng.harness, "codec"], eng.prelude, hist_cases, shards=2, timeout=300, env=NET_ENV)
    for c, im in zip(hist_cases, himpl):
        chk.case(c, True)
        chk.validated += 1
        chk.count("tls-server-history")
        f = dict(x.split("=", 1) for x in im.split()[1:] if "=" in x) if im.startswith("TLSHIST") else {}
        if (f.get("first"), f.get("after_bad_peers")) != ("ok", "ok") or f.get("same_connection_later") not in ("ok", "not-run"):
            chk.violation("a verifying client with a trusted, matching server was not served by a TLS server that had been idle / had seen other peers fail at "
                          "connection setup before, or its connection was cut after it had been open for a while (what a connection gets must depend on the configuration alone): " + short(im, 200), dict(case=c, impl=short(im)))
    pcases = [f"TLSPLAIN match {xb(f)}" for (_, f) in firsts] + ["TLSROT"]
    pimpl = core.run_sharded([eng.harness, "codec"], eng.prelude, pcases, shards=8, timeout=300, env=NET_ENV)
    for (name, _), c, im in zip(firsts, pcases, pimpl):
        chk.case(c, True)
        chk.validated += 1
        chk.count("plain-first-message:" + name)
        f = dict(x.split("=", 1) for x in im.split()[1:] if "=" in x) if im.startswith("TLSPLAIN") else {}
        if f.get("calls") != "0" or f.get("diameter_reply") != "0":
            chk.violation(f"a server configured with a TLS identity processed or answered a plain-text message ({name}) sent as the first thing on a connection: "
                          + short(im, 200), dict(case=c, impl=short(im)))
    # one verifying client object, three connect() calls, the trust file changed in between (CA present / absent / present)
    im = pimpl[-1]
    chk.case("TLSROT", True)
    chk.validated += 1
    chk.count("trust-rotation")
    f = dict(x.split("=", 1) for x in im.split()[1:] if "=" in x) if im.startswith("TLSROT") else {}
    if (f.get("c1"), f.get("c2"), f.get("c3")) != ("ok", "refused", "ok"):
        chk.violation("one verifying client object, connect() called three times while the trust file changed (issuer present, absent, present): expected "
                      "ok / refused / ok - a certificate whose issuer is not trusted at the time of the connect() was accepted, or a trusted one refused: " + short(im, 200),
                      dict(case="TLSROT", impl=short(im)))
    # the name handed to the TLS library (hook verif_tls_domain) against the model's domain_of, on address strings of every shape
    hosts = ["localhost", "example.com", "a", "", "127.0.0.1", "10.0.0.1", "::1", "[::1]", "[fe80::1%eth0]", "[]", "[", "]", "[::1", "::1]", "[a]b",
             "h\u00f4te.example", "\u4f8b\u3048.jp", "x[y]", "[[::1]]", "[::1]x"]
    ports = [":3868", ":0", "", ":", ":abc", ":1:2", ":[", ":]", "]:5", "[:6"]
    addrs = [h + p for h in hosts for p in ports]
    r = rng.fork("addr")
    alphabet = ["[", "]", ":", "a", "1", ".", "\u00e9", "%", ","]
    for _ in range(400 if tier == "quick" else 20000):
        addrs.append("".join(r.choice(alphabet) for _ in range(r.range(0, 9))))
    dcases = [f"TLSDOMAIN {xb(a.encode())}" for a in addrs]
    dimpl = core.run_sharded([eng.harness, "codec"], eng.prelude, dcases, shards=1, timeout=300)
    dmodel = eng.ask_model([f"DOMAIN {xb(a.encode())}" for a in addrs])
    for a, c, im, mo in zip(addrs, dcases, dimpl, dmodel):
        chk.case(c, True)
        chk.validated += 1
        chk.count("tls-name:" + ("bracketed" if a.startswith("[") else "with-colon" if ":" in a else "bare"))
        got = bytes.fromhex(im.split()[1][1:]).decode("utf-8", "replace") if im.startswith("DOMAIN x") else None
        want = None
        host, sep, port = a.rpartition(":")
        if a.startswith("[") and "]" in a:
            want = a[1:a.index("]")]
        elif sep and ":" not in host and "[" not in host and "]" not in host:
            want = host
        elif sep and re.fullmatch(r"[0-9]{1,5}", port) and int(port) < 65536 and "[" not in host and "]" not in host:
            # a host that itself contains colons (unbracketed IPv6 literal): std's `ToSocketAddrs for str`, through which connect() reaches the
            # peer, splits at the LAST colon, so "the host it was asked to connect to" is the text before it (C13_domain_drops_port)
            want = host
        elif not sep and "[" not in a:
            want = a
        if got is None:
            chk.violation("the TLS server name could not be obtained: " + short(im, 200), dict(case=c, impl=short(im)))
        elif want is not None and got != want:
            chk.violation(f"for the address {a!r} the name handed to the TLS library is {got!r}; the host part is {want!r}", dict(case=c, impl=im, expected=want))
        elif im != mo:
            chk.corr_break("TLS server name differs from the model's domain_of", dict(case=c, impl=im, model=mo))
    chk.exhaustive = True
    chk.rule = ("twice (verify off before on, and on before off, within each worker process) and once more for TLS servers whose listen() is entered, left and entered again, plus a server whose identity the TLS library refuses (RSA-1024): "
                "the full finite table {client TLS on/off} x {verify on/off} x {server plain/TLS} x {certificate trusted+matching, trusted+wrong name, untrusted} x "
                "{host name, IP literal} = 48 cells on real sockets with static certificates (tls/), trust injected with SSL_CERT_FILE, a recording TCP relay between "
                "client and server searching for the per-cell marker in clear text; outcome classified {plain, tls, refused, noservice} and compared with the property's "
                "table (written independently in the orchestrator) and with the Coq model's table; plus the name handed to the TLS library (hook verif_tls_domain) "
                "for host x port strings of every shape (bracketed IPv6, no port, empty parts, stray brackets and colons, non-ASCII) and random strings, against domain_of")
    chk.assumptions = ["partial: OpenSSL / native-tls behaviour (handshake, chain and name verification, SSL_CERT_FILE) is assumed, only the library's own four decisions are modelled",
                       "timeouts: 2.5 s to connect, 2.5 s for the answer, on loopback"]


FAULTS = ["announce-leave", "malformed", "oversized", "zero-length", "stall-midframe", "stall-setup", "garbage-setup", "reset", "reset-midframe", "handler-panic", "handler-panic-sync", "handler-panic-fmt", "handler-panic-unwrap", "vanish-before-answer", "deep-nesting", "vendor-zero", "nest-30", "announce-stall", "exact-1mib", "reset-same-port", "unread-then-malformed", "partial-hello", "avp-length-zero", "flood-no-read"]
SLOW_FAULTS = ["reset-storm"]          # (not drawn at random: 66 000 connections take several seconds)


def check_C10(chk, tier, seed):
    rng = Rng(seed).fork("C10")
    eng = engine_codec.setup(chk, rng, need_limit=False)
    cases = []
    # every fault kind alone, plain and TLS, then combinations
    for tls in (0, 1):
        for f in FAULTS:
            cases.append(f"NET {tls} 3 4 {hx(rng.below(1 << 32))} 1 {f}")
    # many peers stuck in connection setup at once (a bounded pool of handshakes / accept slots must not run dry)
    for tls in (0, 1):
        for k in (5, 9):
            cases.append(f"NET {tls} 3 4 {hx(rng.below(1 << 32))} {k} " + " ".join(["stall-setup"] * k))
        cases.append(f"NET {tls} 4 6 {hx(rng.below(1 << 32))} 6 stall-setup garbage-setup stall-midframe stall-setup stall-midframe garbage-setup")
    # many short-lived peers one after the other, each announcing the largest legal frame and leaving in the middle of it
    # (whatever the server sets aside per half-received frame must be given back when the connection goes away)
    for tls in (0, 1):
        cases.append(f"NET {tls} 2 3 {hx(rng.below(1 << 32))} 72 " + " ".join(["announce-leave"] * 72))
    # far more peers than any pool of handshake slots, frame budgets or connection counters a server might keep: 70 peers stuck before
    # their TLS handshake at once; 6 peers each half-way through a 1 MiB frame; 20 peers in a row that fail their TLS handshake; 1100
    # connections in a row that end with an error - the well-behaved clients are served all the same
    cases.append(f"NET 1 2 3 {hx(rng.below(1 << 32))} 70 " + " ".join(["stall-setup"] * 70))
    cases.append(f"NET 0 2 3 {hx(rng.below(1 << 32))} 70 " + " ".join(["stall-setup"] * 70))
    for tls in (0, 1):
        cases.append(f"NET {tls} 3 3 {hx(rng.below(1 << 32))} 6 " + " ".join(["announce-stall"] * 6))
    cases.append(f"NET 1 2 3 {hx(rng.below(1 << 32))} 20 " + " ".join(["garbage-setup"] * 20))
    cases.append(f"NET 0 2 3 {hx(rng.below(1 << 32))} 1100 " + " ".join(["malformed"] * 1100))
    # many peers in a row whose request makes the handler panic (more than any fixed pool of handler workers a server might
    # keep: a worker lost to a panic must not be lost for good)
    for tls in (0, 1):
        cases.append(f"NET {tls} 2 3 {hx(rng.below(1 << 32))} 12 " + " ".join(["handler-panic"] * 12))
    cases.append(f"NET 0 2 3 {hx(rng.below(1 << 32))} 20 " + " ".join(["handler-panic-sync", "handler-panic"] * 10))
    # many peers in a row each sending a frame nested too deep (and frames refused in the middle of a group): whatever a worker
    # thread keeps while decoding must be given back when a decode fails - afterwards requests carrying Grouped AVPs are served
    for tls in (0, 1):
        cases.append(f"NET {tls} 3 4 {hx(rng.below(1 << 32))} 16 " + " ".join(["deep-nesting", "malformed"] * 8))
    # more peers than the runtime has worker threads, each leaving answers unread behind a closed receive window and then sending a
    # malformed frame: giving such a connection up must not occupy a thread (a close that waits for the queued answers to drain)
    cases.append(f"NET 0 4 3 {hx(rng.below(1 << 32))} 12 " + " ".join(["unread-then-malformed"] * 12))
    # more frames whose AVP announces length 0 than the runtime has worker threads (whoever walks AVPs by their length must not stand still),
    # and peers hanging up inside the TLS handshake, several in a row
    for tls in (0, 1):
        cases.append(f"NET {tls} 3 3 {hx(rng.below(1 << 32))} 8 " + " ".join(["avp-length-zero"] * 8))
    cases.append(f"NET 1 3 3 {hx(rng.below(1 << 32))} 6 " + " ".join(["partial-hello"] * 6))
    # one peer connecting and resetting 66 000 times (more connections than a 16-bit counter counts): the clients opened afterwards are served
    cases.append(f"NET 0 4 3 {hx(rng.below(1 << 32))} 1 reset-storm")
    n = 12 if tier == "quick" else 400
    for k in range(n):
        r = rng.fork(f"n{k}")
        fs = [r.choice(FAULTS) for _ in range(r.range(1, 4))]
        cases.append(f"NET {r.below(2)} {r.range(1, 4)} {r.range(1, 6)} {hx(r.below(1 << 32))} {len(fs)} " + " ".join(fs))
    # (the storm of 66 000 connections runs on its own, after the others: it occupies the machine's port space and accept queues, which
    # the scenarios running next to it in other processes would feel - that would be the harness disturbing itself)
    # (likewise the scenarios with a crowd of peers - a dozen or more - run five at a time, after the small ones: sixteen processes each
    # opening hundreds of connections at the same moment make connects fail for reasons that have nothing to do with the library)
    storm_idx = [i for i, c in enumerate(cases) if "reset-storm" in c]
    crowd_idx = [i for i, c in enumerate(cases) if i not in storm_idx and (int(c.split()[5]) >= 12 or "flood-no-read" in c)]
    rest_idx = [i for i in range(len(cases)) if i not in storm_idx and i not in crowd_idx]
    merged = dict(zip(rest_idx, core.run_sharded([eng.harness, "codec"], eng.prelude, [cases[i] for i in rest_idx], shards=16, timeout=900, env=NET_ENV)))
    merged.update(zip(crowd_idx, core.run_sharded([eng.harness, "codec"], eng.prelude, [cases[i] for i in crowd_idx], shards=5, timeout=900, env=NET_ENV)))
    merged.update(zip(storm_idx, core.run_sharded([eng.harness, "codec"], eng.prelude, [cases[i] for i in storm_idx], shards=1, timeout=900, env=NET_ENV)))
    impl = [merged[i] for i in range(len(cases))]
    for i, (c, im) in enumerate(zip(cases, impl)):
        t = c.split()
        chk.case(c, True)
        chk.validated += 1
        chk.count("tls" if t[1] == "1" else "plain")
        for f in t[6:]:
            chk.count("fault:" + f)
        outs = im.split()[1:] if im.startswith("NET") else None
        if os.environ.get("VERIF_DEBUG_NET"):
            print("DEBUG", c[:70], "->", im[:120], flush=True)
        ok = outs is not None and len(outs) == int(t[2]) and all(o == "ok" for o in outs)
        if not ok:
            chk.violation("a well-behaved connection did not receive exactly the answers to its own requests while other peers misbehaved: " + short(im, 300),
                          dict(case=c, impl=short(im)))
        if i % max(1, len(cases) // 6) == 0:
            chk.sample(dict(case=c, impl=im, P=ok))
    # a TLS listener with a peer that never speaks; a client that connects seven seconds later and starts its handshake five seconds after that
    slowhs = core.run_sharded([eng.harness, "codec"], eng.prelude, ["NETSLOWHS"], shards=1, timeout=300, env=NET_ENV)[0]
    chk.case("NETSLOWHS", True)
    chk.validated += 1
    chk.count("slow-starting-tls-client-next-to-a-silent-peer")
    if slowhs != "NETSLOWHS ok":
        chk.violation("a TLS client that started its handshake late (12 s after a silent peer had connected, 5 s after its own TCP connection) was not served: " + short(slowhs, 200),
                      dict(case="NETSLOWHS", impl=short(slowhs)))
    # a server that has been up for more than five seconds with connections that are open and idle, a peer stalled in mid-frame, a
    # new connection: the idle connections' next requests are answered (plain and TLS, side by side)
    aged = core.run_sharded([eng.harness, "codec"], eng.prelude, ["NETAGED 0", "NETAGED 1"], shards=2, timeout=300, env=NET_ENV)
    for c, im in zip(["NETAGED 0", "NETAGED 1"], aged):
        chk.case(c, True)
        chk.validated += 1
        chk.count("aged-server-idle-connections")
        f = im.split()[1:] if im.startswith("NETAGED") else []
        if not (len(f) == 7 and all(x.endswith("=ok") for x in f)):
            chk.violation("connections that were open and idle while another peer stalled and a new one connected did not get their next requests answered: " + short(im, 300),
                          dict(case=c, impl=short(im)))
    chk.rule = ("every fault kind (malformed frame, oversized frame, zero length, stall in mid-frame, stall before connection setup incl. a TLS handshake never started, "
                "garbage at setup, reset, reset in mid-frame, handler panic inside the handler's future and in its synchronous part, with a literal and with a formatted message and from unwrap() (alone, and 12-20 of them in a row), a frame of Grouped AVPs nested 131 000 deep, a peer that resets the connection while the handler is still preparing its answer so that the write fails) alone with 3 well-behaved raw-socket clients, for plain TCP and TLS listeners, plus random "
                "combinations of 1-3 faulty peers with 1-4 good clients; 5 and 9 simultaneous peers stuck in connection setup; 72 peers in a row that announce a 1 MiB frame and leave in the middle of it; half of the good clients are open before the faults are injected, half open afterwards; "
                "multi-threaded runtime, real time; every answer compared octet for octet with the handler's answer to that client's own request (a misrouted answer "
                "carries another client's Session-Id); deadline 3 s per step")
    chk.assumptions = ["partial, the most runtime-heavy property: tokio::spawn panic isolation, the scheduler, TCP and OpenSSL are assumptions of the Coq model (Model/Listener.v); "
                       "the theorem covers who awaits what and which state is shared"]
