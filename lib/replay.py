"""./vcheck Cxx --replay <file>: runs the recorded case again on the current tree and on the model and prints both
observations.  exit 1 = the recorded failure is still there (or implementation and model still disagree),
exit 0 = the implementation now agrees with the model on this case, exit 2 = cannot be replayed."""
import json, os
import core


def run(pid, path):
    try:
        r = json.load(open(path))
    except Exception as e:
        print(f"ERROR cannot read replay file {path}: {e}")
        return 2
    print(f"replay of {path}: property={r.get('property', pid)} what={str(r.get('what'))[:300]}")
    if r.get("kind") == "proof-obligation":
        pr = core.check_proofs(pid, "quick")
        for p in pr["problems"]:
            print("PROOF-PROBLEM " + p[:600])
        print(f"obligations={pr['obligations']} discharged={pr['discharged']}")
        if pr["problems"]:
            print(f"VIOLATION property={pid} replay={path} no-failing-input-found")
            return 1
        print("OK the proof obligations build and pass the audit now")
        return 0
    case = r.get("case")
    if not isinstance(case, str) or r.get("case_truncated") or "prelude" not in r or not case.split():
        print("ERROR this replay file does not carry a runnable case (scenario description only): " + json.dumps({k: str(v)[:200] for k, v in r.items() if k != "prelude"})[:1500])
        return 2
    harness = core.build_harness("dev")
    runner = core.build_runner()
    env = core.ENV
    if case.startswith(("TLS", "NET")):
        env = dict(core.ENV, SSL_CERT_FILE=os.path.join(core.ROOT, "tls", "bundle.crt"), VERIF_TLS_DIR=os.path.join(core.ROOT, "tls"))
    impl = core.run_sharded([harness, "codec"], r["prelude"], [case], shards=1, timeout=1800, env=env)[0]
    model = core.run_sharded([runner], r["prelude"], [case], shards=1, timeout=1800, unlimited_stack=True)[0]
    print("case : " + case[:2000])
    print("impl : " + impl[:4000])
    print("model: " + model[:4000])
    if "impl" in r:
        print("recorded impl : " + str(r["impl"])[:2000])
    rec = str(r.get("impl", ""))
    same_as_recorded = bool(rec) and (impl == rec or (rec.endswith(" chars]") and impl.startswith(rec[: rec.rfind("...[")])))
    bad = impl.startswith(("PANIC", "CRASH")) or " HANG" in impl or "PANIC" in impl.split(" ## ")[0][:40]
    if same_as_recorded or bad:
        print(f"VIOLATION property={pid} replay={path}")
        return 1
    if impl.split(" ## ")[0] != model.split(" ## ")[0] and not case.startswith(("TLS", "NET")):
        print("implementation and model still disagree on this case")
        print(f"VIOLATION property={pid} replay={path} no-failing-input-found")
        return 1
    print("OK the implementation no longer shows the recorded behaviour and agrees with the model on this case")
    return 0
