"""A small translator from the table-like parts of /repo's current source to Coq, and the theorems that tie them to the model.

The model is written by hand and tied to the code by the correspondence runs.  For the parts of the code that ARE tables or
constants - the type-name table of the dictionary loader, the command-code and application-id enums, the frame-length limit
of the stream reader, the header length, the 1900/1970 offset - the tie can also be made statically: this module reads them
out of the source text on every run, writes them down as Coq definitions (`Generated`, never committed) and has Coq prove
that they are the model's (`vm_compute` over finite tables; together with C15_type_names_cover / C15_unknown_spelling this
makes the two tables equal as functions).

The extraction is deliberately shallow: it recognises the shapes the code has today and small variations.  A shape it does
not recognise is NOT an alarm (the code may have been rewritten harmlessly): the item is reported as `not recognised` in the
evidence and the tie for it rests on the correspondence runs alone.  A recognised table that DIFFERS from the model is a
broken proof obligation."""
import os, re, hashlib, subprocess

VARIANT_TY = {"UTF8String": "TUtf8", "OctetString": "TOctets", "Integer32": "TI32", "Integer64": "TI64", "Unsigned32": "TU32", "Unsigned64": "TU64",
              "Enumerated": "TEnum", "Grouped": "TGrouped", "Identity": "TIdentity", "DiameterURI": "TUri", "Time": "TTime", "Address": "TAddress",
              "AddressIPv4": "TIPv4", "AddressIPv6": "TIPv6", "Float32": "TF32", "Float64": "TF64", "Unknown": "TUnknown"}
WHICH = {"C15": ["type_names"], "C14": ["type_names"], "C03": ["cmds", "apps", "avp_flags"], "C04": ["cmds", "apps", "nesting"],
         "C01": ["avp_flags", "header_length"], "C02": ["avp_flags", "header_length"], "C07": ["max_frame", "header_length"],
         "C06": ["max_frame", "header_length"], "C17": ["rfc868_offset"], "C10": ["panic_unwinds"], "C13": ["tls_name"]}


def _read(repo, rel):
    try:
        return open(os.path.join(repo, rel), encoding="utf-8").read()
    except OSError:
        return ""


def _strip_comments(s):
    s = re.sub(r"/\*.*?\*/", "", s, flags=re.S)
    return re.sub(r"//[^\n]*", "", s)


def _const_expr(e):
    """value of a small constant expression (decimal / hex literals with optional type suffix, * + - << and parentheses)"""
    e = re.sub(r"_", "", e.strip())
    e = re.sub(r"(\d)(u8|u16|u32|u64|usize|i32|i64)\b", r"\1", e)
    e = re.sub(r"\s+as\s+\w+", "", e)
    if not re.fullmatch(r"[0-9a-fA-Fx\s\*\+\-<\(\)]+", e) or not re.search(r"\d", e):
        return None
    try:
        v = eval(e, {"__builtins__": {}}, {})
    except Exception:
        return None
    return v if isinstance(v, int) and 0 <= v < (1 << 64) else None


def extract(repo):
    """facts[name] = value, or None when the shape was not recognised"""
    f = {}
    d = _strip_comments(_read(repo, "src/dictionary.rs").split("lazy_static!")[0])
    m = re.search(r"match\s+[\w\.]*data_type\s*\.as_str\(\)\s*\{(.*?)\}\s*;", d, flags=re.S)
    f["type_names"] = None
    if m:
        body = m.group(1)
        arms = re.findall(r'((?:"[^"]*"\s*\|\s*)*"[^"]*")\s*=>\s*AvpType::(\w+)\s*,', body)
        default = re.search(r"\b_\s*=>\s*AvpType::(\w+)", body)
        rest = re.sub(r'((?:"[^"]*"\s*\|\s*)*"[^"]*")\s*=>\s*AvpType::(\w+)\s*,', "", body)
        rest = re.sub(r"\b_\s*=>\s*AvpType::(\w+)\s*,?", "", rest)
        if arms and default and not rest.strip() and all(v in VARIANT_TY for _, v in arms) and default.group(1) in VARIANT_TY:
            table = []
            for names, v in arms:
                for n in re.findall(r'"([^"]*)"', names):
                    table.append((n, VARIANT_TY[v]))
            f["type_names"] = (table, VARIANT_TY[default.group(1)])
    s = _strip_comments(_read(repo, "src/diameter.rs"))
    for enum, key in (("CommandCode", "cmds"), ("ApplicationId", "apps")):
        f[key] = None
        m = re.search(r"pub\s+enum\s+" + enum + r"\s*\{(.*?)\}", s, flags=re.S)
        if m:
            items = [x.strip() for x in m.group(1).split(",") if x.strip()]
            vals = []
            for it in items:
                mm = re.fullmatch(r"(?:#\[[^\]]*\]\s*)*\w+\s*=\s*(.+)", it, flags=re.S)
                v = _const_expr(mm.group(1)) if mm else None
                if v is None:
                    vals = None
                    break
                vals.append(v)
            if vals:
                f[key] = vals
    m = re.search(r"pub\s+const\s+HEADER_LENGTH\s*:\s*\w+\s*=\s*([^;]+);", s)
    f["header_length"] = _const_expr(m.group(1)) if m else None
    a = _strip_comments(_read(repo, "src/avp/mod.rs"))
    fl = {}
    m = re.search(r"pub\s+mod\s+flags\s*\{(.*?)\}", a, flags=re.S)
    if m:
        for n, e in re.findall(r"pub\s+const\s+(\w+)\s*:\s*u8\s*=\s*([^;]+);", m.group(1)):
            fl[n] = _const_expr(e)
    f["avp_flags"] = (fl["V"], fl["M"], fl["P"]) if set(fl) == {"V", "M", "P"} and None not in fl.values() else None
    m = re.search(r"const\s+MAX_GROUPED_NESTING\s*:\s*\w+\s*=\s*([^;]+);", a)
    f["nesting"] = _const_expr(m.group(1)) if m else None
    t = _strip_comments(_read(repo, "src/avp/time.rs"))
    m = re.search(r"const\s+RFC868_OFFSET\s*:\s*\w+\s*=\s*([^;]+);", t)
    f["rfc868_offset"] = _const_expr(m.group(1)) if m else None
    # Cargo.toml: profiles that turn panics into aborts (the model's listener isolates a panicking handler because a panic UNWINDS
    # inside the connection's task: Model/Listener.v, assumption "tokio::spawn panic isolation")
    cargo = re.sub(r"#[^\n]*", "", _read(repo, "Cargo.toml"))
    aborting = []
    for m in re.finditer(r"^\[profile\.([\w\-\.]+)\]([^\[]*)", cargo, flags=re.M):
        if re.search(r"^\s*panic\s*=\s*[\"']abort[\"']", m.group(2), flags=re.M):
            aborting.append(m.group(1))
    f["panic_unwinds"] = aborting if cargo else None
    # the function computing the name handed to the TLS library: recognised only in exactly the shape the model transcribes
    # (strip one opening character, cut at the FIRST closing character, else cut at the LAST separator, else the whole string)
    cl = re.sub(r"\s+", " ", _strip_comments(_read(repo, "src/transport/client.rs")))
    m = re.search(r"fn tls_domain\( ?(\w+) ?: ?&str ?\) ?-> ?&str ?\{ ?if let Some\( ?(\w+) ?\) ?= ?\1 ?\. ?strip_prefix\( ?'(.)' ?\) ?\{ ?"
                  r"if let Some\( ?(\w+) ?\) ?= ?\2 ?\. ?find\( ?'(.)' ?\) ?\{ ?return &\2\[ ?\.\. ?\4 ?\] ?; ?\} ?\} ?"
                  r"match \1 ?\. ?rfind\( ?'(.)' ?\) ?\{ ?Some\( ?(\w+) ?\) ?=> ?&\1\[ ?\.\. ?\7 ?\] ?, ?None ?=> ?\1 ?,? ?\} ?\}", cl)
    f["tls_name"] = (ord(m.group(3)), ord(m.group(5)), ord(m.group(6))) if m and all(ord(m.group(i)) < 128 for i in (3, 5, 6)) else None
    tr = _strip_comments(_read(repo, "src/transport/mod.rs"))
    f["max_frame"] = None
    m = re.search(r"if\s+\(?\s*length(?:\s+as\s+\w+)?\s*\)?\s*>\s*([^\{]+)\{", tr)
    if m:
        e = m.group(1).strip()
        v = _const_expr(e)
        if v is None and re.fullmatch(r"[\w:]+", e):
            name = e.split("::")[-1]
            mm = re.search(r"const\s+" + re.escape(name) + r"\s*:\s*\w+\s*=\s*([^;]+);", tr)
            v = _const_expr(mm.group(1)) if mm else None
        f["max_frame"] = v
    return f


def _bytes(sx):
    return "[" + "; ".join("x%02x" % b for b in sx.encode("utf-8")) + "]"


def coq_text(pid, facts):
    """(text, list of tied items, list of unrecognised items)"""
    want = WHICH.get(pid, [])
    tied, skipped = [], []
    out = ["(* GENERATED on every run by lib/srctie.py from /repo's current source text.  Not committed. *)",
           "Require Import DV.Base.Bytes DV.Base.Utf8 DV.Model.Leaf DV.Spec.Wire DV.Model.Avp DV.Model.Message DV.Model.Dict DV.Model.Tls.",
           "From Coq Require Import List NArith ZArith. Import ListNotations.", ""]
    for item in want:
        v = facts.get(item)
        if v is None:
            skipped.append(item)
            continue
        tied.append(item)
        if item == "type_names":
            table, default = v
            out.append("Definition src_type_names : list (list byte * ty) :=\n  [" + ";\n   ".join(f"({_bytes(n)}, {t})" for n, t in table) + "].")
            out.append(f"Definition src_type_default : ty := {default}.")
            out.append("(* the source's arms map as the model maps; every name of the model is an arm; no string is matched twice; the\n"
                       "   catch-all arm gives Unknown.  With C15_type_names_cover and C15_unknown_spelling: the same function. *)")
            out.append("Theorem source_type_names_are_the_models :\n"
                       "  forallb (fun p => ty_eqb (ty_of_name (fst p)) (snd p)) src_type_names = true /\\\n"
                       "  forallb (fun q => existsb (fun p => list_beq (fst p) (fst q)) src_type_names) ty_names = true /\\\n"
                       "  length src_type_names = length ty_names /\\ src_type_default = TUnknown.\n"
                       "Proof. vm_compute. repeat split; reflexivity. Qed.")
        elif item in ("cmds", "apps"):
            tab, known = ("cmd_table", "known_cmd") if item == "cmds" else ("app_table", "known_app")
            out.append(f"Definition src_{item} : list N := [" + "; ".join(f"{x}%N" for x in v) + "].")
            out.append(f"Theorem source_{item}_are_the_models :\n"
                       f"  forallb {known} src_{item} = true /\\ forallb (fun c => existsb (N.eqb c) src_{item}) {tab} = true.\n"
                       "Proof. vm_compute. split; reflexivity. Qed.")
        elif item == "max_frame":
            out.append(f"Definition src_max_frame : N := {v}%N.")
            out.append("Theorem source_max_frame_is_1MiB : src_max_frame = 1048576%N.\nProof. reflexivity. Qed.")
        elif item == "header_length":
            out.append(f"Definition src_header_length : N := {v}%N.")
            out.append("Theorem source_header_length_is_20 : src_header_length = 20%N /\\ m_len (msg_new 0 0 0 0 0) = src_header_length.\nProof. split; reflexivity. Qed.")
        elif item == "avp_flags":
            out.append("Definition src_flag_V : N := %d%%N. Definition src_flag_M : N := %d%%N. Definition src_flag_P : N := %d%%N." % v)
            out.append("(* the three constants are the three bits the model's encoder sets and its decoder tests *)\n"
                       "Theorem source_avp_flags_are_the_models :\n"
                       "  flags_byte true false false = src_flag_V /\\ flags_byte false true false = src_flag_M /\\ flags_byte false false true = src_flag_P /\\\n"
                       "  (forall v m p, flags_byte v m p = ((if v then src_flag_V else 0) + (if m then src_flag_M else 0) + (if p then src_flag_P else 0))%N).\n"
                       "Proof. repeat split; intros; try reflexivity; destruct v, m, p; reflexivity. Qed.")
        elif item == "nesting":
            out.append(f"Definition src_max_nesting : N := {v}%N.")
            out.append("(* the properties leave the limit open but ask for at least 16 levels; the correspondence runs use the measured limit *)\n"
                       "Theorem source_nesting_limit_admits_16 : (16 <=? src_max_nesting)%N = true.\nProof. reflexivity. Qed.")
        elif item == "panic_unwinds":
            out.append("Definition src_profiles_with_panic_abort : list (list byte) := [" + "; ".join(_bytes(x) for x in v) + "].")
            out.append("(* no build profile of the crate turns a panic into an abort of the process: the isolation of a panicking handler\n"
                       "   (C10_noninterference's assumption) holds in every profile the crate declares *)\n"
                       "Theorem source_panics_unwind_in_every_profile : src_profiles_with_panic_abort = [].\nProof. reflexivity. Qed.")
        elif item == "tls_name":
            out.append("Definition src_tls_open : byte := x%02x. Definition src_tls_close : byte := x%02x. Definition src_tls_sep : byte := x%02x." % v)
            out.append("(* tls_domain has, token for token, the shape Model/Tls.v domain_of transcribes (strip_prefix / find / rfind with\n"
                       "   slices [..end] and [..i]); its three character literals are the model's, so C13_domain_complete speaks about it *)\n"
                       "Theorem source_tls_name_characters_are_the_models : src_tls_open = lbr /\\ src_tls_close = rbr /\\ src_tls_sep = colon.\n"
                       "Proof. repeat split; reflexivity. Qed.")
        elif item == "rfc868_offset":
            out.append(f"Definition src_rfc868_offset : Z := {v}%Z.")
            out.append("Theorem source_epoch_offset_is_the_models : src_rfc868_offset = rfc868_offset.\nProof. reflexivity. Qed.")
        out.append("")
    return "\n".join(out), tied, skipped


def check(pid, repo, coq_dir, cache_dir):
    """-> dict(status = 'agree' | 'disagree' | 'nothing-to-tie', tied=[..], not_recognised=[..], detail=str)"""
    facts = extract(repo)
    text, tied, skipped = coq_text(pid, facts)
    res = dict(status="nothing-to-tie", tied=tied, not_recognised=skipped, detail="")
    if not tied:
        return res
    os.makedirs(cache_dir, exist_ok=True)
    model_stamp = hashlib.sha256("".join(open(os.path.join(coq_dir, "theories", p)).read() for p in
                                         ("Model/Leaf.v", "Model/Message.v", "Model/Dict.v", "Model/Tls.v", "Base/Bytes.v", "Spec/Wire.v")).encode()).hexdigest()
    h = hashlib.sha256((text + model_stamp).encode()).hexdigest()[:20]
    ok_stamp = os.path.join(cache_dir, f"{pid}-{h}.ok")
    if os.path.exists(ok_stamp):
        res["status"] = "agree"
        return res
    vf = os.path.join(cache_dir, f"SourceTie_{pid}.v")
    open(vf, "w").write(text)
    p = subprocess.run(["timeout", "300", "coqc", "-noglob", "-Q", os.path.join(coq_dir, "theories"), "DV", vf], cwd=cache_dir,
                       stdout=subprocess.PIPE, stderr=subprocess.STDOUT, text=True)
    for ext in (".vo", ".vok", ".vos", ".glob"):
        try:
            os.remove(vf[:-2] + ext)
        except OSError:
            pass
    if p.returncode == 0:
        open(ok_stamp, "w").write(text)
        res["status"] = "agree"
    else:
        res["status"] = "disagree"
        res["detail"] = p.stdout[-1200:]
        res["generated"] = text
    return res
