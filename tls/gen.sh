#!/bin/sh
# Static test PKI for C10/C13 (generated once, offline, with the openssl CLI; 100-year validity).
# ca = trusted CA (injected with SSL_CERT_FILE); other = a CA nobody trusts.
set -e
cd "$(dirname "$0")"
mk_ca() { openssl req -x509 -newkey rsa:2048 -nodes -keyout $1.key -out $1.crt -days 36500 -subj "/CN=$2" -addext "basicConstraints=critical,CA:TRUE" -addext "keyUsage=critical,keyCertSign,cRLSign" 2>/dev/null; }
mk_srv() { # name ca san
  openssl req -newkey rsa:2048 -nodes -keyout $1.rsa.key -out $1.csr -subj "/CN=$1" 2>/dev/null
  printf 'subjectAltName=%s\nbasicConstraints=CA:FALSE\nkeyUsage=digitalSignature,keyEncipherment\nextendedKeyUsage=serverAuth\n' "$3" > $1.ext
  openssl x509 -req -in $1.csr -CA $2.crt -CAkey $2.key -CAcreateserial -out $1.crt -days 36500 -extfile $1.ext 2>/dev/null
  openssl pkcs8 -topk8 -nocrypt -in $1.rsa.key -out $1.key
  rm -f $1.csr $1.ext $1.rsa.key
}
mk_ca ca "dverif test CA"
mk_ca other "dverif untrusted CA"
mk_srv match ca "DNS:localhost,IP:127.0.0.1"
mk_srv wrongname ca "DNS:other.example,IP:192.0.2.1"
mk_srv untrusted other "DNS:localhost,IP:127.0.0.1"
rm -f *.srl other.key
# weak = a server identity that parses but that the TLS library refuses to serve with (RSA-1024, "ee key too small"):
# a server configured with it must not fall back to plain text.  (generated afterwards with the same recipe, rsa:1024)
# decoy = a third CA that issued nothing here; bundle.crt = decoy.crt + ca.crt (in that order) is the trust file the checks
# inject with SSL_CERT_FILE: a trust store usually holds many CAs and the one that matters is rarely the first.
# (generated afterwards: mk_ca decoy "dverif decoy CA"; rm decoy.key; cat decoy.crt ca.crt > bundle.crt)
# dnsonly = a server identity issued by ca whose only name is DNS:localhost (no IP entry): a client that was told "localhost"
# must keep verifying against that name on every connect().  (generated afterwards: mk_srv dnsonly ca "DNS:localhost")
# edca = an Ed25519 CA (trusted: bundle.crt = decoy.crt + edca.crt + ca.crt); edmatch = Ed25519 leaf issued by it, mixmatch = RSA leaf
# issued by it (a signature algorithm without a separate digest), ecmatch = ECDSA P-256 leaf issued by ca; all name localhost and
# 127.0.0.1.  edself = a self-signed Ed25519 certificate nobody trusts.  (generated afterwards with `openssl genpkey -algorithm
# ED25519 | RSA | EC -pkeyopt ec_paramgen_curve:P-256`, `openssl req -new`, `openssl x509 -req -CA edca.crt | ca.crt`; edca.key removed)
