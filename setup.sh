#!/bin/sh
# Builds the whole framework from files on disk, offline: Coq development (full .vo build),
# extracted model runner, Rust harness against /repo's working tree.
set -e
cd "$(dirname "$0")"
export CARGO_NET_OFFLINE=true
( cd coq && coq_makefile -f _CoqProject -o Makefile >/dev/null && timeout 3000 make -j16 )
python3 - <<'PY'
import sys
sys.path.insert(0, "lib")
import core
print(core.build_runner())
print(core.build_harness("dev"))
PY
