(* Line-protocol driver around the extracted model (module Model).  Hand-written, trusted:
   parsing / printing only; every judgement is computed by extracted functions. *)
open Model

exception Parse of string

(* ---------- numbers ---------- *)
let rec pos_of_int i = if i = 1 then XH else if i land 1 = 0 then XO (pos_of_int (i lsr 1)) else XI (pos_of_int (i lsr 1))
let n_of_int i = if i = 0 then N0 else Npos (pos_of_int i)
let rec nat_of_int i = if i <= 0 then O else S (nat_of_int (i - 1))
let rec int_of_nat = function O -> 0 | S k -> 1 + int_of_nat k

let hexval c = match c with
  | '0'..'9' -> Char.code c - 48 | 'a'..'f' -> Char.code c - 87 | 'A'..'F' -> Char.code c - 55
  | _ -> raise (Parse "hex digit")

(* hex string -> N, bit by bit on positives *)
let n_of_hex (s : string) : n =
  let acc = ref N0 in
  String.iter (fun c ->
    let d = hexval c in
    for k = 3 downto 0 do
      let bit = (d lsr k) land 1 in
      acc := (match !acc, bit with
              | N0, 0 -> N0 | N0, _ -> Npos XH
              | Npos p, 0 -> Npos (XO p) | Npos p, _ -> Npos (XI p))
    done) s;
  !acc
let z_of_hex (s : string) : z =
  if String.length s > 0 && s.[0] = '-' then
    (match n_of_hex (String.sub s 1 (String.length s - 1)) with N0 -> Z0 | Npos p -> Zneg p)
  else (match n_of_hex s with N0 -> Z0 | Npos p -> Zpos p)

let hex_of_pos (p : positive) : string =
  (* collect bits little-endian *)
  let bits = ref [] in
  let rec go = function XH -> bits := 1 :: !bits | XO q -> bits := 0 :: !bits; go q | XI q -> bits := 1 :: !bits; go q in
  (* go pushes LSB first, so the head ends up MSB: we want the list MSB first *)
  let rec collect p acc = match p with XH -> 1 :: acc | XO q -> collect q (0 :: acc) | XI q -> collect q (1 :: acc) in
  ignore go; ignore bits;
  let l = collect p [] in                          (* MSB first *)
  let len = List.length l in
  let padn = (4 - len mod 4) mod 4 in
  let l = List.init padn (fun _ -> 0) @ l in
  let b = Buffer.create 16 in
  let rec emit = function
    | a :: b1 :: c :: d :: rest -> Buffer.add_char b "0123456789abcdef".[a*8 + b1*4 + c*2 + d]; emit rest
    | [] -> () | _ -> assert false in
  emit l; Buffer.contents b
let hex_of_n = function N0 -> "0" | Npos p -> hex_of_pos p
let hex_of_z = function Z0 -> "0" | Zpos p -> hex_of_pos p | Zneg p -> "-" ^ hex_of_pos p

(* ---------- octets ---------- *)
let btab : byte array = Array.init 256 (fun i -> match of_N (n_of_int i) with Some b -> b | None -> assert false)
let rec int_of_pos = function XH -> 1 | XO p -> 2 * int_of_pos p | XI p -> 2 * int_of_pos p + 1
let int_of_n = function N0 -> 0 | Npos p -> int_of_pos p
let int_of_byte (b : byte) : int = int_of_n (to_N b)

(* "x<hex>" -> byte list *)
let bytes_of_tok (s : string) : byte list =
  if String.length s < 1 || s.[0] <> 'x' then raise (Parse ("octets token: " ^ s));
  let n = (String.length s - 1) / 2 in
  let rec go i acc = if i < 0 then acc else go (i - 1) (btab.(hexval s.[1 + 2*i] * 16 + hexval s.[2 + 2*i]) :: acc) in
  go (n - 1) []
let tok_of_bytes (l : byte list) : string =
  let b = Buffer.create 64 in
  Buffer.add_char b 'x';
  List.iter (fun x -> let v = int_of_byte x in
    Buffer.add_char b "0123456789abcdef".[v lsr 4]; Buffer.add_char b "0123456789abcdef".[v land 15]) l;
  Buffer.contents b

(* ---------- token stream ---------- *)
type ts = { toks : string array; mutable pos : int }
let next t = if t.pos >= Array.length t.toks then raise (Parse "eof") else (let s = t.toks.(t.pos) in t.pos <- t.pos + 1; s)
let next_n t = n_of_hex (next t)
let next_z t = z_of_hex (next t)
let next_int t = int_of_string (next t)
let next_opt_n t = let s = next t in if s = "-" then None else Some (n_of_hex s)
let next_bytes t = bytes_of_tok (next t)
let next_bool t = match next t with "1" -> true | "0" -> false | s -> raise (Parse ("bool " ^ s))

let ty_of_tok = function
  | "unk" -> TUnknown | "addr" -> TAddress | "ip4" -> TIPv4 | "ip6" -> TIPv6 | "id" -> TIdentity
  | "uri" -> TUri | "en" -> TEnum | "f32" -> TF32 | "f64" -> TF64 | "grp" -> TGrouped
  | "i32" -> TI32 | "i64" -> TI64 | "oct" -> TOctets | "time" -> TTime | "u32" -> TU32
  | "u64" -> TU64 | "utf" -> TUtf8 | s -> raise (Parse ("ty " ^ s))
let tok_of_ty = function
  | TUnknown -> "unk" | TAddress -> "addr" | TIPv4 -> "ip4" | TIPv6 -> "ip6" | TIdentity -> "id"
  | TUri -> "uri" | TEnum -> "en" | TF32 -> "f32" | TF64 -> "f64" | TGrouped -> "grp"
  | TI32 -> "i32" | TI64 -> "i64" | TOctets -> "oct" | TTime -> "time" | TU32 -> "u32"
  | TU64 -> "u64" | TUtf8 -> "utf"

let parse_leaf t : leaf =
  match next t with
  | "a4" -> LAddr4 (next_bytes t) | "a6" -> LAddr6 (next_bytes t) | "ae" -> LAddrE164 (next_bytes t)
  | "ip4" -> LIPv4 (next_bytes t) | "ip6" -> LIPv6 (next_bytes t)
  | "id" -> LIdent (next_bytes t) | "uri" -> LUri (next_bytes t)
  | "en" -> LEnum (next_z t) | "f32" -> LF32 (next_n t) | "f64" -> LF64 (next_n t)
  | "i32" -> LI32 (next_z t) | "i64" -> LI64 (next_z t)
  | "oct" -> LOctets (next_bytes t) | "time" -> LTime (next_z t)
  | "octz" -> let n = int_of_string ("0x" ^ next t) in LOctets (List.init n (fun _ -> btab.(0)))
  | "octp" -> let n = int_of_string ("0x" ^ next t) in LOctets (List.init n (fun i -> btab.((i * 31 + 7 + i / 251) mod 256)))
  | "u32" -> LU32 (next_n t) | "u64" -> LU64 (next_n t) | "utf" -> LUtf8 (next_bytes t)
  | s -> raise (Parse ("leaf kind " ^ s))

let pr_leaf b (l : leaf) =
  let p k s = Buffer.add_string b k; Buffer.add_char b ' '; Buffer.add_string b s in
  match l with
  | LAddr4 s -> p "a4" (tok_of_bytes s) | LAddr6 s -> p "a6" (tok_of_bytes s) | LAddrE164 s -> p "ae" (tok_of_bytes s)
  | LIPv4 s -> p "ip4" (tok_of_bytes s) | LIPv6 s -> p "ip6" (tok_of_bytes s)
  | LIdent s -> p "id" (tok_of_bytes s) | LUri s -> p "uri" (tok_of_bytes s)
  | LEnum z -> p "en" (hex_of_z z) | LF32 n -> p "f32" (hex_of_n n) | LF64 n -> p "f64" (hex_of_n n)
  | LI32 z -> p "i32" (hex_of_z z) | LI64 z -> p "i64" (hex_of_z z)
  | LOctets s -> p "oct" (tok_of_bytes s) | LTime z -> p "time" (hex_of_z z)
  | LU32 n -> p "u32" (hex_of_n n) | LU64 n -> p "u64" (hex_of_n n) | LUtf8 s -> p "utf" (tok_of_bytes s)

let rec parse_list : 'a. ts -> (ts -> 'a) -> int -> 'a list = fun t f k ->
  if k = 0 then [] else (let x = f t in x :: parse_list t f (k - 1))

(* expressions *)
let rec parse_aexp t : aexp =
  match next t with
  | "E" -> let c = next_n t in let vd = next_opt_n t in let fl = next_n t in let v = parse_vexp t in XAvp (c, vd, fl, v)
  | "N" -> let nm = next_bytes t in let v = parse_vexp t in XNamed (nm, v)
  | s -> raise (Parse ("aexp " ^ s))
and parse_vexp t : vexp =
  match next t with
  | "L" -> XLeaf (parse_leaf t)
  | "GN" -> let k = next_int t in XGrpNew (parse_list t parse_aexp k)
  | "GA" -> let k = next_int t in XGrpAdd (parse_list t parse_aexp k)
  | s -> raise (Parse ("vexp " ^ s))

(* observed AVPs (stored length and padding included) *)
let rec parse_avp t : avp =
  (match next t with "A" -> () | s -> raise (Parse ("avp " ^ s)));
  let c = next_n t in let vd = next_opt_n t in let m = next_bool t in let p = next_bool t in
  let len = next_n t in let pad = next_n t in
  let v = (match next t with
    | "L" -> VLeaf (parse_leaf t)
    | "G" -> let k = next_int t in VGrp (parse_list t parse_avp k)
    | s -> raise (Parse ("value " ^ s))) in
  MkAvp (c, vd, m, p, len, pad, v)

let rec pr_avp b (a : avp) =
  let MkAvp (c, vd, m, p, len, pad, v) = a in
  Buffer.add_string b "A "; Buffer.add_string b (hex_of_n c); Buffer.add_char b ' ';
  Buffer.add_string b (match vd with None -> "-" | Some x -> hex_of_n x);
  Buffer.add_string b (if m then " 1" else " 0"); Buffer.add_string b (if p then " 1 " else " 0 ");
  Buffer.add_string b (hex_of_n len); Buffer.add_char b ' '; Buffer.add_string b (hex_of_n pad); Buffer.add_char b ' ';
  (match v with
   | VLeaf l -> Buffer.add_string b "L "; pr_leaf b l
   | VGrp ms -> Buffer.add_string b "G "; Buffer.add_string b (string_of_int (List.length ms));
       List.iter (fun x -> Buffer.add_char b ' '; pr_avp b x) ms)

let parse_msg t : msg =
  (match next t with "M" -> () | s -> raise (Parse ("msg " ^ s)));
  let ver = next_n t in let len = next_n t in let fl = next_n t in let cmd = next_n t in
  let app = next_n t in let hbh = next_n t in let e2e = next_n t in
  let k = next_int t in let avps = parse_list t parse_avp k in
  { m_ver = ver; m_len = len; m_flags = fl; m_cmd = cmd; m_app = app; m_hbh = hbh; m_e2e = e2e; m_avps = avps }

let pr_msg b (m : msg) =
  Buffer.add_string b "M";
  List.iter (fun x -> Buffer.add_char b ' '; Buffer.add_string b (hex_of_n x))
    [m.m_ver; m.m_len; m.m_flags; m.m_cmd; m.m_app; m.m_hbh; m.m_e2e];
  Buffer.add_char b ' '; Buffer.add_string b (string_of_int (List.length m.m_avps));
  List.iter (fun x -> Buffer.add_char b ' '; pr_avp b x) m.m_avps

(* ---------- dictionaries ---------- *)
let dicts : (string, dstate) Hashtbl.t = Hashtbl.create 16

let parse_adef t : adef =
  let c = next_n t in let vd = next_opt_n t in let nm = next_bytes t in let ty = ty_of_tok (next t) in let m = next_bool t in
  { d_code = c; d_vendor = vd; d_name = nm; d_ty = ty; d_m = m }
let parse_xdef t : xdef =
  let c = next_n t in let vd = next_opt_n t in let nm = next_bytes t in let tyn = next_bytes t in
  let must = (let s = next t in if s = "-" then None else Some (bytes_of_tok s)) in
  { x_code = c; x_vendor = vd; x_name = nm; x_tyname = tyn; x_must = must }
let parse_xapp t : xapp =
  let nm = next_bytes t in let id = next_n t in
  let nc = next_int t in
  let cmds = parse_list t (fun t -> let n = next_bytes t in let c = next_n t in (n, c)) nc in
  let na = next_int t in
  let avps = parse_list t parse_xdef na in
  { xa_name = nm; xa_id = id; xa_cmds = cmds; xa_avps = avps }
let parse_dop t : dop =
  match next t with
  | "ADD" -> DAdd (parse_adef t)
  | "LOAD" -> let _xml = next t in let k = next_int t in DLoad (parse_list t parse_xapp k)
  | s -> raise (Parse ("dop " ^ s))

(* ---------- histories ---------- *)
let parse_hop t : hop =
  match next t with
  | "ADD" -> HAdd (parse_aexp t)
  | "ADDAVP" -> let c = next_n t in let vd = next_opt_n t in let fl = next_n t in let v = parse_vexp t in HAddAvp (c, vd, fl, v)
  | "ADDNAME" -> let nm = next_bytes t in let v = parse_vexp t in HAddName (nm, v)
  | "READD" -> HReAdd (nat_of_int (next_int t))
  | "REWRAP" -> let i = next_int t in let c = next_n t in let vd = next_opt_n t in let fl = next_n t in
      let k = next_int t in HRewrap (nat_of_int i, c, vd, fl, parse_list t parse_aexp k)
  | s -> raise (Parse ("hop " ^ s))

let lim = ref 32

let parse_history t =
  let start = (match next t with
    | "NEW" -> let cmd = next_n t in let app = next_n t in let fl = next_n t in let hbh = next_n t in let e2e = next_n t in
               HNew (cmd, app, fl, hbh, e2e)
    | "DEC" -> HDecode (next_bytes t)
    | s -> raise (Parse ("hstart " ^ s))) in
  let k = next_int t in
  let ops = parse_list t parse_hop k in
  (start, ops)

let all_tys = [TAddress; TIPv4; TIPv6; TIdentity; TUri; TEnum; TF32; TF64; TGrouped; TI32; TI64; TOctets; TTime; TU32; TU64; TUtf8]

let rec pr_getters b (a : avp) =
  Buffer.add_char b '[';
  List.iter (fun ty -> Buffer.add_char b (match get_typed ty a with Some _ -> '1' | None -> '0')) all_tys;
  Buffer.add_char b '|';
  let rendered = ref false in
  List.iter (fun ty ->
    if not !rendered then
      match get_typed ty a with
      | Some v ->
          rendered := true;
          (match group_members v with
           | Some ms ->
               Buffer.add_string b "G,"; Buffer.add_string b (string_of_int (List.length ms));
               List.iter (fun x -> Buffer.add_char b ','; pr_getters b x) ms
           | None ->
               (match v with
                | VLeaf l -> let b2 = Buffer.create 32 in Buffer.add_string b2 "L "; pr_leaf b2 l;
                    Buffer.add_string b (String.concat "," (String.split_on_char ' ' (Buffer.contents b2)))
                | VGrp _ -> Buffer.add_char b '?'))
      | None -> ()) all_tys;
  if not !rendered then Buffer.add_char b '?';
  Buffer.add_char b ']'

(* ---------- stream scripts ---------- *)
let parse_rscript t : rev0 list =
  let n = next_int t in
  parse_list t (fun t -> match next t with
    | "p" -> RPending | "e" -> REof | "x" -> RErr
    | "n" -> REof      (* the peer sends nothing more and does not close (used behind a point at which the connection has ended for another reason) *)
    | "i" -> RErr     (* an interrupted read: tokio's read_exact reports it as the error it is; only used where one decode call is observed *)
    | s when String.length s >= 2 && String.sub s 0 2 = "t:" -> RPending
    | s when String.length s >= 2 && String.sub s 0 2 = "r:" -> RPending     (* a pause in wall-clock time *)
    | s when String.length s >= 2 && String.sub s 0 2 = "r:" -> RPending     (* a pause in wall-clock time *)
    | s when String.length s >= 2 && String.sub s 0 2 = "w:" -> RPending     (* the peer waits for output: in the model the answer is on the stream before the next read *)
    | s when String.length s >= 2 && String.sub s 0 2 = "c:" -> RChunk (bytes_of_tok ("x" ^ String.sub s 2 (String.length s - 2)))
    | s -> raise (Parse ("rev " ^ s))) n
let parse_wscript t : wev list =
  let n = next_int t in
  (* "b:<q>" = a writer that lets exactly q octets through however the caller chops its writes: in the model's poll-level
     script that is q polls accepting one octet each (C09_write_fault: the outcome is the same) *)
  List.concat (parse_list t (fun t -> match next t with
    | "p" -> [WPending] | "x" -> [WErr]
    | "v" -> []          (* the writer says it gathers (is_write_vectored): what reaches the stream is the same *)
    | "i" -> [WErr]      (* an interrupted write: tokio's write_all reports it as the error it is *)
    | s when String.length s >= 2 && String.sub s 0 2 = "t:" -> [WPending]
    | s when String.length s >= 2 && String.sub s 0 2 = "a:" -> [WAccept (n_of_hex (String.sub s 2 (String.length s - 2)))]
    | s when String.length s >= 2 && String.sub s 0 2 = "b:" ->
        List.init (int_of_string ("0x" ^ String.sub s 2 (String.length s - 2))) (fun _ -> WAccept (n_of_hex "1"))
    | s -> raise (Parse ("wev " ^ s))) n)

let rec index_of_phys (x : avp) (l : avp list) (i : int) : int option =
  match l with [] -> None | y :: ys -> if y == x then Some i else index_of_phys x ys (i + 1)

let pr_enc b (m : msg) =
  match enc_msg m with
  | Ok bs -> Buffer.add_string b " ENC "; Buffer.add_string b (tok_of_bytes bs)
  | _ -> Buffer.add_string b " ENC ERR"

let get_dict id = try Hashtbl.find dicts id with Not_found -> raise (Parse ("unknown dict " ^ id))

let bool01 x = if x then "1" else "0"

(* extra facts about a model message that the orchestrator uses as oracle *)
let pr_oracle b (ds : dstate) (m : msg) (frame : byte list option) =
  let sm = abs_msg m in
  Buffer.add_string b " ## SPEC "; Buffer.add_string b (tok_of_bytes (spec_msg sm));
  Buffer.add_string b " NOMM "; Buffer.add_string b (bool01 (List.for_all nommb m.m_avps));
  Buffer.add_string b " WD "; Buffer.add_string b (bool01 (msg_wireb m));
  Buffer.add_string b " DEPTH "; Buffer.add_string b (string_of_int (int_of_nat (depth_list m.m_avps)));
  (match frame with
   | Some bs -> Buffer.add_string b " CHK "; Buffer.add_string b (bool01 (chk_msg (dict_fn ds) sm bs))
   | None -> ())

let handle (line : string) : string =
  let toks = Array.of_list (List.filter (fun s -> s <> "") (String.split_on_char ' ' line)) in
  let t = { toks; pos = 0 } in
  let b = Buffer.create 256 in
  (match next t with
   | "LIM" -> lim := next_int t; Buffer.add_string b "OK"
   | "DROP" -> let _ = next t in Buffer.add_string b "OK"
   | "DGLOBALPOISON" -> Buffer.add_string b "OK"
   | "DGLOBAL" ->
       (* the library's process-wide default dictionary is no part of any dictionary the cases name: nothing changes *)
       Buffer.add_string b "OK"
   | "DADD" ->
       let id = next t in
       let op = parse_dop t in
       Hashtbl.replace dicts id (dstep (get_dict id) op); Buffer.add_string b "OK"
   | "DFORK" ->
       let src = get_dict (next t) in
       let dst = next t in
       Hashtbl.replace dicts dst src; Buffer.add_string b "OK"
   | "D" | "DSWAP" ->
       let id = next t in let k = next_int t in
       let ops = parse_list t parse_dop k in
       Hashtbl.replace dicts id (drun ops); Buffer.add_string b "OK"
   | "H" ->
       let ds = get_dict (next t) in
       let (start, ops) = parse_history t in
       (match hstart_msg (nat_of_int !lim) ds.ds_avps start with
        | Ok m0 ->
            let (m, oks) = hrun ds.ds_avps m0 ops in
            Buffer.add_string b "R ok ";
            Buffer.add_string b (if oks = [] then "-" else String.concat "" (List.map bool01 oks));
            Buffer.add_char b ' '; pr_msg b m; pr_enc b m; pr_oracle b ds m None
        | Err -> Buffer.add_string b "R err"
        | Panic -> Buffer.add_string b "PANIC"
        | OutOfFuel -> Buffer.add_string b "OUTOFFUEL")
   | "G" ->
       let ds = get_dict (next t) in
       let (start, ops) = parse_history t in
       (match hstart_msg (nat_of_int !lim) ds.ds_avps start with
        | Ok m0 ->
            let (m, _) = hrun ds.ds_avps m0 ops in
            let k = next_int t in
            let avps = get_avps m in
            Buffer.add_string b "G "; Buffer.add_string b (string_of_int (List.length avps));
            List.iter (fun a -> Buffer.add_char b ' '; pr_getters b a) avps;
            Buffer.add_string b " Q";
            for _ = 1 to k do
              let c = next_n t in
              (match get_avp m c with
               | Some a -> (match index_of_phys a avps 0 with
                            | Some i -> Buffer.add_char b ' '; Buffer.add_string b (string_of_int i)
                            | None -> Buffer.add_string b " foreign")
               | None -> Buffer.add_string b " none")
            done
        | Err -> Buffer.add_string b "R err"
        | Panic -> Buffer.add_string b "PANIC"
        | OutOfFuel -> Buffer.add_string b "OUTOFFUEL")
   | "W" ->
       let ds = get_dict (next t) in
       let (start, ops) = parse_history t in
       (match hstart_msg (nat_of_int !lim) ds.ds_avps start with
        | Ok m0 ->
            let (m, _) = hrun ds.ds_avps m0 ops in
            let budget = next_n t in
            let n = next_int t in
            (* "z" (the writer says Ok(0) instead of failing when it is full) is not a per-call behaviour: write_all turns Ok(0) into
               an error, so the outcome is the one of a failing writer *)
            let toks = parse_list t (fun t -> next t) n in
            let behav = List.filter_map (fun s -> if s = "z" then None else Some (if s = "i" then None else Some (n_of_hex s))) toks in
            let w = { w_budget = budget; w_behav = behav } in
            (match enc_to m w with
             | Some (ok, acc) ->
                 Buffer.add_string b (if ok then "W ok " else "W err ");
                 (match acc with
                  | Some bs -> Buffer.add_string b (Printf.sprintf "%x " (List.length bs));
                      Buffer.add_string b (tok_of_bytes (if List.length bs <= 70000 then bs else List.filteri (fun i _ -> i < 64) bs))
                  | None -> Buffer.add_string b "? ?");
                 Buffer.add_string b " LEN "; Buffer.add_string b (hex_of_n m.m_len)
             | None -> Buffer.add_string b "OUTOFFUEL");
            Buffer.add_string b " ## ENCOK "; Buffer.add_string b (bool01 (msg_enc_ok m));
            Buffer.add_string b " CAPS "; Buffer.add_string b (bool01 (caps_posb w));
            Buffer.add_string b " WD "; Buffer.add_string b (bool01 (msg_wireb m))
        | Err -> Buffer.add_string b "R err"
        | Panic -> Buffer.add_string b "PANIC"
        | OutOfFuel -> Buffer.add_string b "OUTOFFUEL")
   | "SD" | "SDN" | "SDP" | "SDX" ->     (* SDP: other streams of the process are stalled meanwhile - a decode depends on its own stream only *)
       let ds = get_dict (next t) in
       let k = next_int t in
       let rs = parse_rscript t in
       let total = List.length (all_bytes rs) in
       Buffer.add_string b "SD";
       let rec go k s =
         if k > 0 then begin
           let (r, s') = codec_decode (nat_of_int !lim) (dict_fn ds) s in
           (match r with
            | DOk m -> Buffer.add_string b " [OK "; pr_msg b m
            | DEof -> Buffer.add_string b " [EOF"
            | DErr -> Buffer.add_string b " [ERR"
            | DPanic -> Buffer.add_string b " [PANIC");
           Buffer.add_string b (Printf.sprintf " @%d]" (total - List.length (all_bytes s')));
           go (k - 1) s'
         end in
       go k rs
   | "SD2" ->     (* two streams decoded side by side on one thread: each is what it is alone *)
       let ds = get_dict (next t) in
       let one () =
         let k = next_int t in
         let rs = parse_rscript t in
         let total = List.length (all_bytes rs) in
         Buffer.add_string b "SD";
         let rec go k s =
           if k > 0 then begin
             let (r, s') = codec_decode (nat_of_int !lim) (dict_fn ds) s in
             (match r with
              | DOk m -> Buffer.add_string b " [OK "; pr_msg b m
              | DEof -> Buffer.add_string b " [EOF"
              | DErr -> Buffer.add_string b " [ERR"
              | DPanic -> Buffer.add_string b " [PANIC");
             Buffer.add_string b (Printf.sprintf " @%d]" (total - List.length (all_bytes s')));
             go (k - 1) s'
           end in
         go k rs in
       one (); Buffer.add_string b " || "; one ()
   | "SE" ->
       let ds = get_dict (next t) in
       let (start, ops) = parse_history t in
       (match hstart_msg (nat_of_int !lim) ds.ds_avps start with
        | Ok m0 ->
            let (m, _) = hrun ds.ds_avps m0 ops in
            let ws = parse_wscript t in
            let ((ok, acc), _) = codec_encode m ws in
            Buffer.add_string b (if ok then "SE ok " else "SE err "); Buffer.add_string b (tok_of_bytes acc)
        | _ -> Buffer.add_string b "R err")
   | "SV" | "SVP" ->     (* SVP: other connections of the process are stuck meanwhile - a connection depends on its own stream only *)
       let ds = get_dict (next t) in
       let rs = parse_rscript t in
       let ws = parse_wscript t in
       let na = next_int t in
       let answers = parse_list t (fun t -> match (match next t with "Z" -> let _ = next t in next t | s -> s) with
         | "F" -> None
         | "A" -> let dsa = get_dict (next t) in
                  let (start, ops) = parse_history t in
                  (match hstart_msg (nat_of_int !lim) dsa.ds_avps start with
                   | Ok m0 -> Some (fst (hrun dsa.ds_avps m0 ops))
                   | _ -> raise (Parse "answer history failed"))
         | s -> raise (Parse ("answer " ^ s))) na in
       let h seen _req = (match List.nth_opt answers (List.length seen) with Some a -> a | None -> None) in
       let total = List.length (all_bytes rs) in
       (match serve h (nat_of_int !lim) (dict_fn ds) rs ws with
        | Some o ->
            Buffer.add_string b "SV ";
            Buffer.add_string b (match o.so_res with SClosed -> "closed" | SFailed -> "failed" | SPanicked -> "panicked");
            Buffer.add_string b " CALLS "; Buffer.add_string b (string_of_int (List.length o.so_calls));
            List.iter (fun m -> Buffer.add_string b " ["; pr_msg b m; Buffer.add_char b ']') o.so_calls;
            Buffer.add_string b " WRITTEN "; Buffer.add_string b (tok_of_bytes o.so_written);
            Buffer.add_string b (Printf.sprintf " CONSUMED %d" (total - List.length (all_bytes o.so_rs)))
        | None -> Buffer.add_string b "OUTOFFUEL")
   | "TLSCELL" ->
       let tl = next_bool t in let vf = next_bool t in
       let srv = (match next t with "plain" -> SrvPlain | "tls" -> SrvTls | s -> raise (Parse ("srv " ^ s))) in
       let cert = (match next t with "match" -> CertMatch | "wrongname" -> CertWrongName | "untrusted" -> CertUntrusted | s -> raise (Parse ("cert " ^ s))) in
       let ad = (match next t with "host" -> AddrHost | "ip" -> AddrIp | s -> raise (Parse ("addr " ^ s))) in
       let port = next_bytes t in
       let cell = { c_tls = tl; c_verify = vf; c_srv = srv; c_cert = cert; c_addr = ad } in
       let tok o = (match o with OPlain -> "plain" | OTls -> "tls" | ORefused -> "refused" | ONoService -> "noservice") in
       Buffer.add_string b ("TLSCELL " ^ tok (model_outcome domain_of port cell) ^ " spec " ^ tok (spec_outcome cell))
   | "DOMAIN" ->
       let a = next_bytes t in Buffer.add_string b ("DOMAIN " ^ tok_of_bytes (domain_of a))
   | "OBJ" ->
       (* OBJ <repaired|legacy> <tlsfail|overlap|failed>: what the callers of send_message end up with in the reconnect
          scenarios (Model/ClientObj.v), one token per send *)
       let late = (match next t with "repaired" -> late_ok | "legacy" -> late_d13 | s -> raise (Parse ("obj " ^ s))) in
       let sched = (match next t with "tlsfail" -> sched_tlsfail | "overlap" -> sched_overlap | "failed" -> sched_failed | s -> raise (Parse ("sched " ^ s))) in
       Buffer.add_string b "OBJ";
       List.iter (fun w -> Buffer.add_string b (match w with WGot _ -> " got" | WDropped -> " err" | WPending0 -> " pending")) (send_outcomes late sched)
   | "CL" ->
       let _ = next t in
       let n = next_int t in
       (* one client object, possibly several connections (events CA / CF / SEL): the product machine of
          Model/ClientMulti.v; harness connection k (0-based) is model connection k+1 *)
       let ms = ref (mstep minit MConnect) in
       let sel = ref 1 in                               (* connection the peer events act on *)
       let curc () = int_of_nat !ms.cur in
       let cst c = !ms.conn (nat_of_int c) in
       (* the send that has not returned yet: hop id, connection, waiter index there, global send number,
          request octets let through the write gate so far, first octet already on the wire *)
       let sending : (n * int * int * int * int * bool) option ref = ref None in
       let req_len = 44 in                              (* header 20 + Origin-Host "host.example.com" 8+16 *)
       let sends : (int * (int * int)) list ref = ref [] in     (* global send number -> (connection, waiter index), newest first *)
       let nsends = ref 0 in
       let labels : (int * string) list ref = ref [] in (* by global send number: futures dropped / sends that returned Err *)
       let errs : int list ref = ref [] in              (* global send numbers whose send returned Err: no future handed out *)
       let drain c =
         let k = List.length (cst c).inq in
         for _ = 1 to k do ms := mstep !ms (MPeer (nat_of_int c, ReaderStep)) done in
       let apply_send e = (let c = curc () in ms := mstep !ms (MSend e); drain c) in
       let held : (int * ev) list ref option ref = ref None in     (* H ... U: what the peer emits is delivered in one piece at U *)
       let apply_peer_now c e = (ms := mstep !ms (MPeer (nat_of_int c, e)); drain c) in
       let apply_peer c e = (match !held, e with
                             | Some l, (Peer _ | PeerBad) -> l := (c, e) :: !l      (* held: answers, and a stream end right behind them *)
                             | _ -> apply_peer_now c e) in
       let wire () = (match !sending with
                      | Some (h, c, i, g, k, false) -> sending := Some (h, c, i, g, k, true); ms := mstep !ms (MPeer (nat_of_int c, WireOut h)); drain c
                      | _ -> ()) in
       let finish () = (wire (); sending := None) in
       let wired_frames = ref 0 in                      (* whole request frames the peers end up with *)
       let faulted = ref false in
       let resolved_at : (int * int) list ref = ref [] in
       let noat : int list ref = ref [] in
       let wstate g = (let (c, i) = List.assoc g !sends in List.nth (outcomes (cst c)) i) in
       let observe k =
         let cur = (match !sending with Some (_, _, _, g, _, _) -> g | None -> -1) in
         for g = 0 to !nsends - 1 do
           if g <> cur && not (List.mem_assoc g !resolved_at) && not (List.mem g !errs) then
             (match wstate g with WPending0 -> () | _ -> resolved_at := (g, k) :: !resolved_at)
         done in
       for ev = 0 to n - 1 do
         (match next t with
          | "R" -> finish (); let h = next_n t in
                   let c = curc () in
                   let i = int_of_nat (cst c).nw in let reg = not (cst c).closed in
                   let g = !nsends in
                   sends := (g, (c, i)) :: !sends; incr nsends;
                   apply_send (Register h);
                   (* on a closed table send_message returns Err at once: nothing is blocked, no future exists *)
                   if reg then begin sending := Some (h, c, i, g, 0, false); incr wired_frames end else begin sending := None; errs := g :: !errs end
          | "RN" -> (* n requests sent one after the other, each completely written *)
                    finish (); let k = next_int t in let h0 = next_n t in
                    for j = 0 to k - 1 do
                      let h = N.add h0 (N.of_nat (nat_of_int j)) in
                      let c = curc () in
                      let i = int_of_nat (cst c).nw in let reg = not (cst c).closed in
                      let g = !nsends in
                      sends := (g, (c, i)) :: !sends; incr nsends;
                      apply_send (Register h);
                      if reg then begin sending := Some (h, c, i, g, 0, false); incr wired_frames; finish () end else begin sending := None; errs := g :: !errs end
                    done
          | "AW" -> let g = next_int t in                          (* awaited in another task from now on: no completion index *)
                    (match !sending with
                     | Some (_, _, _, g', _, _) when g' = g -> ()        (* the send has not returned: there is no future to move yet *)
                     | _ -> if g < !nsends && not (List.mem_assoc g !resolved_at) && not (List.mem g !errs) && not (List.mem_assoc g !labels) then noat := g :: !noat)
          | "RS" -> (* request h sent completely; future k dropped by the assignment, unseen *)
                    finish (); let h = next_n t in let k = next_int t in
                    let c = curc () in
                    let i = int_of_nat (cst c).nw in let reg = not (cst c).closed in
                    let g = !nsends in
                    sends := (g, (c, i)) :: !sends; incr nsends;
                    apply_send (Register h);
                    if reg then begin sending := Some (h, c, i, g, 0, false); incr wired_frames; finish () end else begin sending := None; errs := g :: !errs end;
                    if k < g && not (List.mem_assoc k !labels) && not (List.mem k !errs) then begin
                      let (c', i') = List.assoc k !sends in
                      labels := (k, "DROPPED") :: !labels;
                      ms := mstep !ms (MPeer (nat_of_int c', Abandon (nat_of_int i'))); drain c' end
          | "RX" -> (* a request that cannot be encoded: registered (if the table is open), then send_message returns Err *)
                    finish (); let h = next_n t in
                    let c = curc () in
                    let i = int_of_nat (cst c).nw in let reg = not (cst c).closed in
                    let g = !nsends in
                    sends := (g, (c, i)) :: !sends; incr nsends; errs := g :: !errs;
                    apply_send (Register h);
                    if reg then begin labels := (g, "ERR") :: !labels; ms := mstep !ms (MPeer (nat_of_int c, Abandon (nat_of_int i))); drain c end
          | "PL" -> let h = next_n t in let _ = next t in apply_peer !sel (Peer h)
          | "G" -> let k = int_of_string ("0x" ^ next t) in
                   if k > 0 then begin
                     wire ();
                     (match !sending with
                      | Some (h, c, i, g, a, w) -> if a + k >= req_len then sending := None else sending := Some (h, c, i, g, a + k, w)
                      | None -> ())
                   end
          | "W" -> finish ()
          | "WE" -> faulted := true; (match !sending with
                     | Some (_, c, i, g, _, _) -> labels := (g, "ERR") :: !labels; errs := g :: !errs; sending := None;
                                                  ms := mstep !ms (MPeer (nat_of_int c, Abandon (nat_of_int i))); drain c
                     | _ -> ())
          | "D" -> let g = next_int t in
                   (match !sending with
                    | Some (_, _, _, g', _, _) when g' = g -> ()          (* the send has not returned: nothing to drop yet *)
                    | _ -> if g < !nsends && not (List.mem_assoc g !labels) && not (List.mem g !errs) then begin
                             let (c, i) = List.assoc g !sends in
                             labels := (g, "DROPPED") :: !labels;
                             ms := mstep !ms (MPeer (nat_of_int c, Abandon (nat_of_int i))); drain c end)
          | "T" | "TR" -> let _ = next t in ()
          | "CA" -> finish (); ms := mstep !ms MConnect; sel := curc ()
          | "CF" -> finish (); ms := mstep !ms MConnectFail
          | "SEL" -> let c = next_int t in if c + 1 <= curc () then sel := c + 1
          | "BB" -> (* a race the model does not resolve: the observation of such a case is judged without the model *)
                    let _ = next t in let k = next_int t in let h = next_n t in let _ = next t in
                    finish (); apply_peer !sel PeerBad;
                    for j = 0 to k - 1 do
                      let c = curc () in
                      let i = int_of_nat (cst c).nw in
                      let g = !nsends in
                      sends := (g, (c, i)) :: !sends; incr nsends; errs := g :: !errs;
                      apply_send (Register (N.add h (N.of_nat (nat_of_int j))))
                    done
          | "P" | "PC" -> let h = next_n t in apply_peer !sel (Peer h)     (* PC: an answer of another command code - matched by its hop-by-hop id all the same *)
          | "PS" -> let h = next_n t in let _ = next t in apply_peer !sel (Peer h)
          | "PG" -> let h = next_n t in let _ = next t in let _ = next t in apply_peer !sel (Peer h)
          | "PT" -> let _ = next t in let _ = next t in ()
          | "B" -> let _ = next t in apply_peer !sel PeerBad
          | "HR" -> ()     (* handle() dropped while idle and called again: the connection's state is in the client object *)
          | "H" -> held := Some (ref [])
          | "U" -> (match !held with
                    | Some l -> held := None;
                                (* all of it is in the stream before the reader runs *)
                                List.iter (fun (c, e) -> ms := mstep !ms (MPeer (nat_of_int c, e))) (List.rev !l);
                                List.iter (fun (c, _) -> drain c) (List.rev !l)
                    | None -> ())
          | s -> raise (Parse ("client event " ^ s)));
         observe ev
       done;
       finish ();
       observe n;
       Buffer.add_string b "CL";
       for g = 0 to !nsends - 1 do
         match List.assoc_opt g !labels with
         | Some l -> Buffer.add_string b (" " ^ l)
         | None ->
           let at = (match List.assoc_opt g !resolved_at with Some k when not (List.mem g !noat) -> "@" ^ string_of_int k | _ -> "") in
           (match wstate g with
            | WGot f -> Buffer.add_string b (" GOT:" ^ hex_of_n f.hop0 ^ ":" ^ Printf.sprintf "%x" (int_of_nat f.fid) ^ at)
            | WDropped -> Buffer.add_string b (if List.mem g !errs then " ERR" else " ERR" ^ at)
            | WPending0 -> Buffer.add_string b " PENDING")
       done;
       Buffer.add_string b (if (cst (curc ())).closed then " READER stopped" else " READER alive");
       if not !faulted then Buffer.add_string b (Printf.sprintf " WIRE ok:%d" !wired_frames);
       if curc () > 1 then begin
         Buffer.add_string b " ALL";
         for c = 1 to curc () do Buffer.add_string b (if (cst c).closed then " stopped" else " alive") done
       end
   | "X" ->
       let ds = get_dict (next t) in
       let bs = next_bytes t in
       (match dec_msg (nat_of_int !lim) (dict_fn ds) bs with
        | Ok m -> Buffer.add_string b "OK "; pr_msg b m; pr_enc b m; pr_oracle b ds m (Some bs)
        | Err -> Buffer.add_string b "ERR"
        | Panic -> Buffer.add_string b "PANIC"
        | OutOfFuel -> Buffer.add_string b "OUTOFFUEL")
   | "XD" ->
       let ds = get_dict (next t) in
       let bs = next_bytes t in
       (match dec_msg (nat_of_int !lim) (dict_fn ds) bs with
        | Ok m -> Buffer.add_string b "OK "; pr_msg b m; pr_enc b m; pr_oracle b ds m (Some bs)
        | Err -> Buffer.add_string b "ERR"
        | Panic -> Buffer.add_string b "PANIC"
        | OutOfFuel -> Buffer.add_string b "OUTOFFUEL")
   | "XP" ->
       (* a reader that stands past its end holds nothing: the decode of the empty input *)
       let ds = get_dict (next t) in
       let _ = next_int t in
       let _ = next_bytes t in
       (match dec_msg (nat_of_int !lim) (dict_fn ds) [] with
        | Ok m -> Buffer.add_string b "OK "; pr_msg b m; pr_enc b m; pr_oracle b ds m (Some [])
        | Err -> Buffer.add_string b "ERR"
        | Panic -> Buffer.add_string b "PANIC"
        | OutOfFuel -> Buffer.add_string b "OUTOFFUEL")
   | "XI" ->
       let ds = get_dict (next t) in
       let bs = next_bytes t in
       (match dec_msg (nat_of_int !lim) (dict_fn ds) bs with
        | Ok m -> Buffer.add_string b "OK "; pr_msg b m; pr_enc b m; pr_oracle b ds m (Some bs)
        | Err -> Buffer.add_string b "ERR"
        | Panic -> Buffer.add_string b "PANIC"
        | OutOfFuel -> Buffer.add_string b "OUTOFFUEL")
   | "POISON" | "TLDROP" -> Buffer.add_string b "OK"
   | "XM" ->
       (* frames back to back in one reader, each decoded from where it starts: the observation is that of the last
          (or of the first one that is refused) *)
       let ds = get_dict (next t) in
       let n = next_int t in
       let res = ref None in
       (try
         for _ = 1 to n do
           let bs = next_bytes t in
           let r = dec_msg (nat_of_int !lim) (dict_fn ds) bs in
           res := Some (r, bs);
           (match r with Ok _ -> () | _ -> raise Exit)
         done
       with Exit -> ());
       (match !res with
        | Some (Ok m, bs) -> Buffer.add_string b "OK "; pr_msg b m; pr_enc b m; pr_oracle b ds m (Some bs)
        | Some (Err, _) -> Buffer.add_string b "ERR"
        | Some (Panic, _) -> Buffer.add_string b "PANIC"
        | Some (OutOfFuel, _) -> Buffer.add_string b "OUTOFFUEL"
        | None -> Buffer.add_string b "ERR")
   | "XO" ->
       let ds = get_dict (next t) in
       let _ = next_int t in
       let bs = next_bytes t in
       (match dec_msg (nat_of_int !lim) (dict_fn ds) bs with
        | Ok m -> Buffer.add_string b "OK "; pr_msg b m; pr_enc b m; pr_oracle b ds m (Some bs)
        | Err -> Buffer.add_string b "ERR"
        | Panic -> Buffer.add_string b "PANIC"
        | OutOfFuel -> Buffer.add_string b "OUTOFFUEL")
   | "CHK" ->
       (* CHK <dict> <frame> <msgobs>: is the observed tree the one the octets denote, and what is its reference encoding *)
       let ds = get_dict (next t) in
       let bs = next_bytes t in
       let m = parse_msg t in
       let sm = abs_msg m in
       Buffer.add_string b "CHK "; Buffer.add_string b (bool01 (chk_msg (dict_fn ds) sm bs));
       Buffer.add_string b " SPEC "; Buffer.add_string b (tok_of_bytes (spec_msg sm))
   | "SPEC" ->
       let m = parse_msg t in
       Buffer.add_string b "SPEC "; Buffer.add_string b (tok_of_bytes (spec_msg (abs_msg m)));
       Buffer.add_string b " WD "; Buffer.add_string b (bool01 (msg_wireb m));
       Buffer.add_string b " NOMM "; Buffer.add_string b (bool01 (List.for_all nommb m.m_avps))
   | "UTF8" ->
       let bs = next_bytes t in Buffer.add_string b (bool01 (utf8_valid bs))
   | ("LEAFDEC" | "LEAFDECD" | "LEAFDECI" | "LEAFAFTER") as lcmd ->
       (* LEAFDEC <ty> <vl> <octets>; LEAFAFTER <dict> <frame> ...: a message was decoded on the same thread before - a value is what its octets say *)
       if lcmd = "LEAFAFTER" then (ignore (next t); ignore (next t));
       let ty = ty_of_tok (next t) in let vl = next_n t in let bs = next_bytes t in
       (match dec_leaf ty vl bs with
        | Some (l, rest) -> Buffer.add_string b "OK L "; pr_leaf b l; Buffer.add_char b ' ';
            Buffer.add_string b (tok_of_bytes (enc_leaf l)); Buffer.add_char b ' '; Buffer.add_string b (string_of_int (List.length rest))
        | None -> Buffer.add_string b "ERR")
   | "LEAFENC" ->
       let l = parse_leaf t in
       if leaf_enc_ok l then begin
         Buffer.add_string b "OK ";
         Buffer.add_string b (tok_of_bytes (enc_leaf l)); Buffer.add_char b ' ';
         Buffer.add_string b (hex_of_n (leaf_len l)) end
       else Buffer.add_string b "ERR";
       Buffer.add_string b " ## WIRE "; Buffer.add_string b (bool01 (leaf_wire l));
       Buffer.add_string b " REP "; Buffer.add_string b (bool01 (leaf_rep l))
   | "Q" ->
       (* Q <dict> <nqueries> (AVP code vd | NAME x.. | APP x.. | CMD x..)* *)
       let ds = get_dict (next t) in
       let k = next_int t in
       let pr_def (x : adef) =
         Buffer.add_string b (hex_of_n x.d_code); Buffer.add_char b ',';
         Buffer.add_string b (match x.d_vendor with None -> "-" | Some v -> hex_of_n v); Buffer.add_char b ',';
         Buffer.add_string b (tok_of_bytes x.d_name); Buffer.add_char b ',';
         Buffer.add_string b (tok_of_ty x.d_ty); Buffer.add_char b ','; Buffer.add_string b (bool01 x.d_m) in
       Buffer.add_string b "Q";
       for _ = 1 to k do
         Buffer.add_char b ' ';
         (match next t with
          | "AVP" -> let c = next_n t in let vd = next_opt_n t in
              (match lookup ds.ds_avps c vd with Some x -> pr_def x | None -> Buffer.add_string b "none")
          | "NAME" -> let nm = next_bytes t in
              (match by_name ds.ds_avps nm with Some x -> pr_def x | None -> Buffer.add_string b "none")
          | "APP" -> let nm = next_bytes t in
              (match nm_get ds.ds_apps nm with Some x -> Buffer.add_string b (hex_of_n x) | None -> Buffer.add_string b "none")
          | "CMD" -> let nm = next_bytes t in
              (match nm_get ds.ds_cmds nm with Some x -> Buffer.add_string b (hex_of_n x) | None -> Buffer.add_string b "none")
          | s -> raise (Parse ("query " ^ s)))
       done
   | s -> raise (Parse ("command " ^ s)));
  Buffer.contents b

let () =
  (try
    while true do
      let line = input_line stdin in
      if String.length line = 0 || line.[0] = '#' then print_string "\n"
      else begin
        (try print_string (handle line) with
         | Parse s -> print_string ("PARSEERROR " ^ s)
         | Stack_overflow -> print_string "STACKOVERFLOW");
        print_char '\n'
      end
    done
  with End_of_file -> ());
  flush stdout
