(* Facts about Model/Client.v: the request/answer matching invariant, C11 and C12. *)
Require Import DV.Base.Bytes DV.Model.Client.
From Coq Require Import Arith.

Ltac prj := cbn [table closed nw ws whop inq nsent senth wired gone stop stop_legacy].

(* ---------- association-list and update facts ---------- *)
Definition keys (t : list (N * nat)) := map fst t.
(* the physical identities of the frames in a queue (IBad items carry none) *)
Fixpoint fids (q : list item) : list nat :=
  match q with [] => [] | IFrame f :: q' => fid f :: fids q' | IBad :: q' => fids q' end.

Lemma fids_app a b : fids (a ++ b) = fids a ++ fids b.
Proof. induction a as [|[f|] a IH]; cbn [fids app]; [reflexivity| |auto]. now rewrite IH. Qed.
Lemma in_fids q x : In x (fids q) <-> exists f, In (IFrame f) q /\ fid f = x.
Proof.
  induction q as [|[g|] q IH]; cbn [fids In].
  - split; [tauto|]. intros (f & [] & _).
  - rewrite IH. split.
    + intros [E|(f & Hf & E)]; [exists g; auto | exists f; auto].
    + intros (f & [E|Hf] & E'); [inversion E; subst; auto | right; eauto].
  - rewrite IH. split; intros (f & Hf & E); exists f; [auto|]. destruct Hf as [Hf|Hf]; [discriminate|auto].
Qed.

Lemma lookup_in t h i : lookup t h = Some i -> In (h, i) t.
Proof. induction t as [|[k j] t IH]; cbn [lookup In]; [discriminate|]. destruct (N.eqb_spec k h); [intros [= ->]; subst; auto | auto]. Qed.
Lemma lookup_none t h : lookup t h = None -> ~ In h (keys t).
Proof. induction t as [|[k j] t IH]; cbn [lookup keys map fst In]; [auto|]. destruct (N.eqb_spec k h); [discriminate|]. intros H [E|E]; [congruence|]. now apply IH. Qed.
Lemma in_remove t h k i : In (k, i) (remove t h) <-> In (k, i) t /\ k <> h.
Proof. induction t as [|[k' j] t IH]; cbn [remove In]; [tauto|]. destruct (N.eqb_spec k' h); cbn [In]; rewrite IH; split; intros; intuition congruence. Qed.
Lemma keys_remove t h k : In k (keys (remove t h)) -> In k (keys t) /\ k <> h.
Proof. unfold keys. rewrite !in_map_iff. intros [[k' i] [E H]]. cbn [fst] in E; subst. apply in_remove in H. destruct H; split; auto. exists (k, i); auto. Qed.
Lemma nodup_remove t h : NoDup (keys t) -> NoDup (keys (remove t h)).
Proof. induction t as [|[k j] t IH]; cbn [remove keys map fst]; [auto|]. intros H; inversion H; subst. destruct (N.eqb_spec k h); [auto|].
  cbn [keys map fst]. constructor; [|auto]. intros Hk. apply keys_remove in Hk. tauto. Qed.
Lemma nodup_key_unique t h i j : NoDup (keys t) -> In (h, i) t -> In (h, j) t -> i = j.
Proof. induction t as [|[k x] t IH]; cbn [keys map fst In]; [tauto|]. intros H; inversion H as [|? ? Hn Hd]; subst.
  intros [E1|E1] [E2|E2]; try congruence; [..|auto].
  - inversion E1; subst. exfalso. apply Hn. change h with (fst (h, j)). now apply in_map.
  - inversion E2; subst. exfalso. apply Hn. change h with (fst (h, i)). now apply in_map. Qed.
Lemma lookup_some t h i : NoDup (keys t) -> In (h, i) t -> lookup t h = Some i.
Proof.
  induction t as [|[k j] t IH]; cbn [keys map fst In lookup]; [tauto|]. intros Hn; inversion Hn as [|? ? Hk Hd]; subst.
  intros [E|Hin].
  - inversion E; subst. now rewrite N.eqb_refl.
  - destruct (N.eqb_spec k h) as [->|Hne]; [|auto]. exfalso. apply Hk. change h with (fst (h, i)). now apply in_map.
Qed.
Lemma remove_none t h : (forall i, ~ In (h, i) t) -> remove t h = t.
Proof. induction t as [|[k j] t IH]; cbn [remove]; [auto|]. intros H. destruct (N.eqb_spec k h) as [->|Hne]; [exfalso; eapply H; left; eauto|].
  f_equal. apply IH. intros i Hi. eapply H; right; eauto. Qed.

Lemma upd_same {A} (f : nat -> A) i x : upd f i x i = x. Proof. unfold upd. now rewrite Nat.eqb_refl. Qed.
Lemma upd_other {A} (f : nat -> A) i j x : j <> i -> upd f i x j = f j.
Proof. unfold upd. intros H. destruct (Nat.eqb_spec j i); congruence. Qed.

Lemma drop_all_spec t : forall w j, drop_all t w j = if existsb (fun p => Nat.eqb (snd p) j) t then WDropped else w j.
Proof. induction t as [|[k i] t IH]; intros w j; cbn [drop_all existsb snd]; [reflexivity|]. rewrite IH. unfold upd.
  rewrite (Nat.eqb_sym i j). destruct (Nat.eqb j i); cbn [orb]; [destruct (existsb _ t); reflexivity | reflexivity]. Qed.

Lemma nodup_snoc (l : list nat) x : NoDup l -> ~ In x l -> NoDup (l ++ [x]).
Proof. induction l as [|a l IH]; cbn [app In]; intros H Hn; [constructor; [cbn; tauto|constructor]|].
  inversion H; subst. constructor; [rewrite in_app_iff; cbn [In]; intuition congruence | apply IH; tauto]. Qed.

Lemma run_snoc es e : run (es ++ [e]) = step (run es) e.
Proof. unfold run. now rewrite fold_left_app. Qed.
Lemma run_app es es' : run (es ++ es') = fold_left step es' (run es).
Proof. unfold run. now rewrite fold_left_app. Qed.

(* ---------- the invariant: holds in every reachable state, whatever the schedule and the peer ---------- *)
Record Inv (s : st) : Prop := {
  I_keys   : NoDup (keys (table s));
  I_tab    : forall h i, In (h, i) (table s) -> i < nw s /\ whop s i = h /\ ws s i = WPending;
  I_pend   : forall i, i < nw s -> ws s i = WPending -> In (whop s i, i) (table s);
  I_closed : closed s = true -> table s = [];
  I_got    : forall i f, i < nw s -> ws s i = WGot f ->
               hop f = whop s i /\ fid f < nsent s /\ senth s (fid f) = hop f /\ ~ In (fid f) (fids (inq s));
  I_once   : forall i j f g, i < nw s -> j < nw s -> ws s i = WGot f -> ws s j = WGot g -> fid f = fid g -> i = j;
  I_inq    : NoDup (fids (inq s)) /\
             forall f, In (IFrame f) (inq s) -> fid f < nsent s /\ senth s (fid f) = hop f
}.

Lemma drop_all_cases s : forall j,
  drop_all (table s) (ws s) j = WDropped \/
  (drop_all (table s) (ws s) j = ws s j /\ forall h, ~ In (h, j) (table s)).
Proof.
  intros j. rewrite drop_all_spec. destruct (existsb _ (table s)) eqn:E; [auto|right; split; auto].
  intros h Hin. assert (existsb (fun p => Nat.eqb (snd p) j) (table s) = true)
    by (apply existsb_exists; exists (h, j); cbn [snd]; split; auto; apply Nat.eqb_refl). congruence.
Qed.

Lemma inv_stop s : Inv s -> closed s = false -> Inv (stop s).
Proof.
  intros [Hk Ht Hp Hc Hg Ho Hi] Hcl. pose proof (drop_all_cases s) as D.
  constructor; prj.
  - constructor.
  - intros h i [].
  - intros i Hlt Hw. destruct (D i) as [E|[E Hn]]; [congruence|]. rewrite E in Hw. exfalso. eapply Hn. eauto.
  - auto.
  - intros i f Hlt Hw. destruct (D i) as [E|[E _]]; [congruence|]. rewrite E in Hw. auto.
  - intros i j f g Hi' Hj' Hwi Hwj. destruct (D i) as [E|[E _]]; [congruence|]. destruct (D j) as [E'|[E' _]]; [congruence|].
    rewrite E in Hwi; rewrite E' in Hwj. eauto.
  - auto.
Qed.

Lemma inv_init : Inv init.
Proof. constructor; cbn; try (intros; lia || tauto || discriminate); try constructor; try tauto. constructor. Qed.

Lemma inv_step s e : Inv s -> Inv (step s e).
Proof.
  intros HI. pose proof HI as [Hk Ht Hp Hc Hg Ho Hi]. destruct e as [h|h|h| | |ab]; cbn [step].
  - (* Register *)
    destruct (closed s) eqn:Hcl.
    + rewrite (Hc eq_refl) in *. constructor; prj; auto.
      * intros ? ? [].
      * intros i Hlt Hw. destruct (Nat.eq_dec i (nw s)) as [->|Hne]; [rewrite upd_same in Hw; discriminate|].
        rewrite upd_other in Hw by auto. exfalso. apply (Hp i) in Hw; [auto | lia].
      * intros i f Hlt Hw. destruct (Nat.eq_dec i (nw s)) as [->|Hne]; [rewrite upd_same in Hw; discriminate|].
        rewrite upd_other in Hw by auto. rewrite ?upd_other by auto. apply Hg; [lia|auto].
      * intros i j f g Hi' Hj' Hwi Hwj. destruct (Nat.eq_dec i (nw s)) as [->|Hne]; [rewrite upd_same in Hwi; discriminate|].
        destruct (Nat.eq_dec j (nw s)) as [->|Hne']; [rewrite upd_same in Hwj; discriminate|].
        rewrite upd_other in Hwi, Hwj by auto. apply Ho; auto; lia.
    + set (w' := match lookup (table s) h with Some i => upd (ws s) i WDropped | None => ws s end).
      assert (W' : forall j, j < nw s -> w' j = ws s j \/ (w' j = WDropped /\ In (h, j) (table s))).
      { intros j Hj. unfold w'. destruct (lookup (table s) h) as [i|] eqn:El; [|auto].
        destruct (Nat.eq_dec j i) as [->|Hne]; [right; rewrite upd_same; split; auto; now apply lookup_in | left; now rewrite upd_other]. }
      assert (W'' : forall j, In (h, j) (table s) -> w' j = WDropped).
      { intros j Hin. unfold w'. destruct (lookup (table s) h) as [i|] eqn:El.
        - apply lookup_in in El. rewrite (nodup_key_unique _ _ _ _ Hk Hin El). apply upd_same.
        - apply lookup_none in El. exfalso. apply El. change h with (fst (h, j)). now apply in_map. }
      constructor; prj.
      * cbn [keys map fst]. constructor; [|now apply nodup_remove]. intros Hin. apply keys_remove in Hin. tauto.
      * intros k i [E|Hin].
        -- inversion E; subst. rewrite !upd_same. repeat split; lia.
        -- apply in_remove in Hin. destruct Hin as [Hin Hne]. destruct (Ht _ _ Hin) as (Hlt & Hh & Hw).
           assert (i <> nw s) by lia. rewrite !upd_other by auto. repeat split; [lia|auto|].
           destruct (W' i Hlt) as [E|[_ Hin']]; [congruence|].
           exfalso. destruct (Ht _ _ Hin') as (_ & E' & _). congruence.
      * intros i Hlt Hw. destruct (Nat.eq_dec i (nw s)) as [->|Hne]; [left; now rewrite upd_same|].
        rewrite upd_other in Hw by auto. rewrite ?upd_other by auto. right. assert (Hlt' : i < nw s) by lia.
        destruct (W' i Hlt') as [E|[E _]]; [|congruence]. rewrite E in Hw. apply in_remove. split; [now apply Hp|].
        intros Eh. pose proof (Hp i Hlt' Hw) as Hin. rewrite Eh in Hin. rewrite (W'' _ Hin) in E. congruence.
      * discriminate.
      * intros i f Hlt Hw. destruct (Nat.eq_dec i (nw s)) as [->|Hne]; [rewrite upd_same in Hw; discriminate|].
        rewrite upd_other in Hw by auto. rewrite ?upd_other by auto. assert (Hlt' : i < nw s) by lia.
        destruct (W' i Hlt') as [E|[E _]]; [|congruence]. rewrite E in Hw. now apply Hg.
      * intros i j f g Hi' Hj' Hwi Hwj. destruct (Nat.eq_dec i (nw s)) as [->|Hne]; [rewrite upd_same in Hwi; discriminate|].
        destruct (Nat.eq_dec j (nw s)) as [->|Hne']; [rewrite upd_same in Hwj; discriminate|].
        rewrite upd_other in Hwi, Hwj by auto. assert (i < nw s) by lia. assert (j < nw s) by lia.
        destruct (W' i) as [E|[E _]]; [auto| |congruence]. destruct (W' j) as [E'|[E' _]]; [auto| |congruence].
        rewrite E in Hwi; rewrite E' in Hwj. eauto.
      * auto.
  - (* WireOut *)
    constructor; prj; auto.
  - (* Peer *)
    destruct Hi as [Hnd Hin]. constructor; prj; auto.
    + intros i f Hlt Hw. destruct (Hg i f Hlt Hw) as (A & B & C & D). repeat split; [auto|lia| |].
      * rewrite upd_other by lia. auto.
      * rewrite fids_app, in_app_iff. cbn [fids fid In]. intros [E|[E|[]]]; [tauto|lia].
    + split.
      * rewrite fids_app. cbn [fids fid]. apply nodup_snoc; auto.
        intros Hx. apply in_fids in Hx. destruct Hx as [f [Hf E]]. apply Hin in Hf. lia.
      * intros f Hf. apply in_app_iff in Hf. destruct Hf as [Hf|[E|[]]].
        -- destruct (Hin f Hf). split; [lia|]. rewrite upd_other by lia. auto.
        -- inversion E; subst f. cbn [fid hop]. split; [lia|apply upd_same].
  - (* PeerBad *)
    destruct Hi as [Hnd Hin]. constructor; prj; auto.
    + intros i f Hlt Hw. destruct (Hg i f Hlt Hw) as (A & B & C & D). repeat split; auto.
      rewrite fids_app, in_app_iff. cbn [fids In]. tauto.
    + split.
      * rewrite fids_app. cbn [fids]. now rewrite app_nil_r.
      * intros f Hf. apply in_app_iff in Hf. destruct Hf as [Hf|[E|[]]]; [auto|discriminate].
  - (* ReaderStep *)
    destruct (closed s) eqn:Hcl; [exact HI|]. destruct (inq s) as [|[f|] q] eqn:Eq; [exact HI| |].
    + destruct Hi as [Hnd Hin]. cbn [fids] in Hnd. inversion Hnd as [|? ? Hnf Hndq]; subst.
      destruct (lookup (table s) (hop f)) as [i|] eqn:El.
      * apply lookup_in in El. destruct (Ht _ _ El) as (Hlt & Hh & Hw).
        destruct (gone s i) eqn:Hgone.
        { (* the Receiver is gone: the entry is removed, the send fails, the reader stops *)
          apply inv_stop; [|reflexivity]. constructor; prj.
          - now apply nodup_remove.
          - intros k j Hin'. apply in_remove in Hin'. destruct Hin' as [Hin' Hne]. destruct (Ht _ _ Hin') as (A & B & C).
            assert (j <> i) by (intros ->; congruence). rewrite upd_other by auto. auto.
          - intros j Hj Hwj. destruct (Nat.eq_dec j i) as [->|Hne]; [rewrite upd_same in Hwj; discriminate|].
            rewrite upd_other in Hwj by auto. apply in_remove. split; [auto|]. intros E.
            pose proof (Hp j Hj Hwj) as Hin'. rewrite E in Hin'. apply Hne. eapply nodup_key_unique; eauto.
          - discriminate.
          - intros j g Hj Hwj. destruct (Nat.eq_dec j i) as [->|Hne]; [rewrite upd_same in Hwj; discriminate|].
            rewrite upd_other in Hwj by auto. destruct (Hg j g Hj Hwj) as (A & B & C & D). repeat split; auto.
            cbn [fids In] in D. tauto.
          - intros a b g g' Ha Hb Hwa Hwb Efid.
            destruct (Nat.eq_dec a i) as [->|Hna]; [rewrite upd_same in Hwa; discriminate|].
            destruct (Nat.eq_dec b i) as [->|Hnb]; [rewrite upd_same in Hwb; discriminate|].
            rewrite upd_other in Hwa, Hwb by auto. eauto.
          - split; [auto|]. intros g Hg'. apply Hin. now right. }
        constructor; prj.
        -- now apply nodup_remove.
        -- intros k j Hin'. apply in_remove in Hin'. destruct Hin' as [Hin' Hne]. destruct (Ht _ _ Hin') as (A & B & C).
           assert (j <> i) by (intros ->; congruence). rewrite upd_other by auto. auto.
        -- intros j Hj Hwj. destruct (Nat.eq_dec j i) as [->|Hne]; [rewrite upd_same in Hwj; discriminate|].
           rewrite upd_other in Hwj by auto. apply in_remove. split; [auto|]. intros E.
           pose proof (Hp j Hj Hwj) as Hin'. rewrite E in Hin'. apply Hne. eapply nodup_key_unique; eauto.
        -- discriminate.
        -- intros j g Hj Hwj. destruct (Nat.eq_dec j i) as [->|Hne].
           ++ rewrite upd_same in Hwj. inversion Hwj; subst g. destruct (Hin f (or_introl eq_refl)). repeat split; auto.
           ++ rewrite upd_other in Hwj by auto. destruct (Hg j g Hj Hwj) as (A & B & C & D). repeat split; auto.
              cbn [fids In] in D. tauto.
        -- intros a b g g' Ha Hb Hwa Hwb Efid.
           destruct (Nat.eq_dec a i) as [->|Hna]; destruct (Nat.eq_dec b i) as [->|Hnb]; auto.
           ++ rewrite upd_same in Hwa. rewrite upd_other in Hwb by auto. inversion Hwa; subst g.
              destruct (Hg b g' Hb Hwb) as (_ & _ & _ & D). cbn [fids In] in D. exfalso. apply D. left. auto.
           ++ rewrite upd_same in Hwb. rewrite upd_other in Hwa by auto. inversion Hwb; subst g'.
              destruct (Hg a g Ha Hwa) as (_ & _ & _ & D). cbn [fids In] in D. exfalso. apply D. left. auto.
           ++ rewrite upd_other in Hwa, Hwb by auto. eauto.
        -- split; [auto|]. intros g Hg'. apply Hin. now right.
      * apply inv_stop; [|reflexivity]. constructor; prj; auto.
        -- intros j g Hj Hwj. destruct (Hg j g Hj Hwj) as (A & B & C & D). repeat split; auto. cbn [fids In] in D. tauto.
        -- split; [auto|]. intros g Hg'. apply Hin. now right.
    + destruct Hi as [Hnd Hin]. cbn [fids] in Hnd.
      apply inv_stop; [|reflexivity]. constructor; prj; auto.
      split; [auto|]. intros g Hg'. apply Hin. now right.
  - (* Abandon: only the ghost flag changes *)
    constructor; prj; auto.
Qed.

Lemma inv_fold es : forall s, Inv s -> Inv (fold_left step es s).
Proof. induction es as [|e es IH]; cbn [fold_left]; auto using inv_step. Qed.

Theorem inv_run es : Inv (run es).
Proof. apply inv_fold, inv_init. Qed.

(* C11 (safety half): whatever the interleaving and whatever the peer does, an answer is only ever
   delivered to a waiter with its hop-by-hop id, it is a frame the peer emitted, and no frame reaches
   two waiters. *)
Theorem C11_safety_lemma es i f : i < nw (run es) -> ws (run es) i = WGot f ->
  hop f = whop (run es) i /\ fid f < nsent (run es) /\ senth (run es) (fid f) = hop f /\
  (forall j g, j < nw (run es) -> ws (run es) j = WGot g -> fid g = fid f -> j = i).
Proof.
  intros Hi Hw. destruct (inv_run es) as [_ _ _ _ Hg Ho _]. destruct (Hg i f Hi Hw) as (A & B & C & _).
  repeat split; auto. intros j g Hj Hwj E. eapply Ho; eauto.
Qed.

(* C12 (release half): once the reader has stopped, no waiter that was handed out is still pending. *)
Lemma closed_no_pending s i : Inv s -> closed s = true -> i < nw s -> ws s i <> WPending.
Proof. intros [_ _ Hp Hcl _ _ _] Hc Hi Hw. apply (Hp i Hi) in Hw. rewrite (Hcl Hc) in Hw. exact Hw. Qed.

Theorem C12_reader_stop_releases_all_lemma es i :
  closed (run es) = true -> i < nw (run es) -> ws (run es) i <> WPending.
Proof. apply closed_no_pending, inv_run. Qed.

(* ---------- C12: the individual failure causes ---------- *)
Lemma send_after_stop_fails s h : closed s = true ->
  ws (step s (Register h)) (nw s) = WDropped /\ nw (step s (Register h)) = S (nw s).
Proof. intros Hc. cbn [step]. rewrite Hc. prj. split; [apply upd_same|reflexivity]. Qed.

Lemma superseded_fails s h i : Inv s -> closed s = false -> In (h, i) (table s) ->
  ws (step s (Register h)) i = WDropped.
Proof.
  intros [Hk Ht _ _ _ _ _] Hc Hin. cbn [step]. rewrite Hc. prj. rewrite (lookup_some _ _ _ Hk Hin).
  destruct (Ht _ _ Hin) as (Hlt & _ & _). rewrite upd_other by lia. apply upd_same.
Qed.

Lemma bad_input_stops s q : closed s = false -> inq s = IBad :: q -> closed (step s ReaderStep) = true.
Proof. intros Hc Hq. cbn [step]. rewrite Hc, Hq. reflexivity. Qed.

Lemma unmatched_stops s f q : closed s = false -> inq s = IFrame f :: q -> lookup (table s) (hop f) = None ->
  closed (step s ReaderStep) = true.
Proof. intros Hc Hq Hl. cbn [step]. rewrite Hc, Hq, Hl. reflexivity. Qed.

(* ... and, combined with the release: one reader step later nobody is pending *)
Lemma bad_input_releases_all es q i : closed (run es) = false -> inq (run es) = IBad :: q ->
  i < nw (run (es ++ [ReaderStep])) -> ws (run (es ++ [ReaderStep])) i <> WPending.
Proof.
  intros Hc Hq. apply C12_reader_stop_releases_all_lemma. rewrite run_snoc. now apply bad_input_stops with q.
Qed.
Lemma unmatched_releases_all es f q i : closed (run es) = false -> inq (run es) = IFrame f :: q ->
  lookup (table (run es)) (hop f) = None ->
  i < nw (run (es ++ [ReaderStep])) -> ws (run (es ++ [ReaderStep])) i <> WPending.
Proof.
  intros Hc Hq Hl. apply C12_reader_stop_releases_all_lemma. rewrite run_snoc. now apply unmatched_stops with f q.
Qed.

(* ---------- resolved futures never change; a closed connection stays closed ---------- *)
Lemma closed_step s e : closed s = true -> closed (step s e) = true.
Proof. intros Hc. destruct e; cbn [step]; rewrite ?Hc; prj; auto. Qed.
Lemma closed_fold es : forall s, closed s = true -> closed (fold_left step es s) = true.
Proof. induction es as [|e es IH]; cbn [fold_left]; auto using closed_step. Qed.

Lemma nw_step s e : nw s <= nw (step s e).
Proof.
  destruct e; cbn [step]; prj; auto.
  - destruct (closed s); prj; lia.
  - destruct (closed s); [lia|]. destruct (inq s) as [|[f|] q]; [lia| |prj; lia].
    destruct (lookup (table s) (hop f)) as [i|]; [destruct (gone s i)|]; prj; lia.
Qed.

Lemma drop_all_notin t w i : (forall h, ~ In (h, i) t) -> drop_all t w i = w i.
Proof.
  intros Hn. rewrite drop_all_spec. destruct (existsb _ t) eqn:Ex; [|reflexivity].
  apply existsb_exists in Ex. destruct Ex as [[k j] [Hin Ej]]. cbn [snd] in Ej. apply Nat.eqb_eq in Ej. subst j.
  exfalso. now apply (Hn k).
Qed.

Lemma resolved_step s e i : Inv s -> i < nw s -> ws s i <> WPending -> ws (step s e) i = ws s i.
Proof.
  intros [Hk Ht Hp Hc Hg Ho Hi] Hlt Hw.
  assert (Hnt : forall h, ~ In (h, i) (table s)) by (intros h Hin; apply Ht in Hin; tauto).
  destruct e as [h|h|h| | |ab]; cbn [step]; prj; auto.
  - destruct (closed s); prj.
    + apply upd_other. lia.
    + rewrite upd_other by lia. destruct (lookup (table s) h) as [j|] eqn:El; [|reflexivity].
      apply lookup_in in El. apply upd_other. intros ->. now apply (Hnt h).
  - destruct (closed s); [reflexivity|]. destruct (inq s) as [|[f|] q]; [reflexivity| |].
    + destruct (lookup (table s) (hop f)) as [j|] eqn:El; [destruct (gone s j)|]; prj.
      * apply lookup_in in El. assert (i <> j) by (intros ->; now apply (Hnt (hop f))).
        rewrite drop_all_notin; [now apply upd_other|]. intros h Hin. apply in_remove in Hin. now apply (Hnt h).
      * apply lookup_in in El. apply upd_other. intros ->. now apply (Hnt (hop f)).
      * now apply drop_all_notin.
    + prj. now apply drop_all_notin.
Qed.

Lemma resolved_fold es : forall s i, Inv s -> i < nw s -> ws s i <> WPending ->
  ws (fold_left step es s) i = ws s i.
Proof.
  induction es as [|e es IH]; cbn [fold_left]; [reflexivity|]. intros s i HI Hlt Hw.
  pose proof (resolved_step s e i HI Hlt Hw) as E. rewrite IH; [exact E|now apply inv_step| |congruence].
  pose proof (nw_step s e). lia.
Qed.

(* a future that has resolved (Ok or Err) keeps that result in every continuation *)
Lemma resolved_is_final es es' i : i < nw (run es) -> ws (run es) i <> WPending ->
  ws (run (es ++ es')) i = ws (run es) i.
Proof. intros Hlt Hw. rewrite run_app. apply resolved_fold; auto using inv_run. Qed.

(* ---------- today's code (legacy machine): C12 is false ---------- *)
Lemma C12_legacy_refuted_lemma :
  exists es i, closed (run_legacy es) = true /\ i < nw (run_legacy es) /\ ws (run_legacy es) i = WPending.
Proof. exists [Register 7%N; WireOut 7%N; PeerBad; ReaderStep], 0. vm_compute. repeat split; constructor. Qed.

(* the same with an unmatched answer instead of a cut connection *)
Lemma C12_legacy_refuted_unmatched :
  exists es i, closed (run_legacy es) = true /\ i < nw (run_legacy es) /\ ws (run_legacy es) i = WPending.
Proof. exists [Register 7%N; WireOut 7%N; Peer 8%N; ReaderStep], 0. vm_compute. repeat split; constructor. Qed.

Definition not_register (e : ev) : Prop := match e with Register _ => False | _ => True end.

Lemma legacy_closed_step s e : closed s = true -> not_register e ->
  closed (step_legacy s e) = true /\ ws (step_legacy s e) = ws s /\ nw (step_legacy s e) = nw s.
Proof. intros Hc Hn. destruct e; cbn [step_legacy step not_register] in *; rewrite ?Hc; prj; tauto. Qed.

Lemma legacy_closed_fold es : forall s, closed s = true -> Forall not_register es ->
  closed (fold_left step_legacy es s) = true /\ ws (fold_left step_legacy es s) = ws s
  /\ nw (fold_left step_legacy es s) = nw s.
Proof.
  induction es as [|e es IH]; cbn [fold_left]; [auto|]. intros s Hc Hf. inversion Hf as [|? ? He Hes]; subst.
  destruct (legacy_closed_step s e Hc He) as (A & B & C). destruct (IH _ A Hes) as (A' & B' & C').
  rewrite B', C', B, C. auto.
Qed.

(* a send after the reader has returned yields a future that is pending and that nothing the peer,
   the wire or the (dead) reader does afterwards can ever resolve *)
Lemma C12_legacy_late_send_hangs_lemma s h es' : closed s = true -> Forall not_register es' ->
  let s' := fold_left step_legacy es' (step_legacy s (Register h)) in
  nw s' = S (nw s) /\ ws s' (nw s) = WPending.
Proof.
  intros Hc Hf. cbn zeta.
  destruct (legacy_closed_fold es' (step_legacy s (Register h))) as (_ & B & C); [cbn [step_legacy]; prj; exact Hc|exact Hf|].
  rewrite B, C. cbn [step_legacy]. prj. split; [reflexivity|apply upd_same].
Qed.

Lemma C12_legacy_late_send_hangs_witness :
  let es := [Register 1%N; WireOut 1%N; PeerBad; ReaderStep; Register 2%N; WireOut 2%N; Peer 2%N; ReaderStep; ReaderStep] in
  closed (run_legacy es) = true /\ outcomes (run_legacy es) = [WPending; WPending].
Proof. vm_compute. auto. Qed.
(* the repaired machine on the same schedule *)
Lemma C12_late_send_fails_witness :
  let es := [Register 1%N; WireOut 1%N; PeerBad; ReaderStep; Register 2%N; WireOut 2%N; Peer 2%N; ReaderStep; ReaderStep] in
  closed (run es) = true /\ outcomes (run es) = [WDropped; WDropped].
Proof. vm_compute. auto. Qed.

(* ------------------------------------------------------------------ *)
(* Schedules with distinct hop-by-hop ids, the program order of the correct code (register, then
   write) and a causal peer that answers each id at most once.  Each guard is evaluated in the state
   in which the event fires. *)
Definition ok_ev (s : st) (e : ev) : Prop :=
  match e with
  | Register h => forall i, i < nw s -> whop s i <> h                 (* distinct ids *)
  | WireOut h => exists i, i < nw s /\ whop s i = h                   (* written only after it was registered *)
  | Peer h => In h (wired s)                                          (* causal peer: answers only what is on the wire *)
              /\ (forall a, a < nsent s -> senth s a <> h)            (* at most one answer per id *)
  | PeerBad => False                                                  (* the connection is not cut *)
  | ReaderStep => True
  | Abandon i => i < nw s /\ ws s i <> WPending                       (* a future is dropped only once it has completed *)
  end.
Fixpoint all_ok (es : list ev) (s : st) : Prop :=
  match es with [] => True | e :: es' => ok_ev s e /\ all_ok es' (step s e) end.

(* the same without the program-order guard on WireOut (the request may be written before it is registered) *)
Definition ok_ev_wf (s : st) (e : ev) : Prop :=
  match e with WireOut _ => True | _ => ok_ev s e end.
Fixpoint all_ok_wf (es : list ev) (s : st) : Prop :=
  match es with [] => True | e :: es' => ok_ev_wf s e /\ all_ok_wf es' (step s e) end.

Lemma forallb_seq_lt (p : nat -> bool) n : forallb p (seq 0 n) = true -> forall i, i < n -> p i = true.
Proof. intros H i Hi. rewrite forallb_forall in H. apply H. apply in_seq. lia. Qed.
Lemma existsb_seq_lt (p : nat -> bool) n : existsb p (seq 0 n) = true -> exists i, i < n /\ p i = true.
Proof. intros H. apply existsb_exists in H. destruct H as [i [Hi Hp]]. apply in_seq in Hi. exists i. split; [lia|auto]. Qed.

Lemma ok_evb_sound_gen b s e : ok_evb b s e = true -> if b then ok_ev s e else ok_ev_wf s e.
Proof.
  assert (G : forall e, (match e with WireOut _ => False | _ => True end) -> ok_evb b s e = true -> ok_ev s e).
  { intros [h|h|h| | |ab] Hn H; cbn [ok_evb ok_ev] in *; auto; try discriminate; try tauto.
    3:{ apply andb_true_iff in H. destruct H as [H1 H2]. apply Nat.ltb_lt in H1. split; [exact H1|].
        intros E. rewrite E in H2. discriminate. }
    - intros i Hi E. pose proof (forallb_seq_lt _ _ H i Hi) as P. cbn beta in P. apply negb_true_iff in P.
      apply N.eqb_neq in P. auto.
    - apply andb_true_iff in H. destruct H as [H1 H2]. split.
      + apply existsb_exists in H1. destruct H1 as [x [Hx E]]. apply N.eqb_eq in E. now subst x.
      + intros a Ha E. pose proof (forallb_seq_lt _ _ H2 a Ha) as P. cbn beta in P. apply negb_true_iff in P.
        apply N.eqb_neq in P. auto. }
  intros H. destruct e as [h|h|h| | |ab].
  2:{ destruct b; cbn [ok_evb ok_ev ok_ev_wf] in *; [|exact I].
      destruct (existsb_seq_lt _ _ H) as (i & Hi & E). apply N.eqb_eq in E. eauto. }
  all: destruct b; cbv iota; cbn [ok_ev_wf]; apply G; solve [exact I|exact H].
Qed.

Lemma all_okb_sound es : forall s, all_okb true es s = true -> all_ok es s.
Proof.
  induction es as [|e es IH]; intros s H; cbn [all_okb all_ok] in *; [exact I|].
  apply andb_true_iff in H. destruct H as [H1 H2]. split; [exact (ok_evb_sound_gen true s e H1)|auto].
Qed.
Lemma all_okb_wf_sound es : forall s, all_okb false es s = true -> all_ok_wf es s.
Proof.
  induction es as [|e es IH]; intros s H; cbn [all_okb all_ok_wf] in *; [exact I|].
  apply andb_true_iff in H. destruct H as [H1 H2]. split; [exact (ok_evb_sound_gen false s e H1)|auto].
Qed.

(* guards under which the matching invariant below survives: as ok_ev, but the peer may also cut the
   connection, as long as the reader has not consumed the cut yet *)
Definition ok_ev' (s : st) (e : ev) : Prop :=
  match e with
  | PeerBad => True
  | ReaderStep => forall q, inq s <> IBad :: q
  | _ => ok_ev s e
  end.

Record Jnv (s : st) : Prop := {
  J_open  : closed s = false;
  J_inq   : forall f, In (IFrame f) (inq s) -> exists i, In (hop f, i) (table s);
  J_w     : forall i, i < nw s ->
              (ws s i = WPending /\ (forall a, a < nsent s -> senth s a <> whop s i))
              \/ (ws s i = WPending /\ exists f, In (IFrame f) (inq s) /\ hop f = whop s i)
              \/ (exists f, ws s i = WGot f);
  J_dist  : forall i j, i < nw s -> j < nw s -> whop s i = whop s j -> i = j;
  J_one   : forall a b, a < nsent s -> b < nsent s -> senth s a = senth s b -> a = b;
  J_reg   : forall a, a < nsent s -> exists i, i < nw s /\ whop s i = senth s a;
  J_wired : forall h, In h (wired s) -> exists i, i < nw s /\ whop s i = h;
  J_gone  : forall i, gone s i = true -> i < nw s /\ ws s i <> WPending
}.

Lemma jnv_init : Jnv init.
Proof. constructor; cbn; try reflexivity; try (intros; lia); try (intros; tauto). Qed.

Lemma jnv_step s e : Inv s -> Jnv s -> ok_ev' s e -> Jnv (step s e).
Proof.
  intros [Hk Ht Hp Hc Hg Ho [Hnd Hiq]] [Jo Ji Jw Jd J1 Jr Jwi Jg] Hok. destruct e as [h|h|h| | |ab]; cbn [step ok_ev' ok_ev] in *.
  - (* Register h, h fresh *)
    rewrite Jo.
    assert (Hfresh : forall i, ~ In (h, i) (table s)).
    { intros i Hin. destruct (Ht _ _ Hin) as (Hlt & Hh & _). now apply (Hok i). }
    assert (El : lookup (table s) h = None).
    { destruct (lookup (table s) h) as [i|] eqn:E; [|reflexivity]. apply lookup_in in E. exfalso. eapply Hfresh; eauto. }
    rewrite El, (remove_none _ _ Hfresh). constructor; prj.
    + reflexivity.
    + intros f Hf. destruct (Ji f Hf) as [i Hi]. exists i. now right.
    + intros i Hlt. destruct (Nat.eq_dec i (nw s)) as [->|Hne].
      * left. rewrite !upd_same. split; [reflexivity|]. intros a Ha E. destruct (Jr a Ha) as (j & Hj & Ej). apply (Hok j Hj). congruence.
      * assert (Hlt' : i < nw s) by lia. rewrite !upd_other by auto. exact (Jw i Hlt').
    + intros i j Hi Hj E. destruct (Nat.eq_dec i (nw s)) as [->|Hni]; destruct (Nat.eq_dec j (nw s)) as [->|Hnj]; auto.
      * rewrite upd_same, upd_other in E by auto. exfalso. apply (Hok j); [lia|congruence].
      * rewrite upd_other, upd_same in E by auto. exfalso. apply (Hok i); [lia|congruence].
      * rewrite !upd_other in E by auto. apply Jd; auto; lia.
    + exact J1.
    + intros a Ha. destruct (Jr a Ha) as (i & Hi & Ei). exists i. split; [lia|]. rewrite upd_other by lia. exact Ei.
    + intros k Hk'. destruct (Jwi k Hk') as (i & Hi & Ei). exists i. split; [lia|]. rewrite upd_other by lia. exact Ei.
    + intros i Hgi. destruct (Jg i Hgi) as [Hlt Hw]. split; [lia|]. rewrite upd_other by lia. exact Hw.
  - (* WireOut h *)
    constructor; prj; auto. intros k [<-|Hk']; [exact Hok|auto].
  - (* Peer h *)
    destruct Hok as [Hwire Hnone]. destruct (Jwi h Hwire) as (i0 & Hi0 & Eh).
    assert (Hpend0 : ws s i0 = WPending).
    { destruct (Jw i0 Hi0) as [[Hw _]|[[Hw _]|[f Hw]]]; auto. exfalso.
      destruct (Hg i0 f Hi0 Hw) as (A & B & C & _). apply (Hnone (fid f) B). congruence. }
    constructor; prj.
    + exact Jo.
    + intros f Hf. apply in_app_iff in Hf. destruct Hf as [Hf|[E|[]]]; [now apply Ji|]. inversion E; subst f. cbn [hop].
      exists i0. rewrite <- Eh. now apply Hp.
    + intros i Hlt. destruct (Nat.eq_dec i i0) as [->|Hne].
      * right; left. split; [auto|]. eexists; split; [apply in_app_iff; right; left; reflexivity|]. cbn [hop]. auto.
      * destruct (Jw i Hlt) as [[Hw Hn]|[[Hw (f & Hf & Ef)]|[f Hw]]].
        -- left. split; [auto|]. intros a Ha. destruct (Nat.eq_dec a (nsent s)) as [->|Hna].
           ++ rewrite upd_same. intros E. apply Hne. apply Jd; auto. congruence.
           ++ rewrite upd_other by auto. apply Hn. lia.
        -- right; left. split; [auto|]. exists f. split; [apply in_app_iff; now left|auto].
        -- right; right. eauto.
    + exact Jd.
    + intros a b Ha Hb E. destruct (Nat.eq_dec a (nsent s)) as [->|Hna]; destruct (Nat.eq_dec b (nsent s)) as [->|Hnb]; auto.
      * rewrite upd_same, upd_other in E by auto. exfalso. apply (Hnone b); [lia|congruence].
      * rewrite upd_other, upd_same in E by auto. exfalso. apply (Hnone a); [lia|congruence].
      * rewrite !upd_other in E by auto. apply J1; auto; lia.
    + intros a Ha. destruct (Nat.eq_dec a (nsent s)) as [->|Hna].
      * rewrite upd_same. eauto.
      * rewrite upd_other by auto. apply Jr. lia.
    + exact Jwi.
    + exact Jg.
  - (* PeerBad *)
    constructor; prj; auto.
    + intros f Hf. apply in_app_iff in Hf. destruct Hf as [Hf|[E|[]]]; [auto|discriminate].
    + intros i Hlt. destruct (Jw i Hlt) as [A|[[Hw (f & Hf & Ef)]|C]]; [auto| |auto].
      right; left. split; [auto|]. exists f. split; [apply in_app_iff; now left|auto].
  - (* ReaderStep *)
    rewrite Jo. destruct (inq s) as [|[f|] q] eqn:Eq; [constructor; auto; rewrite Eq; auto| |exfalso; now apply (Hok q)].
    destruct (Ji f (or_introl eq_refl)) as [i Hin]. rewrite (lookup_some _ _ _ Hk Hin).
    destruct (Ht _ _ Hin) as (Hlt & Hh & Hw).
    assert (Egone : gone s i = false) by (destruct (gone s i) eqn:G; [destruct (Jg i G) as [_ C]; congruence|reflexivity]).
    rewrite Egone. cbn [fids] in Hnd. inversion Hnd as [|? ? Hnf Hndq]; subst.
    assert (Hhop : forall g, In (IFrame g) q -> hop g <> hop f).
    { intros g Hgq E. destruct (Hiq f (or_introl eq_refl)) as [Af Bf]. destruct (Hiq g (or_intror Hgq)) as [Ag Bg].
      assert (fid g = fid f) by (apply J1; auto; congruence). apply Hnf. apply in_fids. exists g. auto. }
    constructor; prj.
    + reflexivity.
    + intros g Hgq. destruct (Ji g (or_intror Hgq)) as [j Hj]. exists j. apply in_remove. split; [auto|]. now apply Hhop.
    + intros j Hj. destruct (Nat.eq_dec j i) as [->|Hne].
      * right; right. exists f. apply upd_same.
      * rewrite upd_other by auto. destruct (Jw j Hj) as [[Hwj Hn]|[[Hwj (g & Hg' & Eg)]|[g Hwj]]]; [left; auto| |right; right; eauto].
        right; left. split; [auto|]. exists g. split; [|auto]. destruct Hg' as [E|Hg']; [|auto].
        inversion E; subst g. exfalso. apply Hne. apply Jd; auto. congruence.
    + exact Jd.
    + exact J1.
    + exact Jr.
    + exact Jwi.
    + intros j Hgj. destruct (Jg j Hgj) as [Hlj Hwj]. split; [exact Hlj|].
      rewrite upd_other; [exact Hwj|]. intros ->. congruence.
  - (* Abandon ab: the future had completed; only the ghost flag changes *)
    constructor; prj; auto. intros j Hgj. destruct (Nat.eq_dec j ab) as [->|Hne]; [exact Hok|].
    rewrite upd_other in Hgj by auto. auto.
Qed.

(* under the strict guards the queue never contains a cut *)
Lemma nobad_step s e : ~ In IBad (inq s) -> ok_ev s e -> ~ In IBad (inq (step s e)).
Proof.
  intros Hn Hok. destruct e as [h|h|h| | |ab]; cbn [step ok_ev] in *; prj; auto.
  - destruct (closed s); prj; auto.
  - rewrite in_app_iff. cbn [In]. intros [A|[A|[]]]; [auto|discriminate].
  - destruct (closed s); [auto|]. destruct (inq s) as [|[f|] q] eqn:Eq; [rewrite Eq; auto| |].
    + destruct (lookup (table s) (hop f)) as [i|]; [destruct (gone s i)|]; prj; intros A; apply Hn; now right.
    + exfalso. apply Hn. now left.
Qed.

Lemma ok_ev_ok_ev' s e : ~ In IBad (inq s) -> ok_ev s e -> ok_ev' s e.
Proof. intros Hn Hok. destruct e; cbn [ok_ev' ok_ev] in *; auto. intros q E. apply Hn. rewrite E. now left. Qed.

Lemma run_inv_jnv es : forall s, Inv s -> Jnv s -> ~ In IBad (inq s) -> all_ok es s ->
  Inv (fold_left step es s) /\ Jnv (fold_left step es s) /\ ~ In IBad (inq (fold_left step es s)).
Proof.
  induction es as [|e es IH]; cbn [fold_left all_ok]; [auto|]. intros s HI HJ Hn [Hok Hrest].
  apply IH; [now apply inv_step | apply jnv_step; auto using ok_ev_ok_ev' | now apply nobad_step | exact Hrest].
Qed.

Lemma all_ok_jnv es : all_ok es init -> Inv (run es) /\ Jnv (run es) /\ ~ In IBad (inq (run es)).
Proof. intros Hok. apply (run_inv_jnv es init inv_init jnv_init); [cbn; tauto|exact Hok]. Qed.

(* C11 matching: distinct ids, register-then-write, a causal peer that answers every request once,
   connection not cut, every queued answer consumed  ==>  every future resolved with the answer
   carrying its own id, whatever the order of answers and however sender, peer and reader interleave. *)
Theorem C11_matching_lemma es :
  all_ok es init ->
  (forall f, ~ In (IFrame f) (inq (run es))) ->
  (forall i, i < nw (run es) -> exists a, a < nsent (run es) /\ senth (run es) a = whop (run es) i) ->
  forall i, i < nw (run es) -> exists f, ws (run es) i = WGot f /\ hop f = whop (run es) i /\ closed (run es) = false.
Proof.
  intros Hok Hq Hans i Hi. destruct (all_ok_jnv es Hok) as (HI & HJ & _).
  destruct HJ as [Jo Ji Jw Jd J1 Jr Jwi]. destruct (Jw i Hi) as [[_ Hn]|[[_ (f & Hf & _)]|[f Hw]]].
  - destruct (Hans i Hi) as (a & Ha & E). exfalso. now apply (Hn a Ha).
  - exfalso. now apply (Hq f).
  - exists f. split; [auto|]. split; [|auto]. destruct HI as [_ _ _ _ Hg _ _]. now destruct (Hg i f Hi Hw).
Qed.

(* under these guards the reader never stops (no unmatched answer can arise) *)
Lemma all_ok_reader_alive es : all_ok es init -> closed (run es) = false.
Proof. intros Hok. destruct (all_ok_jnv es Hok) as (_ & [Jo _ _ _ _ _ _] & _). exact Jo. Qed.

(* ---------- C12 completion: after a cut, a drained queue means the reader has stopped ---------- *)
Definition cut_seen (s : st) : Prop := In IBad (inq s) \/ closed s = true.

Lemma cut_seen_step s e : cut_seen s -> cut_seen (step s e).
Proof.
  intros [Hb|Hc]; [|right; now apply closed_step].
  destruct e as [h|h|h| | |ab]; cbn [step]; unfold cut_seen.
  - destruct (closed s); prj; auto.
  - prj; auto.
  - prj. left. apply in_app_iff. auto.
  - prj. left. apply in_app_iff. auto.
  - destruct (closed s) eqn:Hc; [auto|]. destruct (inq s) as [|[f|] q] eqn:Eq; [rewrite Eq; auto| |prj; auto].
    destruct Hb as [Hb|Hb]; [discriminate|]. destruct (lookup (table s) (hop f)) as [i|]; [destruct (gone s i)|]; prj; auto.
  - prj; auto.
Qed.
Lemma cut_seen_fold es : forall s, cut_seen s -> cut_seen (fold_left step es s).
Proof. induction es as [|e es IH]; cbn [fold_left]; auto using cut_seen_step. Qed.
Lemma cut_seen_after_bad s : cut_seen (step s PeerBad).
Proof. left. cbn [step]. prj. apply in_app_iff. right. now left. Qed.

Lemma cut_seen_run es : In PeerBad es -> cut_seen (run es).
Proof.
  intros Hin. apply in_split in Hin. destruct Hin as (l1 & l2 & ->). rewrite run_app. cbn [fold_left].
  apply cut_seen_fold, cut_seen_after_bad.
Qed.

Theorem C12_completion_lemma es : In PeerBad es -> inq (run es) = [] ->
  forall i, i < nw (run es) -> ws (run es) i <> WPending.
Proof.
  intros Hin Hq i. destruct (cut_seen_run es Hin) as [Hb|Hc]; [rewrite Hq in Hb; destruct Hb|].
  now apply C12_reader_stop_releases_all_lemma.
Qed.

(* ---------- C11: writing before registering breaks the matching ---------- *)
(* the request is on the wire before it is in the table; the (causal) peer answers at once and the
   reader wins the race: "No request found", the reader stops, and the late send gets a failed future *)
Definition wf_schedule : list ev := [WireOut 1%N; Peer 1%N; ReaderStep; Register 1%N].

Lemma C11_write_first_refuted_lemma :
  exists es h i,
    all_ok_wf es init /\ ~ all_ok es init /\
    i < nw (run es) /\ whop (run es) i = h /\
    (exists a, a < nsent (run es) /\ senth (run es) a = h) /\
    ws (run es) i = WDropped /\ closed (run es) = true /\
    (forall es', ws (run (es ++ es')) i = WDropped).
Proof.
  exists wf_schedule, 1%N, 0. split; [apply all_okb_wf_sound; vm_compute; reflexivity|].
  split; [intros [(i & Hi & _) _]; cbn in Hi; lia|].
  split; [vm_compute; lia|]. split; [reflexivity|]. split; [exists 0; split; [vm_compute; lia|reflexivity]|].
  split; [reflexivity|]. split; [reflexivity|].
  intros es'. rewrite resolved_is_final; [reflexivity|vm_compute; lia|vm_compute; discriminate].
Qed.

(* collateral damage: the unmatched answer also kills a correctly registered request in flight *)
Lemma C11_write_first_collateral :
  let es := [Register 2%N; WireOut 2%N; WireOut 1%N; Peer 1%N; ReaderStep; Register 1%N; Peer 2%N; ReaderStep] in
  all_ok_wf es init /\ closed (run es) = true /\ outcomes (run es) = [WDropped; WDropped].
Proof. cbn zeta. split; [apply all_okb_wf_sound; vm_compute; reflexivity|]. vm_compute. auto. Qed.

(* ---------- non-vacuity ---------- *)
(* three requests; answer 1 arrives (and is consumed) right after the first octet of request 1 is out,
   before anything else happens; answers 3 and 2 come back reordered *)
Definition sched3 : list ev :=
  [Register 1%N; WireOut 1%N; Peer 1%N; ReaderStep; Register 2%N; WireOut 2%N; Register 3%N; WireOut 3%N;
   Peer 3%N; Peer 2%N; ReaderStep; ReaderStep].

Lemma C11_matching_nonvacuous :
  all_ok sched3 init /\
  (forall f, ~ In (IFrame f) (inq (run sched3))) /\
  (forall i, i < nw (run sched3) -> exists a, a < nsent (run sched3) /\ senth (run sched3) a = whop (run sched3) i) /\
  outcomes (run sched3) =
    [WGot {| hop := 1%N; fid := 0 |}; WGot {| hop := 2%N; fid := 2 |}; WGot {| hop := 3%N; fid := 1 |}].
Proof.
  split; [apply all_okb_sound; vm_compute; reflexivity|].
  split; [intros f H; vm_compute in H; exact H|].
  split; [|vm_compute; reflexivity].
  intros i Hi. change (i < 3) in Hi. destruct i as [|[|[|i]]]; [exists 0|exists 2|exists 1|lia];
    (split; [vm_compute; lia|reflexivity]).
Qed.

(* the answer overtakes the send: it is queued before the request is even fully written / before
   send_message has returned, and is consumed while the next send is in progress *)
Lemma C11_matching_nonvacuous_early_answer :
  let es := [Register 1%N; WireOut 1%N; Peer 1%N; Register 2%N; ReaderStep; WireOut 2%N; Peer 2%N; ReaderStep] in
  all_ok es init /\
  outcomes (run es) = [WGot {| hop := 1%N; fid := 0 |}; WGot {| hop := 2%N; fid := 1 |}].
Proof. cbn zeta. split; [apply all_okb_sound; vm_compute; reflexivity|vm_compute; reflexivity]. Qed.

(* a cut: request 2 was answered before the cut, request 1 never *)
Definition sched_cut : list ev :=
  [Register 1%N; WireOut 1%N; Register 2%N; WireOut 2%N; Peer 2%N; PeerBad; ReaderStep; ReaderStep].

Lemma C12_completion_nonvacuous :
  In PeerBad sched_cut /\ inq (run sched_cut) = [] /\ nw (run sched_cut) = 2 /\
  outcomes (run sched_cut) = [WDropped; WGot {| hop := 2%N; fid := 0 |}].
Proof. split; [cbn; tauto|]. vm_compute. auto. Qed.

Lemma C11_safety_nonvacuous :
  1 < nw (run sched_cut) /\ ws (run sched_cut) 1 = WGot {| hop := 2%N; fid := 0 |}.
Proof. vm_compute. split; [lia|reflexivity]. Qed.

Lemma C12_reader_stop_nonvacuous : closed (run sched_cut) = true /\ 0 < nw (run sched_cut).
Proof. vm_compute. split; [reflexivity|lia]. Qed.

(* superseded waiter: same id registered twice *)
Lemma C12_superseded_nonvacuous :
  let s := run [Register 5%N] in
  closed s = false /\ In (5%N, 0) (table s) /\ outcomes (step s (Register 5%N)) = [WDropped; WPending].
Proof. vm_compute. auto. Qed.

(* ---------- C12: "with the answer if the peer sends one, otherwise with an error" ---------- *)
(* the final verdict for every waiter: its own answer, or an error and no answer to it was ever emitted *)
Definition settled (s : st) : Prop :=
  forall i, i < nw s ->
    (exists f, ws s i = WGot f /\ hop f = whop s i /\ fid f < nsent s /\ senth s (fid f) = hop f)
    \/ (ws s i = WDropped /\ forall a, a < nsent s -> senth s a <> whop s i).

Definition draining (s : st) : Prop :=
  Inv s /\ ((Jnv s /\ exists q, inq s = map IFrame q ++ [IBad]) \/ (closed s = true /\ inq s = [] /\ settled s)).

Lemma nobad_frames (l : list item) : ~ In IBad l -> exists q, l = map IFrame q.
Proof.
  induction l as [|[f|] l IH]; intros Hn.
  - exists []. reflexivity.
  - destruct IH as [q ->]; [intros H; apply Hn; now right|]. exists (f :: q). reflexivity.
  - exfalso. apply Hn. now left.
Qed.

Lemma drop_all_in t w h i : In (h, i) t -> drop_all t w i = WDropped.
Proof.
  intros Hin. rewrite drop_all_spec.
  assert (E : existsb (fun p => Nat.eqb (snd p) i) t = true)
    by (apply existsb_exists; exists (h, i); cbn [snd]; split; auto; apply Nat.eqb_refl).
  now rewrite E.
Qed.

Lemma draining_step s : draining s -> draining (step s ReaderStep).
Proof.
  intros [HI [[HJ [q Eq]]|(Hc & Hq & Hs)]].
  2:{ split; [now apply inv_step|]. right. cbn [step]. rewrite Hc. auto. }
  split; [now apply inv_step|]. destruct q as [|f q]; cbn [map app] in Eq.
  - (* the reader consumes the cut: stop *)
    right. pose proof HI as [Hk Ht Hp Hcl Hg Ho Hi]. destruct HJ as [Jo Ji Jw Jd J1 Jr Jwi Jg].
    cbn [step]. rewrite Jo, Eq. prj. split; [reflexivity|]. split; [reflexivity|].
    intros i Hlt. prj. destruct (Jw i Hlt) as [[Hw Hn]|[[Hw (f & Hf & _)]|[f Hw]]].
    + right. split; [|exact Hn]. apply drop_all_in with (whop s i). now apply Hp.
    + rewrite Eq in Hf. destruct Hf as [Hf|[]]. discriminate.
    + left. exists f. destruct (Hg i f Hlt Hw) as (A & B & C & _).
      rewrite drop_all_notin; [auto|]. intros h Hin. apply Ht in Hin. destruct Hin as (_ & _ & Hp'). congruence.
  - (* the reader consumes an answer *)
    left. split.
    + apply jnv_step; auto. cbn [ok_ev']. intros q' E. rewrite Eq in E. discriminate.
    + exists q. pose proof HI as [Hk Ht Hp Hcl Hg Ho Hi]. destruct HJ as [Jo Ji Jw Jd J1 Jr Jwi Jg].
      destruct (Ji f) as [i Hin]; [rewrite Eq; now left|].
      assert (Egone : gone s i = false).
      { destruct (gone s i) eqn:G; [|reflexivity]. destruct (Jg i G) as [_ C]. destruct (Ht _ _ Hin) as (_ & _ & Hw). congruence. }
      cbn [step]. rewrite Jo, Eq, (lookup_some _ _ _ Hk Hin), Egone. reflexivity.
Qed.

Lemma draining_fold n : forall s, draining s -> draining (fold_left step (repeat ReaderStep n) s).
Proof. induction n as [|n IH]; cbn [repeat fold_left]; auto using draining_step. Qed.

Lemma draining_after_cut es : all_ok es init -> draining (step (run es) PeerBad).
Proof.
  intros Hok. destruct (all_ok_jnv es Hok) as (HI & HJ & Hn). split; [now apply inv_step|]. left. split.
  - apply jnv_step; auto. exact I.
  - destruct (nobad_frames _ Hn) as [q Eq]. exists q. cbn [step]. prj. now rewrite Eq.
Qed.

(* Distinct ids, register-before-write, causal peer, up to the moment the peer cuts the connection;
   then the reader runs until its input is drained.  Every future has completed: with the answer
   carrying its own id if the peer emitted one before the cut, with an error otherwise - and only
   otherwise. *)
Theorem C12_cut_outcomes_lemma es n :
  all_ok es init ->
  let s := run (es ++ PeerBad :: repeat ReaderStep n) in
  inq s = [] ->
  closed s = true /\
  forall i, i < nw s ->
    (exists f, ws s i = WGot f /\ hop f = whop s i /\ fid f < nsent s /\ senth s (fid f) = hop f)
    \/ (ws s i = WDropped /\ forall a, a < nsent s -> senth s a <> whop s i).
Proof.
  intros Hok s Hq. unfold s in *. clear s. rewrite run_app in *. cbn [fold_left] in *.
  destruct (draining_fold n _ (draining_after_cut es Hok)) as [_ [[_ [q Eq]]|(Hc & _ & Hs)]].
  - rewrite Eq in Hq. destruct q; discriminate.
  - split; [exact Hc|exact Hs].
Qed.

(* the reader does drain its input if it is given enough steps *)
Lemma draining_terminates s : draining s -> inq (fold_left step (repeat ReaderStep (length (inq s))) s) = [].
Proof.
  remember (length (inq s)) as n eqn:En. revert s En. induction n as [|n IH]; intros s En Hd.
  - cbn [repeat fold_left]. destruct (inq s); [reflexivity|discriminate].
  - cbn [repeat fold_left]. pose proof (draining_step s Hd) as Hd'.
    destruct Hd as [HI [[HJ [q Eq]]|(Hc & Hq & _)]]; [|rewrite Hq in En; discriminate].
    destruct q as [|f q]; cbn [map app] in Eq.
    + destruct Hd' as [_ [[_ [q' Eq']]|(Hc' & Hq' & _)]].
      * exfalso. destruct HJ as [Jo _ _ _ _ _ _ _]. cbn [step] in Eq'. rewrite Jo, Eq in Eq'. prj. cbn [inq] in Eq'.
        destruct q'; discriminate.
      * assert (E : forall k s0, closed s0 = true -> fold_left step (repeat ReaderStep k) s0 = s0).
        { induction k as [|k IHk]; intros s0 H0; cbn [repeat fold_left]; [reflexivity|].
          assert (step s0 ReaderStep = s0) as -> by (cbn [step]; now rewrite H0). now apply IHk. }
        rewrite E; auto.
    + apply IH; [|exact Hd']. pose proof HI as [Hk Ht _ _ _ _ _]. destruct HJ as [Jo Ji _ _ _ _ _ Jg].
      destruct (Ji f) as [i Hin]; [rewrite Eq; now left|].
      assert (Egone : gone s i = false).
      { destruct (gone s i) eqn:G; [|reflexivity]. destruct (Jg i G) as [_ C]. destruct (Ht _ _ Hin) as (_ & _ & Hw). congruence. }
      cbn [step]. rewrite Jo, Eq, (lookup_some _ _ _ Hk Hin), Egone. prj. rewrite Eq in En. cbn [length] in En. lia.
Qed.

Lemma C12_cut_outcomes_drains es : all_ok es init ->
  exists n, inq (run (es ++ PeerBad :: repeat ReaderStep n)) = [].
Proof.
  intros Hok. exists (length (inq (step (run es) PeerBad))). rewrite run_app. cbn [fold_left].
  apply draining_terminates, draining_after_cut, Hok.
Qed.

Lemma C12_cut_outcomes_nonvacuous :
  let es := [Register 1%N; WireOut 1%N; Register 2%N; WireOut 2%N; Register 3%N; WireOut 3%N; Peer 3%N; ReaderStep; Peer 2%N] in
  all_ok es init /\ inq (run (es ++ PeerBad :: repeat ReaderStep 2)) = [] /\
  outcomes (run (es ++ PeerBad :: repeat ReaderStep 2)) =
    [WDropped; WGot {| hop := 2%N; fid := 1 |}; WGot {| hop := 3%N; fid := 0 |}].
Proof. cbn zeta. split; [apply all_okb_sound; vm_compute; reflexivity|]. vm_compute. auto. Qed.

(* ------------------------------------------------------------------ *)
(* Dropped receivers (event Abandon): the caller dropped a ResponseFuture that was still pending, or
   send_message failed in its write after registering the waiter.  The Sender stays in the table; when an
   answer with that id arrives, process_decoded_msg removes the entry, sender.send fails, and the error
   ends the reader loop - which then releases every other waiter. *)
Lemma abandoned_answer_stops_reader s f q i : closed s = false -> inq s = IFrame f :: q ->
  lookup (table s) (hop f) = Some i -> gone s i = true -> closed (step s ReaderStep) = true.
Proof. intros Hc Hq Hl Hg. cbn [step]. rewrite Hc, Hq, Hl, Hg. reflexivity. Qed.

Lemma abandoned_answer_releases_all es f q i j : closed (run es) = false -> inq (run es) = IFrame f :: q ->
  lookup (table (run es)) (hop f) = Some i -> gone (run es) i = true ->
  j < nw (run (es ++ [ReaderStep])) -> ws (run (es ++ [ReaderStep])) j <> WPending.
Proof.
  intros Hc Hq Hl Hg. apply C12_reader_stop_releases_all_lemma. rewrite run_snoc.
  now apply abandoned_answer_stops_reader with f q i.
Qed.

(* a receiver dropped after its future completed changes nothing: the flag is only consulted for
   waiters that are still in the table *)
Lemma abandon_only_flag s i : let s' := step s (Abandon i) in
  table s' = table s /\ closed s' = closed s /\ nw s' = nw s /\ ws s' = ws s /\ inq s' = inq s.
Proof. cbn [step]. prj. auto. Qed.

(* witness: two requests in flight with distinct ids, the future of the first is dropped while pending,
   the peer answers both: the second future fails although its answer was sent (collateral of the first) *)
Lemma abandoned_collateral_witness :
  let es := [Register 1%N; WireOut 1%N; Register 2%N; WireOut 2%N; Abandon 0; Peer 1%N; ReaderStep; Peer 2%N; ReaderStep] in
  closed (run es) = true /\ outcomes (run es) = [WDropped; WDropped] /\
  (exists a, a < nsent (run es) /\ senth (run es) a = whop (run es) 1).
Proof. vm_compute. repeat split. exists 1. split; [lia|reflexivity]. Qed.

(* the same schedule without the drop: both futures get their answers *)
Lemma abandoned_collateral_control :
  let es := [Register 1%N; WireOut 1%N; Register 2%N; WireOut 2%N; Peer 1%N; ReaderStep; Peer 2%N; ReaderStep] in
  closed (run es) = false /\ outcomes (run es) = [WGot {| hop := 1%N; fid := 0 |}; WGot {| hop := 2%N; fid := 1 |}].
Proof. vm_compute. auto. Qed.

(* non-vacuity of the relaxed guard: futures dropped after completion, matching still holds *)
Lemma abandon_after_completion_example :
  let es := [Register 1%N; WireOut 1%N; Peer 1%N; ReaderStep; Abandon 0; Register 2%N; WireOut 2%N; Peer 2%N; ReaderStep] in
  all_ok es init /\ closed (run es) = false /\
  outcomes (run es) = [WGot {| hop := 1%N; fid := 0 |}; WGot {| hop := 2%N; fid := 1 |}].
Proof. split; [apply all_okb_sound; vm_compute; reflexivity|vm_compute; auto]. Qed.
