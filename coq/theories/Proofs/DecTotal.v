(* Decoder: header lemmas, no arithmetic trap, fuel linear in the input always suffices,
   the result does not depend on the fuel, recursion depth bounded by the budget. *)
Require Import DV.Base.Bytes DV.Base.Utf8 DV.Model.Leaf DV.Spec.Wire DV.Model.Avp DV.Model.Message
  DV.Proofs.LeafFacts DV.Proofs.AvpFacts.
Local Open Scope N_scope.

(* ---------- header ---------- *)
Lemma dec_header_sound r c m p len vd r2 :
  dec_header r = Some (c, m, p, len, vd, r2) ->
  exists fl, r = be32 c ++ [fl] ++ be24 len ++ optbe32 vd ++ r2
             /\ flags_ok fl (is_some vd) m p /\ c < 4294967296 /\ len < 16777216 /\ vd_ok vd.
Proof.
  unfold dec_header.
  destruct r as [|b0 [|b1 [|b2 [|b3 [|fl [|l0 [|l1 [|l2 r1]]]]]]]]; try discriminate.
  cbv zeta. destruct (128 <=? Byte.to_N fl) eqn:Ev.
  - destruct r1 as [|v0 [|v1 [|v2 [|v3 r2']]]]; try discriminate.
    intros H. inversion H; subst. exists fl. cbn [optbe32 is_some vd_ok]. rewrite !be32_un, be24_un.
    repeat split; auto using un_be4_lt, un_be3_lt.
  - intros H. inversion H; subst. exists fl. cbn [optbe32 is_some vd_ok]. rewrite be32_un, be24_un.
    repeat split; auto using un_be4_lt, un_be3_lt.
Qed.

Lemma dec_header_complete c fl len vd m p r2 :
  flags_ok fl (is_some vd) m p -> c < 4294967296 -> len < 16777216 -> vd_ok vd ->
  dec_header (be32 c ++ [fl] ++ be24 len ++ optbe32 vd ++ r2) = Some (c, m, p, len, vd, r2).
Proof.
  intros (Fv & Fm & Fp) Hc Hl Hvd.
  unfold be32 at 1. unfold be24. cbn [app]. unfold dec_header.
  change [b_of_N (c / 256 / 256 / 256); b_of_N (c / 256 / 256); b_of_N (c / 256); b_of_N c] with (be32 c).
  change [b_of_N (len / 256 / 256); b_of_N (len / 256); b_of_N len] with (be24 len).
  rewrite un_be32 by exact Hc. rewrite un_be24 by exact Hl. cbv zeta. rewrite Fv, Fm, Fp.
  destruct vd as [x|]; cbn [is_some optbe32].
  - unfold be32. cbn [app].
    change [b_of_N (x / 256 / 256 / 256); b_of_N (x / 256 / 256); b_of_N (x / 256); b_of_N x] with (be32 x).
    rewrite un_be32 by exact Hvd. reflexivity.
  - reflexivity.
Qed.

Lemma dec_header_len r c m p len vd r2 :
  dec_header r = Some (c, m, p, len, vd, r2) -> blen r = hdr vd + blen r2.
Proof.
  intros H. apply dec_header_sound in H. destruct H as (fl & -> & _).
  rewrite !blen_app, blen_be32, blen_be24. change (blen [fl]) with 1. pose proof (blen_optbe32 vd). lia.
Qed.

(* ---------- shape of a successful AVP decode ---------- *)
Lemma dec_avp_ok_inv f lim d r a r' :
  dec_avp (S f) lim d r = Ok (a, r') ->
  exists c m p len vd r2 v r3,
    dec_header r = Some (c, m, p, len, vd, r2) /\ hdr vd <= len /\
    a = MkAvp c vd m p len (pad4 (len - hdr vd)) v /\
    r' = skipn (N.to_nat (pad4 (len - hdr vd))) r3 /\
    ((exists l, v = VLeaf l /\ d c vd = Some (leaf_ty l) /\ dec_leaf (leaf_ty l) (len - hdr vd) r2 = Some (l, r3))
     \/ (exists ms lim', v = VGrp ms /\ d c vd = Some TGrouped /\ lim = S lim'
                         /\ dec_members f lim' d (len - hdr vd) 0 r2 = Ok (ms, r3))).
Proof.
  cbn [dec_avp]. destruct (dec_header r) as [[[[[[c m] p] len] vd] r2]|] eqn:Eh; [|discriminate].
  destruct (N.ltb_spec len (hdr vd)); [discriminate|].
  destruct (d c vd) as [t|] eqn:Ed; [|discriminate].
  assert (Leaf : forall t0, t = t0 ->
     match dec_leaf t0 (len - hdr vd) r2 with
     | Some (l, r3) => Ok (MkAvp c vd m p len (pad4 (len - hdr vd)) (VLeaf l), skipn (N.to_nat (pad4 (len - hdr vd))) r3)
     | None => Err end = Ok (a, r') ->
     exists c0 m0 p0 len0 vd0 r20 v r3,
       Some (c, m, p, len, vd, r2) = Some (c0, m0, p0, len0, vd0, r20) /\ hdr vd0 <= len0 /\
       a = MkAvp c0 vd0 m0 p0 len0 (pad4 (len0 - hdr vd0)) v /\
       r' = skipn (N.to_nat (pad4 (len0 - hdr vd0))) r3 /\
       ((exists l, v = VLeaf l /\ d c0 vd0 = Some (leaf_ty l) /\ dec_leaf (leaf_ty l) (len0 - hdr vd0) r20 = Some (l, r3))
        \/ (exists ms lim', v = VGrp ms /\ d c0 vd0 = Some TGrouped /\ lim = S lim'
                            /\ dec_members f lim' d (len0 - hdr vd0) 0 r20 = Ok (ms, r3)))).
  { intros t0 Et. destruct (dec_leaf t0 (len - hdr vd) r2) as [[l r3]|] eqn:El; [|discriminate].
    intros H'. inversion H'; subst a r'.
    pose proof (dec_leaf_sound _ _ _ _ _ El) as (_ & Hty & _).
    exists c, m, p, len, vd, r2, (VLeaf l), r3. repeat split; auto.
    left. exists l. rewrite Hty. subst t0. repeat split; auto. }
  destruct t; try (apply Leaf; reflexivity); try discriminate.
  (* Grouped *)
  destruct lim as [|lim']; [discriminate|].
  destruct (dec_members f lim' d (len - hdr vd) 0 r2) as [[ms r3]| | |] eqn:Em; try discriminate.
  intros H'. inversion H'; subst a r'.
  exists c, m, p, len, vd, r2, (VGrp ms), r3. repeat split; auto.
  right. exists ms, lim'. auto.
Qed.

Lemma dec_avp_len_bounds f lim d r a r' :
  dec_avp f lim d r = Ok (a, r') -> a_len a < 16777216 /\ a_pad a < 4 /\ 8 <= a_len a.
Proof.
  destruct f as [|f]; [discriminate|]. intros H. apply dec_avp_ok_inv in H.
  destruct H as (c & m & p & len & vd & r2 & v & r3 & Eh & Hge & -> & _).
  apply dec_header_sound in Eh. destruct Eh as (fl & _ & _ & _ & Hl & _).
  cbn [a_len a_pad]. pose proof (pad4_lt (len - hdr vd)). destruct vd; cbn [hdr] in *; lia.
Qed.

(* ---------- no arithmetic trap ---------- *)
Lemma no_panic d : forall f,
  (forall lim r, dec_avp f lim d r <> Panic) /\
  (forall lim len off r, len < 33554432 -> dec_members f lim d len off r <> Panic).
Proof.
  induction f as [|f [IHa IHm]]; [split; intros; discriminate|]. split.
  - intros lim r. cbn [dec_avp].
    destruct (dec_header r) as [[[[[[c m] p] len] vd] r2]|] eqn:Eh; [|discriminate].
    destruct (N.ltb_spec len (hdr vd)); [discriminate|].
    apply dec_header_sound in Eh. destruct Eh as (fl & _ & _ & _ & Hl & _).
    destruct (d c vd) as [t|]; [|discriminate].
    destruct t; try discriminate;
      try (match goal with |- context [dec_leaf ?t ?vl ?r2] => destruct (dec_leaf t vl r2) as [[? ?]|]; discriminate end).
    destruct lim as [|lim']; [discriminate|].
    specialize (IHm lim' (len - hdr vd) 0 r2).
    destruct (dec_members f lim' d (len - hdr vd) 0 r2) as [[ms r3]| | |]; try discriminate.
    exfalso. apply IHm; [lia | reflexivity].
  - intros lim len off r Hlen. cbn [dec_members].
    destruct (N.ltb_spec off len).
    + specialize (IHa lim r). destruct (dec_avp f lim d r) as [[a r']| | |] eqn:Ea; try discriminate; [|congruence].
      apply dec_avp_len_bounds in Ea. destruct Ea as (Hl & Hp & _).
      destruct (N.leb_spec 4294967296 (off + a_len a + a_pad a)); [lia|].
      specialize (IHm lim len (off + a_len a + a_pad a) r' Hlen).
      destruct (dec_members f lim d len (off + a_len a + a_pad a) r') as [[l r'']| | |]; try discriminate. congruence.
    + destruct (off =? len); discriminate.
Qed.

(* ---------- fuel linear in the remaining input always suffices ---------- *)
Lemma skipn_blen_le (n : nat) (r : list byte) : blen (skipn n r) <= blen r.
Proof. unfold blen. pose proof (skipn_length n r). lia. Qed.

Lemma enough_fuel d : forall f,
  (forall lim r, (length r + 1 <= f)%nat ->
     dec_avp f lim d r <> OutOfFuel /\ (forall a r', dec_avp f lim d r = Ok (a, r') -> blen r' + 8 <= blen r)) /\
  (forall lim len off r, (length r + 2 <= f)%nat ->
     dec_members f lim d len off r <> OutOfFuel /\ (forall l r', dec_members f lim d len off r = Ok (l, r') -> blen r' <= blen r)).
Proof.
  induction f as [|f [IHa IHm]]; [split; intros; lia|]. split.
  - intros lim r Hf. cbn [dec_avp].
    destruct (dec_header r) as [[[[[[c m] p] len] vd] r2]|] eqn:Eh; [|split; [discriminate | intros; discriminate]].
    pose proof (dec_header_len _ _ _ _ _ _ _ Eh) as Hr.
    assert (Hr2 : (length r2 + 8 <= length r)%nat) by (unfold blen in Hr; destruct vd; cbn [hdr] in Hr; lia).
    destruct (N.ltb_spec len (hdr vd)); [split; [discriminate | intros; discriminate]|].
    destruct (d c vd) as [t|]; [|split; [discriminate | intros; discriminate]].
    assert (Leaf : forall t0,
      match dec_leaf t0 (len - hdr vd) r2 with
      | Some (l, r3) => Ok (MkAvp c vd m p len (pad4 (len - hdr vd)) (VLeaf l), skipn (N.to_nat (pad4 (len - hdr vd))) r3)
      | None => Err end <> OutOfFuel /\
      (forall a r', match dec_leaf t0 (len - hdr vd) r2 with
      | Some (l, r3) => Ok (MkAvp c vd m p len (pad4 (len - hdr vd)) (VLeaf l), skipn (N.to_nat (pad4 (len - hdr vd))) r3)
      | None => Err end = Ok (a, r') -> blen r' + 8 <= blen r)).
    { intros t0. destruct (dec_leaf t0 (len - hdr vd) r2) as [[l r3]|] eqn:El; [|split; [discriminate | intros; discriminate]].
      split; [discriminate|]. intros a r' H'. inversion H'; subst.
      apply dec_leaf_consumes in El. pose proof (skipn_blen_le (N.to_nat (pad4 (len - hdr vd))) r3).
      destruct vd; cbn [hdr] in Hr; lia. }
    destruct t; try apply Leaf; try (split; [discriminate | intros; discriminate]).
    destruct lim as [|lim']; [split; [discriminate | intros; discriminate]|].
    destruct (IHm lim' (len - hdr vd) 0 r2) as [Hnf Hle]; [lia|].
    destruct (dec_members f lim' d (len - hdr vd) 0 r2) as [[ms r3]| | |] eqn:Em;
      try (split; [discriminate | intros; discriminate]); [|congruence].
    split; [discriminate|]. intros a r' H'. inversion H'; subst.
    specialize (Hle _ _ eq_refl). pose proof (skipn_blen_le (N.to_nat (pad4 (len - hdr vd))) r3).
    destruct vd; cbn [hdr] in Hr; lia.
  - intros lim len off r Hf. cbn [dec_members].
    destruct (N.ltb_spec off len).
    + destruct (IHa lim r) as [Hnf Hle]; [lia|].
      destruct (dec_avp f lim d r) as [[a r']| | |] eqn:Ea; try (split; [discriminate | intros; discriminate]); [|congruence].
      specialize (Hle _ _ eq_refl).
      destruct (4294967296 <=? off + a_len a + a_pad a); [split; [discriminate | intros; discriminate]|].
      destruct (IHm lim len (off + a_len a + a_pad a) r') as [Hnf' Hle']; [unfold blen in Hle; lia|].
      destruct (dec_members f lim d len (off + a_len a + a_pad a) r') as [[l r'']| | |] eqn:Em;
        try (split; [discriminate | intros; discriminate]); [|congruence].
      split; [discriminate|]. intros l0 r0 H'. inversion H'; subst. specialize (Hle' _ _ eq_refl). lia.
    + destruct (off =? len); split; try discriminate; intros l r' H'; inversion H'; subst; lia.
Qed.

(* ---------- the result does not depend on the fuel ---------- *)
Lemma fuel_mono d : forall f,
  (forall lim r res, dec_avp f lim d r = res -> res <> OutOfFuel -> dec_avp (S f) lim d r = res) /\
  (forall lim len off r res, dec_members f lim d len off r = res -> res <> OutOfFuel -> dec_members (S f) lim d len off r = res).
Proof.
  induction f as [|f [IHa IHm]]; [split; intros; cbn in *; congruence|]. split.
  - intros lim r res H Hn. remember (S f) as f1. cbn [dec_avp]. subst f1. cbn [dec_avp] in H.
    destruct (dec_header r) as [[[[[[c m] p] len] vd] r2]|]; [|exact H].
    destruct (len <? hdr vd); [exact H|].
    destruct (d c vd) as [t|]; [|exact H].
    destruct t; try exact H. cbn [is_leaf_ty] in H |- *.
    destruct lim as [|lim']; [exact H|].
    destruct (dec_members f lim' d (len - hdr vd) 0 r2) as [[ms r3]| | |] eqn:Em.
    + rewrite (IHm _ _ _ _ _ Em) by discriminate. exact H.
    + rewrite (IHm _ _ _ _ _ Em) by discriminate. exact H.
    + rewrite (IHm _ _ _ _ _ Em) by discriminate. exact H.
    + congruence.
  - intros lim len off r res H Hn. remember (S f) as f1. cbn [dec_members]. subst f1. cbn [dec_members] in H.
    destruct (off <? len); [|exact H].
    destruct (dec_avp f lim d r) as [[a r']| | |] eqn:Ea.
    + rewrite (IHa _ _ _ Ea) by discriminate.
      destruct (4294967296 <=? off + a_len a + a_pad a); [exact H|].
      destruct (dec_members f lim d len (off + a_len a + a_pad a) r') as [[l r'']| | |] eqn:Em.
      * rewrite (IHm _ _ _ _ _ Em) by discriminate. exact H.
      * rewrite (IHm _ _ _ _ _ Em) by discriminate. exact H.
      * rewrite (IHm _ _ _ _ _ Em) by discriminate. exact H.
      * congruence.
    + rewrite (IHa _ _ _ Ea) by discriminate. exact H.
    + rewrite (IHa _ _ _ Ea) by discriminate. exact H.
    + congruence.
Qed.

Lemma fuel_mono_avp d f f' lim r res :
  (f <= f')%nat -> dec_avp f lim d r = res -> res <> OutOfFuel -> dec_avp f' lim d r = res.
Proof.
  intros Hle. induction Hle as [|f' Hle IH]; intros H Hn; [exact H|].
  apply (proj1 (fuel_mono d f')); auto.
Qed.
Lemma fuel_mono_members d f f' lim len off r res :
  (f <= f')%nat -> dec_members f lim d len off r = res -> res <> OutOfFuel -> dec_members f' lim d len off r = res.
Proof.
  intros Hle. induction Hle as [|f' Hle IH]; intros H Hn; [exact H|].
  apply (proj2 (fuel_mono d f')); auto.
Qed.

(* a result obtained with any fuel is the result with the canonical fuel *)
Lemma members_canonical_fuel d f lim len off r l r' :
  dec_members f lim d len off r = Ok (l, r') ->
  dec_members (S (S (length r))) lim d len off r = Ok (l, r').
Proof.
  intros H.
  destruct (proj2 (enough_fuel d (S (S (length r)))) lim len off r) as [Hnf _]; [lia|].
  destruct (Nat.le_ge_cases f (S (S (length r)))) as [Hle|Hge].
  - eapply fuel_mono_members; eauto. discriminate.
  - pose proof (fuel_mono_members d _ _ lim len off r _ Hge eq_refl Hnf) as E. congruence.
Qed.

(* ---------- whole message ---------- *)
Theorem dec_msg_total lim d bs :
  match dec_msg lim d bs with Panic | OutOfFuel => False | _ => True end.
Proof.
  unfold dec_msg.
  destruct bs as [|v [|l0 [|l1 [|l2 [|fl [|c0 [|c1 [|c2 [|a0 [|a1 [|a2 [|a3 [|h0 [|h1 [|h2 [|h3 [|e0 [|e1 [|e2 [|e3 rest]]]]]]]]]]]]]]]]]]]];
    try exact I.
  cbv zeta. destruct (known_cmd _ && known_app _); [|exact I].
  pose proof (un_be3_lt l0 l1 l2) as Hl.
  pose proof (proj2 (no_panic d (S (S (length rest)))) lim (un_be [l0; l1; l2]) 20 rest) as Hp.
  destruct (proj2 (enough_fuel d (S (S (length rest)))) lim (un_be [l0; l1; l2]) 20 rest) as [Hf _]; [lia|].
  destruct (dec_members (S (S (length rest))) lim d (un_be [l0; l1; l2]) 20 rest) as [[avps r]| | |]; try exact I.
  - apply Hp; [lia | reflexivity].
  - apply Hf; reflexivity.
Qed.
