(* Facts about the stream framing model (Model/Stream.v): segmentation- and Pending-
   independence of read_exact / Codec::decode, the announced-length bounds, absence of panics,
   and the write side. *)
Require Import DV.Base.Bytes DV.Spec.Wire DV.Model.Avp DV.Model.Message DV.Model.Stream
  DV.Proofs.DecTotal.
Local Open Scope N_scope.

(* a complete frame whose announced length Codec::decode accepts *)
Definition good_frame (f : list byte) : Prop := complete f /\ 20 <= blen f <= 1048576.

Definition short_res (k : tkind) : rres := match k with TErr => RIoErr | _ => REofErr end.
Definition short_d (k : tkind) : dres := match k with TErr => DErr | _ => DEof end.

(* ---------- read_exact ---------- *)
Lemma read_exact_0 s acc : read_exact s 0 acc = (RGot acc, s).
Proof. destruct s; reflexivity. Qed.

Lemma bytes_of_chunk c s : c <> [] -> bytes_of (RChunk c :: s) = c ++ bytes_of s.
Proof. destruct c; [congruence|reflexivity]. Qed.
Lemma tail_kind_chunk c s : c <> [] -> tail_kind (RChunk c :: s) = tail_kind s.
Proof. destruct c; [congruence|reflexivity]. Qed.

Lemma skipn_nonempty (c : list byte) n : (n < length c)%nat -> skipn n c <> [].
Proof.
  intros H E. apply (f_equal (@length byte)) in E. rewrite skipn_length in E. cbn [length] in E. lia.
Qed.

(* enough octets before the fault: the read succeeds whatever the segmentation and wherever
   the Pending entries are; it consumes exactly n octets.  Holds for ALL scripts. *)
Lemma read_exact_enough s : forall n acc, (n <= length (bytes_of s))%nat ->
  exists s', read_exact s n acc = (RGot (acc ++ firstn n (bytes_of s)), s')
    /\ bytes_of s' = skipn n (bytes_of s) /\ tail_kind s' = tail_kind s.
Proof.
  induction s as [|e s IH]; intros n acc Hn.
  - cbn [bytes_of length] in Hn. assert (n = 0)%nat as -> by lia. exists [].
    cbn [read_exact bytes_of firstn skipn]. rewrite app_nil_r. auto.
  - destruct n as [|n].
    + rewrite read_exact_0. exists (e :: s). cbn [firstn skipn]. rewrite app_nil_r. auto.
    + destruct e as [c| | |].
      * destruct c as [|b c]. { cbn [bytes_of length] in Hn. lia. }
        cbn [read_exact]. set (c' := b :: c) in *.
        assert (Hc : c' <> []) by (unfold c'; congruence).
        rewrite bytes_of_chunk in Hn by exact Hc. rewrite app_length in Hn.
        rewrite bytes_of_chunk, tail_kind_chunk by exact Hc.
        destruct (Nat.leb_spec (length c') (S n)) as [Hle|Hgt].
        -- destruct (IH (S n - length c')%nat (acc ++ c')) as (s' & E & B & T); [lia|].
           exists s'. rewrite E. split; [|split].
           ++ f_equal. f_equal. rewrite firstn_app. rewrite (firstn_all2 c') by lia.
              rewrite app_assoc. reflexivity.
           ++ rewrite B. rewrite skipn_app. rewrite (skipn_all2 c') by lia. reflexivity.
           ++ exact T.
        -- exists (RChunk (skipn (S n) c') :: s).
           assert (Hk : skipn (S n) c' <> []) by (apply skipn_nonempty; lia).
           rewrite bytes_of_chunk, tail_kind_chunk by exact Hk. split; [|split].
           ++ rewrite firstn_app. replace (S n - length c')%nat with 0%nat by lia.
              cbn [firstn]. rewrite app_nil_r. reflexivity.
           ++ rewrite skipn_app. replace (S n - length c')%nat with 0%nat by lia. reflexivity.
           ++ reflexivity.
      * cbn [read_exact bytes_of tail_kind] in *. apply IH. exact Hn.
      * cbn [bytes_of length] in Hn. lia.
      * cbn [bytes_of length] in Hn. lia.
Qed.

(* not enough octets before the fault: the read fails with the fault's error *)
Lemma read_exact_short s : forall n acc, (length (bytes_of s) < n)%nat ->
  exists s', read_exact s n acc = (short_res (tail_kind s), s')
    /\ (tail_kind s <> TZero -> bytes_of s' = [] /\ tail_kind s' = tail_kind s).
Proof.
  induction s as [|e s IH]; intros n acc Hn; (destruct n as [|n]; [lia|]).
  - exists []. cbn [read_exact tail_kind short_res bytes_of]. auto.
  - destruct e as [c| | |].
    + destruct c as [|b c].
      { exists s. cbn [read_exact tail_kind short_res]. split; [reflexivity|]. intros H. congruence. }
      cbn [read_exact]. set (c' := b :: c) in *.
      assert (Hc : c' <> []) by (unfold c'; congruence).
      rewrite bytes_of_chunk in Hn by exact Hc. rewrite app_length in Hn.
      rewrite tail_kind_chunk by exact Hc.
      destruct (Nat.leb_spec (length c') (S n)) as [Hle|Hgt]; [|lia].
      apply IH. lia.
    + cbn [read_exact bytes_of tail_kind] in *. apply IH. exact Hn.
    + exists (REof :: s). cbn [read_exact tail_kind short_res bytes_of]. auto.
    + exists (RErr :: s). cbn [read_exact tail_kind short_res bytes_of]. auto.
Qed.

(* accounting over the whole script (all scripts): a read never consumes more than n octets of
   the script, and exactly n when it succeeds *)
Lemma read_exact_all s : forall n acc r s', read_exact s n acc = (r, s') ->
  (length (all_bytes s') <= length (all_bytes s))%nat
  /\ (length (all_bytes s) <= length (all_bytes s') + n)%nat
  /\ (forall x, r = RGot x -> (length (all_bytes s') + n = length (all_bytes s))%nat).
Proof.
  induction s as [|e s IH]; intros n acc r s' E; (destruct n as [|n];
    [rewrite read_exact_0 in E; inversion E; subst; repeat split; intros; lia|]).
  - cbn [read_exact] in E. inversion E; subst. repeat split; try lia. intros x Hx. discriminate.
  - destruct e as [c| | |].
    + destruct c as [|b c].
      { cbn [read_exact] in E. inversion E; subst. cbn [all_bytes app]. repeat split; try lia.
        intros x Hx. discriminate. }
      cbn [read_exact] in E. set (c' := b :: c) in *. cbn [all_bytes]. rewrite app_length.
      destruct (Nat.leb_spec (length c') (S n)) as [Hle|Hgt].
      * apply IH in E. destruct E as (E1 & E2 & E3). repeat split; try lia.
        intros x Hx. specialize (E3 x Hx). lia.
      * inversion E; subst. cbn [all_bytes]. rewrite app_length, skipn_length.
        unfold c' in *. cbn [length] in *. repeat split; intros; lia.
    + cbn [read_exact] in E. cbn [all_bytes]. apply IH in E. exact E.
    + cbn [read_exact] in E. inversion E; subst. repeat split; try lia. intros x Hx. discriminate.
    + cbn [read_exact] in E. inversion E; subst. repeat split; try lia. intros x Hx. discriminate.
Qed.

Lemma read_exact_got_length s : forall n acc x s', read_exact s n acc = (RGot x, s') ->
  length x = (length acc + n)%nat.
Proof.
  induction s as [|e s IH]; intros n acc x s' E; (destruct n as [|n];
    [rewrite read_exact_0 in E; inversion E; subst; lia|]).
  - cbn [read_exact] in E. discriminate.
  - destruct e as [c| | |].
    + destruct c as [|b c]. { cbn [read_exact] in E. discriminate. }
      cbn [read_exact] in E. set (c' := b :: c) in *.
      destruct (Nat.leb_spec (length c') (S n)) as [Hle|Hgt].
      * apply IH in E. rewrite app_length in E. lia.
      * inversion E; subst. rewrite app_length. cbn [length]. rewrite firstn_length.
        unfold c' in *. cbn [length] in *. lia.
    + cbn [read_exact] in E. apply IH in E. exact E.
    + cbn [read_exact] in E. discriminate.
    + cbn [read_exact] in E. discriminate.
Qed.

(* ---------- Codec::decode ---------- *)
Lemma good_frame_shape f : good_frame f ->
  exists b0 b1 b2 b3 r, f = b0 :: b1 :: b2 :: b3 :: r /\ un_be [b1; b2; b3] = blen f
                        /\ blen r = blen f - 4.
Proof.
  intros [Hc Hl]. destruct f as [|b0 [|b1 [|b2 [|b3 r]]]]; unfold complete in Hc; try contradiction.
  exists b0, b1, b2, b3, r. split; [reflexivity|]. split; [symmetry; exact Hc|].
  rewrite !blen_cons. lia.
Qed.

(* ALL scripts: if the deliverable octets start with a whole good frame, one decode call
   consumes exactly that frame and yields what dec_msg yields on it *)
Lemma codec_decode_frame lim d s f rest : bytes_of s = f ++ rest -> good_frame f ->
  exists s', codec_decode lim d s = (dres_of (dec_msg lim d f), s')
    /\ bytes_of s' = rest /\ tail_kind s' = tail_kind s.
Proof.
  intros Hb Hg. destruct (good_frame_shape f Hg) as (b0 & b1 & b2 & b3 & r & Hf & HL & Hr).
  destruct Hg as [_ Hl]. remember (blen f) as L eqn:EL. subst f.
  destruct (read_exact_enough s 4 []) as (s1 & E1 & B1 & T1).
  { rewrite Hb. cbn [app length]. lia. }
  rewrite Hb in E1, B1. cbn [app firstn skipn] in E1, B1.
  unfold codec_decode. rewrite E1. cbn [skipn]. rewrite HL.
  destruct (N.ltb_spec 1048576 L) as [H1|H1]; [lia|].
  destruct (N.ltb_spec L 20) as [H2|H2]; [lia|].
  assert (Hrn : length r = N.to_nat (L - 4)) by (unfold blen in Hr; lia).
  destruct (read_exact_enough s1 (N.to_nat (L - 4)) []) as (s2 & E2 & B2 & T2).
  { rewrite B1, app_length. lia. }
  rewrite B1 in E2, B2. rewrite E2. exists s2.
  rewrite firstn_app_exact by exact Hrn. cbn [app].
  rewrite skipn_app_exact in B2 by exact Hrn.
  split; [reflexivity|]. split; [exact B2|]. congruence.
Qed.

Lemma codec_decode_bk_frame short lim d f rest : good_frame f ->
  codec_decode_bk short lim d (f ++ rest) = (dres_of (dec_msg lim d f), rest).
Proof.
  intros Hg. destruct (good_frame_shape f Hg) as (b0 & b1 & b2 & b3 & r & Hf & HL & Hr).
  destruct Hg as [_ Hl]. remember (blen f) as L eqn:EL. subst f.
  cbn [app]. unfold codec_decode_bk. rewrite HL.
  destruct (N.ltb_spec 1048576 L) as [H1|H1]; [lia|].
  destruct (N.ltb_spec L 20) as [H2|H2]; [lia|].
  assert (Hrn : length r = N.to_nat (L - 4)) by (unfold blen in Hr; lia).
  rewrite blen_app. destruct (N.ltb_spec (blen r + blen rest) (L - 4)) as [H3|H3]; [lia|].
  rewrite firstn_app_exact, skipn_app_exact by exact Hrn. reflexivity.
Qed.

(* segmentation- and Pending-independence, proved once: on a script that delivers octets and
   then ends (end of file or io error), Codec::decode is a function of the delivered octets *)
Lemma codec_decode_bytes lim d s : tail_kind s <> TZero ->
  exists s', codec_decode lim d s
             = (fst (codec_decode_bk (short_d (tail_kind s)) lim d (bytes_of s)), s')
    /\ bytes_of s' = snd (codec_decode_bk (short_d (tail_kind s)) lim d (bytes_of s))
    /\ tail_kind s' = tail_kind s.
Proof.
  intros HZ. destruct (bytes_of s) as [|b0 [|b1 [|b2 [|b3 r]]]] eqn:Hb.
  1-4: (destruct (read_exact_short s 4 []) as (s' & E & H); [rewrite Hb; cbn [length]; lia|];
        destruct (H HZ) as [B T]; exists s'; unfold codec_decode; rewrite E;
        cbn [codec_decode_bk fst snd]; destruct (tail_kind s); (congruence || auto)).
  destruct (read_exact_enough s 4 []) as (s1 & E1 & B1 & T1).
  { rewrite Hb. cbn [length]. lia. }
  rewrite Hb in E1, B1. cbn [app firstn skipn] in E1, B1.
  unfold codec_decode, codec_decode_bk. rewrite E1. cbn [skipn].
  set (L := un_be [b1; b2; b3]).
  destruct (1048576 <? L); cbn [fst snd]; [exists s1; auto|].
  destruct (L <? 20); cbn [fst snd]; [exists s1; auto|].
  destruct (N.ltb_spec (blen r) (L - 4)) as [H3|H3]; cbn [fst snd].
  - destruct (read_exact_short s1 (N.to_nat (L - 4)) []) as (s2 & E2 & H).
    { rewrite B1. unfold blen in H3. lia. }
    rewrite T1 in E2, H. destruct (H HZ) as [B2 T2]. exists s2. rewrite E2.
    destruct (tail_kind s); (congruence || auto).
  - destruct (read_exact_enough s1 (N.to_nat (L - 4)) []) as (s2 & E2 & B2 & T2).
    { rewrite B1. unfold blen in H3. lia. }
    rewrite B1 in E2, B2. exists s2. rewrite E2. cbn [app]. split; [reflexivity|].
    split; [exact B2|congruence].
Qed.

Lemma fault_free_tail s : fault_free s = true <-> tail_kind s = TEof.
Proof. unfold fault_free. destruct (tail_kind s); split; congruence. Qed.
Lemma err_cut_tail s : err_cut s = true <-> tail_kind s = TErr.
Proof. unfold err_cut. destruct (tail_kind s); split; congruence. Qed.

Lemma C06_read_bytes_lemma lim d s : fault_free s = true ->
  exists s', codec_decode lim d s = (fst (codec_decode_b lim d (bytes_of s)), s')
    /\ bytes_of s' = snd (codec_decode_b lim d (bytes_of s)) /\ fault_free s' = true.
Proof.
  intros H. apply fault_free_tail in H. destruct (codec_decode_bytes lim d s) as (s' & E & B & T).
  { congruence. }
  rewrite H in E, B. exists s'. split; [exact E|]. split; [exact B|].
  apply fault_free_tail. congruence.
Qed.

(* the same when the stream is cut by an io error instead of end of file *)
Lemma C06_read_bytes_err_lemma lim d s : err_cut s = true ->
  exists s', codec_decode lim d s = (fst (codec_decode_bk DErr lim d (bytes_of s)), s')
    /\ bytes_of s' = snd (codec_decode_bk DErr lim d (bytes_of s)) /\ err_cut s' = true.
Proof.
  intros H. apply err_cut_tail in H. destruct (codec_decode_bytes lim d s) as (s' & E & B & T).
  { congruence. }
  rewrite H in E, B. exists s'. split; [exact E|]. split; [exact B|].
  apply err_cut_tail. congruence.
Qed.

(* k pipelined frames, however they are chunked and wherever Pending entries sit *)
Lemma C06_read_lemma lim d : forall frames tail s,
  bytes_of s = concat frames ++ tail -> Forall good_frame frames ->
  exists s', decode_n (length frames) lim d s
             = (map (fun f => dres_of (dec_msg lim d f)) frames, s')
    /\ bytes_of s' = tail /\ tail_kind s' = tail_kind s.
Proof.
  induction frames as [|f fs IH]; intros tail s Hb Hg.
  - exists s. cbn [length decode_n map]. auto.
  - inversion Hg as [|x l Hf Hfs]; subst. cbn [concat] in Hb. rewrite <- app_assoc in Hb.
    destruct (codec_decode_frame lim d s f _ Hb Hf) as (s1 & E1 & B1 & T1).
    destruct (IH tail s1 B1 Hfs) as (s2 & E2 & B2 & T2).
    exists s2. cbn [length decode_n map]. rewrite E1, E2. split; [reflexivity|].
    split; [exact B2|congruence].
Qed.

(* ---------- no panic, announced length ---------- *)
Lemma dres_of_no_panic lim d bs : dres_of (dec_msg lim d bs) <> DPanic.
Proof.
  pose proof (dec_msg_total lim d bs) as H. destruct (dec_msg lim d bs); cbn [dres_of]; try congruence;
    contradiction.
Qed.

Lemma codec_decode_never_panics_lemma lim d s : fst (codec_decode lim d s) <> DPanic.
Proof.
  unfold codec_decode. destruct (read_exact s 4 []) as [[hd| |] s1]; cbn [fst]; try congruence.
  destruct (1048576 <? un_be (skipn 1 hd)); cbn [fst]; try congruence.
  destruct (un_be (skipn 1 hd) <? 20); cbn [fst]; try congruence.
  destruct (read_exact s1 _ []) as [[body| |] s2]; cbn [fst]; try congruence.
  apply dres_of_no_panic.
Qed.

Lemma consumed_app s s' (pre : list byte) :
  bytes_of s = pre ++ bytes_of s' -> consumed s s' = blen pre.
Proof. intros H. unfold consumed. rewrite H, blen_app. lia. Qed.

Lemma C07_lemma lim d s b0 L rest :
  bytes_of s = b0 :: be24 L ++ rest -> L < 16777216 ->
  let (r, s') := codec_decode lim d s in
  r <> DPanic
  /\ (1048576 < L -> r = DErr /\ consumed s s' = 4)
  /\ (L < 20 -> r = DErr /\ consumed s s' = 4)
  /\ consumed s s' <= N.max L 4.
Proof.
  intros Hb HL.
  pose proof (codec_decode_never_panics_lemma lim d s) as HP.
  destruct (read_exact_enough s 4 []) as (s1 & E1 & B1 & T1).
  { rewrite Hb. cbn [be24 app length]. lia. }
  rewrite Hb in E1, B1. cbn [be24 app firstn skipn] in E1, B1.
  change [b_of_N (L / 256 / 256); b_of_N (L / 256); b_of_N L] with (be24 L) in E1.
  revert HP. unfold codec_decode. rewrite E1. cbn [skipn]. rewrite (un_be24 L HL).
  assert (C4 : consumed s s1 = 4).
  { unfold consumed. rewrite Hb, B1. cbn [be24 app]. rewrite !blen_cons. lia. }
  destruct (N.ltb_spec 1048576 L) as [H1|H1].
  { cbn [fst]. intros HP. repeat split; auto; lia. }
  destruct (N.ltb_spec L 20) as [H2|H2].
  { cbn [fst]. intros HP. repeat split; auto; lia. }
  destruct (read_exact s1 (N.to_nat (L - 4)) []) as [rr s2] eqn:E2.
  assert (HC : consumed s s2 <= L).
  { destruct (Nat.le_gt_cases (N.to_nat (L - 4)) (length (bytes_of s1))) as [Hle|Hgt].
    - destruct (read_exact_enough s1 _ [] Hle) as (s2' & E2' & B2 & _).
      rewrite E2 in E2'. inversion E2'; subst s2'. unfold consumed. rewrite Hb, B2, B1.
      cbn [be24 app]. rewrite !blen_cons. unfold blen. rewrite skipn_length. lia.
    - unfold consumed. rewrite Hb. cbn [be24 app]. rewrite !blen_cons. rewrite B1 in Hgt.
      unfold blen. lia. }
  destruct rr as [body| |]; cbn [fst]; intros HP; (split; [exact HP|]); (split; [lia|]);
    (split; [lia|]); lia.
Qed.

Lemma codec_decode_legacy_short lim d s b0 L rest :
  bytes_of s = b0 :: be24 L ++ rest -> 4 <= L < 20 -> (N.to_nat (L - 4) <= length rest)%nat ->
  exists s', codec_decode_legacy lim d s = (DErr, s') /\ consumed s s' = L.
Proof.
  intros Hb HL Hr.
  destruct (read_exact_enough s 4 []) as (s1 & E1 & B1 & T1).
  { rewrite Hb. cbn [be24 app length]. lia. }
  rewrite Hb in E1, B1. cbn [be24 app firstn skipn] in E1, B1.
  change [b_of_N (L / 256 / 256); b_of_N (L / 256); b_of_N L] with (be24 L) in E1.
  unfold codec_decode_legacy. rewrite E1. cbn [skipn]. rewrite (un_be24 L) by lia.
  destruct (N.ltb_spec 1048576 L) as [H1|H1]; [lia|].
  destruct (N.ltb_spec L 4) as [H2|H2]; [lia|].
  destruct (read_exact_enough s1 (N.to_nat (L - 4)) []) as (s2 & E2 & B2 & T2).
  { rewrite B1. exact Hr. }
  rewrite E2. exists s2. split.
  - f_equal. cbn [app]. set (body := firstn _ _).
    assert (Hlen : (length body <= 15)%nat) by (unfold body; rewrite firstn_length; lia).
    unfold dec_msg. cbn [be24 app].
    do 16 (destruct body as [|? body]; [reflexivity|]). cbn [length] in Hlen. lia.
  - unfold consumed. rewrite Hb, B2, B1. cbn [be24 app]. rewrite !blen_cons. unfold blen.
    rewrite skipn_length. lia.
Qed.

(* today's code panics on a four-octet input announcing a length below 4 *)
Lemma C07_legacy_refuted_lemma lim d :
  exists script, fst (codec_decode_legacy lim d script) = DPanic.
Proof. exists [RChunk [x01; x00; x00; x03]]. vm_compute. reflexivity. Qed.

(* ---------- write_all / Codec::encode ---------- *)
Lemma write_all_nil ws : write_all ws [] = (true, [], ws).
Proof. destruct ws; reflexivity. Qed.

(* ANY writer: what it accepted is a prefix of what was offered; success = all of it;
   failure = strictly less *)
Lemma write_all_prefix ws : forall bs ok acc ws', write_all ws bs = (ok, acc, ws') ->
  exists rest, bs = acc ++ rest /\ (ok = true -> rest = []) /\ (ok = false -> rest <> []).
Proof.
  induction ws as [|w ws IH]; intros bs ok acc ws' E; (destruct bs as [|b bs];
    [rewrite write_all_nil in E; inversion E; subst; exists []; repeat split; congruence|]).
  - cbn [write_all] in E. inversion E; subst. exists []. rewrite app_nil_r. repeat split; congruence.
  - cbn [write_all] in E. set (bs' := b :: bs) in *. destruct w as [k| |].
    + destruct (k =? 0).
      { inversion E; subst. exists bs'. repeat split; unfold bs'; congruence. }
      destruct (blen bs' <=? k).
      { inversion E; subst. exists []. rewrite app_nil_r. repeat split; congruence. }
      destruct (write_all ws (skipn (N.to_nat k) bs')) as [[ok1 acc1] ws1] eqn:E1.
      inversion E; subst. apply IH in E1. destruct E1 as (rest & Hs & Ht & Hf).
      exists rest. split; [|auto]. rewrite <- app_assoc, <- Hs. symmetry. apply firstn_skipn.
    + apply IH in E. exact E.
    + inversion E; subst. exists bs'. repeat split; unfold bs'; congruence.
Qed.

Lemma write_all_accepting ws : forall bs, accepting ws = true ->
  exists ws', write_all ws bs = (true, bs, ws') /\ accepting ws' = true.
Proof.
  induction ws as [|w ws IH]; intros bs Ha; (destruct bs as [|b bs];
    [rewrite write_all_nil; eexists; split; [reflexivity|exact Ha]|]).
  - exists []. split; reflexivity.
  - cbn [write_all]. set (bs' := b :: bs) in *. unfold accepting in Ha. cbn [forallb] in Ha.
    apply andb_true_iff in Ha. destruct Ha as [Hw Ha]. fold (accepting ws) in Ha.
    destruct w as [k| |]; [| |discriminate].
    + destruct (k =? 0); [discriminate|].
      destruct (blen bs' <=? k). { exists ws. auto. }
      destruct (IH (skipn (N.to_nat k) bs') Ha) as (ws' & E & Ha'). rewrite E.
      exists ws'. rewrite firstn_skipn. auto.
    + apply IH. exact Ha.
Qed.

(* within one write_all, a writer with budget q *)
Lemma write_all_budget ws : forall bs q ok acc ws', wbudget ws = Some q ->
  write_all ws bs = (ok, acc, ws') ->
  ok = (blen bs <=? q) /\ acc = firstn (N.to_nat q) bs.
Proof.
  induction ws as [|w ws IH]; intros bs q ok acc ws' Hq E; [discriminate|].
  destruct bs as [|b bs].
  { rewrite write_all_nil in E. inversion E; subst. rewrite firstn_nil. split; [|reflexivity].
    symmetry. apply N.leb_le. unfold blen. cbn [length]. lia. }
  cbn [write_all] in E. cbn [wbudget] in Hq. set (bs' := b :: bs) in *.
  assert (Hpos : 0 < blen bs') by (unfold bs'; rewrite blen_cons; lia).
  destruct w as [k| |].
  - destruct (N.eqb_spec k 0) as [Hk|Hk].
    { inversion Hq; subst. inversion E; subst. split; [|reflexivity].
      symmetry. apply N.leb_gt. exact Hpos. }
    destruct (wbudget ws) as [q'|] eqn:Eq'; [|discriminate]. inversion Hq; subst q.
    destruct (N.leb_spec (blen bs') k) as [Hle|Hgt].
    { inversion E; subst. split; [symmetry; apply N.leb_le; lia|].
      rewrite firstn_all2; [reflexivity|]. unfold blen in Hle. lia. }
    destruct (write_all ws (skipn (N.to_nat k) bs')) as [[ok1 acc1] ws1] eqn:E1.
    inversion E; subst. destruct (IH _ _ _ _ _ eq_refl E1) as [Hok Hacc]. subst ok acc1.
    assert (Hsl : blen (skipn (N.to_nat k) bs') = blen bs' - k)
      by (unfold blen; rewrite skipn_length; lia).
    split.
    + rewrite Hsl. destruct (N.leb_spec (blen bs' - k) q'); symmetry;
        [apply N.leb_le|apply N.leb_gt]; lia.
    + replace (N.to_nat (k + q')) with (N.to_nat k + N.to_nat q')%nat by lia.
      rewrite <- (firstn_skipn (N.to_nat k) bs') at 3.
      rewrite firstn_app, firstn_length. unfold blen in Hgt.
      replace (Nat.min (N.to_nat k) (length bs')) with (N.to_nat k) by lia.
      replace (N.to_nat k + N.to_nat q' - N.to_nat k)%nat with (N.to_nat q') by lia.
      f_equal. rewrite firstn_firstn. f_equal. lia.
  - eapply IH; eauto.
  - inversion Hq; subst. inversion E; subst. split; [|reflexivity].
    symmetry. apply N.leb_gt. exact Hpos.
Qed.

(* a one-octet-per-poll writer with budget q: nothing is lost between write_all calls *)
Lemma write_all_dribble ws : forall bs q ok acc ws', wdribble ws = Some q ->
  write_all ws bs = (ok, acc, ws') ->
  if (length bs <=? q)%nat
  then ok = true /\ acc = bs /\ wdribble ws' = Some (q - length bs)%nat
  else ok = false /\ acc = firstn q bs.
Proof.
  induction ws as [|w ws IH]; intros bs q ok acc ws' Hq E; [discriminate|].
  destruct bs as [|b bs].
  { rewrite write_all_nil in E. inversion E; subst. cbn [length Nat.leb].
    rewrite Nat.sub_0_r. auto. }
  cbn [write_all] in E. cbn [wdribble] in Hq.
  destruct w as [k| |].
  - destruct (N.eqb_spec k 0) as [Hk|Hk].
    { inversion Hq; subst. inversion E; subst. cbn [length Nat.leb firstn]. auto. }
    destruct (N.eqb_spec k 1) as [Hk1|Hk1]; [|discriminate]. subst k.
    destruct (wdribble ws) as [q'|] eqn:Eq'; [|discriminate]. inversion Hq; subst q.
    destruct (N.leb_spec (blen (b :: bs)) 1) as [Hle|Hgt].
    { inversion E; subst. assert (bs = []) as ->.
      { destruct bs; [reflexivity|]. rewrite !blen_cons in Hle. lia. }
      cbn [length Nat.leb]. repeat split. rewrite Eq'. f_equal. lia. }
    change (N.to_nat 1) with 1%nat in E. cbn [skipn firstn] in E.
    destruct (write_all ws bs) as [[ok1 acc1] ws1] eqn:E1. inversion E; subst.
    specialize (IH _ _ _ _ _ eq_refl E1). cbn [length Nat.leb firstn app].
    destruct (length bs <=? q')%nat.
    + destruct IH as (-> & -> & Hw). repeat split. rewrite Hw. f_equal.
    + destruct IH as (-> & ->). auto.
  - eapply IH; eauto.
  - inversion Hq; subst. inversion E; subst. cbn [length Nat.leb firstn]. auto.
Qed.

Lemma enc_msg_len m bs : enc_msg m = Ok bs -> (20 <= length bs)%nat.
Proof.
  unfold enc_msg. destruct (msg_enc_ok m); [|discriminate]. intros E. inversion E; subst.
  unfold enc_msg_raw, enc_hdr. rewrite !app_length. cbn [be24 be32 length]. lia.
Qed.

Lemma C06_write_lemma m bs ws : enc_msg m = Ok bs -> accepting ws = true ->
  let '(ok, acc, _) := codec_encode m ws in ok = true /\ acc = bs.
Proof.
  intros E Ha. unfold codec_encode. rewrite E.
  destruct (write_all_accepting ws bs Ha) as (ws' & Ew & _). rewrite Ew. auto.
Qed.

Lemma C06_write_prefix_lemma m bs ws : enc_msg m = Ok bs ->
  let '(ok, acc, _) := codec_encode m ws in
  (exists rest, bs = acc ++ rest) /\ (ok = true -> acc = bs) /\ (ok = false -> acc <> bs).
Proof.
  intros E. unfold codec_encode. rewrite E.
  destruct (write_all ws bs) as [[ok acc] ws'] eqn:Ew.
  destruct (write_all_prefix _ _ _ _ _ Ew) as (rest & Hs & Ht & Hf).
  split; [exists rest; exact Hs|]. split.
  - intros H. rewrite (Ht H), app_nil_r in Hs. auto.
  - intros H Heq. apply (Hf H). rewrite Heq in Hs.
    apply (f_equal (@length byte)) in Hs. rewrite app_length in Hs.
    destruct rest; [reflexivity|]. cbn [length] in Hs. lia.
Qed.

(* an encode failure leaves the writer untouched *)
Lemma codec_encode_err m ws : enc_msg m <> Ok (match enc_msg m with Ok b => b | _ => [] end) ->
  codec_encode m ws = (false, [], ws).
Proof. unfold codec_encode. destruct (enc_msg m); try reflexivity. congruence. Qed.

(* when one write_all succeeds against a budget-q writer, what is left is a budget writer with
   at most q - |bs| (an accept larger than what was offered loses its surplus) *)
Lemma write_all_budget_rem ws : forall bs q acc ws', wbudget ws = Some q ->
  write_all ws bs = (true, acc, ws') -> exists q', wbudget ws' = Some q' /\ q' + blen bs <= q.
Proof.
  induction ws as [|w ws IH]; intros bs q acc ws' Hq E; [discriminate|].
  destruct bs as [|b bs].
  { rewrite write_all_nil in E. inversion E; subst. exists q. split; [exact Hq|]. unfold blen.
    cbn [length]. lia. }
  cbn [write_all] in E. cbn [wbudget] in Hq. set (bs' := b :: bs) in *.
  destruct w as [k| |].
  - destruct (N.eqb_spec k 0) as [Hk|Hk]; [discriminate|].
    destruct (wbudget ws) as [q''|] eqn:Eq'; [|discriminate]. inversion Hq; subst q.
    destruct (N.leb_spec (blen bs') k) as [Hle|Hgt].
    { inversion E; subst. exists q''. split; [exact Eq'|lia]. }
    destruct (write_all ws (skipn (N.to_nat k) bs')) as [[ok1 acc1] ws1] eqn:E1.
    inversion E; subst. destruct (IH _ _ _ _ eq_refl E1) as (q' & Hq' & Hle).
    exists q'. split; [exact Hq'|]. unfold blen in *. rewrite skipn_length in Hle. lia.
  - eapply IH; eauto.
  - discriminate.
Qed.

(* ALL scripts, accounting over the whole script: one decode call never takes more than
   max(L, 4) octets off the stream, hence never more than 1 MiB *)
Lemma codec_decode_consumes lim d s r s' : codec_decode lim d s = (r, s') ->
  blen (all_bytes s') <= blen (all_bytes s) /\ blen (all_bytes s) <= blen (all_bytes s') + 1048576.
Proof.
  unfold codec_decode. destruct (read_exact s 4 []) as [r1 s1] eqn:E1.
  destruct (read_exact_all _ _ _ _ _ E1) as (A1 & A2 & _). unfold blen.
  destruct r1 as [hd| |]; try (intros E; inversion E; subst; lia).
  destruct (N.ltb_spec 1048576 (un_be (skipn 1 hd))) as [H1|H1]; [intros E; inversion E; subst; lia|].
  destruct (un_be (skipn 1 hd) <? 20); [intros E; inversion E; subst; lia|].
  destruct (read_exact s1 (N.to_nat (un_be (skipn 1 hd) - 4)) []) as [r2 s2] eqn:E2.
  destruct (read_exact_all _ _ _ _ _ E2) as (B1 & B2 & _).
  destruct r2 as [body| |]; intros E; inversion E; subst; lia.
Qed.

Lemma C07_consumed_all_lemma lim d s b0 L rest :
  bytes_of s = b0 :: be24 L ++ rest -> L < 16777216 ->
  blen (all_bytes s) <= blen (all_bytes (snd (codec_decode lim d s))) + N.max L 4.
Proof.
  intros Hb HL.
  destruct (read_exact_enough s 4 []) as (s1 & E1 & B1 & T1).
  { rewrite Hb. cbn [be24 app length]. lia. }
  rewrite Hb in E1. cbn [be24 app firstn skipn] in E1.
  change [b_of_N (L / 256 / 256); b_of_N (L / 256); b_of_N L] with (be24 L) in E1.
  destruct (read_exact_all _ _ _ _ _ E1) as (A1 & A2 & _).
  unfold codec_decode. rewrite E1. cbn [skipn]. rewrite (un_be24 L HL). unfold blen.
  destruct (1048576 <? L); [cbn [snd]; lia|].
  destruct (N.ltb_spec L 20) as [H2|H2]; [cbn [snd]; lia|].
  destruct (read_exact s1 (N.to_nat (L - 4)) []) as [r2 s2] eqn:E2.
  destruct (read_exact_all _ _ _ _ _ E2) as (B1' & B2 & _).
  destruct r2 as [body| |]; cbn [snd]; lia.
Qed.

(* ---------- non-vacuity ---------- *)
(* Device-Watchdog request, header only (20 octets) *)
Definition ex_frame : list byte :=
  [x01; x00; x00; x14; x80; x00; x01; x18; x00; x00; x00; x00; x00; x00; x00; x07; x00; x00; x00; x09].
Definition ex_dict : dict := fun _ _ => None.

Lemma ex_frame_good : good_frame ex_frame.
Proof. unfold good_frame, complete, ex_frame. vm_compute. split; [reflexivity|]. split; discriminate. Qed.

(* two pipelined frames dribbled in odd pieces with Pending entries in between *)
Definition ex_script : list rev :=
  [RPending; RChunk (firstn 3 ex_frame); RPending; RChunk (skipn 3 ex_frame ++ firstn 7 ex_frame);
   RChunk (skipn 7 ex_frame ++ [x2a]); REof].

Example C06_read_nonvacuous :
  fault_free ex_script = true
  /\ bytes_of ex_script = concat [ex_frame; ex_frame] ++ [x2a]
  /\ Forall good_frame [ex_frame; ex_frame]
  /\ (exists m, dec_msg 5 ex_dict ex_frame = Ok m)
  /\ fst (decode_n 2 5 ex_dict ex_script)
     = map (fun f => dres_of (dec_msg 5 ex_dict f)) [ex_frame; ex_frame].
Proof.
  split; [reflexivity|]. split; [reflexivity|].
  split; [constructor; [exact ex_frame_good|]; constructor; [exact ex_frame_good|]; constructor|].
  split; [eexists; vm_compute; reflexivity|]. vm_compute. reflexivity.
Qed.

Example C06_write_nonvacuous :
  exists m bs, dec_msg 5 ex_dict ex_frame = Ok m /\ enc_msg m = Ok bs
    /\ accepting [WPending; WAccept 3; WAccept 1; WPending; WAccept 100] = true
    /\ codec_encode m [WPending; WAccept 3; WAccept 1; WPending; WAccept 100] = (true, bs, []).
Proof. eexists. eexists. repeat split; vm_compute; reflexivity. Qed.

Example C07_nonvacuous :
  bytes_of [RChunk [x01; x00]; RPending; RChunk [x00; x13; x07]] = x01 :: be24 19 ++ [x07]
  /\ codec_decode 5 ex_dict [RChunk [x01; x00]; RPending; RChunk [x00; x13; x07]]
     = (DErr, [RChunk [x07]]).
Proof. split; vm_compute; reflexivity. Qed.
