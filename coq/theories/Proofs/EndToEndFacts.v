(* The client of Model/Client.v talking to the server loop of Model/Server.v: every request's future resolves with the
   answer the server's handler produced for THAT request.  Composition of C08 (server: one call per request in order,
   exactly the answers written in order), the header round trip (an answer's hop-by-hop id survives encode/decode) and
   C11 (client: an answer reaches the waiter with its hop-by-hop id). *)
Require Import DV.Base.Bytes DV.Spec.Wire DV.Model.Avp DV.Model.Message DV.Model.Stream DV.Model.Server DV.Model.Client DV.Model.EndToEnd
  DV.Proofs.DecSound DV.Proofs.HeaderFacts DV.Proofs.StreamFacts DV.Proofs.ServerFacts DV.Proofs.ClientFacts.
From Coq Require Import Arith.

(* ---------- the ghost fields evolve independently of what the reader does ---------- *)
Lemma ghost_step s e :
  nw (step s e) = (match e with Register _ => S (nw s) | _ => nw s end) /\
  whop (step s e) = (match e with Register h => upd (whop s) (nw s) h | _ => whop s end) /\
  wired (step s e) = (match e with WireOut h => h :: wired s | _ => wired s end) /\
  nsent (step s e) = (match e with Peer _ => S (nsent s) | _ => nsent s end) /\
  senth (step s e) = (match e with Peer h => upd (senth s) (nsent s) h | _ => senth s end).
Proof.
  destruct e as [h|h|h| | |i]; cbn [step].
  - destruct (closed s); cbn; repeat split; reflexivity.
  - cbn; repeat split; reflexivity.
  - cbn; repeat split; reflexivity.
  - cbn; repeat split; reflexivity.
  - destruct (closed s); [repeat split; reflexivity|].
    destruct (inq s) as [|[f|] q]; [repeat split; reflexivity| |unfold stop; cbn; repeat split; reflexivity].
    destruct (lookup (table s) (hop f)) as [i|]; [|unfold stop; cbn; repeat split; reflexivity].
    destruct (gone s i); unfold stop; cbn; repeat split; reflexivity.
  - cbn; repeat split; reflexivity.
Qed.

Lemma all_ok_app a : forall b s, all_ok (a ++ b) s <-> all_ok a s /\ all_ok b (fold_left step a s).
Proof.
  induction a as [|e a IH]; intros b s; cbn [app all_ok fold_left]; [tauto|]. rewrite IH. tauto.
Qed.

(* ---------- phase 1: the sends ---------- *)
Lemma sends_facts hs : forall s, NoDup hs -> (forall i, i < nw s -> ~ In (whop s i) hs) ->
  let s' := fold_left step (sends hs) s in
  all_ok (sends hs) s /\ nw s' = nw s + length hs /\
  (forall i, i < nw s -> whop s' i = whop s i) /\
  (forall j, j < length hs -> whop s' (nw s + j) = nth j hs 0%N) /\
  (forall h, In h (wired s) \/ In h hs -> In h (wired s')) /\
  nsent s' = nsent s /\ senth s' = senth s.
Proof.
  induction hs as [|h hs IH]; intros s Hnd Hfresh; cbn [sends flat_map app fold_left all_ok length].
  - split; [exact I|]. split; [lia|]. split; [auto|]. split; [intros j Hj; inversion Hj|].
    split; [intros h0 [Hin|[]]; exact Hin|]. split; reflexivity.
  - inversion Hnd as [|? ? Hnotin Hnd']; subst.
    set (s1 := step s (Register h)). set (s2 := step s1 (WireOut h)).
    destruct (ghost_step s (Register h)) as (N1 & W1 & R1 & T1 & H1). fold s1 in N1, W1, R1, T1, H1.
    destruct (ghost_step s1 (WireOut h)) as (N2 & W2 & R2 & T2 & H2). fold s2 in N2, W2, R2, T2, H2.
    assert (Hfresh2 : forall i, i < nw s2 -> ~ In (whop s2 i) hs).
    { intros i Hi. rewrite W2, W1. rewrite N2, N1 in Hi. unfold upd. destruct (Nat.eqb i (nw s)) eqn:E.
      - exact Hnotin.
      - apply Nat.eqb_neq in E. intros Hin. apply (Hfresh i); [lia|]. now right. }
    change (fold_left step (flat_map (fun h0 => [Register h0; WireOut h0]) hs) s2) with (fold_left step (sends hs) s2).
    change (all_ok (flat_map (fun h0 => [Register h0; WireOut h0]) hs) s2) with (all_ok (sends hs) s2).
    destruct (IH s2 Hnd' Hfresh2) as (A & B & C & D & E & F & G).
    split; [|split; [|split; [|split; [|split; [|split]]]]].
    + split; [|split; [|exact A]].
      * cbn [ok_ev]. intros i Hi Eq. apply (Hfresh i Hi). left. symmetry. exact Eq.
      * cbn [ok_ev]. exists (nw s). fold s1. rewrite N1, W1. split; [lia|]. apply upd_same.
    + rewrite B, N2, N1. lia.
    + intros i Hi. rewrite C by (rewrite N2, N1; lia). rewrite W2, W1. apply upd_other. lia.
    + intros j Hj. destruct j as [|j].
      * rewrite Nat.add_0_r. rewrite C by (rewrite N2, N1; lia). rewrite W2, W1. cbn [nth]. apply upd_same.
      * cbn [nth]. replace (nw s + S j) with (nw s2 + j) by (rewrite N2, N1; lia). apply D. lia.
    + intros h0 [Hw|[->|Hin]]; apply E.
      * left. rewrite R2, R1. now right.
      * left. rewrite R2. now left.
      * now right.
    + rewrite F, T2, T1. reflexivity.
    + rewrite G, H2, H1. reflexivity.
Qed.

(* ---------- phase 2: the answers, each consumed as it arrives ---------- *)
Lemma answers_ok hs : forall s, NoDup hs -> (forall h, In h hs -> In h (wired s)) ->
  (forall a, a < nsent s -> ~ In (senth s a) hs) ->
  let s' := fold_left step (answers hs) s in
  all_ok (answers hs) s /\ nw s' = nw s /\ whop s' = whop s /\ nsent s' = nsent s + length hs /\
  (forall a, a < nsent s -> senth s' a = senth s a) /\
  (forall j, j < length hs -> senth s' (nsent s + j) = nth j hs 0%N).
Proof.
  induction hs as [|h hs IH]; intros s Hnd Hw Hf; cbn [answers flat_map app fold_left all_ok length].
  - split; [exact I|]. split; [reflexivity|]. split; [reflexivity|]. split; [lia|]. split; [auto|]. intros j Hj; inversion Hj.
  - inversion Hnd as [|? ? Hnotin Hnd']; subst.
    set (s1 := step s (Peer h)). set (s2 := step s1 ReaderStep).
    destruct (ghost_step s (Peer h)) as (N1 & W1 & R1 & T1 & H1). fold s1 in N1, W1, R1, T1, H1.
    destruct (ghost_step s1 ReaderStep) as (N2 & W2 & R2 & T2 & H2). fold s2 in N2, W2, R2, T2, H2.
    change (fold_left step (flat_map (fun h0 => [Peer h0; ReaderStep]) hs) s2) with (fold_left step (answers hs) s2).
    change (all_ok (flat_map (fun h0 => [Peer h0; ReaderStep]) hs) s2) with (all_ok (answers hs) s2).
    assert (Hw2 : forall h0, In h0 hs -> In h0 (wired s2)) by (intros h0 Hin; rewrite R2, R1; apply Hw; now right).
    assert (Hf2 : forall a, a < nsent s2 -> ~ In (senth s2 a) hs).
    { intros a Ha. rewrite H2, H1. rewrite T2, T1 in Ha. unfold upd. destruct (Nat.eqb a (nsent s)) eqn:E.
      - exact Hnotin.
      - apply Nat.eqb_neq in E. intros Hin. apply (Hf a); [lia|]. now right. }
    destruct (IH s2 Hnd' Hw2 Hf2) as (A & B & C & D & E & F).
    split; [|split; [|split; [|split; [|split]]]].
    + split; [|split; [exact I|exact A]].
      cbn [ok_ev]. split; [apply Hw; now left|]. intros a Ha Eq. apply (Hf a Ha). left. symmetry. exact Eq.
    + rewrite B, N2, N1. reflexivity.
    + rewrite C, W2, W1. reflexivity.
    + rewrite D, T2, T1. lia.
    + intros a Ha. rewrite E by (rewrite T2, T1; lia). rewrite H2, H1. apply upd_other. lia.
    + intros j Hj. destruct j as [|j].
      * rewrite Nat.add_0_r. rewrite E by (rewrite T2, T1; lia). rewrite H2, H1. cbn [nth]. apply upd_same.
      * cbn [nth]. replace (nsent s + S j) with (nsent s2 + j) by (rewrite T2, T1; lia). apply F. lia.
Qed.

Lemma e2e_facts hs : NoDup hs ->
  let s := run (e2e_sched hs) in
  all_ok (e2e_sched hs) init /\ nw s = length hs /\ nsent s = length hs /\
  (forall i, i < length hs -> whop s i = nth i hs 0%N) /\ (forall j, j < length hs -> senth s j = nth j hs 0%N).
Proof.
  intros Hnd. unfold e2e_sched, run. rewrite fold_left_app.
  destruct (sends_facts hs init Hnd) as (A & B & C & D & E & F & G); [intros i Hi; inversion Hi|].
  set (s1 := fold_left step (sends hs) init) in *.
  destruct (answers_ok hs s1 Hnd) as (A2 & B2 & C2 & D2 & E2 & F2).
  - intros h Hin. apply E. now right.
  - intros a Ha. rewrite F in Ha. inversion Ha.
  - cbv zeta. split; [apply all_ok_app; split; assumption|].
    split; [rewrite B2, B; reflexivity|]. split; [rewrite D2, F; reflexivity|]. split.
    + intros i Hi. rewrite C2. apply (D i Hi).
    + intros j Hj. rewrite <- (F2 j Hj). rewrite F. reflexivity.
Qed.

Lemma peer_reader_drain s h : closed s = false -> inq s = [] -> inq (step (step s (Peer h)) ReaderStep) = [].
Proof.
  destruct s as [tb cl n0 w0 wh iq ns sh wi go]. cbn [closed inq]. intros -> ->. cbn [step closed inq app hop table gone].
  destruct (lookup tb h) as [i|]; [destruct (go i)|]; unfold stop; reflexivity.
Qed.

(* after every [Peer h; ReaderStep] pair the reader's input is empty again *)
Lemma answers_drain hs : forall s, all_ok (answers hs) s -> Inv s -> Jnv s -> ~ In IBad (inq s) -> inq s = [] ->
  inq (fold_left step (answers hs) s) = [].
Proof.
  induction hs as [|h hs IH]; intros s Hok HI HJ Hnb Hq; cbn [answers flat_map app fold_left]; [exact Hq|].
  change (fold_left step (flat_map (fun h0 => [Peer h0; ReaderStep]) hs)) with (fold_left step (answers hs)).
  cbn [answers flat_map app all_ok] in Hok. destruct Hok as (O1 & O2 & O3).
  change (all_ok (flat_map (fun h0 => [Peer h0; ReaderStep]) hs)) with (all_ok (answers hs)) in O3.
  pose proof (run_inv_jnv [Peer h; ReaderStep] s HI HJ Hnb) as P. cbn [all_ok fold_left] in P.
  destruct (P (conj O1 (conj O2 I))) as (HI2 & HJ2 & Hnb2).
  apply IH; auto.
  (* the queue: one frame in, one frame out (the reader is alive) *)
  destruct HJ as [Jo _ _ _ _ _ _]. apply peer_reader_drain; assumption.
Qed.

Lemma sends_inq hs : forall s, inq (fold_left step (sends hs) s) = inq s.
Proof.
  induction hs as [|h hs IH]; intros s; cbn [sends flat_map app fold_left]; [reflexivity|].
  change (fold_left step (flat_map (fun h0 => [Register h0; WireOut h0]) hs)) with (fold_left step (sends hs)).
  rewrite IH. cbn [step]. destruct (closed s); reflexivity.
Qed.

(* ---------- client side: request i gets the i-th frame the peer emitted, which carries its hop-by-hop id ---------- *)
Theorem e2e_client hs : NoDup hs -> forall i, i < length hs ->
  ws (run (e2e_sched hs)) i = WGot {| hop := nth i hs 0%N; fid := i |} /\ closed (run (e2e_sched hs)) = false.
Proof.
  intros Hnd i Hi. destruct (e2e_facts hs Hnd) as (Hok & Hnw & Hns & Hwh & Hsh).
  assert (Hq : inq (run (e2e_sched hs)) = []).
  { unfold e2e_sched, run. rewrite fold_left_app.
    apply all_ok_app in Hok. destruct Hok as [Hok1 Hok2].
    destruct (all_ok_jnv _ Hok1) as (HI & HJ & Hnb).
    apply answers_drain; auto. apply sends_inq. }
  destruct (C11_matching_lemma (e2e_sched hs) Hok) with (i := i) as (f & Hw & Hh & Hc).
  - intros f Hin. rewrite Hq in Hin. exact Hin.
  - intros j Hj. rewrite Hnw in Hj. exists j. rewrite Hns, Hsh, Hwh by assumption. split; [assumption|reflexivity].
  - rewrite Hnw. exact Hi.
  - split; [|exact Hc]. rewrite Hw. f_equal.
    destruct (C11_safety_lemma (e2e_sched hs) i f) as (S1 & S2 & S3 & _); [rewrite Hnw; exact Hi|exact Hw|].
    rewrite Hns in S2. rewrite (Hsh _ S2), S1, (Hwh i Hi) in S3.
    assert (fid f = i) by (apply (proj1 (NoDup_nth hs 0%N) Hnd); assumption).
    destruct f as [hf ff]. cbn [hop fid] in *. subst. rewrite (Hwh _ Hi). reflexivity.
Qed.

Section EndToEnd.
  Variable h : list msg -> msg -> option msg.
  (* the handler answers with the request's hop-by-hop id (RFC 6733 6.2: "the same value ... in the corresponding answer") *)
  Hypothesis echo : forall seen m a, h seen m = Some a -> m_hbh a = m_hbh m.

  Lemma answer_hops lim' d' : forall ms seen bss as',
    answer_octets h seen ms = Some bss -> Forall (fun m => (m_hbh m < 4294967296)%N) ms ->
    Forall2 (fun bs a' => dec_msg lim' d' bs = Ok a') bss as' -> map m_hbh as' = map m_hbh ms.
  Proof.
    induction ms as [|m ms IH]; intros seen bss as' Ha Hlt Hd; cbn [answer_octets] in Ha.
    - inversion Ha; subst. inversion Hd; subst. reflexivity.
    - destruct (h seen m) as [a|] eqn:Eh; [|discriminate].
      destruct (enc_msg a) as [bs| | |] eqn:Ee; try discriminate.
      destruct (answer_octets h (seen ++ [m]) ms) as [l|] eqn:Er; [|discriminate].
      inversion Ha; subst bss; clear Ha. inversion Hd as [|? a' ? as2 Hd1 Hd2]; subst. inversion Hlt as [|? ? Hm Hlt']; subst.
      cbn [map]. f_equal.
      + rewrite <- (echo _ _ _ Eh). eapply hbh_survives; eauto. rewrite (echo _ _ _ Eh). exact Hm.
      + eapply IH; eauto.
  Qed.

  (* One connection.  The client sends the requests whose frames are [reqs]; the server reads them from ANY fault-free
     read script, decodes them as [ms], calls the handler once per request in order and writes exactly the answers
     [bss] (C08); the client decodes those as [as']; request i's future resolves with the i-th frame the server wrote -
     the handler's answer to request i - and the client's reader is still running. *)
  Theorem end_to_end lim d lim' d' reqs ms bss as' rs wscript :
    fault_free rs = true -> bytes_of rs = concat reqs -> Forall good_frame reqs ->
    Forall2 (fun f m => dec_msg lim d f = Ok m) reqs ms ->
    answer_octets h [] ms = Some bss -> accepting wscript = true ->
    Forall2 (fun bs a' => dec_msg lim' d' bs = Ok a') bss as' ->
    NoDup (map m_hbh ms) ->
    exists o, serve h lim d rs wscript = Some o /\ so_calls o = ms /\ so_written o = concat bss /\ so_res o = SClosed /\
      map m_hbh as' = map m_hbh ms /\
      forall i, i < length ms ->
        ws (run (e2e_sched (map m_hbh ms))) i = WGot {| hop := nth i (map m_hbh as') 0%N; fid := i |} /\
        closed (run (e2e_sched (map m_hbh ms))) = false.
  Proof.
    intros Hff Hb Hg Hdec Hans Hacc Hcl Hnd.
    destruct (C08_exactly_once_lemma h lim d reqs ms bss rs wscript Hff Hb Hg Hdec Hans Hacc) as (o & Ho & Hc & Hw & Hr).
    exists o. repeat (split; [assumption|]).
    assert (Hlt : Forall (fun m => (m_hbh m < 4294967296)%N) ms).
    { clear - Hdec. induction Hdec as [|f m fs ms' Hd _ IH]; constructor; [|exact IH].
      destruct (dec_msg_inv _ _ _ _ Hd) as (rest & r' & _ & _ & _ & _ & _ & _ & Hh & _). exact Hh. }
    pose proof (answer_hops lim' d' ms [] bss as' Hans Hlt Hcl) as Hmap.
    split; [exact Hmap|]. intros i Hi. rewrite Hmap.
    apply e2e_client; [exact Hnd | now rewrite map_length].
  Qed.
End EndToEnd.

(* ---------- non-vacuity: two requests with hop-by-hop ids 7 and 8, an echoing server, scripts with Pending ---------- *)
Definition ex_frame2 : list byte := firstn 15 ex_frame ++ [x08] ++ skipn 16 ex_frame.
Definition ex_msg2 : msg := MkMsg 1 20 128 280 0 8 9 [].
Definition ex_rs2 : list rev :=
  [RChunk (firstn 3 ex_frame); RPending; RChunk (skipn 3 ex_frame ++ firstn 7 ex_frame2); RPending; RChunk (skipn 7 ex_frame2); REof].

Example end_to_end_nonvacuous :
  fault_free ex_rs2 = true /\ bytes_of ex_rs2 = concat [ex_frame; ex_frame2] /\ Forall good_frame [ex_frame; ex_frame2] /\
  Forall2 (fun f m => dec_msg 5 ex_dict f = Ok m) [ex_frame; ex_frame2] [ex_msg; ex_msg2] /\
  answer_octets ex_echo [] [ex_msg; ex_msg2] = Some [ex_frame; ex_frame2] /\ accepting ex_ws = true /\
  Forall2 (fun bs a' => dec_msg 5 ex_dict bs = Ok a') [ex_frame; ex_frame2] [ex_msg; ex_msg2] /\
  NoDup (map m_hbh [ex_msg; ex_msg2]) /\
  (forall seen m a, ex_echo seen m = Some a -> m_hbh a = m_hbh m) /\
  outcomes (run (e2e_sched (map m_hbh [ex_msg; ex_msg2]))) = [WGot {| hop := 7%N; fid := 0 |}; WGot {| hop := 8%N; fid := 1 |}].
Proof.
  assert (G2 : good_frame ex_frame2) by (unfold good_frame, complete, ex_frame2, ex_frame; vm_compute; split; [reflexivity|]; split; discriminate).
  split; [reflexivity|]. split; [reflexivity|].
  split; [constructor; [exact ex_frame_good|]; constructor; [exact G2|]; constructor|].
  split; [constructor; [vm_compute; reflexivity|]; constructor; [vm_compute; reflexivity|]; constructor|].
  split; [vm_compute; reflexivity|]. split; [reflexivity|].
  split; [constructor; [vm_compute; reflexivity|]; constructor; [vm_compute; reflexivity|]; constructor|].
  split. { cbn. constructor; [intros [E|[]]; discriminate|]. constructor; [intros []|constructor]. }
  split. { intros seen m a E. unfold ex_echo in E. inversion E. reflexivity. }
  vm_compute. reflexivity.
Qed.
