(* C10, second half: "answers are only ever written to the connection that carried the request".
   The listener model (Model/Listener.v) composed with the per-connection loop (Model/Server.v): what
   connection c's peer receives is the output of the serve loop on the octets c itself delivered while it
   was being served - a function of c's own events, whatever the other connections do. *)
Require Import DV.Base.Bytes DV.Spec.Wire DV.Model.Avp DV.Model.Message DV.Model.Stream DV.Model.Server
  DV.Model.Listener DV.Proofs.ListenerFacts.

Section Answers.
  Variable h : list msg -> msg -> option msg.      (* the user's handler *)
  Variable lim : nat.
  Variable d : dict.

  (* what the connection's task writes once it has consumed the octets bs (writer accepts everything) *)
  Definition answers (bs : list byte) : list byte :=
    match serve h lim d [RChunk bs] [] with Some o => so_written o | None => [] end.

  Definition conn_written (x : option cst) : list byte :=
    match x with Some c => answers (inb c) | None => [] end.

  (* the Diameter input of a connection as its OWN events determine it *)
  Definition own_input (tls : bool) (evs : list lev) : list byte :=
    match crun tls None evs with Some (Some x) => inb x | _ => [] end.

  (* one event: the input of a connection changes only by its own data arriving while it is served *)
  Lemma cstep_inb tls x e y : cstep tls (Some x) e = Some (Some y) ->
    inb y = inb x ++ match e, ph x with LData _ bs, PServing => bs | _, _ => [] end.
  Proof.
    destruct e as [c|c|c|c bs|c|c]; cbn [cstep]; destruct (ph x) eqn:P; intros H; inversion H; subst; cbn [inb];
      rewrite ?app_nil_r; reflexivity.
  Qed.

  (* whatever the other connections do and however events interleave: the octets written to connection c
     are the serve loop's output on c's own input *)
  Theorem answers_stay_home : forall es tls s c,
    lrun lstep (linit tls) es = Some s ->
    conn_written (conns s c) = answers (own_input tls (proj c es)) \/ (conns s c = None /\ conn_written (conns s c) = []).
  Proof.
    intros es tls s c H. pose proof (noninterference es (linit tls) s c H) as N. cbn [linit l_tls conns] in N.
    unfold own_input. rewrite N. destruct (conns s c) as [x|]; [left; reflexivity | right; split; reflexivity].
  Qed.

  (* two traces that agree on c's events give c the same octets *)
  Corollary same_own_events_same_answers : forall es es' tls s s' c,
    lrun lstep (linit tls) es = Some s -> lrun lstep (linit tls) es' = Some s' ->
    proj c es = proj c es' -> conn_written (conns s c) = conn_written (conns s' c).
  Proof.
    intros es es' tls s s' c H H' E.
    pose proof (noninterference es (linit tls) s c H) as N. pose proof (noninterference es' (linit tls) s' c H') as N'.
    rewrite E in N. rewrite N in N'. inversion N'. reflexivity.
  Qed.
End Answers.
