(* Facts about Model/ClientMulti.v: a client object with several connections is a product of
   independent single-connection machines; C11/C12 hold per connection. *)
Require Import DV.Base.Bytes DV.Model.Client DV.Proofs.ClientFacts DV.Model.ClientMulti.
From Coq Require Import Arith.

Lemma upd_eq {A} (f : nat -> A) i x : upd f i x i = x. Proof. apply upd_same. Qed.

(* generalised over the starting state *)
Lemma cprojection_gen es : forall s c,
  conn (fold_left mstep es s) c = fold_left step (cproj (cur s) c es) (conn s c).
Proof.
  induction es as [|e es IH]; intros s c; cbn [fold_left cproj]; [reflexivity|].
  destruct e as [| |e|c' e]; cbn [mstep].
  - rewrite IH. reflexivity.
  - apply IH.
  - destruct (Nat.eqb (cur s) 0) eqn:E0; cbn [negb andb]; [apply IH|].
    rewrite IH. cbn [cur conn]. destruct (Nat.eqb (cur s) c) eqn:Ec.
    + apply Nat.eqb_eq in Ec. subst c. cbn [fold_left]. now rewrite upd_same.
    + apply Nat.eqb_neq in Ec. rewrite upd_other by auto. reflexivity.
  - rewrite IH. cbn [cur conn]. destruct (Nat.eqb c' c) eqn:Ec.
    + apply Nat.eqb_eq in Ec. subst c'. cbn [fold_left]. now rewrite upd_same.
    + apply Nat.eqb_neq in Ec. rewrite upd_other by auto. reflexivity.
Qed.

(* every connection of the object behaves exactly like a single-connection client fed with its own events *)
Theorem multi_projection es c : conn (mrun es) c = run (cproj 0 c es).
Proof. unfold mrun, run. rewrite cprojection_gen. reflexivity. Qed.

(* hence C11 safety and C12 release hold for every connection, whatever the other connections do *)
Theorem multi_safety es c i f : i < nw (conn (mrun es) c) -> ws (conn (mrun es) c) i = WGot f ->
  hop f = whop (conn (mrun es) c) i /\ fid f < nsent (conn (mrun es) c) /\ senth (conn (mrun es) c) (fid f) = hop f /\
  (forall j g, j < nw (conn (mrun es) c) -> ws (conn (mrun es) c) j = WGot g -> fid g = fid f -> j = i).
Proof. rewrite multi_projection. apply C11_safety_lemma. Qed.

Theorem multi_release es c i : closed (conn (mrun es) c) = true -> i < nw (conn (mrun es) c) ->
  ws (conn (mrun es) c) i <> WPending.
Proof. rewrite multi_projection. apply C12_reader_stop_releases_all_lemma. Qed.

Theorem multi_matching es c : all_ok (cproj 0 c es) init ->
  (forall f, ~ In (IFrame f) (inq (conn (mrun es) c))) ->
  (forall i, i < nw (conn (mrun es) c) -> exists a, a < nsent (conn (mrun es) c) /\ senth (conn (mrun es) c) a = whop (conn (mrun es) c) i) ->
  forall i, i < nw (conn (mrun es) c) ->
    exists f, ws (conn (mrun es) c) i = WGot f /\ hop f = whop (conn (mrun es) c) i /\ closed (conn (mrun es) c) = false.
Proof. rewrite multi_projection. apply C11_matching_lemma. Qed.

(* a reader of another connection stopping (or anything else another connection does) changes nothing here *)
Theorem multi_isolation s c c' e : c' <> c -> conn (mstep s (MPeer c' e)) c = conn s c.
Proof. intros Hne. cbn [mstep conn]. apply upd_other. auto. Qed.

Theorem connect_fail_changes_nothing s : mstep s MConnectFail = s.
Proof. reflexivity. Qed.

(* a new connection starts with an empty table and an open flag: requests of earlier connections are not in it *)
Lemma proj_fresh es : forall k c, k < c ->
  (forall e, In (MPeer c e) es -> False) -> (~ In MConnect es) -> cproj k c es = [].
Proof.
  induction es as [|e es IH]; intros k c Hk Hp Hc; cbn [cproj]; [reflexivity|].
  destruct e as [| |e|c' e].
  - exfalso. apply Hc. now left.
  - apply IH; auto. intros e0 H0. apply (Hp e0). now right. intros H0. apply Hc. now right.
  - assert (Nat.eqb k c = false) as -> by (apply Nat.eqb_neq; lia). rewrite andb_false_r.
    apply IH; auto. intros e0 H0. apply (Hp e0). now right. intros H0. apply Hc. now right.
  - destruct (Nat.eqb c' c) eqn:E.
    + apply Nat.eqb_eq in E. subst c'. exfalso. apply (Hp e). now left.
    + apply IH; auto. intros e0 H0. apply (Hp e0). now right. intros H0. apply Hc. now right.
Qed.

(* send after the CURRENT connection's reader has stopped fails, whatever earlier connections did *)
Theorem multi_send_after_stop s h : cur s <> 0 -> closed (conn s (cur s)) = true ->
  let s' := mstep s (MSend (Register h)) in
  ws (conn s' (cur s)) (nw (conn s (cur s))) = WDropped.
Proof.
  intros Hc Hcl. cbn [mstep]. apply Nat.eqb_neq in Hc. rewrite Hc. cbn [conn cur]. rewrite upd_same.
  apply (send_after_stop_fails _ h Hcl).
Qed.

(* ---------- before D12 ---------- *)
(* two connections; request 2 is outstanding on the second, healthy connection; the FIRST connection's peer
   closes: its reader stops and clears the shared table, the future of request 2 fails although its connection
   is alive and its answer is sent afterwards - and that answer then stops the second reader as well *)
Definition sched_shared : list mev :=
  [MConnect; MSend (Register 1%N); MSend (WireOut 1%N); MConnect; MSend (Register 2%N); MSend (WireOut 2%N);
   MPeer 1 PeerBad; MPeer 1 ReaderStep; MPeer 2 (Peer 2%N); MPeer 2 ReaderStep].

Lemma legacy_shared_table_refuted :
  outcomes (sh_shared (shrun sched_shared)) = [WDropped; WDropped] /\
  sh_closed (shrun sched_shared) 1 = true /\ sh_closed (shrun sched_shared) 2 = true.
Proof. vm_compute. auto. Qed.

(* the repaired object on the same schedule: request 2 gets its answer, the second reader keeps running *)
Lemma shared_table_repaired :
  outcomes (conn (mrun sched_shared) 1) = [WDropped] /\
  outcomes (conn (mrun sched_shared) 2) = [WGot {| hop := 2%N; fid := 0 |}] /\
  closed (conn (mrun sched_shared) 1) = true /\ closed (conn (mrun sched_shared) 2) = false.
Proof. vm_compute. auto. Qed.
