(* Facts about the per-connection server loop (Model/Server.v). *)
Require Import DV.Base.Bytes DV.Spec.Wire DV.Model.Avp DV.Model.Message DV.Model.Stream
  DV.Model.Server DV.Proofs.DecTotal DV.Proofs.StreamFacts.
Local Open Scope N_scope.

(* ---------- accounting: a decode that yields a message eats >= 20 octets of script ---------- *)
Lemma codec_decode_all lim d rs r rs1 : codec_decode lim d rs = (r, rs1) ->
  (length (all_bytes rs1) <= length (all_bytes rs))%nat
  /\ (forall m, r = DOk m -> (length (all_bytes rs1) + 20 <= length (all_bytes rs))%nat).
Proof.
  unfold codec_decode. destruct (read_exact rs 4 []) as [r1 s1] eqn:E1.
  destruct (read_exact_all _ _ _ _ _ E1) as (A1 & A2 & A3).
  destruct r1 as [hd| |].
  2,3: (intros E; inversion E; subst; split; [exact A1|intros m Hm; discriminate]).
  specialize (A3 hd eq_refl).
  destruct (1048576 <? un_be (skipn 1 hd)).
  { intros E; inversion E; subst; split; [exact A1|intros m Hm; discriminate]. }
  destruct (N.ltb_spec (un_be (skipn 1 hd)) 20) as [H2|H2].
  { intros E; inversion E; subst; split; [exact A1|intros m Hm; discriminate]. }
  destruct (read_exact s1 (N.to_nat (un_be (skipn 1 hd) - 4)) []) as [r2 s2] eqn:E2.
  destruct (read_exact_all _ _ _ _ _ E2) as (B1 & B2 & B3).
  destruct r2 as [body| |].
  2,3: (intros E; inversion E; subst; split; [lia|intros m Hm; discriminate]).
  specialize (B3 body eq_refl).
  intros E; inversion E; subst. split; [lia|]. intros m Hm. lia.
Qed.

(* strict prefix of a good frame (or nothing at all), then the stream ends *)
Lemma codec_decode_bk_partial short lim d p :
  (p = [] \/ exists f q, good_frame f /\ f = p ++ q /\ q <> []) ->
  codec_decode_bk short lim d p = (short, []).
Proof.
  intros [->|(f & q & Hg & Hf & Hq)]; [reflexivity|].
  destruct p as [|b0 [|b1 [|b2 [|b3 r']]]]; try reflexivity.
  destruct (good_frame_shape f Hg) as (c0 & c1 & c2 & c3 & r & Hf' & HL & Hr).
  destruct Hg as [_ Hl]. rewrite Hf' in Hf. cbn [app] in Hf. inversion Hf; subst c0 c1 c2 c3 r.
  unfold codec_decode_bk. rewrite HL.
  destruct (N.ltb_spec 1048576 (blen f)) as [H1|H1]; [lia|].
  destruct (N.ltb_spec (blen f) 20) as [H2|H2]; [lia|].
  rewrite blen_app in Hr. assert (0 < blen q).
  { destruct q; [congruence|]. rewrite blen_cons. lia. }
  destruct (N.ltb_spec (blen r') (blen f - 4)) as [H3|H3]; [reflexivity|lia].
Qed.

Lemma Forall_firstn_ {A} (P : A -> Prop) l k : Forall P l -> Forall P (firstn k l).
Proof.
  intros H. revert k. induction H as [|x l Hx Hl IH]; intros [|k]; cbn [firstn]; constructor; auto.
Qed.
Lemma Forall2_firstn_ {A B} (P : A -> B -> Prop) l l' k :
  Forall2 P l l' -> Forall2 P (firstn k l) (firstn k l').
Proof.
  intros H. revert k. induction H as [|x y l l' Hx Hl IH]; intros [|k]; cbn [firstn];
    constructor; auto.
Qed.
Lemma Forall2_length_ {A B} (P : A -> B -> Prop) l l' : Forall2 P l l' -> length l = length l'.
Proof. induction 1; cbn [length]; congruence. Qed.

(* the first p octets of pipelined frames = the frames wholly inside + a strict prefix of the next *)
Lemma firstn_concat_frames : forall (fs : list (list byte)) p,
  exists part, firstn p (concat fs) = concat (firstn (whole_frames p fs) fs) ++ part
    /\ (part = [] \/ exists f q, In f fs /\ f = part ++ q /\ q <> []).
Proof.
  induction fs as [|f fs IH]; intros p.
  - exists []. rewrite firstn_nil. cbn [whole_frames firstn concat app]. auto.
  - cbn [whole_frames concat]. destruct (Nat.leb_spec (length f) p) as [Hle|Hgt].
    + destruct (IH (p - length f)%nat) as (part & E & Hp). exists part. split.
      * rewrite firstn_app, (firstn_all2 f) by lia. rewrite E. cbn [firstn concat].
        rewrite app_assoc. reflexivity.
      * destruct Hp as [->|(g & q & Hin & Hg & Hq)]; [auto|]. right. exists g, q.
        split; [right; exact Hin|auto].
    + exists (firstn p f). split.
      * rewrite firstn_app. replace (p - length f)%nat with 0%nat by lia.
        cbn [firstn concat app]. rewrite app_nil_r. reflexivity.
      * right. exists f, (skipn p f). split; [left; reflexivity|]. split.
        -- symmetry. apply firstn_skipn.
        -- apply skipn_nonempty. exact Hgt.
Qed.

Section ServeFacts.
  Variable h : list msg -> msg -> option msg.

  (* ---------- totality, no panic ---------- *)
  Lemma serve_loop_total lim d : forall fuel rs ws seen out,
    (length (all_bytes rs) < fuel)%nat -> exists o, serve_loop h fuel lim d rs ws seen out = Some o.
  Proof.
    induction fuel as [|f IH]; intros rs ws seen out Hf; [lia|].
    cbn [serve_loop]. destruct (codec_decode lim d rs) as [r rs1] eqn:E.
    destruct (codec_decode_all _ _ _ _ _ E) as [A1 A2].
    destruct r as [m| | |]; try (eexists; reflexivity).
    specialize (A2 m eq_refl).
    destruct (h seen m) as [a|]; [|eexists; reflexivity].
    destruct (codec_encode a ws) as [[ok acc] ws1]. destruct ok; [|eexists; reflexivity].
    apply IH. lia.
  Qed.

  Lemma serve_total_lemma lim d rs ws : exists o, serve h lim d rs ws = Some o.
  Proof. unfold serve. apply serve_loop_total. lia. Qed.

  Lemma serve_loop_never_panics lim d : forall fuel rs ws seen out o,
    serve_loop h fuel lim d rs ws seen out = Some o -> so_res o <> SPanicked.
  Proof.
    induction fuel as [|f IH]; intros rs ws seen out o E; [discriminate|].
    cbn [serve_loop] in E. pose proof (codec_decode_never_panics_lemma lim d rs) as HP.
    destruct (codec_decode lim d rs) as [r rs1]. cbn [fst] in HP.
    destruct r as [m| | |]; try (inversion E; subst; cbn [so_res]; congruence).
    destruct (h seen m) as [a|]; [|inversion E; subst; cbn [so_res]; congruence].
    destruct (codec_encode a ws) as [[ok acc] ws1].
    destruct ok; [|inversion E; subst; cbn [so_res]; congruence].
    eapply IH. exact E.
  Qed.

  Lemma serve_never_panics_lemma lim d rs ws o : serve h lim d rs ws = Some o -> so_res o <> SPanicked.
  Proof. unfold serve. apply serve_loop_never_panics. Qed.

  (* ---------- one iteration on a whole good frame (ALL scripts) ---------- *)
  Lemma serve_step lim d fuel rs ws seen out f rest m :
    bytes_of rs = f ++ rest -> good_frame f -> dec_msg lim d f = Ok m ->
    (length (all_bytes rs) < S fuel)%nat ->
    exists rs1, bytes_of rs1 = rest /\ tail_kind rs1 = tail_kind rs
      /\ (length (all_bytes rs1) < fuel)%nat
      /\ serve_loop h (S fuel) lim d rs ws seen out =
         match h seen m with
         | None => Some (MkSOut (seen ++ [m]) out SFailed rs1 ws)
         | Some a =>
             match codec_encode a ws with
             | (true, acc, ws1) => serve_loop h fuel lim d rs1 ws1 (seen ++ [m]) (out ++ acc)
             | (false, acc, ws1) => Some (MkSOut (seen ++ [m]) (out ++ acc) SFailed rs1 ws1)
             end
         end.
  Proof.
    intros Hb Hg Hd Hf. destruct (codec_decode_frame lim d rs f rest Hb Hg) as (rs1 & E & B & T).
    rewrite Hd in E. cbn [dres_of] in E.
    destruct (codec_decode_all _ _ _ _ _ E) as [_ A2]. specialize (A2 m eq_refl).
    exists rs1. split; [exact B|]. split; [exact T|]. split; [lia|].
    cbn [serve_loop]. rewrite E. reflexivity.
  Qed.

  (* the stream ends (EOF / io error) inside a frame or between two frames *)
  Lemma serve_end lim d fuel rs ws seen out :
    tail_kind rs <> TZero ->
    (bytes_of rs = [] \/ exists f q, good_frame f /\ f = bytes_of rs ++ q /\ q <> []) ->
    exists rs1, serve_loop h (S fuel) lim d rs ws seen out =
      Some (MkSOut seen out (match tail_kind rs with TErr => SFailed | _ => SClosed end) rs1 ws).
  Proof.
    intros HZ Hp. destruct (codec_decode_bytes lim d rs HZ) as (rs1 & E & _).
    rewrite (codec_decode_bk_partial _ lim d _ Hp) in E. cbn [fst] in E.
    exists rs1. cbn [serve_loop]. rewrite E. destruct (tail_kind rs); [reflexivity|reflexivity|congruence].
  Qed.

  Lemma answer_octets_cons seen m ms bss : answer_octets h seen (m :: ms) = Some bss ->
    exists a bs l, h seen m = Some a /\ enc_msg a = Ok bs
      /\ answer_octets h (seen ++ [m]) ms = Some l /\ bss = bs :: l.
  Proof.
    cbn [answer_octets]. destruct (h seen m) as [a|] eqn:Eh; [|discriminate].
    destruct (enc_msg a) as [bs| | |] eqn:Ee; try discriminate.
    destruct (answer_octets h (seen ++ [m]) ms) as [l|] eqn:El; [|discriminate].
    intros E. inversion E; subst. exists a, bs, l. repeat split; assumption.
  Qed.

  Lemma answer_octets_length : forall ms seen bss,
    answer_octets h seen ms = Some bss -> length bss = length ms.
  Proof.
    induction ms as [|m ms IH]; intros seen bss E.
    - inversion E; subst. reflexivity.
    - destruct (answer_octets_cons _ _ _ _ E) as (a & bs & l & _ & _ & El & ->).
      cbn [length]. f_equal. eapply IH. exact El.
  Qed.

  Lemma answer_octets_firstn : forall ms seen bss k,
    answer_octets h seen ms = Some bss ->
    answer_octets h seen (firstn k ms) = Some (firstn k bss).
  Proof.
    induction ms as [|m ms IH]; intros seen bss k E.
    - inversion E; subst. rewrite !firstn_nil. reflexivity.
    - destruct (answer_octets_cons _ _ _ _ E) as (a & bs & l & Eh & Ee & El & ->).
      destruct k as [|k]; [reflexivity|]. cbn [firstn answer_octets].
      rewrite Eh, Ee, (IH _ _ k El). reflexivity.
  Qed.

  (* ---------- a run of good requests, writer never failing (ALL read scripts) ---------- *)
  Lemma serve_prefix lim d : forall reqs ms bss rest fuel rs ws seen out,
    bytes_of rs = concat reqs ++ rest -> Forall good_frame reqs ->
    Forall2 (fun f m => dec_msg lim d f = Ok m) reqs ms ->
    answer_octets h seen ms = Some bss -> accepting ws = true ->
    (length (all_bytes rs) < fuel)%nat ->
    exists fuel' rs' ws',
      serve_loop h fuel lim d rs ws seen out
      = serve_loop h fuel' lim d rs' ws' (seen ++ ms) (out ++ concat bss)
      /\ bytes_of rs' = rest /\ tail_kind rs' = tail_kind rs /\ accepting ws' = true
      /\ (length (all_bytes rs') < fuel')%nat.
  Proof.
    induction reqs as [|f fs IH]; intros ms bss rest fuel rs ws seen out Hb Hg Hd Ha Hw Hf.
    - inversion Hd; subst. inversion Ha; subst. exists fuel, rs, ws.
      cbn [concat]. rewrite !app_nil_r. auto.
    - inversion Hd as [|f0 m fs0 ms' Hdm Hds]; subst. inversion Hg as [|f0 fs0 Hgf Hgs]; subst.
      destruct (answer_octets_cons _ _ _ _ Ha) as (a & bs & l & Eh & Ee & El & ->).
      destruct fuel as [|fuel]; [lia|]. cbn [concat] in Hb. rewrite <- app_assoc in Hb.
      destruct (serve_step lim d fuel rs ws seen out f _ m Hb Hgf Hdm Hf) as (rs1 & B1 & T1 & F1 & E1).
      rewrite Eh in E1. unfold codec_encode in E1. rewrite Ee in E1.
      destruct (write_all_accepting ws bs Hw) as (ws1 & Ew & Hw1). rewrite Ew in E1.
      destruct (IH ms' l rest fuel rs1 ws1 (seen ++ [m]) (out ++ bs) B1 Hgs Hds El Hw1 F1)
        as (fuel' & rs' & ws' & E2 & B2 & T2 & Hw2 & F2).
      exists fuel', rs', ws'. rewrite E1, E2. cbn [concat]. rewrite <- !app_assoc. cbn [app].
      split; [reflexivity|]. split; [exact B2|]. split; [congruence|]. auto.
  Qed.

  (* ---------- C08 ---------- *)
  Lemma C08_exactly_once_lemma lim d reqs ms bss rs ws :
    fault_free rs = true -> bytes_of rs = concat reqs -> Forall good_frame reqs ->
    Forall2 (fun f m => dec_msg lim d f = Ok m) reqs ms ->
    answer_octets h [] ms = Some bss -> accepting ws = true ->
    exists o, serve h lim d rs ws = Some o
      /\ so_calls o = ms /\ so_written o = concat bss /\ so_res o = SClosed.
  Proof.
    intros Hff Hb Hg Hd Ha Hw. apply fault_free_tail in Hff. unfold serve.
    rewrite <- (app_nil_r (concat reqs)) in Hb.
    destruct (serve_prefix lim d reqs ms bss [] _ rs ws [] [] Hb Hg Hd Ha Hw (Nat.lt_succ_diag_r _))
      as (fuel' & rs' & ws' & E & B & T & Hw' & F).
    rewrite E. destruct fuel' as [|fuel']; [lia|].
    destruct (serve_end lim d fuel' rs' ws' ([] ++ ms) ([] ++ concat bss)) as (rs1 & E1).
    { congruence. } { left. exact B. }
    rewrite E1, T, Hff. eexists. split; [reflexivity|]. cbn [so_calls so_written so_res app]. auto.
  Qed.

  (* the run stops at the first request that does not decode ... *)
  Lemma C08_stops_decode_lemma lim d pre ms bss f tail rs ws :
    bytes_of rs = concat pre ++ f ++ tail -> Forall good_frame pre ->
    Forall2 (fun f m => dec_msg lim d f = Ok m) pre ms ->
    answer_octets h [] ms = Some bss -> accepting ws = true ->
    good_frame f -> dec_msg lim d f = Err ->
    exists o, serve h lim d rs ws = Some o
      /\ so_calls o = ms /\ so_written o = concat bss /\ so_res o = SFailed
      /\ bytes_of (so_rs o) = tail.
  Proof.
    intros Hb Hg Hd Ha Hw Hgf Hdf. unfold serve.
    destruct (serve_prefix lim d pre ms bss _ _ rs ws [] [] Hb Hg Hd Ha Hw (Nat.lt_succ_diag_r _))
      as (fuel' & rs' & ws' & E & B & T & Hw' & F).
    rewrite E. destruct fuel' as [|fuel']; [lia|].
    destruct (codec_decode_frame lim d rs' f tail B Hgf) as (rs1 & E1 & B1 & _).
    rewrite Hdf in E1. cbn [dres_of] in E1. cbn [serve_loop]. rewrite E1.
    eexists. split; [reflexivity|]. cbn [so_calls so_written so_res so_rs app]. auto.
  Qed.

  (* ... or whose handler fails ... *)
  Lemma C08_stops_handler_lemma lim d pre ms bss f m tail rs ws :
    bytes_of rs = concat pre ++ f ++ tail -> Forall good_frame pre ->
    Forall2 (fun f m => dec_msg lim d f = Ok m) pre ms ->
    answer_octets h [] ms = Some bss -> accepting ws = true ->
    good_frame f -> dec_msg lim d f = Ok m -> h ms m = None ->
    exists o, serve h lim d rs ws = Some o
      /\ so_calls o = ms ++ [m] /\ so_written o = concat bss /\ so_res o = SFailed
      /\ bytes_of (so_rs o) = tail.
  Proof.
    intros Hb Hg Hd Ha Hw Hgf Hdf Hh. unfold serve.
    destruct (serve_prefix lim d pre ms bss _ _ rs ws [] [] Hb Hg Hd Ha Hw (Nat.lt_succ_diag_r _))
      as (fuel' & rs' & ws' & E & B & T & Hw' & F).
    rewrite E. destruct fuel' as [|fuel']; [lia|].
    destruct (serve_step lim d fuel' rs' ws' ([] ++ ms) ([] ++ concat bss) f tail m B Hgf Hdf F)
      as (rs1 & B1 & _ & _ & E1).
    cbn [app] in E1. rewrite Hh in E1. cbn [app]. rewrite E1.
    eexists. split; [reflexivity|]. cbn [so_calls so_written so_res so_rs]. auto.
  Qed.

  (* ... or whose answer does not encode: nothing of that answer reaches the writer *)
  Lemma C08_stops_encode_lemma lim d pre ms bss f m a tail rs ws :
    bytes_of rs = concat pre ++ f ++ tail -> Forall good_frame pre ->
    Forall2 (fun f m => dec_msg lim d f = Ok m) pre ms ->
    answer_octets h [] ms = Some bss -> accepting ws = true ->
    good_frame f -> dec_msg lim d f = Ok m -> h ms m = Some a -> enc_msg a = Err ->
    exists o, serve h lim d rs ws = Some o
      /\ so_calls o = ms ++ [m] /\ so_written o = concat bss /\ so_res o = SFailed
      /\ bytes_of (so_rs o) = tail.
  Proof.
    intros Hb Hg Hd Ha Hw Hgf Hdf Hh He. unfold serve.
    destruct (serve_prefix lim d pre ms bss _ _ rs ws [] [] Hb Hg Hd Ha Hw (Nat.lt_succ_diag_r _))
      as (fuel' & rs' & ws' & E & B & T & Hw' & F).
    rewrite E. destruct fuel' as [|fuel']; [lia|].
    destruct (serve_step lim d fuel' rs' ws' ([] ++ ms) ([] ++ concat bss) f tail m B Hgf Hdf F)
      as (rs1 & B1 & _ & _ & E1).
    cbn [app] in E1. rewrite Hh in E1. unfold codec_encode in E1. rewrite He in E1.
    cbn [app]. rewrite E1.
    eexists. split; [reflexivity|]. cbn [so_calls so_written so_res so_rs]. rewrite app_nil_r. auto.
  Qed.

  (* ... or whose framing is refused (announced length below 20 or above 1 MiB) *)
  Lemma C08_stops_framing_lemma lim d pre ms bss b0 L tail rs ws :
    bytes_of rs = concat pre ++ b0 :: be24 L ++ tail -> Forall good_frame pre ->
    Forall2 (fun f m => dec_msg lim d f = Ok m) pre ms ->
    answer_octets h [] ms = Some bss -> accepting ws = true ->
    L < 16777216 -> (L < 20 \/ 1048576 < L) ->
    exists o, serve h lim d rs ws = Some o
      /\ so_calls o = ms /\ so_written o = concat bss /\ so_res o = SFailed.
  Proof.
    intros Hb Hg Hd Ha Hw HL Hbad. unfold serve.
    destruct (serve_prefix lim d pre ms bss _ _ rs ws [] [] Hb Hg Hd Ha Hw (Nat.lt_succ_diag_r _))
      as (fuel' & rs' & ws' & E & B & T & Hw' & F).
    rewrite E. destruct fuel' as [|fuel']; [lia|].
    pose proof (C07_lemma lim d rs' b0 L tail B HL) as H7.
    destruct (codec_decode lim d rs') as [r rs1] eqn:E1. destruct H7 as (_ & H1 & H2 & _).
    assert (r = DErr) as -> by (destruct Hbad as [Hlt|Hgt]; [apply H2|apply H1]; assumption).
    cbn [serve_loop]. rewrite E1.
    eexists. split; [reflexivity|]. cbn [so_calls so_written so_res app]. auto.
  Qed.

  (* ---------- C09: the read side is cut after p octets ---------- *)
  Lemma serve_read_cut lim d reqs ms bss p rs ws :
    tail_kind rs <> TZero -> bytes_of rs = firstn p (concat reqs) -> Forall good_frame reqs ->
    Forall2 (fun f m => dec_msg lim d f = Ok m) reqs ms ->
    answer_octets h [] ms = Some bss -> accepting ws = true ->
    exists o, serve h lim d rs ws = Some o
      /\ so_calls o = firstn (whole_frames p reqs) ms
      /\ so_written o = concat (firstn (whole_frames p reqs) bss)
      /\ so_res o = match tail_kind rs with TErr => SFailed | _ => SClosed end.
  Proof.
    intros HZ Hb Hg Hd Ha Hw. unfold serve. set (k := whole_frames p reqs).
    destruct (firstn_concat_frames reqs p) as (part & Ep & Hp). fold k in Ep. rewrite Ep in Hb.
    destruct (serve_prefix lim d (firstn k reqs) (firstn k ms) (firstn k bss) part _ rs ws [] [] Hb
                (Forall_firstn_ _ _ k Hg) (Forall2_firstn_ _ _ _ k Hd)
                (answer_octets_firstn _ _ _ k Ha) Hw (Nat.lt_succ_diag_r _))
      as (fuel' & rs' & ws' & E & B & T & Hw' & F).
    rewrite E. destruct fuel' as [|fuel']; [lia|].
    destruct (serve_end lim d fuel' rs' ws' ([] ++ firstn k ms) ([] ++ concat (firstn k bss)))
      as (rs1 & E1).
    { congruence. }
    { rewrite B. destruct Hp as [->|(f & q & Hin & Hf & Hq)]; [left; reflexivity|]. right.
      exists f, q. split; [|auto]. rewrite Forall_forall in Hg. apply Hg. exact Hin. }
    rewrite E1, T. eexists. split; [reflexivity|]. cbn [so_calls so_written so_res app]. auto.
  Qed.

  Lemma C09_read_cut_lemma lim d reqs ms bss p rs ws :
    fault_free rs = true -> bytes_of rs = firstn p (concat reqs) -> Forall good_frame reqs ->
    Forall2 (fun f m => dec_msg lim d f = Ok m) reqs ms ->
    answer_octets h [] ms = Some bss -> accepting ws = true ->
    exists o, serve h lim d rs ws = Some o
      /\ so_res o = SClosed
      /\ so_calls o = firstn (whole_frames p reqs) ms
      /\ so_written o = concat (firstn (whole_frames p reqs) bss).
  Proof.
    intros Hff Hb Hg Hd Ha Hw. apply fault_free_tail in Hff.
    destruct (serve_read_cut lim d reqs ms bss p rs ws) as (o & E & C & W & R); auto; [congruence|].
    rewrite Hff in R. exists o. auto.
  Qed.

  Lemma C09_read_cut_err_lemma lim d reqs ms bss p rs ws :
    err_cut rs = true -> bytes_of rs = firstn p (concat reqs) -> Forall good_frame reqs ->
    Forall2 (fun f m => dec_msg lim d f = Ok m) reqs ms ->
    answer_octets h [] ms = Some bss -> accepting ws = true ->
    exists o, serve h lim d rs ws = Some o
      /\ so_res o = SFailed
      /\ so_calls o = firstn (whole_frames p reqs) ms
      /\ so_written o = concat (firstn (whole_frames p reqs) bss).
  Proof.
    intros Hff Hb Hg Hd Ha Hw. apply err_cut_tail in Hff.
    destruct (serve_read_cut lim d reqs ms bss p rs ws) as (o & E & C & W & R); auto; [congruence|].
    rewrite Hff in R. exists o. auto.
  Qed.

  (* ---------- C09: the write side fails ---------- *)
  (* ANY write script: what was written is a prefix of the answers in order; either every answer
     went out whole and the connection closed normally, or the run failed inside answer k (a
     strict prefix [acc] of it was accepted) and exactly the requests 0..k were handled *)
  Lemma serve_any_writer lim d : forall reqs ms bss fuel rs ws seen out,
    bytes_of rs = concat reqs -> tail_kind rs = TEof -> Forall good_frame reqs ->
    Forall2 (fun f m => dec_msg lim d f = Ok m) reqs ms ->
    answer_octets h seen ms = Some bss -> (length (all_bytes rs) < fuel)%nat ->
    exists o, serve_loop h fuel lim d rs ws seen out = Some o
      /\ ((so_res o = SClosed /\ so_calls o = seen ++ ms /\ so_written o = out ++ concat bss)
          \/ (exists k acc rest, so_res o = SFailed /\ (k < length ms)%nat
                /\ so_calls o = seen ++ firstn (S k) ms
                /\ so_written o = out ++ concat (firstn k bss) ++ acc
                /\ nth k bss [] = acc ++ rest /\ rest <> [])).
  Proof.
    induction reqs as [|f fs IH]; intros ms bss fuel rs ws seen out Hb Ht Hg Hd Ha Hf.
    - inversion Hd; subst. inversion Ha; subst. destruct fuel as [|fuel]; [lia|].
      destruct (serve_end lim d fuel rs ws seen out) as (rs1 & E1).
      { congruence. } { left. exact Hb. }
      rewrite E1, Ht. eexists. split; [reflexivity|]. left.
      cbn [so_calls so_written so_res concat]. rewrite !app_nil_r. auto.
    - inversion Hd as [|f0 m fs0 ms' Hdm Hds]; subst. inversion Hg as [|f0 fs0 Hgf Hgs]; subst.
      destruct (answer_octets_cons _ _ _ _ Ha) as (a & bs & l & Eh & Ee & El & ->).
      destruct fuel as [|fuel]; [lia|]. cbn [concat] in Hb.
      destruct (serve_step lim d fuel rs ws seen out f _ m Hb Hgf Hdm Hf) as (rs1 & B1 & T1 & F1 & E1).
      rewrite Eh in E1. unfold codec_encode in E1. rewrite Ee in E1.
      destruct (write_all ws bs) as [[ok acc] ws1] eqn:Ew.
      destruct (write_all_prefix _ _ _ _ _ Ew) as (rest & Hs & Hok & Hko).
      rewrite E1. destruct ok.
      + rewrite (Hok eq_refl), app_nil_r in Hs. subst acc.
        destruct (IH ms' l fuel rs1 ws1 (seen ++ [m]) (out ++ bs) B1 ltac:(congruence) Hgs Hds El F1)
          as (o & Eo & Ho).
        exists o. split; [exact Eo|]. destruct Ho as [(R & C & W)|(k & acc & rest' & R & Hk & C & W & Hn & Hr)].
        * left. rewrite R, C, W. cbn [concat]. rewrite <- !app_assoc. auto.
        * right. exists (S k), acc, rest'. rewrite R, C, W. cbn [length firstn concat nth].
          rewrite <- !app_assoc. cbn [app]. repeat split; auto. lia.
      + eexists. split; [reflexivity|]. right. exists 0%nat, acc, rest.
        cbn [so_calls so_written so_res length firstn concat nth app]. repeat split; auto. lia.
  Qed.

  Lemma C09_write_any_lemma lim d reqs ms bss rs ws :
    fault_free rs = true -> bytes_of rs = concat reqs -> Forall good_frame reqs ->
    Forall2 (fun f m => dec_msg lim d f = Ok m) reqs ms ->
    answer_octets h [] ms = Some bss ->
    exists o, serve h lim d rs ws = Some o
      /\ ((so_res o = SClosed /\ so_calls o = ms /\ so_written o = concat bss)
          \/ (exists k acc rest, so_res o = SFailed /\ (k < length ms)%nat
                /\ so_calls o = firstn (S k) ms
                /\ so_written o = concat (firstn k bss) ++ acc
                /\ nth k bss [] = acc ++ rest /\ rest <> [])).
  Proof.
    intros Hff Hb Hg Hd Ha. apply fault_free_tail in Hff. unfold serve.
    exact (serve_any_writer lim d reqs ms bss _ rs ws [] [] Hb Hff Hg Hd Ha (Nat.lt_succ_diag_r _)).
  Qed.

  (* a writer that accepts exactly q octets, one per poll, then fails *)
  Lemma serve_dribble lim d : forall reqs ms bss q fuel rs ws seen out,
    bytes_of rs = concat reqs -> tail_kind rs = TEof -> Forall good_frame reqs ->
    Forall2 (fun f m => dec_msg lim d f = Ok m) reqs ms ->
    answer_octets h seen ms = Some bss -> wdribble ws = Some q ->
    (length (all_bytes rs) < fuel)%nat ->
    exists o, serve_loop h fuel lim d rs ws seen out = Some o
      /\ so_written o = out ++ firstn q (concat bss)
      /\ ((q < length (concat bss))%nat ->
          so_res o = SFailed /\ so_calls o = seen ++ firstn (S (whole_frames q bss)) ms)
      /\ ((length (concat bss) <= q)%nat -> so_res o = SClosed /\ so_calls o = seen ++ ms).
  Proof.
    induction reqs as [|f fs IH]; intros ms bss q fuel rs ws seen out Hb Ht Hg Hd Ha Hq Hf.
    - inversion Hd; subst. inversion Ha; subst. destruct fuel as [|fuel]; [lia|].
      destruct (serve_end lim d fuel rs ws seen out) as (rs1 & E1).
      { congruence. } { left. exact Hb. }
      rewrite E1, Ht. eexists. split; [reflexivity|].
      cbn [so_calls so_written so_res concat length]. rewrite firstn_nil, !app_nil_r.
      split; [reflexivity|]. split; [lia|auto].
    - inversion Hd as [|f0 m fs0 ms' Hdm Hds]; subst. inversion Hg as [|f0 fs0 Hgf Hgs]; subst.
      destruct (answer_octets_cons _ _ _ _ Ha) as (a & bs & l & Eh & Ee & El & ->).
      destruct fuel as [|fuel]; [lia|]. cbn [concat] in Hb.
      destruct (serve_step lim d fuel rs ws seen out f _ m Hb Hgf Hdm Hf) as (rs1 & B1 & T1 & F1 & E1).
      rewrite Eh in E1. unfold codec_encode in E1. rewrite Ee in E1.
      destruct (write_all ws bs) as [[ok acc] ws1] eqn:Ew.
      pose proof (write_all_dribble _ _ _ _ _ _ Hq Ew) as Hwd.
      rewrite E1. cbn [concat whole_frames]. rewrite app_length.
      destruct (Nat.leb_spec (length bs) q) as [Hle|Hgt].
      + destruct Hwd as (-> & -> & Hq1).
        destruct (IH ms' l (q - length bs)%nat fuel rs1 ws1 (seen ++ [m]) (out ++ bs) B1
                     ltac:(congruence) Hgs Hds El Hq1 F1) as (o & Eo & W & Hlt & Hge).
        exists o. split; [exact Eo|]. split; [|split].
        * rewrite W, firstn_app, (firstn_all2 bs) by lia. rewrite <- !app_assoc. reflexivity.
        * intros Hlt'. destruct Hlt as [R C]; [lia|]. rewrite R, C. cbn [firstn].
          rewrite <- app_assoc. auto.
        * intros Hge'. destruct Hge as [R C]; [lia|]. rewrite R, C. rewrite <- app_assoc. auto.
      + destruct Hwd as (-> & ->). eexists. split; [reflexivity|].
        cbn [so_calls so_written so_res]. split; [|split].
        * rewrite firstn_app. replace (q - length bs)%nat with 0%nat by lia.
          cbn [firstn]. rewrite app_nil_r. reflexivity.
        * intros _. cbn [firstn]. auto.
        * intros Hge. lia.
  Qed.

  Lemma C09_write_fault_lemma lim d reqs ms bss q rs ws :
    fault_free rs = true -> bytes_of rs = concat reqs -> Forall good_frame reqs ->
    Forall2 (fun f m => dec_msg lim d f = Ok m) reqs ms ->
    answer_octets h [] ms = Some bss -> wdribble ws = Some q ->
    exists o, serve h lim d rs ws = Some o
      /\ so_written o = firstn q (concat bss)
      /\ ((q < length (concat bss))%nat ->
          so_res o = SFailed /\ so_calls o = firstn (S (whole_frames q bss)) ms)
      /\ ((length (concat bss) <= q)%nat -> so_res o = SClosed /\ so_calls o = ms).
  Proof.
    intros Hff Hb Hg Hd Ha Hq. apply fault_free_tail in Hff. unfold serve.
    exact (serve_dribble lim d reqs ms bss q _ rs ws [] [] Hb Hff Hg Hd Ha Hq (Nat.lt_succ_diag_r _)).
  Qed.

  (* a writer whose polls accept q octets in total (any sizes) and then fails: the run fails as
     soon as the answers exceed q, and at most q octets were written *)
  Lemma serve_budget lim d : forall reqs ms bss q fuel rs ws seen out,
    bytes_of rs = concat reqs -> tail_kind rs = TEof -> Forall good_frame reqs ->
    Forall2 (fun f m => dec_msg lim d f = Ok m) reqs ms ->
    answer_octets h seen ms = Some bss -> wbudget ws = Some q -> q < blen (concat bss) ->
    (length (all_bytes rs) < fuel)%nat ->
    exists o, serve_loop h fuel lim d rs ws seen out = Some o
      /\ so_res o = SFailed
      /\ exists n, so_written o = out ++ firstn n (concat bss) /\ N.of_nat n <= q.
  Proof.
    induction reqs as [|f fs IH]; intros ms bss q fuel rs ws seen out Hb Ht Hg Hd Ha Hq Hlt Hf.
    - inversion Hd; subst. inversion Ha; subst. cbn [concat] in Hlt. unfold blen in Hlt.
      cbn [length] in Hlt. lia.
    - inversion Hd as [|f0 m fs0 ms' Hdm Hds]; subst. inversion Hg as [|f0 fs0 Hgf Hgs]; subst.
      destruct (answer_octets_cons _ _ _ _ Ha) as (a & bs & l & Eh & Ee & El & ->).
      destruct fuel as [|fuel]; [lia|]. cbn [concat] in Hb, Hlt. rewrite blen_app in Hlt.
      destruct (serve_step lim d fuel rs ws seen out f _ m Hb Hgf Hdm Hf) as (rs1 & B1 & T1 & F1 & E1).
      rewrite Eh in E1. unfold codec_encode in E1. rewrite Ee in E1.
      destruct (write_all ws bs) as [[ok acc] ws1] eqn:Ew.
      destruct (write_all_budget _ _ _ _ _ _ Hq Ew) as [Hok Hacc].
      rewrite E1. cbn [concat]. destruct ok.
      + symmetry in Hok. apply N.leb_le in Hok.
        destruct (write_all_budget_rem _ _ _ _ _ Hq Ew) as (q' & Hq' & Hle).
        assert (acc = bs) as ->.
        { subst acc. apply firstn_all2. unfold blen in Hok. lia. }
        destruct (IH ms' l q' fuel rs1 ws1 (seen ++ [m]) (out ++ bs) B1 ltac:(congruence) Hgs Hds El
                     Hq' ltac:(lia) F1) as (o & Eo & R & n & W & Hn).
        exists o. split; [exact Eo|]. split; [exact R|]. exists (length bs + n)%nat. split.
        * rewrite W, firstn_app, (firstn_all2 bs) by lia.
          replace (length bs + n - length bs)%nat with n by lia. rewrite <- app_assoc. reflexivity.
        * unfold blen in Hle. lia.
      + symmetry in Hok. apply N.leb_gt in Hok. eexists. split; [reflexivity|].
        cbn [so_res so_written]. split; [reflexivity|]. exists (N.to_nat q). split; [|lia].
        rewrite firstn_app. unfold blen in Hok.
        replace (N.to_nat q - length bs)%nat with 0%nat by lia. cbn [firstn]. rewrite app_nil_r.
        subst acc. reflexivity.
  Qed.

  Lemma C09_write_budget_lemma lim d reqs ms bss q rs ws :
    fault_free rs = true -> bytes_of rs = concat reqs -> Forall good_frame reqs ->
    Forall2 (fun f m => dec_msg lim d f = Ok m) reqs ms ->
    answer_octets h [] ms = Some bss -> wbudget ws = Some q -> q < blen (concat bss) ->
    exists o, serve h lim d rs ws = Some o
      /\ so_res o = SFailed
      /\ exists n, so_written o = firstn n (concat bss) /\ N.of_nat n <= q.
  Proof.
    intros Hff Hb Hg Hd Ha Hq Hlt. apply fault_free_tail in Hff. unfold serve.
    exact (serve_budget lim d reqs ms bss q _ rs ws [] [] Hb Hff Hg Hd Ha Hq Hlt (Nat.lt_succ_diag_r _)).
  Qed.
End ServeFacts.

(* ---------- non-vacuity ---------- *)
Definition ex_msg : msg := MkMsg 1 20 128 280 0 7 9 [].
Definition ex_echo : list msg -> msg -> option msg := fun _ m => Some m.
(* a handler that depends on the history: fails on its second call *)
Definition ex_second_fails : list msg -> msg -> option msg :=
  fun seen m => match seen with [_] => None | _ => Some m end.
Definition ex_rs : list rev :=
  [RChunk (firstn 3 ex_frame); RPending; RChunk (skipn 3 ex_frame ++ firstn 7 ex_frame); RPending;
   RChunk (skipn 7 ex_frame); REof].
Definition ex_ws : list wev := [WAccept 7; WPending; WAccept 1; WAccept 100; WPending].

Example C08_nonvacuous :
  fault_free ex_rs = true /\ bytes_of ex_rs = concat [ex_frame; ex_frame]
  /\ Forall good_frame [ex_frame; ex_frame]
  /\ Forall2 (fun f m => dec_msg 5 ex_dict f = Ok m) [ex_frame; ex_frame] [ex_msg; ex_msg]
  /\ answer_octets ex_echo [] [ex_msg; ex_msg] = Some [ex_frame; ex_frame]
  /\ accepting ex_ws = true
  /\ serve ex_echo 5 ex_dict ex_rs ex_ws
     = Some (MkSOut [ex_msg; ex_msg] (ex_frame ++ ex_frame) SClosed [REof] []).
Proof.
  split; [reflexivity|]. split; [reflexivity|].
  split; [constructor; [exact ex_frame_good|]; constructor; [exact ex_frame_good|]; constructor|].
  split; [constructor; [vm_compute; reflexivity|]; constructor; [vm_compute; reflexivity|]; constructor|].
  split; [vm_compute; reflexivity|]. split; [reflexivity|]. vm_compute. reflexivity.
Qed.

Example C08_stops_nonvacuous :
  bytes_of ex_rs = concat [ex_frame] ++ ex_frame ++ []
  /\ answer_octets ex_second_fails [] [ex_msg] = Some [ex_frame]
  /\ ex_second_fails [ex_msg] ex_msg = None
  /\ serve ex_second_fails 5 ex_dict ex_rs ex_ws
     = Some (MkSOut [ex_msg; ex_msg] ex_frame SFailed [REof] [WPending]).
Proof. repeat split; vm_compute; reflexivity. Qed.

Example C09_nonvacuous :
  bytes_of [RChunk (firstn 3 ex_frame); RPending; RChunk (skipn 3 ex_frame ++ firstn 7 ex_frame)]
  = firstn 27 (concat [ex_frame; ex_frame])
  /\ whole_frames 27 [ex_frame; ex_frame] = 1%nat
  /\ wdribble (repeat (WAccept 1) 25 ++ [WErr]) = Some 25%nat
  /\ (exists o, serve ex_echo 5 ex_dict ex_rs (repeat (WAccept 1) 25 ++ [WErr]) = Some o
        /\ so_calls o = [ex_msg; ex_msg] /\ so_written o = firstn 25 (ex_frame ++ ex_frame)
        /\ so_res o = SFailed).
Proof.
  split; [reflexivity|]. split; [reflexivity|]. split; [reflexivity|].
  eexists. split; [vm_compute; reflexivity|]. repeat split.
Qed.
