(* C13: the name handed to the TLS library is the host part for ALL host / port strings; the
   48-cell configuration table agrees with the specification for every port. *)
Require Import DV.Base.Bytes DV.Spec.Wire DV.Model.Tls.
Local Open Scope N_scope.

Definition no_colon (s : list byte) : Prop := ~ In colon s.
Definition no_rbr (s : list byte) : Prop := ~ In rbr s.

Lemma byte_eqb_refl b : Byte.eqb b b = true.
Proof. apply Byte.byte_dec_lb. reflexivity. Qed.
Lemma byte_eqb_neq a b : a <> b -> Byte.eqb a b = false.
Proof. intros H. destruct (Byte.eqb a b) eqn:E; [|reflexivity]. apply Byte.byte_dec_bl in E. contradiction. Qed.

Lemma before_last_colon_none s : no_colon s -> before_last_colon s = None.
Proof.
  unfold no_colon. induction s as [|b r IH]; intros H; [reflexivity|]. cbn [before_last_colon].
  rewrite IH by (intros Hr; apply H; right; exact Hr).
  rewrite byte_eqb_neq; [reflexivity|]. intros ->. apply H. left. reflexivity.
Qed.

Lemma before_last_colon_app h p : no_colon p -> before_last_colon (h ++ colon :: p) = Some h.
Proof.
  intros Hp. induction h as [|b r IH]; cbn [app before_last_colon].
  - rewrite (before_last_colon_none p Hp). rewrite byte_eqb_refl. reflexivity.
  - rewrite IH. reflexivity.
Qed.

Lemma before_first_rbr_app h r : no_rbr h -> before_first_rbr (h ++ rbr :: r) = Some h.
Proof.
  unfold no_rbr. induction h as [|b t IH]; intros H; cbn [app before_first_rbr].
  - rewrite byte_eqb_refl. reflexivity.
  - rewrite byte_eqb_neq by (intros ->; apply H; left; reflexivity).
    rewrite IH by (intros Hr; apply H; right; exact Hr). reflexivity.
Qed.

(* "host:port" -> host, whatever the host (it may itself contain colons as long as it does not start with '[') *)
Theorem domain_is_host host port :
  no_colon port -> (forall r, host <> lbr :: r) ->
  domain_of (host ++ colon :: port) = host.
Proof.
  intros Hp Hb. unfold domain_of. rewrite (before_last_colon_app host port Hp).
  destruct host as [|b r]; cbn [app]; [reflexivity|].
  rewrite byte_eqb_neq; [reflexivity|]. intros ->. apply (Hb r). reflexivity.
Qed.

(* "[v6]:port" -> v6 *)
Theorem domain_is_bracketed v6 port :
  no_rbr v6 -> domain_of (lbr :: v6 ++ rbr :: colon :: port) = v6.
Proof.
  intros Hv. unfold domain_of. rewrite byte_eqb_refl. rewrite (before_first_rbr_app v6 (colon :: port) Hv). reflexivity.
Qed.

(* no port at all: the address is the name *)
Theorem domain_no_port host : no_colon host -> (forall r, host <> lbr :: r) -> domain_of host = host.
Proof.
  intros Hc Hb. unfold domain_of. rewrite (before_last_colon_none host Hc).
  destruct host as [|b r]; [reflexivity|]. rewrite byte_eqb_neq; [reflexivity|]. intros ->. apply (Hb r). reflexivity.
Qed.

(* ---------- the complete characterisation: EVERY address string falls in exactly one of three shapes ---------- *)
Lemma before_first_rbr_some s : forall h, before_first_rbr s = Some h -> exists r, s = h ++ rbr :: r /\ no_rbr h.
Proof.
  induction s as [|b t IH]; intros h H; cbn [before_first_rbr] in H; [discriminate|].
  destruct (Byte.eqb b rbr) eqn:E.
  - apply Byte.byte_dec_bl in E. subst b. injection H as <-. exists t. split; [reflexivity|]. intros [].
  - destruct (before_first_rbr t) as [q|] eqn:Eq; [|discriminate]. injection H as <-.
    destruct (IH q eq_refl) as [r [-> Hq]]. exists r. split; [reflexivity|].
    intros [Hb|Hin]; [|exact (Hq Hin)]. subst b. rewrite byte_eqb_refl in E. discriminate.
Qed.

Lemma before_first_rbr_none s : before_first_rbr s = None -> no_rbr s.
Proof.
  induction s as [|b t IH]; intros H; [intros []|]. cbn [before_first_rbr] in H.
  destruct (Byte.eqb b rbr) eqn:E; [discriminate|].
  destruct (before_first_rbr t) as [q|] eqn:Eq; [discriminate|].
  intros [Hb|Hin]; [|exact (IH eq_refl Hin)]. subst b. rewrite byte_eqb_refl in E. discriminate.
Qed.

Lemma before_last_colon_some s : forall h, before_last_colon s = Some h -> exists p, s = h ++ colon :: p /\ no_colon p.
Proof.
  induction s as [|b t IH]; intros h H; cbn [before_last_colon] in H; [discriminate|].
  destruct (before_last_colon t) as [q|] eqn:Eq.
  - injection H as <-. destruct (IH q eq_refl) as [p [-> Hp]]. exists p. split; [reflexivity|exact Hp].
  - destruct (Byte.eqb b colon) eqn:E; [|discriminate]. injection H as <-.
    apply Byte.byte_dec_bl in E. subst b. exists t. split; [reflexivity|].
    clear IH. revert Eq. induction t as [|c u IHu]; intros Eq; [intros []|]. cbn [before_last_colon] in Eq.
    destruct (before_last_colon u) as [q|] eqn:Eu; [discriminate|].
    destruct (Byte.eqb c colon) eqn:Ec; [discriminate|].
    intros [Hc|Hin]; [|exact (IHu eq_refl Hin)]. subst c. rewrite byte_eqb_refl in Ec. discriminate.
Qed.

Lemma before_last_colon_none_inv s : before_last_colon s = None -> no_colon s.
Proof.
  induction s as [|b t IH]; intros H; [intros []|]. cbn [before_last_colon] in H.
  destruct (before_last_colon t) as [q|] eqn:Eq; [discriminate|].
  destruct (Byte.eqb b colon) eqn:E; [discriminate|].
  intros [Hb|Hin]; [|exact (IH eq_refl Hin)]. subst b. rewrite byte_eqb_refl in E. discriminate.
Qed.

(* "has the bracketed shape": starts with '[' and a ']' follows somewhere *)
Definition bracketed (addr : list byte) : Prop := exists v6 r, addr = lbr :: v6 ++ rbr :: r.

Lemma bracketed_no_rbr t : no_rbr t -> ~ bracketed (lbr :: t).
Proof.
  intros Hn [v6 [r E]]. injection E as ->. apply Hn. apply in_or_app. right. left. reflexivity.
Qed.

Theorem domain_complete addr :
  (exists v6 r, addr = lbr :: v6 ++ rbr :: r /\ no_rbr v6 /\ domain_of addr = v6)
  \/ (~ bracketed addr /\
      ((exists h p, addr = h ++ colon :: p /\ no_colon p /\ domain_of addr = h)
       \/ (no_colon addr /\ domain_of addr = addr))).
Proof.
  assert (Hplain : forall a d, d = match before_last_colon a with Some h => h | None => a end ->
            (exists h p, a = h ++ colon :: p /\ no_colon p /\ d = h) \/ (no_colon a /\ d = a)).
  { intros a d ->. destruct (before_last_colon a) as [h|] eqn:E.
    - left. destruct (before_last_colon_some a h E) as [p [-> Hp]]. exists h, p. repeat split; [exact Hp].
    - right. split; [exact (before_last_colon_none_inv a E)|reflexivity]. }
  destruct addr as [|b t].
  - right. split; [intros [v6 [r E]]; discriminate|]. right. split; [intros []|reflexivity].
  - unfold domain_of. destruct (Byte.eqb b lbr) eqn:Eb.
    + apply Byte.byte_dec_bl in Eb. subst b. destruct (before_first_rbr t) as [h|] eqn:Er.
      * left. destruct (before_first_rbr_some t h Er) as [r [-> Hh]]. exists h, r. repeat split; exact Hh.
      * right. split; [exact (bracketed_no_rbr t (before_first_rbr_none t Er))|]. apply Hplain. reflexivity.
    + right. split.
      * intros [v6 [r E]]. injection E as -> _. rewrite byte_eqb_refl in Eb. discriminate.
      * apply Hplain. reflexivity.
Qed.

(* what str slicing guarantees by type in the code: the name is a contiguous part of the address, for EVERY address *)
Theorem domain_is_substring addr : exists pre post, addr = pre ++ domain_of addr ++ post.
Proof.
  destruct (domain_complete addr) as [[v6 [r [E [_ D]]]]|[_ [[h [p [E [_ D]]]]|[_ D]]]]; rewrite D.
  - exists [lbr], (rbr :: r). exact E.
  - exists [], (colon :: p). exact E.
  - exists [], []. cbn [app]. rewrite app_nil_r. reflexivity.
Qed.

(* an opening bracket that is never closed is not an IPv6 literal: the text before the last colon, '[' included *)
Theorem domain_unclosed_bracket h port :
  no_rbr (h ++ colon :: port) -> no_colon port -> domain_of (lbr :: h ++ colon :: port) = lbr :: h.
Proof.
  intros Hr Hp. unfold domain_of. rewrite byte_eqb_refl.
  destruct (before_first_rbr (h ++ colon :: port)) as [q|] eqn:E.
  - destruct (before_first_rbr_some _ q E) as [r [E' _]]. exfalso. apply Hr. rewrite E'. apply in_or_app. right. left. reflexivity.
  - change (lbr :: h ++ colon :: port) with ((lbr :: h) ++ colon :: port). rewrite (before_last_colon_app (lbr :: h) port Hp). reflexivity.
Qed.

(* the name handed to the TLS library never keeps the port: no result ends in ":" ++ colon-free text cut from the end of the address,
   unless the address is bracketed (where the name is the bracket's content) *)
Theorem domain_drops_port addr h p :
  ~ bracketed addr -> addr = h ++ colon :: p -> no_colon p -> domain_of addr = h.
Proof.
  intros Hb -> Hp. destruct (domain_complete (h ++ colon :: p)) as [[v6 [r [E _]]]|[_ [[h' [p' [E [Hp' D]]]]|[Hn _]]]].
  - exfalso. apply Hb. exists v6, r. exact E.
  - rewrite D. assert (Some h = Some h') as Hs.
    { rewrite <- (before_last_colon_app h p Hp). rewrite E. apply before_last_colon_app. exact Hp'. }
    injection Hs as ->. reflexivity.
  - exfalso. apply Hn. apply in_or_app. right. left. reflexivity.
Qed.

Lemma domain_shapes :
  domain_of [x5b;x3a;x3a;x31;x5d;x3a;x33;x38;x36;x38] = [x3a;x3a;x31] /\
  domain_of [x5b;x61;x62;x3a;x33;x38] = [x5b;x61;x62] /\
  domain_of [x3a;x3a;x31;x3a;x33;x38] = [x3a;x3a;x31] /\
  domain_of [x61;x62] = [x61;x62].
Proof. repeat split. Qed.

(* the pre-repair name never equals the host *)
Theorem domain_legacy_refuted host port : domain_legacy (host ++ colon :: port) <> host.
Proof.
  unfold domain_legacy. intros H. apply (f_equal (@length byte)) in H. rewrite app_length in H. cbn [length] in H. lia.
Qed.

(* ---------- the table ---------- *)
Lemma all_cells_complete : forall x, In x all_cells.
Proof. intros [[|] [|] [|] [| |] [|]]; vm_compute; tauto. Qed.

Lemma host_names_plain : (forall r, host_name <> lbr :: r) /\ (forall r, ip_literal <> lbr :: r).
Proof. split; intros r H; discriminate H. Qed.

(* with the repaired name, for every port string *)
Theorem table_agrees port x : no_colon port -> model_outcome domain_of port x = spec_outcome x.
Proof.
  intros Hp. unfold model_outcome.
  assert (D : domain_of (addr_host (c_addr x) ++ colon :: port) = addr_host (c_addr x)).
  { destruct (c_addr x); cbn [addr_host]; apply domain_is_host; auto; apply host_names_plain. }
  rewrite D. destruct x as [[|] [|] [|] [| |] [|]]; reflexivity.
Qed.

(* the same, as a finite check over the enumerated table for one concrete port (non-vacuity, and the form the brief calls a
   finite-domain proof: forallb by computation lifted with forallb_forall) *)
Lemma table_check_3868 :
  forallb (fun x => outcome_eqb (model_outcome domain_of [x33;x38;x36;x38] x) (spec_outcome x)) all_cells = true.
Proof. vm_compute. reflexivity. Qed.

(* with the pre-repair name the secure setting is unusable: a trusted, matching certificate is refused *)
Theorem table_legacy_refuted port :
  exists x, c_tls x = true /\ c_verify x = true /\ c_srv x = SrvTls /\ c_cert x = CertMatch /\
            spec_outcome x = OTls /\ model_outcome domain_legacy port x = ORefused.
Proof.
  exists (MkCell true true SrvTls CertMatch AddrHost). repeat split.
Qed.
