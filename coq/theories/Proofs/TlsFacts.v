(* C13: the name handed to the TLS library is the host part for ALL host / port strings; the
   48-cell configuration table agrees with the specification for every port. *)
Require Import DV.Base.Bytes DV.Spec.Wire DV.Model.Tls.
Local Open Scope N_scope.

Definition no_colon (s : list byte) : Prop := ~ In colon s.
Definition no_rbr (s : list byte) : Prop := ~ In rbr s.

Lemma byte_eqb_refl b : Byte.eqb b b = true.
Proof. apply Byte.byte_dec_lb. reflexivity. Qed.
Lemma byte_eqb_neq a b : a <> b -> Byte.eqb a b = false.
Proof. intros H. destruct (Byte.eqb a b) eqn:E; [|reflexivity]. apply Byte.byte_dec_bl in E. contradiction. Qed.

Lemma before_last_colon_none s : no_colon s -> before_last_colon s = None.
Proof.
  unfold no_colon. induction s as [|b r IH]; intros H; [reflexivity|]. cbn [before_last_colon].
  rewrite IH by (intros Hr; apply H; right; exact Hr).
  rewrite byte_eqb_neq; [reflexivity|]. intros ->. apply H. left. reflexivity.
Qed.

Lemma before_last_colon_app h p : no_colon p -> before_last_colon (h ++ colon :: p) = Some h.
Proof.
  intros Hp. induction h as [|b r IH]; cbn [app before_last_colon].
  - rewrite (before_last_colon_none p Hp). rewrite byte_eqb_refl. reflexivity.
  - rewrite IH. reflexivity.
Qed.

Lemma before_first_rbr_app h r : no_rbr h -> before_first_rbr (h ++ rbr :: r) = Some h.
Proof.
  unfold no_rbr. induction h as [|b t IH]; intros H; cbn [app before_first_rbr].
  - rewrite byte_eqb_refl. reflexivity.
  - rewrite byte_eqb_neq by (intros ->; apply H; left; reflexivity).
    rewrite IH by (intros Hr; apply H; right; exact Hr). reflexivity.
Qed.

(* "host:port" -> host, whatever the host (it may itself contain colons as long as it does not start with '[') *)
Theorem domain_is_host host port :
  no_colon port -> (forall r, host <> lbr :: r) ->
  domain_of (host ++ colon :: port) = host.
Proof.
  intros Hp Hb. unfold domain_of. rewrite (before_last_colon_app host port Hp).
  destruct host as [|b r]; cbn [app]; [reflexivity|].
  rewrite byte_eqb_neq; [reflexivity|]. intros ->. apply (Hb r). reflexivity.
Qed.

(* "[v6]:port" -> v6 *)
Theorem domain_is_bracketed v6 port :
  no_rbr v6 -> domain_of (lbr :: v6 ++ rbr :: colon :: port) = v6.
Proof.
  intros Hv. unfold domain_of. rewrite byte_eqb_refl. rewrite (before_first_rbr_app v6 (colon :: port) Hv). reflexivity.
Qed.

(* no port at all: the address is the name *)
Theorem domain_no_port host : no_colon host -> (forall r, host <> lbr :: r) -> domain_of host = host.
Proof.
  intros Hc Hb. unfold domain_of. rewrite (before_last_colon_none host Hc).
  destruct host as [|b r]; [reflexivity|]. rewrite byte_eqb_neq; [reflexivity|]. intros ->. apply (Hb r). reflexivity.
Qed.

(* the pre-repair name never equals the host *)
Theorem domain_legacy_refuted host port : domain_legacy (host ++ colon :: port) <> host.
Proof.
  unfold domain_legacy. intros H. apply (f_equal (@length byte)) in H. rewrite app_length in H. cbn [length] in H. lia.
Qed.

(* ---------- the table ---------- *)
Lemma all_cells_complete : forall x, In x all_cells.
Proof. intros [[|] [|] [|] [| |] [|]]; vm_compute; tauto. Qed.

Lemma host_names_plain : (forall r, host_name <> lbr :: r) /\ (forall r, ip_literal <> lbr :: r).
Proof. split; intros r H; discriminate H. Qed.

(* with the repaired name, for every port string *)
Theorem table_agrees port x : no_colon port -> model_outcome domain_of port x = spec_outcome x.
Proof.
  intros Hp. unfold model_outcome.
  assert (D : domain_of (addr_host (c_addr x) ++ colon :: port) = addr_host (c_addr x)).
  { destruct (c_addr x); cbn [addr_host]; apply domain_is_host; auto; apply host_names_plain. }
  rewrite D. destruct x as [[|] [|] [|] [| |] [|]]; reflexivity.
Qed.

(* the same, as a finite check over the enumerated table for one concrete port (non-vacuity, and the form the brief calls a
   finite-domain proof: forallb by computation lifted with forallb_forall) *)
Lemma table_check_3868 :
  forallb (fun x => outcome_eqb (model_outcome domain_of [x33;x38;x36;x38] x) (spec_outcome x)) all_cells = true.
Proof. vm_compute. reflexivity. Qed.

(* with the pre-repair name the secure setting is unusable: a trusted, matching certificate is refused *)
Theorem table_legacy_refuted port :
  exists x, c_tls x = true /\ c_verify x = true /\ c_srv x = SrvTls /\ c_cert x = CertMatch /\
            spec_outcome x = OTls /\ model_outcome domain_legacy port x = ORefused.
Proof.
  exists (MkCell true true SrvTls CertMatch AddrHost). repeat split.
Qed.
