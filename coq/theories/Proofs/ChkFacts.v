(* The executable checker of Spec/Wire.v ([chk_avp], [chk_val], [chk_avps], [chk_msg]) decides
   exactly the declarative wire relation ([wire_avp], [wire_val], [wire_avps], [wire_msg]).
   The extracted [chk_msg] is the test oracle of the harness; these theorems say what a
   [true] / [false] answer of the oracle means. *)
Require Import DV.Base.Bytes DV.Base.Utf8 DV.Model.Leaf DV.Spec.Wire DV.Model.Avp DV.Model.Message
  DV.Proofs.LeafFacts DV.Proofs.AvpFacts DV.Proofs.DecTotal DV.Proofs.DecSound DV.Proofs.DecComplete.
Local Open Scope N_scope.

(* ---------- the boolean equalities ---------- *)
Lemma list_beq_iff : forall a b, list_beq a b = true <-> a = b.
Proof.
  induction a as [|x a IH]; intros [|y b]; cbn [list_beq]; split; intros H; try discriminate; try reflexivity.
  - apply andb_true_iff in H. destruct H as [Hx Hl]. apply Byte.byte_dec_bl in Hx. apply IH in Hl. subst. reflexivity.
  - inversion H; subst. apply andb_true_iff. split; [apply Byte.byte_dec_lb; reflexivity | apply IH; reflexivity].
Qed.

Lemma ty_eqb_iff a b : ty_eqb a b = true <-> a = b.
Proof. split; [destruct a, b; cbn; intros H; try discriminate; reflexivity | intros ->; destruct b; reflexivity]. Qed.

Lemma dict_says_iff (d : dict) c vd t : dict_says d c vd t = true <-> d c vd = Some t.
Proof.
  unfold dict_says. destruct (d c vd) as [t'|]; split; intros H; try discriminate.
  - apply ty_eqb_iff in H. subst. reflexivity.
  - inversion H; subst. apply ty_eqb_iff. reflexivity.
Qed.

Lemma flags_ok_iff fl v m p :
  Bool.eqb (128 <=? Byte.to_N fl) v && Bool.eqb (64 <=? Byte.to_N fl mod 128) m
    && Bool.eqb (32 <=? Byte.to_N fl mod 64) p = true <-> flags_ok fl v m p.
Proof.
  unfold flags_ok. rewrite !andb_true_iff, !Bool.eqb_true_iff. tauto.
Qed.

(* ---------- unfolding equations ---------- *)
Lemma chk_val_grp d ms data : chk_val d (SGrp ms) data = chk_avps d ms data.
Proof. reflexivity. Qed.

Lemma chk_val_leaf d l data : chk_val d (SLeaf l) data = leaf_wire l && list_beq data (enc_leaf l).
Proof. reflexivity. Qed.

Lemma chk_avps_nil d data : chk_avps d [] data = match data with [] => true | _ => false end.
Proof. reflexivity. Qed.

Lemma chk_avps_cons d a ms data :
  chk_avps d (a :: ms) data = match chk_avp d a data with Some rest => chk_avps d ms rest | None => false end.
Proof. reflexivity. Qed.

(* the optional Vendor-ID field *)
Definition chk_vd (vd : option N) (r1 : list byte) : option (list byte) :=
  match vd with
  | Some x => match r1 with
              | v0 :: v1 :: v2 :: v3 :: r2 =>
                  if (un_be [v0; v1; v2; v3] =? x) && (x <? 4294967296) then Some r2 else None
              | _ => None end
  | None => Some r1 end.

Lemma chk_vd_sound vd r1 r2 : chk_vd vd r1 = Some r2 -> r1 = optbe32 vd ++ r2 /\ vd_ok vd.
Proof.
  unfold chk_vd. destruct vd as [x|]; cbn [optbe32 vd_ok app].
  - destruct r1 as [|v0 [|v1 [|v2 [|v3 r]]]]; try discriminate.
    destruct (N.eqb_spec (un_be [v0; v1; v2; v3]) x) as [E|]; [|discriminate].
    destruct (N.ltb_spec x 4294967296) as [Hx|]; [|discriminate]. cbn [andb].
    intros H. inversion H; subst. rewrite be32_un. split; [reflexivity | exact Hx].
  - intros H. inversion H. auto.
Qed.

Lemma chk_vd_complete vd r2 : vd_ok vd -> chk_vd vd (optbe32 vd ++ r2) = Some r2.
Proof.
  unfold chk_vd. destruct vd as [x|]; cbn [optbe32 vd_ok app]; [|reflexivity].
  intros Hx. unfold be32. cbn [app].
  change [b_of_N (x / 256 / 256 / 256); b_of_N (x / 256 / 256); b_of_N (x / 256); b_of_N x] with (be32 x).
  rewrite un_be32 by exact Hx. rewrite N.eqb_refl.
  destruct (N.ltb_spec x 4294967296); [reflexivity | lia].
Qed.

Lemma chk_avp_short d c vd m p v r : blen r < 8 -> chk_avp d (SAvp c vd m p v) r = None.
Proof.
  intros H. destruct r as [|b0 [|b1 [|b2 [|b3 [|fl [|l0 [|l1 [|l2 r1]]]]]]]]; try reflexivity.
  exfalso. rewrite !blen_cons in H. lia.
Qed.

Lemma chk_avp_cons d c vd m p v b0 b1 b2 b3 fl l0 l1 l2 r1 :
  chk_avp d (SAvp c vd m p v) (b0 :: b1 :: b2 :: b3 :: fl :: l0 :: l1 :: l2 :: r1) =
  if negb ((un_be [b0; b1; b2; b3] =? c) && (c <? 4294967296)
           && Bool.eqb (128 <=? Byte.to_N fl) (is_some vd)
           && Bool.eqb (64 <=? Byte.to_N fl mod 128) m && Bool.eqb (32 <=? Byte.to_N fl mod 64) p) then None else
  match chk_vd vd r1 with
  | None => None
  | Some r2 =>
      if un_be [l0; l1; l2] <? hdr vd then None else
      match take (un_be [l0; l1; l2] - hdr vd) r2 with
      | None => None
      | Some (data, r3) =>
          if dict_says d c vd (sty_of v) && chk_val d v data then
            match take (pad4 (un_be [l0; l1; l2] - hdr vd)) r3 with
            | Some (_, r4) => Some r4
            | None => None
            end
          else None
      end
  end.
Proof. reflexivity. Qed.

(* ---------- soundness: what the checker accepts is a wire image ---------- *)
Lemma chk_avp_step_sound d c vd m p v :
  (forall data, chk_val d v data = true -> wire_val d v data) ->
  forall r rest, chk_avp d (SAvp c vd m p v) r = Some rest ->
    exists bs, r = bs ++ rest /\ wire_avp d (SAvp c vd m p v) bs.
Proof.
  intros IHv r rest H.
  destruct r as [|b0 [|b1 [|b2 [|b3 [|fl [|l0 [|l1 [|l2 r1]]]]]]]]; try discriminate.
  rewrite chk_avp_cons in H.
  destruct (un_be [b0; b1; b2; b3] =? c) eqn:Ec; [|discriminate].
  destruct (c <? 4294967296) eqn:Ecl; [|discriminate]. cbn [andb] in H.
  destruct (Bool.eqb (128 <=? Byte.to_N fl) (is_some vd) && Bool.eqb (64 <=? Byte.to_N fl mod 128) m
            && Bool.eqb (32 <=? Byte.to_N fl mod 64) p) eqn:Efl; [|discriminate].
  cbn [negb] in H. apply flags_ok_iff in Efl.
  destruct (chk_vd vd r1) as [r2|] eqn:Evd; [|discriminate].
  apply chk_vd_sound in Evd. destruct Evd as [-> Hvd].
  destruct (N.ltb_spec (un_be [l0; l1; l2]) (hdr vd)) as [|Hge]; [discriminate|].
  destruct (take (un_be [l0; l1; l2] - hdr vd) r2) as [[data r3]|] eqn:Et; [|discriminate].
  apply take_some in Et. destruct Et as [-> Hdl].
  destruct (dict_says d c vd (sty_of v)) eqn:Ed; [|discriminate].
  destruct (chk_val d v data) eqn:Ev; [|discriminate]. cbn [andb] in H.
  destruct (take (pad4 (un_be [l0; l1; l2] - hdr vd)) r3) as [[padb r4]|] eqn:Ep; [|discriminate].
  apply take_some in Ep. destruct Ep as [-> Hpl]. inversion H; subst r4. clear H.
  apply N.eqb_eq in Ec. apply N.ltb_lt in Ecl. apply dict_says_iff in Ed.
  pose proof (un_be3_lt l0 l1 l2) as Hl3.
  assert (Elen : un_be [l0; l1; l2] = hdr vd + blen data) by lia.
  exists (be32 c ++ [fl] ++ be24 (hdr vd + blen data) ++ optbe32 vd ++ data ++ padb). split.
  - rewrite <- Elen, <- Ec, be32_un, be24_un. repeat rewrite <- app_assoc. reflexivity.
  - apply W; auto; try lia. rewrite Hpl. f_equal. lia.
Qed.

Lemma chk_avps_sound_from d ms :
  Forall (fun a => forall r rest, chk_avp d a r = Some rest -> exists bs, r = bs ++ rest /\ wire_avp d a bs) ms ->
  forall data, chk_avps d ms data = true -> wire_avps d ms data.
Proof.
  induction 1 as [|a ms Ha _ IH]; intros data H.
  - rewrite chk_avps_nil in H. destruct data; [constructor | discriminate].
  - rewrite chk_avps_cons in H. destruct (chk_avp d a data) as [rest|] eqn:Ea; [|discriminate].
    destruct (Ha _ _ Ea) as (bs & -> & Hw). constructor; [exact Hw | apply IH; exact H].
Qed.

Lemma chk_sound_mut d :
  (forall a r rest, chk_avp d a r = Some rest -> exists bs, r = bs ++ rest /\ wire_avp d a bs) /\
  (forall v data, chk_val d v data = true -> wire_val d v data).
Proof.
  assert (HP : forall a r rest, chk_avp d a r = Some rest -> exists bs, r = bs ++ rest /\ wire_avp d a bs).
  { apply (savp_ind' (fun a => forall r rest, chk_avp d a r = Some rest -> exists bs, r = bs ++ rest /\ wire_avp d a bs)
                     (fun v => forall data, chk_val d v data = true -> wire_val d v data)).
    - intros l data H. rewrite chk_val_leaf in H. apply andb_true_iff in H. destruct H as [Hw He].
      apply list_beq_iff in He. subst. constructor. exact Hw.
    - intros ms HF data H. rewrite chk_val_grp in H. constructor. apply (chk_avps_sound_from d ms HF). exact H.
    - intros c vd m p v IHv. apply chk_avp_step_sound. exact IHv. }
  split; [exact HP|].
  intros [l|ms] data H.
  - rewrite chk_val_leaf in H. apply andb_true_iff in H. destruct H as [Hw He].
    apply list_beq_iff in He. subst. constructor. exact Hw.
  - rewrite chk_val_grp in H. constructor. apply (chk_avps_sound_from d ms); [|exact H].
    apply Forall_forall. intros a _. apply HP.
Qed.

Theorem chk_avp_sound : forall d a r rest,
  chk_avp d a r = Some rest -> exists bs, r = bs ++ rest /\ wire_avp d a bs.
Proof. intros d. exact (proj1 (chk_sound_mut d)). Qed.

Theorem chk_val_sound : forall d v data, chk_val d v data = true -> wire_val d v data.
Proof. intros d. exact (proj2 (chk_sound_mut d)). Qed.

Theorem chk_avps_sound : forall d ms data, chk_avps d ms data = true -> wire_avps d ms data.
Proof.
  intros d ms data H. apply (chk_avps_sound_from d ms); [|exact H].
  apply Forall_forall. intros a _. apply chk_avp_sound.
Qed.

(* ---------- completeness: every wire image is accepted ---------- *)
Lemma chk_complete_mut d :
  (forall a bs, wire_avp d a bs -> forall rest, chk_avp d a (bs ++ rest) = Some rest) /\
  (forall v data, wire_val d v data -> chk_val d v data = true) /\
  (forall ms data, wire_avps d ms data -> chk_avps d ms data = true).
Proof.
  apply wire_mutind.
  - (* W *)
    intros c vd m p v data padb fl Hc Hvd _ IHv Hlen Hpad Hfl Hd rest.
    assert (Hshape : (be32 c ++ [fl] ++ be24 (hdr vd + blen data) ++ optbe32 vd ++ data ++ padb) ++ rest
                     = be32 c ++ [fl] ++ be24 (hdr vd + blen data) ++ optbe32 vd ++ (data ++ padb ++ rest)).
    { repeat rewrite <- app_assoc. reflexivity. }
    rewrite Hshape. unfold be32 at 1. unfold be24. cbn [app]. rewrite chk_avp_cons.
    change [b_of_N (c / 256 / 256 / 256); b_of_N (c / 256 / 256); b_of_N (c / 256); b_of_N c] with (be32 c).
    change [b_of_N ((hdr vd + blen data) / 256 / 256); b_of_N ((hdr vd + blen data) / 256); b_of_N (hdr vd + blen data)]
      with (be24 (hdr vd + blen data)).
    rewrite un_be32 by exact Hc. rewrite un_be24 by exact Hlen.
    rewrite N.eqb_refl. destruct (N.ltb_spec c 4294967296); [|lia]. cbn [andb].
    apply flags_ok_iff in Hfl. rewrite Hfl. cbn [negb].
    rewrite (chk_vd_complete vd _ Hvd).
    destruct (N.ltb_spec (hdr vd + blen data) (hdr vd)); [lia|].
    replace (hdr vd + blen data - hdr vd) with (blen data) by lia.
    rewrite take_app. apply dict_says_iff in Hd. rewrite Hd, IHv. cbn [andb].
    rewrite <- Hpad. rewrite take_app. reflexivity.
  - (* WLeaf *)
    intros l Hw. rewrite chk_val_leaf, Hw. cbn [andb]. apply list_beq_iff. reflexivity.
  - (* WGrp *)
    intros ms data _ IH. rewrite chk_val_grp. exact IH.
  - (* WNil *) reflexivity.
  - (* WCons *)
    intros a bs ms rest _ IHa _ IHms. rewrite chk_avps_cons, IHa. exact IHms.
Qed.

Theorem chk_avp_complete : forall d a bs,
  wire_avp d a bs -> forall rest, chk_avp d a (bs ++ rest) = Some rest.
Proof. intros d. exact (proj1 (chk_complete_mut d)). Qed.

Theorem chk_val_complete : forall d v data, wire_val d v data -> chk_val d v data = true.
Proof. intros d. exact (proj1 (proj2 (chk_complete_mut d))). Qed.

Theorem chk_avps_complete : forall d ms data, wire_avps d ms data -> chk_avps d ms data = true.
Proof. intros d. exact (proj2 (proj2 (chk_complete_mut d))). Qed.

(* the checker is a decision procedure for the three relations *)
Theorem chk_avp_iff d a r rest :
  chk_avp d a r = Some rest <-> exists bs, r = bs ++ rest /\ wire_avp d a bs.
Proof.
  split; [apply chk_avp_sound|]. intros (bs & -> & Hw). apply chk_avp_complete. exact Hw.
Qed.

Theorem chk_val_iff d v data : chk_val d v data = true <-> wire_val d v data.
Proof. split; [apply chk_val_sound | apply chk_val_complete]. Qed.

Theorem chk_avps_iff d ms data : chk_avps d ms data = true <-> wire_avps d ms data.
Proof. split; [apply chk_avps_sound | apply chk_avps_complete]. Qed.

(* ---------- message level ---------- *)
(* [chk_msg] compares each header field with the number read back from its 1, 3 or 4 octets,
   so acceptance by itself forces the field ranges and the 24-bit bound on the length:
   no side condition is needed in either direction. *)
Lemma chk_msg_true_inv d m bs :
  chk_msg d m bs = true ->
  exists body, chk_avps d (s_avps m) body = true /\ hdr_ranges m /\ 20 + blen body < 16777216
               /\ bs = spec_hdr m (20 + blen body) ++ body.
Proof.
  unfold chk_msg.
  destruct bs as [|v [|l0 [|l1 [|l2 [|fl [|c0 [|c1 [|c2 [|a0 [|a1 [|a2 [|a3 [|h0 [|h1 [|h2 [|h3 [|e0 [|e1 [|e2 [|e3 body]]]]]]]]]]]]]]]]]]]];
    try discriminate.
  intros H. repeat (apply andb_true_iff in H; destruct H as [H ?]).
  repeat match goal with E : (_ =? _) = true |- _ => apply N.eqb_eq in E end.
  exists body. split; [assumption|].
  pose proof (byte_lt v). pose proof (byte_lt fl). pose proof (un_be3_lt l0 l1 l2). pose proof (un_be3_lt c0 c1 c2).
  pose proof (un_be4_lt a0 a1 a2 a3). pose proof (un_be4_lt h0 h1 h2 h3). pose proof (un_be4_lt e0 e1 e2 e3).
  split; [unfold hdr_ranges; repeat split; lia|]. split; [lia|].
  unfold spec_hdr.
  repeat match goal with E : _ = s_ver m |- _ => rewrite <- E; clear E
                    | E : _ = s_flags m |- _ => rewrite <- E; clear E
                    | E : _ = s_cmd m |- _ => rewrite <- E; clear E
                    | E : _ = s_app m |- _ => rewrite <- E; clear E
                    | E : _ = s_hbh m |- _ => rewrite <- E; clear E
                    | E : _ = s_e2e m |- _ => rewrite <- E; clear E
                    | E : _ = 20 + blen body |- _ => rewrite <- E; clear E end.
  rewrite !b_of_N_to_N, !be24_un, !be32_un. reflexivity.
Qed.

Lemma chk_msg_true_intro d m body :
  chk_avps d (s_avps m) body = true -> hdr_ranges m -> 20 + blen body < 16777216 ->
  chk_msg d m (spec_hdr m (20 + blen body) ++ body) = true.
Proof.
  intros Hb (Hv & Hf & Hc & Ha & Hh & He) Hlen.
  unfold spec_hdr, be24 at 1 2. unfold be32. cbn [app]. unfold chk_msg.
  change [b_of_N ((20 + blen body) / 256 / 256); b_of_N ((20 + blen body) / 256); b_of_N (20 + blen body)] with (be24 (20 + blen body)).
  change [b_of_N (s_cmd m / 256 / 256); b_of_N (s_cmd m / 256); b_of_N (s_cmd m)] with (be24 (s_cmd m)).
  change [b_of_N (s_app m / 256 / 256 / 256); b_of_N (s_app m / 256 / 256); b_of_N (s_app m / 256); b_of_N (s_app m)] with (be32 (s_app m)).
  change [b_of_N (s_hbh m / 256 / 256 / 256); b_of_N (s_hbh m / 256 / 256); b_of_N (s_hbh m / 256); b_of_N (s_hbh m)] with (be32 (s_hbh m)).
  change [b_of_N (s_e2e m / 256 / 256 / 256); b_of_N (s_e2e m / 256 / 256); b_of_N (s_e2e m / 256); b_of_N (s_e2e m)] with (be32 (s_e2e m)).
  rewrite !un_be24, !un_be32 by assumption.
  rewrite !to_N_b_of_N, !N.mod_small by assumption.
  rewrite !N.eqb_refl, Hb. reflexivity.
Qed.

(* the equivalence holds unconditionally ... *)
Theorem chk_msg_iff_strong : forall d m bs, chk_msg d m bs = true <-> wire_msg d m bs.
Proof.
  intros d m bs. split.
  - intros H. apply chk_msg_true_inv in H. destruct H as (body & Hb & Hr & Hl & E).
    exists body. split; [apply chk_avps_sound; exact Hb | auto].
  - intros (body & Hw & Hr & Hl & ->). apply chk_msg_true_intro; auto. apply chk_avps_complete. exact Hw.
Qed.

(* ... in particular in the form that was asked for *)
Theorem chk_msg_iff : forall d m bs, hdr_ranges m -> (chk_msg d m bs = true <-> wire_msg d m bs).
Proof. intros d m bs _. apply chk_msg_iff_strong. Qed.

(* acceptance alone forces the header ranges *)
Theorem chk_msg_ranges : forall d m bs, chk_msg d m bs = true -> hdr_ranges m.
Proof. intros d m bs H. apply chk_msg_iff_strong in H. destruct H as (body & _ & Hr & _). exact Hr. Qed.

(* the oracle's negative answer *)
Theorem chk_msg_false_iff : forall d m bs, chk_msg d m bs = false <-> ~ wire_msg d m bs.
Proof.
  intros d m bs. rewrite <- chk_msg_iff_strong. destruct (chk_msg d m bs); split; intros H; try discriminate; auto.
  exfalso. apply H. reflexivity.
Qed.

(* the octets determine the tree the oracle accepts *)
Theorem chk_msg_unique_strong : forall d m1 m2 bs,
  chk_msg d m1 bs = true -> chk_msg d m2 bs = true -> m1 = m2.
Proof.
  intros d m1 m2 bs H1 H2. apply chk_msg_iff_strong in H1. apply chk_msg_iff_strong in H2.
  exact (wire_msg_functional d m1 m2 bs H1 H2).
Qed.

Theorem chk_msg_unique : forall d m1 m2 bs, hdr_ranges m1 -> hdr_ranges m2 ->
  chk_msg d m1 bs = true -> chk_msg d m2 bs = true -> m1 = m2.
Proof. intros d m1 m2 bs _ _. apply chk_msg_unique_strong. Qed.

(* the reference encoding of a tree in the wire domain is accepted *)
Theorem chk_msg_accepts_wire_image : forall d m bs, wire_msg d m bs -> chk_msg d m bs = true.
Proof. intros d m bs. apply chk_msg_iff_strong. Qed.

(* ---------- the hypotheses are satisfiable (concrete, non-trivial instances) ---------- *)
Definition ex_dict : dict := fun c vd =>
  match c, vd with
  | 264, None => Some TIdentity
  | 260, Some 10415 => Some TGrouped
  | 266, None => Some TU32
  | _, _ => None
  end.

Definition ex_avp1 : savp := SAvp 264 None true false (SLeaf (LIdent [x61; x62; x63])).
Definition ex_avp2 : savp :=
  SAvp 260 (Some 10415) true false (SGrp [SAvp 266 None true false (SLeaf (LU32 10415))]).
Definition ex_msg : smsg := MkSMsg 1 128 257 0 1 2 [ex_avp1; ex_avp2].

(* a non-canonical image: three reserved flag bits set and a non-zero padding octet in the first AVP *)
Definition ex_avp1_bytes : list byte :=
  [x00; x00; x01; x08; x47; x00; x00; x0b; x61; x62; x63; xff].
Definition ex_avp2_bytes : list byte :=
  [x00; x00; x01; x04; xc0; x00; x00; x18; x00; x00; x28; xaf;
   x00; x00; x01; x0a; x40; x00; x00; x0c; x00; x00; x28; xaf].
Definition ex_bytes : list byte :=
  [x01; x00; x00; x38; x80; x00; x01; x01; x00; x00; x00; x00; x00; x00; x00; x01; x00; x00; x00; x02]
    ++ ex_avp1_bytes ++ ex_avp2_bytes.

Example chk_avp_sound_nonvacuous : chk_avp ex_dict ex_avp1 (ex_avp1_bytes ++ ex_avp2_bytes) = Some ex_avp2_bytes.
Proof. vm_compute. reflexivity. Qed.

Example chk_avp_complete_nonvacuous : wire_avp ex_dict ex_avp2 ex_avp2_bytes.
Proof.
  destruct (chk_avp_sound ex_dict ex_avp2 (ex_avp2_bytes ++ [x2a]) [x2a] eq_refl) as (bs & E & Hw).
  apply app_inj_tail in E. destruct E as [<- _]. exact Hw.
Qed.

Example chk_msg_iff_nonvacuous : hdr_ranges ex_msg /\ chk_msg ex_dict ex_msg ex_bytes = true.
Proof. split; [unfold hdr_ranges; cbn; lia | vm_compute; reflexivity]. Qed.

Example chk_msg_iff_nonvacuous_canonical : chk_msg ex_dict ex_msg (spec_msg ex_msg) = true /\ spec_msg ex_msg <> ex_bytes.
Proof. split; [vm_compute; reflexivity | vm_compute; discriminate]. Qed.

Example wire_msg_nonvacuous : wire_msg ex_dict ex_msg ex_bytes.
Proof. apply chk_msg_iff_strong. vm_compute. reflexivity. Qed.

(* the oracle rejects: a wrong tree (M bit), trailing octets, a truncated frame *)
Example chk_msg_rejects_wrong_tree :
  chk_msg ex_dict (MkSMsg 1 128 257 0 1 2 [SAvp 264 None false false (SLeaf (LIdent [x61; x62; x63])); ex_avp2]) ex_bytes = false.
Proof. vm_compute. reflexivity. Qed.
Example chk_msg_rejects_trailing : chk_msg ex_dict ex_msg (ex_bytes ++ [x00]) = false.
Proof. vm_compute. reflexivity. Qed.
Example chk_msg_rejects_truncated : chk_msg ex_dict ex_msg (removelast ex_bytes) = false.
Proof. vm_compute. reflexivity. Qed.

Example chk_msg_unique_nonvacuous :
  hdr_ranges ex_msg /\ chk_msg ex_dict ex_msg ex_bytes = true /\
  forall m, chk_msg ex_dict m ex_bytes = true -> m = ex_msg.
Proof.
  split; [unfold hdr_ranges; cbn; lia|]. split; [vm_compute; reflexivity|].
  intros m H. apply (chk_msg_unique_strong ex_dict m ex_msg ex_bytes H). vm_compute. reflexivity.
Qed.
