(* Construction histories (C01, C16): every message reachable through the public constructors
   - new + add*, add by name, decode-then-extend, AVPs and groups cloned out and re-wrapped -
   carries the natural stored lengths and representable fields; on such messages the model
   encoder is the reference encoder and the reported length is the number of octets. *)
Require Import DV.Base.Bytes DV.Base.Utf8 DV.Model.Leaf DV.Spec.Wire DV.Model.Avp DV.Model.Message
  DV.Model.Dict DV.Model.Build
  DV.Proofs.LeafFacts DV.Proofs.AvpFacts DV.Proofs.DecTotal DV.Proofs.DecSound DV.Proofs.DecComplete.
Local Open Scope N_scope.

(* ---------- decoded trees are representable ---------- *)
Lemma dec_rep d : forall f,
  (forall lim r a r', dec_avp f lim d r = Ok (a, r') -> rep a) /\
  (forall lim len off r l r', dec_members f lim d len off r = Ok (l, r') -> rep_list l).
Proof.
  induction f as [|f [IHa IHm]]; [split; intros; discriminate|]. split.
  - intros lim r a r' H. apply dec_avp_ok_inv in H.
    destruct H as (c & m & p & len & vd & r2 & v & r3 & Eh & Hge & -> & -> & Hv).
    apply dec_header_sound in Eh. destruct Eh as (fl & _ & _ & Hc & _ & Hvd).
    cbn [rep]. split; [exact Hc|]. split; [exact Hvd|].
    destruct Hv as [(l & -> & _ & El) | (ms & lim' & -> & _ & _ & Em)].
    + cbn [rep_val]. apply dec_leaf_sound in El. destruct El as (_ & _ & Hw & _). apply leaf_wire_rep. exact Hw.
    + rewrite rep_val_grp. eapply IHm. exact Em.
  - intros lim len off r l r'. cbn [dec_members].
    destruct (off <? len).
    + destruct (dec_avp f lim d r) as [[a r1]| | |] eqn:Ea; try discriminate.
      destruct (4294967296 <=? off + a_len a + a_pad a); [discriminate|].
      destruct (dec_members f lim d len (off + a_len a + a_pad a) r1) as [[l1 r2]| | |] eqn:Em; try discriminate.
      intros H. inversion H; subst. rewrite rep_list_cons. split; [eapply IHa; exact Ea | eapply IHm; exact Em].
    + destruct (off =? len); [|discriminate]. intros H. inversion H; subst. exact I.
Qed.

(* ---------- expressions: what the Rust argument types guarantee ---------- *)
Fixpoint xwf_a (e : aexp) : Prop :=
  match e with
  | XAvp c vd fl v => c < 4294967296 /\ vd_ok vd /\ xwf_v v
  | XNamed n v => xwf_v v
  end
with xwf_v (v : vexp) : Prop :=
  match v with
  | XLeaf l => leaf_rep l = true
  | XGrpNew ms | XGrpAdd ms =>
      (fix all (l : list aexp) : Prop := match l with [] => True | x :: xs => xwf_a x /\ all xs end) ms
  end.
Definition xwf_list : list aexp -> Prop :=
  fix all (l : list aexp) : Prop := match l with [] => True | x :: xs => xwf_a x /\ all xs end.
Lemma xwf_list_cons x xs : xwf_list (x :: xs) = (xwf_a x /\ xwf_list xs). Proof. reflexivity. Qed.

(* dictionary entries hold u32 numbers *)
Definition dswf (ds : list adef) : Prop :=
  forall x, In x ds -> d_code x < 4294967296 /\ vd_ok (d_vendor x).

Section AexpInd.
  Variable P : aexp -> Prop.
  Variable Q : vexp -> Prop.
  Hypothesis HL : forall l, Q (XLeaf l).
  Hypothesis HGN : forall ms, Forall P ms -> Q (XGrpNew ms).
  Hypothesis HGA : forall ms, Forall P ms -> Q (XGrpAdd ms).
  Hypothesis HA : forall c vd fl v, Q v -> P (XAvp c vd fl v).
  Hypothesis HN : forall n v, Q v -> P (XNamed n v).
  Fixpoint aexp_ind' (a : aexp) : P a :=
    match a with
    | XAvp c vd fl v => HA c vd fl v (vexp_ind' v)
    | XNamed n v => HN n v (vexp_ind' v)
    end
  with vexp_ind' (v : vexp) : Q v :=
    match v with
    | XLeaf l => HL l
    | XGrpNew ms => HGN ms ((fix go (l : list aexp) : Forall P l :=
                          match l with [] => Forall_nil _ | x :: xs => Forall_cons _ (aexp_ind' x) (go xs) end) ms)
    | XGrpAdd ms => HGA ms ((fix go (l : list aexp) : Forall P l :=
                          match l with [] => Forall_nil _ | x :: xs => Forall_cons _ (aexp_ind' x) (go xs) end) ms)
    end.
End AexpInd.

Lemma mk_avp_rep c vd m p v : c < 4294967296 -> vd_ok vd -> rep_val v -> rep (mk_avp c vd m p v).
Proof. intros. unfold mk_avp. cbn [rep]. auto. Qed.

Lemma by_name_in ds n x : by_name ds n = Some x -> In x ds.
Proof. unfold by_name. intros H. apply find_some in H. tauto. Qed.

Lemma from_name_good ds n v a :
  dswf ds -> consistent_val v -> rep_val v -> from_name ds n v = Some a -> consistent a /\ rep a.
Proof.
  intros Hds Hc Hr. unfold from_name. destruct (by_name ds n) as [df|] eqn:E; [|discriminate].
  intros H. inversion H; subst a. apply by_name_in in E. destruct (Hds _ E).
  split; [apply mk_avp_consistent | apply mk_avp_rep]; assumption.
Qed.

Lemma eval_list_go ds (ms : list aexp) :
  (fix go (l : list aexp) : option (list avp) :=
     match l with
     | [] => Some []
     | x :: xs => match eval_a ds x, go xs with Some a, Some r => Some (a :: r) | _, _ => None end
     end) ms = eval_list ds ms.
Proof. reflexivity. Qed.

Lemma eval_good ds : dswf ds ->
  forall e, xwf_a e -> forall a, eval_a ds e = Some a -> consistent a /\ rep a.
Proof.
  intros Hds e. pattern e.
  apply aexp_ind' with (Q := fun v => xwf_v v -> forall v', eval_v ds v = Some v' -> consistent_val v' /\ rep_val v'); clear e.
  - intros l Hw v' H. cbn in H. inversion H; subst. cbn. auto.
  - intros ms IH Hw v'. cbn [eval_v]. rewrite eval_list_go. change (xwf_v (XGrpNew ms)) with (xwf_list ms) in Hw.
    destruct (eval_list ds ms) as [l|] eqn:E; [|discriminate]. intros H. inversion H; subst v'. clear H.
    rewrite consistent_val_grp, rep_val_grp. revert l E Hw.
    induction IH as [|x xs Hx Hxs IHxs]; intros l E Hw.
    + cbn in E. inversion E; subst. split; exact I.
    + cbn [eval_list] in E. destruct (eval_a ds x) as [a|] eqn:Ea; [|discriminate].
      change ((fix go (l : list aexp) : option (list avp) :=
         match l with
         | [] => Some []
         | x :: xs => match eval_a ds x, go xs with Some a, Some r => Some (a :: r) | _, _ => None end
         end) xs) with (eval_list ds xs) in E.
      destruct (eval_list ds xs) as [r|] eqn:Er; [|discriminate]. inversion E; subst l.
      rewrite xwf_list_cons in Hw. destruct Hw as [Hwx Hwxs].
      destruct (Hx Hwx a eq_refl) as [C1 R1]. destruct (IHxs r eq_refl Hwxs) as [C2 R2].
      rewrite consistent_list_cons, rep_list_cons. auto.
  - intros ms IH Hw v'. cbn [eval_v]. rewrite eval_list_go. change (xwf_v (XGrpAdd ms)) with (xwf_list ms) in Hw.
    destruct (eval_list ds ms) as [l|] eqn:E; [|discriminate]. intros H. inversion H; subst v'. clear H.
    rewrite consistent_val_grp, rep_val_grp. revert l E Hw.
    induction IH as [|x xs Hx Hxs IHxs]; intros l E Hw.
    + cbn in E. inversion E; subst. split; exact I.
    + cbn [eval_list] in E. destruct (eval_a ds x) as [a|] eqn:Ea; [|discriminate].
      change ((fix go (l : list aexp) : option (list avp) :=
         match l with
         | [] => Some []
         | x :: xs => match eval_a ds x, go xs with Some a, Some r => Some (a :: r) | _, _ => None end
         end) xs) with (eval_list ds xs) in E.
      destruct (eval_list ds xs) as [r|] eqn:Er; [|discriminate]. inversion E; subst l.
      rewrite xwf_list_cons in Hw. destruct Hw as [Hwx Hwxs].
      destruct (Hx Hwx a eq_refl) as [C1 R1]. destruct (IHxs r eq_refl Hwxs) as [C2 R2].
      rewrite consistent_list_cons, rep_list_cons. auto.
  - intros c vd fl v IHv Hw a. cbn [xwf_a] in Hw. destruct Hw as (Hc & Hvd & Hv). cbn [eval_a].
    destruct (eval_v ds v) as [v'|] eqn:E; [|discriminate]. intros H. inversion H; subst a.
    destruct (IHv Hv v' eq_refl) as [C R]. unfold mk_avp_fl.
    split; [apply mk_avp_consistent | apply mk_avp_rep]; assumption.
  - intros n v IHv Hw a. cbn [xwf_a] in Hw. cbn [eval_a].
    destruct (eval_v ds v) as [v'|] eqn:E; [|discriminate]. intros H.
    destruct (IHv Hw v' eq_refl) as [C R]. eapply from_name_good; eassumption.
Qed.

Lemma eval_v_good ds : dswf ds ->
  forall v, xwf_v v -> forall v', eval_v ds v = Some v' -> consistent_val v' /\ rep_val v'.
Proof.
  intros Hds v Hw v' E.
  (* wrap the value in an AVP and use eval_good *)
  assert (H : eval_a ds (XAvp 0 None 0 v) = Some (mk_avp_fl 0 None 0 v')) by (cbn [eval_a]; rewrite E; reflexivity).
  assert (Hx : xwf_a (XAvp 0 None 0 v)) by (cbn [xwf_a vd_ok]; split; [lia | split; [exact I | exact Hw]]).
  destruct (eval_good ds Hds _ Hx _ H) as [C R]. unfold mk_avp_fl, mk_avp in C, R. cbn [consistent rep] in C, R. tauto.
Qed.

Lemma eval_list_good ds : dswf ds ->
  forall l, xwf_list l -> forall r, eval_list ds l = Some r -> consistent_list r /\ rep_list r.
Proof.
  intros Hds l. induction l as [|x xs IH]; intros Hw r E.
  - cbn in E. inversion E; subst. split; exact I.
  - cbn [eval_list] in E. destruct (eval_a ds x) as [a|] eqn:Ea; [|discriminate].
    change ((fix go (l : list aexp) : option (list avp) :=
         match l with
         | [] => Some []
         | x :: xs => match eval_a ds x, go xs with Some a, Some r => Some (a :: r) | _, _ => None end
         end) xs) with (eval_list ds xs) in E.
    destruct (eval_list ds xs) as [r'|] eqn:Er; [|discriminate]. inversion E; subst r.
    rewrite xwf_list_cons in Hw. destruct Hw as [Hwx Hwxs].
    destruct (eval_good ds Hds x Hwx a Ea) as [C1 R1]. destruct (IH Hwxs r' eq_refl) as [C2 R2].
    rewrite consistent_list_cons, rep_list_cons. auto.
Qed.

(* ---------- messages ---------- *)
Definition good (m : msg) : Prop := msg_consistent m /\ msg_rep m.

Lemma consistent_list_app xs ys : consistent_list (xs ++ ys) <-> consistent_list xs /\ consistent_list ys.
Proof. induction xs as [|x xs IH]; cbn [app]; [cbn; tauto|]. rewrite !consistent_list_cons, IH. tauto. Qed.
Lemma rep_list_app xs ys : rep_list (xs ++ ys) <-> rep_list xs /\ rep_list ys.
Proof. induction xs as [|x xs IH]; cbn [app]; [cbn; tauto|]. rewrite !rep_list_cons, IH. tauto. Qed.
Lemma consistent_list_nth l i a : consistent_list l -> nth_error l i = Some a -> consistent a.
Proof. revert i. induction l as [|x xs IH]; intros [|i] H E; cbn in E; try discriminate.
  - inversion E; subst. rewrite consistent_list_cons in H. tauto.
  - rewrite consistent_list_cons in H. eapply IH; [tauto | exact E]. Qed.
Lemma rep_list_nth l i a : rep_list l -> nth_error l i = Some a -> rep a.
Proof. revert i. induction l as [|x xs IH]; intros [|i] H E; cbn in E; try discriminate.
  - inversion E; subst. rewrite rep_list_cons in H. tauto.
  - rewrite rep_list_cons in H. eapply IH; [tauto | exact E]. Qed.

Lemma msg_add_good m a : good m -> consistent a -> rep a -> good (msg_add m a).
Proof.
  intros [[Hc Hl] (Hv & Hf & Hcm & Hap & Hh & He & Hr)] Ca Ra. unfold good, msg_consistent, msg_rep, msg_add.
  cbn [m_ver m_len m_flags m_cmd m_app m_hbh m_e2e m_avps]. repeat split; auto.
  - apply consistent_list_app. split; [exact Hc|]. rewrite consistent_list_cons. split; [exact Ca | exact I].
  - rewrite members_len_app, members_len_cons. cbn [members_len fold_right]. lia.
  - apply rep_list_app. split; [exact Hr|]. rewrite rep_list_cons. split; [exact Ra | exact I].
Qed.

Lemma msg_new_good cmd app fl hbh e2e :
  cmd < 16777216 -> app < 4294967296 -> fl < 256 -> hbh < 4294967296 -> e2e < 4294967296 ->
  good (msg_new cmd app fl hbh e2e).
Proof. intros. unfold good, msg_consistent, msg_rep, msg_new. cbn. repeat split; auto; lia. Qed.

Definition hop_wf (o : hop) : Prop :=
  match o with
  | HAdd a => xwf_a a
  | HAddAvp c vd fl v => c < 4294967296 /\ vd_ok vd /\ xwf_v v
  | HAddName _ v => xwf_v v
  | HReAdd _ => True
  | HRewrap _ c vd fl extra => c < 4294967296 /\ vd_ok vd /\ xwf_list extra
  end.

Lemma hstep_good ds m o : dswf ds -> good m -> hop_wf o -> good (fst (hstep ds m o)).
Proof.
  intros Hds Hg Hw. destruct o as [a|c vd fl v|n v|i|i c vd fl extra]; cbn [hstep hop_wf] in *.
  - destruct (eval_a ds a) as [x|] eqn:E; cbn [fst]; [|exact Hg].
    destruct (eval_good ds Hds a Hw x E). apply msg_add_good; assumption.
  - destruct Hw as (Hc & Hvd & Hv). destruct (eval_v ds v) as [x|] eqn:E; cbn [fst]; [|exact Hg].
    destruct (eval_v_good ds Hds v Hv x E). unfold msg_add_avp, mk_avp_fl.
    apply msg_add_good; [exact Hg | apply mk_avp_consistent | apply mk_avp_rep]; assumption.
  - destruct (eval_v ds v) as [x|] eqn:E; cbn [fst]; [|exact Hg].
    destruct (eval_v_good ds Hds v Hw x E).
    destruct (from_name ds n x) as [a|] eqn:F; cbn [fst]; [|exact Hg].
    destruct (from_name_good ds n x a Hds H H0 F). apply msg_add_good; assumption.
  - destruct (nth_error (m_avps m) i) as [a|] eqn:E; cbn [fst]; [|exact Hg].
    destruct Hg as [[Hc Hl] Hr]. pose proof Hr as (_ & _ & _ & _ & _ & _ & Hrl).
    apply msg_add_good; [split; [split|]; assumption | eapply consistent_list_nth; eassumption | eapply rep_list_nth; eassumption].
  - destruct Hw as (Hc & Hvd & Hx).
    destruct (nth_error (m_avps m) i) as [a|] eqn:E; cbn [fst]; [|exact Hg].
    destruct (a_val a) as [l|ms] eqn:Ev; cbn [fst]; [exact Hg|].
    destruct (eval_list ds extra) as [xs|] eqn:Ex; cbn [fst]; [|exact Hg].
    pose proof Hg as [[Hcl Hl] (_ & _ & _ & _ & _ & _ & Hrl)].
    pose proof (consistent_list_nth _ _ _ Hcl E) as Ca. pose proof (rep_list_nth _ _ _ Hrl E) as Ra.
    destruct a as [c0 vd0 m0 p0 len0 pad0 v0]. cbn [a_val] in Ev. subst v0.
    cbn [consistent rep] in Ca, Ra. destruct Ca as (_ & _ & Cms). destruct Ra as (_ & _ & Rms).
    rewrite consistent_val_grp in Cms. rewrite rep_val_grp in Rms.
    destruct (eval_list_good ds Hds extra Hx xs Ex) as [Cx Rx].
    unfold mk_avp_fl. apply msg_add_good; [exact Hg | apply mk_avp_consistent | apply mk_avp_rep]; try assumption.
    + rewrite consistent_val_grp. apply consistent_list_app. auto.
    + rewrite rep_val_grp. apply rep_list_app. auto.
Qed.

Fixpoint hops_wf (ops : list hop) : Prop :=
  match ops with [] => True | o :: os => hop_wf o /\ hops_wf os end.

Lemma hrun_good ds : dswf ds -> forall ops m, good m -> hops_wf ops -> good (fst (hrun ds m ops)).
Proof.
  intros Hds ops. induction ops as [|o os IH]; intros m Hg Hw; cbn [hrun fst]; [exact Hg|].
  destruct Hw as [Ho Hos]. pose proof (hstep_good ds m o Hds Hg Ho) as Hg'.
  destruct (hstep ds m o) as [m' ok] eqn:E. cbn [fst] in Hg'.
  specialize (IH m' Hg' Hos). destruct (hrun ds m' os) as [m'' oks]. exact IH.
Qed.

(* how a history may start *)
Definition dict_of (ds : list adef) : dict :=
  fun c vd => match lookup ds c vd with Some x => Some (d_ty x) | None => None end.

Definition hstart_wf (s : hstart) : Prop :=
  match s with
  | HNew cmd app fl hbh e2e =>
      cmd < 16777216 /\ app < 4294967296 /\ fl < 256 /\ hbh < 4294967296 /\ e2e < 4294967296
  | HDecode bs => complete bs
  end.

Lemma decoded_good lim d bs m : dec_msg lim d bs = Ok m -> complete bs -> msg_nomm m -> good m.
Proof.
  intros H Hc Hn. destruct (dec_msg_sound _ _ _ _ H Hc Hn) as (_ & Hcons & _).
  destruct (dec_msg_inv _ _ _ _ H) as (rest & r' & _ & Hv & _ & Hf & Hcm & Ha & Hh & He & _ & _ & Em).
  split; [exact Hcons|]. unfold msg_rep. repeat split; auto.
  eapply (proj2 (dec_rep d _)). exact Em.
Qed.

Lemma hstart_good lim ds s m :
  hstart_wf s -> hstart_msg lim ds s = Ok m -> msg_nomm m -> good m.
Proof.
  destruct s as [cmd app fl hbh e2e|bs]; cbn [hstart_wf hstart_msg].
  - intros (H1 & H2 & H3 & H4 & H5) E _. inversion E; subst. apply msg_new_good; assumption.
  - intros Hc E Hn. eapply decoded_good; eassumption.
Qed.

(* a message built by Avp::new only never has a fixed-size mismatch *)
(* ---------- the encoder on good messages ---------- *)
Lemma wireb_enc_ok : forall a, wireb a = true -> enc_ok a = true.
Proof.
  intros a. pattern a.
  apply avp_ind' with (Q := fun v => match v with VLeaf l => leaf_wire l = true -> leaf_enc_ok l = true
                                                  | VGrp ms => forallb wireb ms = true -> forallb enc_ok ms = true end); clear a.
  - intros l. apply leaf_wire_enc_ok.
  - intros ms IH. induction IH as [|x xs Hx Hxs IHxs]; cbn [forallb]; [auto|].
    intros H. apply andb_true_iff in H. destruct H. apply andb_true_iff. auto.
  - intros c vd m p len pad v IHv H. cbn [wireb] in H. cbn [enc_ok].
    apply andb_true_iff in H. destruct H as [H Hv]. apply andb_true_iff in H. destruct H as [_ Hl].
    apply andb_true_iff. split; [exact Hl|]. destruct v; cbn [val_enc_ok]; auto.
Qed.

Lemma forallb_wireb_enc_ok ms : forallb wireb ms = true -> forallb enc_ok ms = true.
Proof.
  induction ms as [|x xs IH]; cbn [forallb]; [auto|]. intros H. apply andb_true_iff in H. destruct H.
  apply andb_true_iff. auto using wireb_enc_ok.
Qed.

Lemma msg_wireb_enc_ok m : msg_wireb m = true -> msg_enc_ok m = true.
Proof.
  unfold msg_wireb, msg_enc_ok. intros H. apply andb_true_iff in H. destruct H as [H Hw].
  apply andb_true_iff in H. destruct H as [_ Hl]. apply andb_true_iff. split; [exact Hl | apply forallb_wireb_enc_ok; exact Hw].
Qed.

Theorem enc_good_is_spec m :
  good m -> msg_enc_ok m = true ->
  enc_msg m = Ok (spec_msg (abs_msg m)) /\ m_len m = blen (spec_msg (abs_msg m)).
Proof.
  intros [[Hc Hl] (_ & _ & _ & _ & _ & _ & Hr)] Hok. unfold enc_msg. rewrite Hok.
  destruct (enc_list_is_spec (m_avps m) Hc Hr) as [E L].
  assert (Hb : blen (spec_body (map abs (m_avps m))) = members_len (m_avps m)).
  { unfold spec_body. rewrite <- E. exact L. }
  assert (Hs : enc_msg_raw m = spec_msg (abs_msg m)).
  { unfold enc_msg_raw, spec_msg, enc_hdr, spec_hdr, abs_msg.
    cbn [s_ver s_flags s_cmd s_app s_hbh s_e2e s_avps]. rewrite Hb, <- Hl. unfold spec_body. rewrite E. reflexivity. }
  split; [rewrite Hs; reflexivity|].
  unfold spec_msg, spec_hdr, abs_msg. cbn [s_ver s_flags s_cmd s_app s_hbh s_e2e s_avps].
  rewrite !blen_app, !blen_be24, !blen_be32, Hb. change (blen [_]) with 1. lia.
Qed.

(* C01, statement over histories *)
Theorem history_encodes_rfc6733 lim ds s ops m0 :
  dswf ds -> hstart_wf s -> hops_wf ops ->
  hstart_msg lim ds s = Ok m0 -> msg_nomm m0 ->
  let m := fst (hrun ds m0 ops) in
  msg_wireb m = true ->
  enc_msg m = Ok (spec_msg (abs_msg m)) /\ m_len m = blen (spec_msg (abs_msg m)).
Proof.
  intros Hds Hs Hops E Hn m Hw.
  apply enc_good_is_spec; [|apply msg_wireb_enc_ok; exact Hw].
  apply hrun_good; [exact Hds | eapply hstart_good; eassumption | exact Hops].
Qed.

(* a failed builder call changes nothing (C16) *)
Lemma hstep_failed_unchanged ds m o : snd (hstep ds m o) = false -> fst (hstep ds m o) = m.
Proof.
  destruct o as [a|c vd fl v|n v|i|i c vd fl extra]; cbn [hstep].
  - destruct (eval_a ds a); cbn; [discriminate | reflexivity].
  - destruct (eval_v ds v); cbn; [discriminate | reflexivity].
  - destruct (eval_v ds v); cbn; [|reflexivity]. destruct (from_name ds n v0); cbn; [discriminate | reflexivity].
  - destruct (nth_error (m_avps m) i); cbn; [discriminate | reflexivity].
  - destruct (nth_error (m_avps m) i); cbn; [|reflexivity].
    destruct (a_val a); cbn; [reflexivity|]. destruct (eval_list ds extra); cbn; [discriminate | reflexivity].
Qed.

(* ---------- round trip (C02) ---------- *)
(* the dictionary declares each AVP's data type *)
Fixpoint typed (d : dict) (a : avp) : Prop :=
  match a with
  | MkAvp c vd m p len pad v =>
      d c vd = Some (val_ty v) /\
      match v with
      | VLeaf _ => True
      | VGrp ms => (fix all (l : list avp) : Prop := match l with [] => True | x :: xs => typed d x /\ all xs end) ms
      end
  end.
Definition typed_list (d : dict) : list avp -> Prop :=
  fix all (l : list avp) : Prop := match l with [] => True | x :: xs => typed d x /\ all xs end.
Lemma typed_list_cons d x xs : typed_list d (x :: xs) = (typed d x /\ typed_list d xs). Proof. reflexivity. Qed.

Lemma sty_abs v : sty_of (abs_val v) = val_ty v.
Proof. destruct v; reflexivity. Qed.

Lemma swf_of_model d :
  forall a, consistent a -> rep a -> wireb a = true -> typed d a -> swf d (abs a).
Proof.
  intros a. pattern a.
  apply avp_ind' with (Q := fun v => match v with
      | VLeaf l => True
      | VGrp ms => consistent_list ms -> rep_list ms -> forallb wireb ms = true -> typed_list d ms -> swf_list d (map abs ms) end); clear a.
  - intros l. exact I.
  - intros ms IH. induction IH as [|x xs Hx Hxs IHxs]; intros Hc Hr Hw Ht; [exact I|].
    rewrite consistent_list_cons in Hc. rewrite rep_list_cons in Hr. rewrite typed_list_cons in Ht.
    cbn [forallb] in Hw. apply andb_true_iff in Hw.
    cbn [map]. rewrite swf_list_cons. split; [apply Hx; tauto | apply IHxs; tauto].
  - intros c vd m p len pad v IHv Hc Hr Hw Ht.
    cbn [consistent] in Hc. destruct Hc as (Hlen & Hpad & Hcv).
    cbn [rep] in Hr. destruct Hr as (Hc32 & Hvd & Hrv).
    cbn [typed] in Ht. destruct Ht as [Hd Htv].
    cbn [wireb] in Hw. apply andb_true_iff in Hw. destruct Hw as [Hw Hwv].
    apply andb_true_iff in Hw. destruct Hw as [_ Hl24]. apply N.ltb_lt in Hl24.
    cbn [abs swf]. rewrite sty_abs. split; [exact Hc32|]. split; [exact Hvd|].
    assert (Hbl : blen (spec_val (abs_val v)) = val_len v).
    { destruct v as [l|ms].
      - cbn [spec_val abs_val val_len]. symmetry. apply leaf_len_enc. exact Hrv.
      - cbn [spec_val abs_val val_len]. rewrite consistent_val_grp in Hcv. rewrite rep_val_grp in Hrv.
        destruct (enc_list_is_spec ms Hcv Hrv) as [E L]. rewrite <- E. exact L. }
    split; [rewrite Hbl; lia|]. split; [exact Hd|].
    destruct v as [l|ms]; cbn [abs_val swf_val].
    + exact Hwv.
    + apply IHv; [rewrite <- consistent_val_grp; exact Hcv | rewrite <- rep_val_grp; exact Hrv | exact Hwv | exact Htv].
Qed.

Lemma swf_list_of_model d ms :
  consistent_list ms -> rep_list ms -> forallb wireb ms = true -> typed_list d ms -> swf_list d (map abs ms).
Proof.
  induction ms as [|x xs IH]; intros Hc Hr Hw Ht; [exact I|].
  rewrite consistent_list_cons in Hc. rewrite rep_list_cons in Hr. rewrite typed_list_cons in Ht.
  cbn [forallb] in Hw. apply andb_true_iff in Hw.
  cbn [map]. rewrite swf_list_cons. split; [apply swf_of_model; tauto | apply IH; tauto].
Qed.

Lemma sdepth_abs : forall a, sdepth (abs a) = depth a.
Proof.
  intros a. pattern a.
  apply avp_ind' with (Q := fun v => sdepth_val (abs_val v) = depth_val v); clear a.
  - reflexivity.
  - intros ms IH. cbn [abs_val sdepth_val depth_val]. f_equal.
    induction IH as [|x xs Hx Hxs IHxs]; [reflexivity|]. cbn [map]. rewrite Hx, IHxs. reflexivity.
  - intros c vd m p len pad v IHv. cbn [abs sdepth depth]. exact IHv.
Qed.
Lemma sdepth_list_abs ms : sdepth_list (map abs ms) = depth_list ms.
Proof. induction ms as [|x xs IH]; [reflexivity|]. cbn [map]. rewrite sdepth_list_cons, depth_list_cons, sdepth_abs, IH. reflexivity. Qed.

Theorem roundtrip lim d m bs :
  good m -> msg_wireb m = true -> typed_list d (m_avps m) ->
  known_cmd (m_cmd m) = true -> known_app (m_app m) = true ->
  (depth_list (m_avps m) <= lim)%nat ->
  enc_msg m = Ok bs -> dec_msg lim d bs = Ok m.
Proof.
  intros Hg Hw Ht Hkc Hka Hdep Henc.
  destruct (enc_good_is_spec m Hg (msg_wireb_enc_ok m Hw)) as [E L]. rewrite E in Henc. inversion Henc; subst bs. clear Henc.
  pose proof Hg as [[Hc Hl] (Hv & Hf & Hcm & Hap & Hh & He & Hr)].
  unfold msg_wireb in Hw. apply andb_true_iff in Hw. destruct Hw as [Hw Hwl].
  apply andb_true_iff in Hw. destruct Hw as [_ Hl24]. apply N.ltb_lt in Hl24.
  assert (HW : wire_msg d (abs_msg m) (spec_msg (abs_msg m))).
  { exists (spec_body (s_avps (abs_msg m))). split; [|split; [|split]].
    - unfold abs_msg. cbn [s_avps]. apply spec_list_is_wire. apply swf_list_of_model; assumption.
    - unfold hdr_ranges, abs_msg. cbn. repeat split; assumption.
    - unfold abs_msg, spec_body. cbn [s_avps]. destruct (enc_list_is_spec (m_avps m) Hc Hr) as [E1 L1].
      rewrite <- E1, L1. lia.
    - reflexivity. }
  destruct (dec_msg_complete lim d (abs_msg m) _ HW) as (m' & Ed & Ea & [Hc' Hl'] & _);
    [exact Hkc | exact Hka | unfold smsg_depth, abs_msg; cbn [s_avps]; rewrite sdepth_list_abs; exact Hdep |].
  rewrite Ed. f_equal.
  unfold abs_msg in Ea. inversion Ea as [[E1 E2 E3 E4 E5 E6 E7]].
  apply abs_list_inj in E7; [|assumption|assumption].
  destruct m as [v1 l1 f1 c1 a1 h1 e1 av1]. destruct m' as [v2 l2 f2 c2 a2 h2 e2 av2].
  cbn [m_ver m_len m_flags m_cmd m_app m_hbh m_e2e m_avps] in *. subst. reflexivity.
Qed.
