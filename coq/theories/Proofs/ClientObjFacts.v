(* Facts about Model/ClientObj.v: after repair D13 the writer and the waiter table of a client object always
   belong to the same connection, the object refines the product machine of Model/ClientMulti.v, and a
   failed connect() - early or late - changes nothing.  Before D13 a failed handshake split the two. *)
Require Import DV.Base.Bytes DV.Model.Client DV.Proofs.ClientFacts DV.Model.ClientMulti DV.Proofs.ClientMultiFacts DV.Model.ClientObj.
From Coq Require Import Arith.

Definition together (s : ost) : Prop := owr s = otb s /\ otb s = onc s.

Lemma together_init : together oinit.
Proof. split; reflexivity. Qed.

Lemma together_step s e : together s -> together (ostep s e).
Proof.
  intros [H1 H2]. unfold ostep. destruct e as [| | |h|h|i|c e]; cbn [ostep_gen]; try (split; assumption).
  - split; reflexivity.
  - destruct (Nat.eqb (owr s) 0); split; assumption.
  - destruct (Nat.eqb (owr s) 0); split; assumption.
  - destruct (Nat.eqb (owr s) 0); split; assumption.
Qed.

Lemma together_fold es : forall s, together s -> together (fold_left ostep es s).
Proof. induction es as [|e es IH]; intros s H; cbn [fold_left]; [exact H|]. apply IH. now apply together_step. Qed.

Theorem writer_and_table_move_together es : owr (orun es) = otb (orun es) /\ otb (orun es) = onc (orun es).
Proof. apply together_fold. apply together_init. Qed.

(* refinement: the object is the product machine; `cur` of the product is the one pointer *)
Definition orel (s : ost) (m : mst) : Prop := owr s = cur m /\ otb s = cur m /\ onc s = cur m /\ oconn s = conn m.

Lemma orel_step s m e : orel s m -> orel (ostep s e) (mstep m (omap e)).
Proof.
  intros (H1 & H2 & H3 & H4). unfold ostep, orel.
  destruct e as [| | |h|h|i|c e]; cbn [ostep_gen omap mstep owr otb onc oconn cur conn].
  - rewrite H3. repeat split; auto.
  - repeat split; auto.
  - repeat split; auto.
  - rewrite H1. destruct (Nat.eqb (cur m) 0); cbn [owr otb onc oconn oput cur conn]; repeat split; auto.
    rewrite H2, H4. reflexivity.
  - rewrite H1. destruct (Nat.eqb (cur m) 0); cbn [owr otb onc oconn oput cur conn]; repeat split; auto.
    rewrite H4. reflexivity.
  - rewrite H1. destruct (Nat.eqb (cur m) 0); cbn [owr otb onc oconn oput cur conn]; repeat split; auto.
    rewrite H2, H4. reflexivity.
  - cbn [owr otb onc oconn oput]. repeat split; auto. rewrite H4. reflexivity.
Qed.

Lemma orel_fold es : forall s m, orel s m -> orel (fold_left ostep es s) (fold_left mstep (map omap es) m).
Proof.
  induction es as [|e es IH]; intros s m H; cbn [fold_left map]; [exact H|]. apply IH. now apply orel_step.
Qed.

Theorem object_refines_product es :
  oconn (orun es) = conn (mrun (map omap es)) /\ owr (orun es) = cur (mrun (map omap es)).
Proof.
  assert (H : orel oinit minit) by (repeat split; reflexivity).
  destruct (orel_fold es _ _ H) as (H1 & _ & _ & H4). split; [exact H4 | exact H1].
Qed.

(* so every connection of the object behaves like a single-connection client fed with its own events *)
Theorem object_projection es c : oconn (orun es) c = run (cproj 0 c (map omap es)).
Proof. destruct (object_refines_product es) as [H _]. rewrite H. apply multi_projection. Qed.

Theorem object_release es c i : closed (oconn (orun es) c) = true -> i < nw (oconn (orun es) c) ->
  ws (oconn (orun es) c) i <> WPending.
Proof. rewrite object_projection. apply C12_reader_stop_releases_all_lemma. Qed.

Theorem failed_connect_changes_nothing s : ostep s OConnectFailEarly = s /\ ostep s OConnectFailLate = s.
Proof. split; reflexivity. Qed.

(* ---------- before D13 ----------
   A TLS client on a live connection (request 1 answered), a second connect() whose handshake fails, request 2
   written to the live connection and answered by its peer, the connection then lost, request 3. *)

(* the failed handshake splits writer and table; the answer to request 2 arrives where nobody waits for it
   (and stops that reader); requests 2 and 3 wait for ever: the only reader has stopped, the table they sit in has no
   reader and its flag stays open *)
Lemma d13_refuted :
  let s := orun_d13 sched_tlsfail in
  send_outcomes late_d13 sched_tlsfail
    = [WGot {| hop := 1%N; fid := 0 |}; WPending; WPending] /\
  owr s = 1 /\ otb s = 2 /\ closed (oconn s 1) = true /\ closed (oconn s 2) = false /\ inq (oconn s 2) = [].
Proof. vm_compute. repeat split; reflexivity. Qed.

Lemma d13_repaired :
  send_outcomes late_ok sched_tlsfail = [WGot {| hop := 1%N; fid := 0 |}; WGot {| hop := 2%N; fid := 1 |}; WDropped].
Proof. vm_compute. reflexivity. Qed.

(* the other two reconnect scenarios of the harness (RECONN overlap / failed), on the repaired object *)
Lemma reconnect_scenarios :
  send_outcomes late_ok sched_overlap = [WDropped; WGot {| hop := 2%N; fid := 0 |}] /\
  send_outcomes late_ok sched_failed = [WGot {| hop := 1%N; fid := 0 |}; WDropped].
Proof. vm_compute. split; reflexivity. Qed.
