(* Encoder side: the model encoder (which writes *stored* lengths) equals the reference
   encoder (which computes them) on consistent trees; the reference encoder produces a wire
   image; stored lengths are determined by the abstract tree. *)
Require Import DV.Base.Bytes DV.Base.Utf8 DV.Model.Leaf DV.Spec.Wire DV.Model.Avp DV.Proofs.LeafFacts.
Local Open Scope N_scope.

Lemma consistent_val_grp ms : consistent_val (VGrp ms) = consistent_list ms. Proof. reflexivity. Qed.
Lemma rep_val_grp ms : rep_val (VGrp ms) = rep_list ms. Proof. reflexivity. Qed.
Lemma consistent_list_cons x xs : consistent_list (x :: xs) = (consistent x /\ consistent_list xs). Proof. reflexivity. Qed.
Lemma rep_list_cons x xs : rep_list (x :: xs) = (rep x /\ rep_list xs). Proof. reflexivity. Qed.
Lemma nomm_list_cons x xs : nomm_list (x :: xs) = (nomm x /\ nomm_list xs). Proof. reflexivity. Qed.
Lemma depth_list_cons x xs : depth_list (x :: xs) = Nat.max (depth x) (depth_list xs). Proof. reflexivity. Qed.
Lemma sdepth_list_cons x xs : sdepth_list (x :: xs) = Nat.max (sdepth x) (sdepth_list xs). Proof. reflexivity. Qed.
Lemma depth_grp c vd m p len pad ms : depth (MkAvp c vd m p len pad (VGrp ms)) = S (depth_list ms). Proof. reflexivity. Qed.
Lemma sdepth_grp c vd m p ms : sdepth (SAvp c vd m p (SGrp ms)) = S (sdepth_list ms). Proof. reflexivity. Qed.

Lemma members_len_cons x xs : members_len (x :: xs) = a_len x + a_pad x + members_len xs.
Proof. reflexivity. Qed.
Lemma members_len_app xs ys : members_len (xs ++ ys) = members_len xs + members_len ys.
Proof. induction xs as [|x xs IH]; cbn [app]; rewrite ?members_len_cons; [reflexivity | rewrite IH; lia]. Qed.

Lemma blen_optbe32 vd : blen (optbe32 vd) + 8 = hdr vd.
Proof. destruct vd; reflexivity. Qed.

Lemma blen_flat_map {A} (f : A -> list byte) (l : list A) :
  blen (flat_map f l) = fold_right (fun a acc => blen (f a) + acc) 0 l.
Proof. induction l as [|x xs IH]; cbn [flat_map fold_right]; [reflexivity | rewrite blen_app, IH; reflexivity]. Qed.

(* L-enc-spec *)
Lemma enc_is_spec :
  forall a, consistent a -> rep a ->
            enc_avp a = spec_avp (abs a) /\ blen (enc_avp a) = a_len a + a_pad a.
Proof.
  intros a. pattern a.
  apply avp_ind' with (Q := fun v => consistent_val v -> rep_val v ->
                                     enc_val v = spec_val (abs_val v) /\ blen (enc_val v) = val_len v); clear a.
  - intros l _ Hr. cbn [enc_val abs_val spec_val val_len] in *. split; [reflexivity|].
    symmetry. apply leaf_len_enc. exact Hr.
  - intros ms IH. rewrite consistent_val_grp, rep_val_grp. cbn [enc_val abs_val spec_val val_len].
    induction IH as [|x xs Hx Hxs IHxs]; intros Hc Hr.
    + split; reflexivity.
    + rewrite consistent_list_cons in Hc. rewrite rep_list_cons in Hr.
      destruct Hc as [Hcx Hcxs]. destruct Hr as [Hrx Hrxs].
      destruct (Hx Hcx Hrx) as [E1 L1]. destruct (IHxs Hcxs Hrxs) as [E2 L2].
      cbn [flat_map map]. rewrite E1, E2. split; [reflexivity|].
      rewrite blen_app, members_len_cons. rewrite <- E1, <- E2, L1, L2. reflexivity.
  - intros c vd m p len pad v IHv Hc Hr.
    cbn [consistent] in Hc. destruct Hc as (Hlen & Hpad & Hcv).
    cbn [rep] in Hr. destruct Hr as (_ & _ & Hrv).
    destruct (IHv Hcv Hrv) as [E L].
    cbn [enc_avp abs spec_avp a_len a_pad]. rewrite <- E, L, <- Hlen, <- Hpad. split; [reflexivity|].
    rewrite !blen_app, blen_zeros, blen_be32, blen_be24, L. change (blen [_]) with 1.
    pose proof (blen_optbe32 vd). lia.
Qed.

Lemma enc_list_is_spec ms :
  consistent_list ms -> rep_list ms ->
  flat_map enc_avp ms = flat_map spec_avp (map abs ms) /\ blen (flat_map enc_avp ms) = members_len ms.
Proof.
  induction ms as [|x xs IH]; intros Hc Hr; [split; reflexivity|].
  rewrite consistent_list_cons in Hc. rewrite rep_list_cons in Hr.
  destruct Hc as [Hcx Hcxs]. destruct Hr as [Hrx Hrxs].
  destruct (enc_is_spec x Hcx Hrx) as [E1 L1]. destruct (IH Hcxs Hrxs) as [E2 L2].
  cbn [flat_map map]. rewrite E1, E2. split; [reflexivity|].
  rewrite blen_app, members_len_cons. rewrite <- E1, <- E2, L1, L2. reflexivity.
Qed.

(* Avp::new establishes consistency *)
Lemma mk_avp_consistent c vd m p v : consistent_val v -> consistent (mk_avp c vd m p v).
Proof. intros H. unfold mk_avp. cbn [consistent]. auto. Qed.

(* stored lengths are a function of the abstract tree *)
Lemma abs_inj :
  forall a a', consistent a -> consistent a' -> abs a = abs a' -> a = a'.
Proof.
  intros a. pattern a.
  apply avp_ind' with (Q := fun v => forall v', consistent_val v -> consistent_val v' -> abs_val v = abs_val v' -> v = v'); clear a.
  - intros l v' _ _ H. destruct v'; cbn in H; inversion H. reflexivity.
  - intros ms IH v' Hc Hc' H. destruct v' as [|ms']; cbn [abs_val] in H; inversion H as [H1]. clear H.
    f_equal. rewrite consistent_val_grp in Hc, Hc'.
    revert ms' Hc' H1. induction IH as [|x xs Hx Hxs IHxs]; intros ms' Hc' H1.
    + destruct ms'; [reflexivity | discriminate].
    + destruct ms' as [|y ys]; [discriminate|]. cbn [map] in H1. inversion H1 as [[Hxy Hrest]].
      rewrite consistent_list_cons in Hc, Hc'. destruct Hc as [Hcx Hcxs]. destruct Hc' as [Hcy Hcys].
      f_equal; [apply Hx; assumption | apply IHxs; assumption].
  - intros c vd m p len pad v IHv a' Hc Hc' H.
    destruct a' as [c' vd' m' p' len' pad' v']. cbn [abs] in H. inversion H; subst c' vd' m' p'.
    cbn [consistent] in Hc, Hc'. destruct Hc as (Hl & Hp & Hcv). destruct Hc' as (Hl' & Hp' & Hcv').
    assert (v = v') by (apply IHv; assumption). subst v'. subst. reflexivity.
Qed.

Lemma abs_list_inj ms ms' :
  consistent_list ms -> consistent_list ms' -> map abs ms = map abs ms' -> ms = ms'.
Proof.
  revert ms'. induction ms as [|x xs IH]; intros ms' Hc Hc' H.
  - destruct ms'; [reflexivity | discriminate].
  - destruct ms' as [|y ys]; [discriminate|]. cbn [map] in H. inversion H.
    rewrite consistent_list_cons in Hc, Hc'. destruct Hc as [Hcx Hcxs]. destruct Hc' as [Hcy Hcys].
    f_equal; [apply abs_inj; assumption | apply IH; assumption].
Qed.

(* ---------- the reference encoder produces a wire image ---------- *)
Lemma flags_rt v m p :
  flags_ok (b_of_N (flags_byte v m p)) v m p.
Proof. destruct v, m, p; vm_compute; auto. Qed.

(* well-formed abstract trees: the quantifier of C01/C02 at the level of the specification *)
Fixpoint swf (d : dict) (a : savp) : Prop :=
  match a with
  | SAvp c vd m p v =>
      c < 4294967296 /\ vd_ok vd /\ hdr vd + blen (spec_val v) < 16777216
      /\ d c vd = Some (sty_of v) /\ swf_val d v
  end
with swf_val (d : dict) (v : sval) : Prop :=
  match v with
  | SLeaf l => leaf_wire l = true
  | SGrp ms => (fix all (l : list savp) : Prop := match l with [] => True | x :: xs => swf d x /\ all xs end) ms
  end.
Definition swf_list (d : dict) : list savp -> Prop :=
  fix all (l : list savp) : Prop := match l with [] => True | x :: xs => swf d x /\ all xs end.
Lemma swf_list_cons d x xs : swf_list d (x :: xs) = (swf d x /\ swf_list d xs). Proof. reflexivity. Qed.

Lemma spec_is_wire d :
  forall a, swf d a -> wire_avp d a (spec_avp a).
Proof.
  intros a. pattern a.
  apply savp_ind' with (Q := fun v => swf_val d v -> wire_val d v (spec_val v)); clear a.
  - intros l H. cbn in *. apply WLeaf. exact H.
  - intros ms IH H. cbn [spec_val]. apply WGrp. change (swf_val d (SGrp ms)) with (swf_list d ms) in H.
    induction IH as [|x xs Hx Hxs IHxs].
    + constructor.
    + rewrite swf_list_cons in H. destruct H as [H1 H2]. cbn [flat_map]. constructor; auto.
  - intros c vd m p v IHv H. cbn [swf] in H. destruct H as (Hc & Hvd & Hlen & Hd & Hv).
    cbn [spec_avp]. apply W; auto.
    + apply blen_zeros.
    + apply flags_rt.
Qed.

Lemma spec_list_is_wire d ms : swf_list d ms -> wire_avps d ms (flat_map spec_avp ms).
Proof.
  induction ms as [|x xs IH]; intros H; [constructor|].
  rewrite swf_list_cons in H. destruct H as [H1 H2]. cbn [flat_map]. constructor; auto using spec_is_wire.
Qed.

(* length of a wire image *)
Lemma wire_avp_len d a bs : wire_avp d a bs ->
  exists data, wire_val d (match a with SAvp _ _ _ _ v => v end) data /\
               blen bs = hdr (match a with SAvp _ vd _ _ _ => vd end) + blen data + pad4 (blen data).
Proof.
  intros H. inversion H; subst. exists data. split; [assumption|].
  rewrite !blen_app, blen_be32, blen_be24. change (blen [fl]) with 1.
  pose proof (blen_optbe32 vd). lia.
Qed.
