(* C05: write-segmentation irrelevance, success means complete, a fault at any offset is
   reported, unrepresentable values are refused. *)
Require Import DV.Base.Bytes DV.Model.Leaf DV.Spec.Wire DV.Model.Avp DV.Model.Message DV.Model.IoWrite
  DV.Proofs.LeafFacts DV.Proofs.AvpFacts.
Local Open Scope N_scope.

Lemma firstn_skipn_comm_len (k : nat) (bs : list byte) (n : nat) :
  (k <= length bs)%nat -> firstn k bs ++ firstn n (skipn k bs) = firstn (k + n) bs.
Proof.
  revert bs. induction k as [|k IH]; intros bs H; [reflexivity|].
  destruct bs as [|b bs]; [cbn in H; lia|]. cbn [firstn skipn plus app]. f_equal. apply IH. cbn in H. lia.
Qed.

(* write_all against a budget writer: the outcome depends on the budget only *)
Lemma write_all_spec : forall fuel w bs,
  caps_pos w -> (length (w_behav w) + length bs < fuel)%nat ->
  exists w', write_all fuel w bs =
             Some (blen bs <=? w_budget w, firstn (N.to_nat (w_budget w)) bs, w')
             /\ w_budget w' = w_budget w - N.min (blen bs) (w_budget w)
             /\ caps_pos w'.
Proof.
  induction fuel as [|f IH]; intros w bs Hc Hf; [lia|].
  destruct bs as [|b bs'].
  - exists w. cbn [write_all]. rewrite blen_nil. replace (0 <=? w_budget w) with true by (symmetry; apply N.leb_le; lia).
    rewrite firstn_nil. repeat split; [lia | exact Hc].
  - cbn [write_all]. assert (Hbl : 1 <= blen (b :: bs')) by (rewrite blen_cons; lia).
    remember (b :: bs') as bs eqn:Ebs. clear Ebs b bs'. unfold w_write.
    destruct w as [k behav]. cbn [w_budget w_behav] in *. unfold caps_pos in Hc. cbn [w_behav] in Hc.
    destruct behav as [|[c|] behav'].
    + (* default behaviour *)
      destruct (N.eqb_spec k 0) as [->|Hk].
      * exists (MkW 0 []). cbn [w_budget]. replace (blen bs <=? 0) with false by (symmetry; apply N.leb_gt; lia).
        cbn [N.to_nat firstn]. split; [reflexivity|]. split; [lia | constructor].
      * destruct (N.eqb_spec (N.min (blen bs) k) 0) as [E|_]; [lia|].
        destruct (IH (MkW (k - N.min (blen bs) k) []) (skipn (N.to_nat (N.min (blen bs) k)) bs)) as (w' & E & Hb & Hc');
          [constructor | cbn [w_behav length]; rewrite skipn_length; unfold blen in *; cbn [length] in Hf; lia |].
        rewrite E. cbn [w_budget] in *. exists w'. split; [|split; [|exact Hc']].
        -- f_equal. f_equal. f_equal.
           ++ unfold blen in *. rewrite skipn_length. destruct (N.leb_spec (N.of_nat (length bs)) k);
                destruct (N.leb_spec (N.of_nat (length bs - N.to_nat (N.min (N.of_nat (length bs)) k))) (k - N.min (N.of_nat (length bs)) k)); try reflexivity; lia.
           ++ rewrite firstn_skipn_comm_len by (unfold blen in *; lia). f_equal. unfold blen in *. lia.
        -- rewrite Hb. unfold blen in *. rewrite skipn_length. lia.
    + (* capped call *)
      inversion Hc as [|? ? Hc0 Hc']; subst.
      destruct (N.eqb_spec k 0) as [->|Hk].
      * exists (MkW 0 behav'). cbn [w_budget]. replace (blen bs <=? 0) with false by (symmetry; apply N.leb_gt; lia).
        cbn [N.to_nat firstn]. split; [reflexivity|]. split; [lia | exact Hc'].
      * assert (c <> 0) by congruence.
        destruct (N.eqb_spec (N.min (N.min (blen bs) c) k) 0) as [E|_]; [lia|].
        set (j := N.min (N.min (blen bs) c) k).
        destruct (IH (MkW (k - j) behav') (skipn (N.to_nat j) bs)) as (w' & E & Hb & Hc'');
          [exact Hc' | cbn [w_behav length] in *; rewrite skipn_length; unfold j, blen in *; lia |].
        rewrite E. cbn [w_budget] in *. exists w'. split; [|split; [|exact Hc'']].
        -- f_equal. f_equal. f_equal.
           ++ unfold j, blen in *. rewrite skipn_length. destruct (N.leb_spec (N.of_nat (length bs)) k);
                destruct (N.leb_spec (N.of_nat (length bs - N.to_nat (N.min (N.min (N.of_nat (length bs)) c) k))) (k - N.min (N.min (N.of_nat (length bs)) c) k)); try reflexivity; lia.
           ++ rewrite firstn_skipn_comm_len by (unfold j, blen in *; lia). f_equal. unfold j, blen in *. lia.
        -- rewrite Hb. unfold j, blen in *. rewrite skipn_length. lia.
    + (* Interrupted: retried *)
      inversion Hc as [|? ? _ Hc']; subst.
      destruct (IH (MkW k behav') bs) as (w' & E & Hb & Hc''); [exact Hc' | cbn [w_behav length] in *; lia |].
      exists w'. rewrite E. cbn [w_budget] in *. auto.
Qed.

(* any sequence of write_all calls whose concatenation is bs *)
Theorem segmentation_irrelevant : forall chunks w,
  caps_pos w ->
  exists w', write_chunks w chunks =
             Some (blen (concat chunks) <=? w_budget w, firstn (N.to_nat (w_budget w)) (concat chunks), w')
             /\ caps_pos w'.
Proof.
  induction chunks as [|c cs IH]; intros w Hc.
  - exists w. cbn [write_chunks concat]. rewrite blen_nil. replace (0 <=? w_budget w) with true by (symmetry; apply N.leb_le; lia).
    rewrite firstn_nil. auto.
  - cbn [write_chunks concat].
    destruct (write_all_spec (wa_fuel w c) w c Hc) as (w1 & E1 & Hb1 & Hc1); [unfold wa_fuel; lia|].
    rewrite E1. destruct (N.leb_spec (blen c) (w_budget w)) as [Hle|Hgt].
    + destruct (IH w1 Hc1) as (w2 & E2 & Hc2). rewrite E2. exists w2. split; [|exact Hc2].
      rewrite Hb1. f_equal. f_equal. f_equal.
      * rewrite blen_app. destruct (N.leb_spec (blen (concat cs)) (w_budget w - N.min (blen c) (w_budget w)));
          destruct (N.leb_spec (blen c + blen (concat cs)) (w_budget w)); try reflexivity; lia.
      * rewrite firstn_app. f_equal. f_equal. unfold blen in *. lia.
    + exists w1. split; [|exact Hc1]. f_equal. f_equal. f_equal.
      * rewrite blen_app. symmetry. apply N.leb_gt. lia.
      * rewrite firstn_app. unfold blen in Hgt. replace (N.to_nat (w_budget w) - length c)%nat with 0%nat by lia.
        cbn [firstn]. rewrite app_nil_r. reflexivity.
Qed.

(* the code's segmentation concatenates to the encoding *)
Lemma concat_repeat1 (n : nat) : concat (repeat [x00] n) = repeat x00 n.
Proof. induction n as [|n IH]; [reflexivity|]. cbn [repeat concat app]. rewrite IH. reflexivity. Qed.

Lemma leaf_chunks_concat l : concat (leaf_chunks l) = enc_leaf l.
Proof. destruct l; cbn [leaf_chunks concat enc_leaf app]; rewrite ?app_nil_r; reflexivity. Qed.

Lemma concat_flat_map {A} (f : A -> list (list byte)) (g : A -> list byte) (l : list A) :
  Forall (fun x => concat (f x) = g x) l -> concat (flat_map f l) = flat_map g l.
Proof. induction 1 as [|x xs Hx _ IH]; [reflexivity|]. cbn [flat_map]. rewrite concat_app, Hx, IH. reflexivity. Qed.

Lemma avp_chunks_concat : forall a, concat (avp_chunks a) = enc_avp a.
Proof.
  intros a. pattern a.
  apply avp_ind' with (Q := fun v => concat (val_chunks v) = enc_val v); clear a.
  - intros l. apply leaf_chunks_concat.
  - intros ms IH. cbn [val_chunks enc_val]. apply concat_flat_map. exact IH.
  - intros c vd m p len pad v IHv. cbn [avp_chunks enc_avp]. rewrite !concat_app, IHv, concat_repeat1.
    cbn [concat app]. destruct vd; cbn [optbe32 concat app]; rewrite ?app_nil_r; unfold zeros; repeat rewrite <- app_assoc; reflexivity.
Qed.

Lemma msg_chunks_concat m : concat (msg_chunks m) = enc_msg_raw m.
Proof.
  unfold msg_chunks, enc_msg_raw, enc_hdr. rewrite concat_app.
  rewrite (concat_flat_map avp_chunks enc_avp) by (apply Forall_forall; intros; apply avp_chunks_concat).
  cbn [concat app]. rewrite app_nil_r. repeat rewrite <- app_assoc. reflexivity.
Qed.

(* ---------- the C05 statements ---------- *)
Theorem enc_to_spec m w :
  caps_pos w ->
  enc_to m w =
    if msg_enc_ok m
    then Some (blen (enc_msg_raw m) <=? w_budget w, Some (firstn (N.to_nat (w_budget w)) (enc_msg_raw m)))
    else Some (false, None).
Proof.
  intros Hc. unfold enc_to. destruct (msg_enc_ok m); [|reflexivity].
  destruct (segmentation_irrelevant (msg_chunks m) w Hc) as (w' & E & _). rewrite E, msg_chunks_concat. reflexivity.
Qed.

Theorem success_means_complete m w acc :
  caps_pos w -> enc_to m w = Some (true, acc) ->
  enc_msg m = Ok (enc_msg_raw m) /\ acc = Some (enc_msg_raw m) /\ blen (enc_msg_raw m) <= w_budget w.
Proof.
  intros Hc. rewrite (enc_to_spec m w Hc). unfold enc_msg. destruct (msg_enc_ok m); [|discriminate].
  destruct (N.leb_spec (blen (enc_msg_raw m)) (w_budget w)) as [Hle|]; [|discriminate].
  intros H. inversion H; subst. repeat split; auto. f_equal. apply firstn_all2. unfold blen in Hle. lia.
Qed.

Theorem fault_at_any_offset m w bs :
  caps_pos w -> enc_msg m = Ok bs -> w_budget w < blen bs ->
  enc_to m w = Some (false, Some (firstn (N.to_nat (w_budget w)) bs)).
Proof.
  intros Hc. unfold enc_msg. rewrite (enc_to_spec m w Hc). destruct (msg_enc_ok m); [|discriminate].
  intros H Hlt. inversion H; subst. replace (blen (enc_msg_raw m) <=? w_budget w) with false by (symmetry; apply N.leb_gt; exact Hlt).
  reflexivity.
Qed.

Theorem enough_budget_succeeds m w bs :
  caps_pos w -> enc_msg m = Ok bs -> blen bs <= w_budget w -> enc_to m w = Some (true, Some bs).
Proof.
  intros Hc. unfold enc_msg. rewrite (enc_to_spec m w Hc). destruct (msg_enc_ok m); [|discriminate].
  intros H Hle. inversion H; subst. replace (blen (enc_msg_raw m) <=? w_budget w) with true by (symmetry; apply N.leb_le; exact Hle).
  f_equal. f_equal. f_equal. apply firstn_all2. unfold blen in Hle. lia.
Qed.

Theorem unrepresentable_fails m w : msg_enc_ok m = false -> enc_to m w = Some (false, None) /\ enc_msg m = Err.
Proof. intros H. unfold enc_to, enc_msg. rewrite H. auto. Qed.

(* what "representable" means *)
Theorem enc_ok_len a : enc_ok a = true -> a_len a < 16777216.
Proof. destruct a. cbn [enc_ok a_len]. intros H. apply andb_true_iff in H. destruct H as [H _]. apply N.ltb_lt. exact H. Qed.

Theorem enc_ok_time c vd m p len pad t :
  enc_ok (MkAvp c vd m p len pad (VLeaf (LTime t))) = true -> (-2208988800 <= t <= 2085978495)%Z.
Proof.
  cbn [enc_ok val_enc_ok leaf_enc_ok]. intros H. apply andb_true_iff in H. destruct H as [_ H].
  unfold time_ok, rfc868_offset in H. apply andb_true_iff in H. destruct H as [H1 H2]. lia.
Qed.

Theorem enc_ok_members c vd m p len pad ms :
  enc_ok (MkAvp c vd m p len pad (VGrp ms)) = true -> Forall (fun x => enc_ok x = true) ms.
Proof.
  cbn [enc_ok val_enc_ok]. intros H. apply andb_true_iff in H. destruct H as [_ H].
  apply Forall_forall. intros x Hx. rewrite forallb_forall in H. auto.
Qed.

Theorem msg_enc_ok_spec m :
  msg_enc_ok m = true <-> m_len m < 16777216 /\ Forall (fun x => enc_ok x = true) (m_avps m).
Proof.
  unfold msg_enc_ok. rewrite andb_true_iff, N.ltb_lt, forallb_forall, Forall_forall. tauto.
Qed.

Theorem time_ok_range t : time_ok t = true <-> (-2208988800 <= t <= 2085978495)%Z.
Proof. unfold time_ok, rfc868_offset. rewrite andb_true_iff. lia. Qed.

(* non-vacuity: a writer with caps and interruptions, budget 21, against a 28-octet message *)
Example c05_nonvacuous :
  let m := msg_add (msg_new 272 4 128 1 2) (mk_avp 1 None false false (VLeaf (LU32 7))) in
  let w := MkW 21 [Some 1; None; Some 3; None; None; Some 100] in
  caps_pos w /\ enc_to m w = Some (false, Some (firstn 21 (enc_msg_raw m))) /\ blen (enc_msg_raw m) = 32.
Proof. cbv zeta. split; [repeat constructor; discriminate|]. split; vm_compute; reflexivity. Qed.
